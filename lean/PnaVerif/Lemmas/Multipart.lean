import PnaVerif.Lemmas.ArchiveRt
import PnaVerif.Lemmas.Split
/-!
  Reading a multipart sequence (`readMultipartWith`) against reading one archive that holds the
  concatenation of the part bodies.

  * `groupItems_append_proj`   grouping a concatenation = grouping the first half, then continuing with
                               its open item (carry buffer) and its flag
  * `parseItems_append`        parsing stops at the first failure, so it distributes over `++` via `seqOut`
  * `readArchiveWith_partFile` what reading ONE part file (with a carry buffer) returns
  * `multipart_cons`, `multipart_append`   the sequence reader, part by part
  * `chunksStream_cut`, `readArchiveWith_cut`   a part file cut anywhere
  * `body_chunk_origin`        every chunk `writeSplit` puts in a body has the type of a chunk of the entries
-/
namespace Pna
open ChunkType

/-- no ANXT and no AEND chunk -/
def NoPartMarkers (cs : List Chunk) : Prop := ∀ c ∈ cs, c.ty ≠ ChunkType.ANXT ∧ c.ty ≠ ChunkType.AEND

theorem NoPartMarkers.append {a b : List Chunk} (ha : NoPartMarkers a) (hb : NoPartMarkers b) :
    NoPartMarkers (a ++ b) := by
  intro c hc
  rcases List.mem_append.mp hc with h | h
  · exact ha c h
  · exact hb c h

theorem NoPartMarkers.left {a b : List Chunk} (h : NoPartMarkers (a ++ b)) : NoPartMarkers a :=
  fun c hc => h c (List.mem_append_left _ hc)

theorem NoPartMarkers.right {a b : List Chunk} (h : NoPartMarkers (a ++ b)) : NoPartMarkers b :=
  fun c hc => h c (List.mem_append_right _ hc)

theorem NoPartMarkers.flatten {bs : List (List Chunk)} (h : ∀ b ∈ bs, NoPartMarkers b) :
    NoPartMarkers bs.flatten := by
  intro c hc
  obtain ⟨b, hb, hcb⟩ := List.mem_flatten.mp hc
  exact h b hb c hcb

theorem ChunksFit.left {a b : List Chunk} (h : ChunksFit (a ++ b)) : ChunksFit a :=
  fun c hc => h c (List.mem_append_left _ hc)

theorem ChunksFit.right {a b : List Chunk} (h : ChunksFit (a ++ b)) : ChunksFit b :=
  fun c hc => h c (List.mem_append_right _ hc)

-- ---------------------------------------------------------------- groupItems

theorem groupItems_nil (cur : List Chunk) (nx : Bool) : groupItems cur nx [] = ([], cur, nx, false) := rfl

/-- **Grouping a concatenation** (projection form): the items of the first half, then the items obtained
    by continuing with the first half's open item and flag.  `xs` must not contain AEND (grouping
    stops there). -/
theorem groupItems_append_proj (xs ys : List Chunk) (hx : ∀ c ∈ xs, c.ty ≠ ChunkType.AEND)
    (cur : List Chunk) (nx : Bool) :
    groupItems cur nx (xs ++ ys)
      = ((groupItems cur nx xs).1 ++ (groupItems (groupItems cur nx xs).2.1 (groupItems cur nx xs).2.2.1 ys).1,
          (groupItems (groupItems cur nx xs).2.1 (groupItems cur nx xs).2.2.1 ys).2) := by
  induction xs generalizing cur nx with
  | nil => simp [groupItems_nil]
  | cons c xs ih =>
    have hx' : ∀ c ∈ xs, c.ty ≠ ChunkType.AEND := fun d hd => hx d (List.mem_cons_of_mem _ hd)
    have hc : c.ty ≠ ChunkType.AEND := hx c List.mem_cons_self
    rw [List.cons_append]
    by_cases h1 : c.ty = FEND ∨ c.ty = SEND
    · rw [groupItems_close _ _ _ _ h1, groupItems_close _ _ _ _ h1, ih hx']
      simp
    · by_cases h2 : c.ty = ANXT
      · rw [groupItems, if_neg h1, if_pos h2, ih hx']
        conv => rhs; rw [groupItems, if_neg h1, if_pos h2]
      · rw [groupItems, if_neg h1, if_neg h2, if_neg hc, ih hx']
        conv => rhs; rw [groupItems, if_neg h1, if_neg h2, if_neg hc]

/-- without ANXT the flag is unchanged -/
theorem groupItems_next_eq (xs : List Chunk) (hx : ∀ c ∈ xs, c.ty ≠ ChunkType.ANXT) (cur : List Chunk) (nx : Bool) :
    (groupItems cur nx xs).2.2.1 = nx := by
  induction xs generalizing cur with
  | nil => rfl
  | cons c xs ih =>
    have hx' : ∀ c ∈ xs, c.ty ≠ ChunkType.ANXT := fun d hd => hx d (List.mem_cons_of_mem _ hd)
    have hc : c.ty ≠ ChunkType.ANXT := hx c List.mem_cons_self
    by_cases h1 : c.ty = FEND ∨ c.ty = SEND
    · rw [groupItems_close _ _ _ _ h1]
      exact ih hx' []
    · rw [groupItems, if_neg h1, if_neg hc]
      split
      · rfl
      · exact ih hx' _

/-- without AEND the grouping runs to the end of the list -/
theorem groupItems_ended_eq (xs : List Chunk) (hx : ∀ c ∈ xs, c.ty ≠ ChunkType.AEND) (cur : List Chunk) (nx : Bool) :
    (groupItems cur nx xs).2.2.2 = false := by
  induction xs generalizing cur nx with
  | nil => rfl
  | cons c xs ih =>
    have hx' : ∀ c ∈ xs, c.ty ≠ ChunkType.AEND := fun d hd => hx d (List.mem_cons_of_mem _ hd)
    have hc : c.ty ≠ ChunkType.AEND := hx c List.mem_cons_self
    by_cases h1 : c.ty = FEND ∨ c.ty = SEND
    · rw [groupItems_close _ _ _ _ h1]
      exact ih hx' [] nx
    · rw [groupItems, if_neg h1, if_neg hc]
      split
      · exact ih hx' _ _
      · exact ih hx' _ _

/-- the tail of a part file: optional ANXT, then AEND -/
theorem groupItems_tail (cur : List Chunk) (nx : Bool) (rest : List Chunk) :
    groupItems cur false ((if nx then [⟨ChunkType.ANXT, []⟩] else []) ++ ⟨ChunkType.AEND, []⟩ :: rest)
      = ([], cur, nx, true) := by
  cases nx with
  | true =>
    simp only [if_true, List.cons_append, List.nil_append]
    rw [groupItems, if_neg (by decide), if_pos rfl, groupItems, if_neg (by decide), if_neg (by decide), if_pos rfl]
  | false =>
    simp only [Bool.false_eq_true, if_false, List.nil_append]
    rw [groupItems, if_neg (by decide), if_neg (by decide), if_pos rfl]

-- ---------------------------------------------------------------- parseItems

/-- `match o with | .ok _ => .ok () | o => o` is the identity on `Outcome Unit` -/
theorem outcome_unit_norm (o : Outcome Unit) : (match o with | .ok _ => Outcome.ok () | o => o) = o := by
  cases o <;> rfl

/-- sequencing two "entries so far, how it ended" results: the second one counts only if the first ended well -/
def seqOut (p q : List ReadEntry × Outcome Unit) : List ReadEntry × Outcome Unit :=
  match p.2 with
  | .ok _ => (p.1 ++ q.1, q.2)
  | o => (p.1, o)

theorem seqOut_ok (es : List ReadEntry) (u : Unit) (q : List ReadEntry × Outcome Unit) :
    seqOut (es, .ok u) q = (es ++ q.1, q.2) := rfl

theorem seqOut_nil_right (p : List ReadEntry × Outcome Unit) : seqOut p ([], .ok ()) = p := by
  obtain ⟨es, o⟩ := p
  cases o <;> simp [seqOut]

theorem seqOut_assoc (p q r : List ReadEntry × Outcome Unit) : seqOut (seqOut p q) r = seqOut p (seqOut q r) := by
  obtain ⟨es, o⟩ := p
  obtain ⟨es2, o2⟩ := q
  cases o <;> cases o2 <;> simp [seqOut]

theorem seqOut_fst_prefix (p q : List ReadEntry × Outcome Unit) : p.1 <+: (seqOut p q).1 := by
  obtain ⟨es, o⟩ := p
  cases o <;> simp [seqOut]

theorem parseItems_cons (it : List Chunk) (its : List (List Chunk)) :
    parseItems (it :: its) = seqOut (parseItems [it]) (parseItems its) := by
  simp only [parseItems]
  cases parseEntry it <;> simp [seqOut]

theorem parseItems_append (a b : List (List Chunk)) :
    parseItems (a ++ b) = seqOut (parseItems a) (parseItems b) := by
  induction a with
  | nil => simp [parseItems, seqOut]
  | cons it a ih =>
    rw [List.cons_append, parseItems_cons, ih, ← seqOut_assoc, ← parseItems_cons]

theorem parseItems_prefix (a b : List (List Chunk)) : (parseItems a).1 <+: (parseItems (a ++ b)).1 := by
  rw [parseItems_append]
  exact seqOut_fst_prefix _ _

/-- what a complete reader reports for a chunk sequence that continues an open item `cur` -/
def parseGrouped (cur : List Chunk) (cs : List Chunk) : List ReadEntry × Outcome Unit :=
  parseItems (groupItems cur false cs).1

/-- the open item left after `cs` -/
def carryAfter (cur : List Chunk) (cs : List Chunk) : List Chunk := (groupItems cur false cs).2.1

theorem parseGrouped_append (cur xs ys : List Chunk) (hx : NoPartMarkers xs) :
    parseGrouped cur (xs ++ ys) = seqOut (parseGrouped cur xs) (parseGrouped (carryAfter cur xs) ys) := by
  unfold parseGrouped carryAfter
  rw [groupItems_append_proj xs ys (fun c hc => (hx c hc).2), parseItems_append,
    groupItems_next_eq xs (fun c hc => (hx c hc).1)]

theorem carryAfter_append (cur xs ys : List Chunk) (hx : NoPartMarkers xs) :
    carryAfter cur (xs ++ ys) = carryAfter (carryAfter cur xs) ys := by
  unfold carryAfter
  rw [groupItems_append_proj xs ys (fun c hc => (hx c hc).2),
    groupItems_next_eq xs (fun c hc => (hx c hc).1)]

theorem parseGrouped_nil (cur : List Chunk) : parseGrouped cur [] = ([], .ok ()) := rfl
theorem carryAfter_nil (cur : List Chunk) : carryAfter cur [] = cur := rfl

-- ---------------------------------------------------------------- one part file

theorem encodePartFile_eq (i n : Nat) (body : List Chunk) :
    encodePartFile i n body = signature ++ encodeChunks ([⟨ChunkType.AHED, encAHED ⟨0, 0, i⟩⟩] ++ body ++
      (if i + 1 < n then [⟨ChunkType.ANXT, []⟩] else [])) ++ (Chunk.mk ChunkType.AEND []).encode ++ [] := by
  unfold encodePartFile encodeChunks
  split <;> simp [List.flatMap_append, List.append_assoc]

/-- the chunks of part `i` of `n` before AEND -/
def partChunks (i n : Nat) (body : List Chunk) : List Chunk :=
  [⟨ChunkType.AHED, encAHED ⟨0, 0, i⟩⟩] ++ body ++ (if i + 1 < n then [⟨ChunkType.ANXT, []⟩] else [])

theorem partChunks_fit (i n : Nat) (body : List Chunk) (hfit : ChunksFit body) : ChunksFit (partChunks i n body) := by
  intro c hc
  simp only [partChunks, List.mem_append, List.mem_singleton] at hc
  rcases hc with (rfl | hc) | hc
  · show (encAHED ⟨0, 0, i⟩).length < 2 ^ 32
    rw [encAHED_length]; decide
  · exact hfit c hc
  · split at hc
    · simp only [List.mem_singleton] at hc; subst hc; decide
    · simp at hc

theorem partChunks_noAEND (i n : Nat) (body : List Chunk) (hno : NoPartMarkers body) :
    ∀ c ∈ partChunks i n body, c.ty ≠ ChunkType.AEND := by
  intro c hc
  simp only [partChunks, List.mem_append, List.mem_singleton] at hc
  rcases hc with (rfl | hc) | hc
  · show ChunkType.AHED ≠ ChunkType.AEND
    decide
  · exact (hno c hc).2
  · split at hc
    · simp only [List.mem_singleton] at hc; subst hc; decide
    · simp at hc

theorem chunksStream_partFile (i n : Nat) (body : List Chunk) (hfit : ChunksFit body) (hno : NoPartMarkers body) :
    chunksStream (encodePartFile i n body) = (partChunks i n body ++ [⟨ChunkType.AEND, []⟩], .ok ()) := by
  rw [encodePartFile_eq]
  exact chunksStream_encode _ _ (partChunks_fit i n body hfit) (partChunks_noAEND i n body hno)

theorem groupItems_partTail (i n : Nat) (body : List Chunk) (hno : NoPartMarkers body) (carry : List Chunk) :
    groupItems carry false (body ++ ((if i + 1 < n then [⟨ChunkType.ANXT, []⟩] else []) ++ [⟨ChunkType.AEND, []⟩]))
      = ((groupItems carry false body).1, (groupItems carry false body).2.1, decide (i + 1 < n), true) := by
  have e : (if i + 1 < n then [(⟨ChunkType.ANXT, []⟩ : Chunk)] else [])
      = (if decide (i + 1 < n) = true then [⟨ChunkType.ANXT, []⟩] else []) := by simp
  rw [groupItems_append_proj body _ (fun c hc => (hno c hc).2), groupItems_next_eq body (fun c hc => (hno c hc).1),
    e, groupItems_tail]
  simp

/-- **One part file**, read with a carry buffer: header number `i`, the items closed inside this body
    (the first one completed from the carry buffer), the still open item as new carry, and the ANXT flag. -/
theorem readArchiveWith_partFile (i n : Nat) (hi : i < 2 ^ 32) (body : List Chunk) (hfit : ChunksFit body)
    (hno : NoPartMarkers body) (carry : List Chunk) :
    readArchiveWith chunksStream carry (encodePartFile i n body)
      = { header := some ⟨0, 0, i⟩, rawItems := (groupItems carry false body).1,
          entries := (parseGrouped carry body).1, status := (parseGrouped carry body).2,
          carry := carryAfter carry body, next := decide (i + 1 < n) } := by
  unfold readArchiveWith
  rw [chunksStream_partFile i n body hfit hno]
  simp only [partChunks, List.cons_append, List.nil_append, List.append_assoc]
  rw [if_neg (by simp), decAHED_encAHED ⟨0, 0, i⟩ (show (0 : Nat) < 256 by decide) (show (0 : Nat) < 256 by decide) hi]
  simp only
  rw [groupItems_partTail i n body hno carry]
  simp only [parseGrouped, carryAfter]
  generalize parseItems (groupItems carry false body).1 = p
  obtain ⟨es, o⟩ := p
  cases o <;> rfl

theorem readNextWith_partFile (i n : Nat) (hi : i < 2 ^ 32) (body : List Chunk) (hfit : ChunksFit body)
    (hno : NoPartMarkers body) (carry : List Chunk) (pn : Nat) (hpn : pn + 1 = i) :
    readNextWith chunksStream pn carry (encodePartFile i n body)
      = readArchiveWith chunksStream carry (encodePartFile i n body) := by
  unfold readNextWith
  rw [readArchiveWith_partFile i n hi body hfit hno carry]
  simp [hpn]

/-- a part with the wrong number is rejected (`read_next_archive`'s check) -/
theorem readNextWith_partFile_wrong (i n : Nat) (hi : i < 2 ^ 32) (body : List Chunk) (hfit : ChunksFit body)
    (hno : NoPartMarkers body) (carry : List Chunk) (pn : Nat) (hpn : pn + 1 ≠ i) :
    readNextWith chunksStream pn carry (encodePartFile i n body)
      = { header := some ⟨0, 0, i⟩, status := .error .invalidData } := by
  unfold readNextWith
  rw [readArchiveWith_partFile i n hi body hfit hno carry]
  simp [hpn]

-- ---------------------------------------------------------------- the sequence reader

theorem readMultipartWith_nil (chunks : Bytes → List Chunk × Outcome Unit) (first : Bool) (pn : Nat) (carry : List Chunk) :
    readMultipartWith chunks first pn carry [] = ([], .ok ()) := by
  rw [readMultipartWith]

/-- reading a sequence that starts with a well-formed part file: the part's entries, then — only if all its
    items parsed — the rest of the sequence, continued with the part's open item. -/
theorem multipart_cons (i n : Nat) (hi : i < 2 ^ 32) (body : List Chunk) (hfit : ChunksFit body)
    (hno : NoPartMarkers body) (first : Bool) (pn : Nat) (hpn : first = true ∨ pn + 1 = i)
    (carry : List Chunk) (ps : List Bytes) :
    readMultipartWith chunksStream first pn carry (encodePartFile i n body :: ps)
      = seqOut (parseGrouped carry body) (readMultipartWith chunksStream false i (carryAfter carry body) ps) := by
  have hr : (if first = true then readArchiveWith chunksStream carry (encodePartFile i n body)
        else readNextWith chunksStream pn carry (encodePartFile i n body))
      = { header := some ⟨0, 0, i⟩, rawItems := (groupItems carry false body).1,
          entries := (parseGrouped carry body).1, status := (parseGrouped carry body).2,
          carry := carryAfter carry body, next := decide (i + 1 < n) } := by
    rcases hpn with h | h
    · rw [if_pos h, readArchiveWith_partFile i n hi body hfit hno carry]
    · split
      · rw [readArchiveWith_partFile i n hi body hfit hno carry]
      · rw [readNextWith_partFile i n hi body hfit hno carry pn h,
          readArchiveWith_partFile i n hi body hfit hno carry]
  rw [readMultipartWith]
  simp only [hr]
  rcases hp : parseGrouped carry body with ⟨es, o⟩
  cases o with
  | ok u =>
    simp only [seqOut]
    cases ps with
    | nil => simp [readMultipartWith_nil]
    | cons p ps => simp
  | error e => simp [seqOut]
  | panic s => simp [seqOut]

/-- part files number `k`, `k+1`, … of an `n`-part sequence -/
def partsFrom (k n : Nat) (bs : List (List Chunk)) : List Bytes :=
  (bs.zipIdx k).map fun (b, i) => encodePartFile i n b

theorem partsFrom_nil (k n : Nat) : partsFrom k n [] = [] := rfl

theorem partsFrom_cons (k n : Nat) (b : List Chunk) (bs : List (List Chunk)) :
    partsFrom k n (b :: bs) = encodePartFile k n b :: partsFrom (k + 1) n bs := by
  simp [partsFrom, List.zipIdx_cons]

theorem encodeParts_eq (bodies : List (List Chunk)) : encodeParts bodies = partsFrom 0 bodies.length bodies := rfl

theorem partsFrom_length (k n : Nat) (bs : List (List Chunk)) : (partsFrom k n bs).length = bs.length := by
  simp [partsFrom]

theorem partsFrom_append (k n : Nat) (as bs : List (List Chunk)) :
    partsFrom k n (as ++ bs) = partsFrom k n as ++ partsFrom (k + as.length) n bs := by
  induction as generalizing k with
  | nil => simp [partsFrom_nil]
  | cons a as ih =>
    rw [List.cons_append, partsFrom_cons, partsFrom_cons, ih, List.length_cons, List.cons_append]
    congr 3
    omega

theorem partsFrom_take (k n p : Nat) (bs : List (List Chunk)) :
    (partsFrom k n bs).take p = partsFrom k n (bs.take p) := by
  induction bs generalizing k p with
  | nil => simp [partsFrom_nil]
  | cons b bs ih =>
    cases p with
    | zero => simp [partsFrom_nil]
    | succ p => rw [partsFrom_cons, List.take_succ_cons, List.take_succ_cons, partsFrom_cons, ih]

theorem partsFrom_getElem (k n : Nat) (bs : List (List Chunk)) (p : Nat) (hp : p < bs.length) :
    (partsFrom k n bs)[p]'(by rw [partsFrom_length]; exact hp) = encodePartFile (k + p) n bs[p] := by
  simp [partsFrom]

/-- **The sequence reader, part by part**: after well-formed part files `k … k+|bs|-1` the reader has returned
    the entries closed inside `bs.flatten` (continuing `carry`) and — if they all parsed — goes on with what
    follows (`ps`, whose reading `R` may depend on the open item only). -/
theorem multipart_append (n : Nat) (ps : List Bytes) (R : List Chunk → List ReadEntry × Outcome Unit) :
    ∀ (bs : List (List Chunk)) (k : Nat), k + bs.length ≤ 2 ^ 32 → (∀ b ∈ bs, ChunksFit b) →
      (∀ b ∈ bs, NoPartMarkers b) →
      (∀ first pn c, (first = true ∨ pn + 1 = k + bs.length) → readMultipartWith chunksStream first pn c ps = R c) →
      ∀ (first : Bool) (pn : Nat) (carry : List Chunk), (first = true ∨ pn + 1 = k) →
        readMultipartWith chunksStream first pn carry (partsFrom k n bs ++ ps)
          = seqOut (parseGrouped carry bs.flatten) (R (carryAfter carry bs.flatten)) := by
  intro bs
  induction bs with
  | nil =>
    intro k _ _ _ hR first pn carry hpn
    rw [partsFrom_nil, List.nil_append, List.flatten_nil, parseGrouped_nil, carryAfter_nil, seqOut_ok,
      List.nil_append, hR first pn carry (by simpa using hpn)]
  | cons b bs ih =>
    intro k hk hfit hno hR first pn carry hpn
    have hb1 := hfit b List.mem_cons_self
    have hb2 := hno b List.mem_cons_self
    rw [List.length_cons] at hk
    rw [partsFrom_cons, List.cons_append, multipart_cons k n (by omega) b hb1 hb2 first pn hpn,
      ih (k + 1) (by omega) (fun x hx => hfit x (List.mem_cons_of_mem _ hx))
        (fun x hx => hno x (List.mem_cons_of_mem _ hx))
        (fun f p c h => hR f p c (h.imp id (fun h => by rw [List.length_cons]; omega))) false k _ (Or.inr rfl),
      List.flatten_cons, parseGrouped_append _ _ _ hb2, carryAfter_append _ _ _ hb2, seqOut_assoc]

/-- complete sequence of well-formed parts, from any starting point -/
theorem multipart_parts (n : Nat) (bs : List (List Chunk)) (k : Nat) (hk : k + bs.length ≤ 2 ^ 32)
    (hfit : ∀ b ∈ bs, ChunksFit b) (hno : ∀ b ∈ bs, NoPartMarkers b)
    (first : Bool) (pn : Nat) (carry : List Chunk) (hpn : first = true ∨ pn + 1 = k) :
    readMultipartWith chunksStream first pn carry (partsFrom k n bs) = parseGrouped carry bs.flatten := by
  have := multipart_append n [] (fun _ => ([], .ok ())) bs k hk hfit hno
    (fun f p c _ => readMultipartWith_nil _ f p c) first pn carry hpn
  rw [List.append_nil, seqOut_nil_right] at this
  exact this

-- ---------------------------------------------------------------- a part file cut anywhere

/-- the chunk inside which (or exactly before which) byte offset `k` falls -/
theorem chunk_at_offset (all : List Chunk) (k : Nat) (hk : k < (encodeChunks all).length) :
    ∃ pre c post, all = pre ++ c :: post ∧ (encodeChunks pre).length ≤ k ∧
      k < (encodeChunks pre).length + c.encode.length := by
  induction all generalizing k with
  | nil => simp [encodeChunks_nil] at hk
  | cons d all ih =>
    rw [encodeChunks_cons, List.length_append] at hk
    by_cases h : k < d.encode.length
    · exact ⟨[], d, all, rfl, by simp [encodeChunks_nil], by simpa [encodeChunks_nil] using h⟩
    · obtain ⟨pre, c, post, e, h1, h2⟩ := ih (k - d.encode.length) (by omega)
      refine ⟨d :: pre, c, post, by rw [e]; rfl, ?_, ?_⟩
      · rw [encodeChunks_cons, List.length_append]; omega
      · rw [encodeChunks_cons, List.length_append]; omega

/-- **Interrupted write at chunk level**, with the cut chunk allowed to be AEND itself. -/
theorem chunksStream_cut (pre : List Chunk) (c : Chunk) (post : List Chunk) (hfit : ChunksFit pre)
    (hc : c.data.length < 2 ^ 32) (hno : ∀ c ∈ pre, c.ty ≠ ChunkType.AEND) (k : Nat)
    (hk1 : (signature ++ encodeChunks pre).length ≤ k)
    (hk2 : k < (signature ++ encodeChunks pre).length + c.encode.length) :
    chunksStream ((signature ++ encodeChunks (pre ++ c :: post)).take k) = (pre, .error .eof) := by
  have e : signature ++ encodeChunks (pre ++ c :: post)
      = (signature ++ encodeChunks pre) ++ (c.encode ++ encodeChunks post) := by
    rw [encodeChunks_append, encodeChunks_cons]
    simp [List.append_assoc]
  rw [e, List.take_append, List.take_of_length_le hk1, List.append_assoc]
  unfold chunksStream
  rw [readSigStream_sig]
  simp only
  apply chunkIter_prefix_eof pre c _ _ hfit hno hc
  · omega
  · have := encodeChunks_length_ge pre
    simp only [List.length_append]
    omega

theorem encodePartFile_eq2 (i n : Nat) (body : List Chunk) :
    encodePartFile i n body = signature ++ encodeChunks (partChunks i n body ++ [⟨ChunkType.AEND, []⟩]) := by
  rw [encodePartFile_eq]
  show signature ++ encodeChunks (partChunks i n body) ++ _ ++ [] = _
  rw [encodeChunks_append, encodeChunks_singleton]
  simp [List.append_assoc]

/-- a part file cut anywhere tokenises into a prefix of its chunks (AEND never among them) and then
    `UnexpectedEof` -/
theorem chunksStream_partFile_cut (i n : Nat) (body : List Chunk) (hfit : ChunksFit body) (hno : NoPartMarkers body)
    (k : Nat) (hk : k < (encodePartFile i n body).length) :
    ∃ toks, toks <+: partChunks i n body ∧
      chunksStream ((encodePartFile i n body).take k) = (toks, .error .eof) := by
  by_cases h8 : k < 8
  · refine ⟨[], List.nil_prefix, ?_⟩
    rw [encodePartFile_eq2]
    exact chunksStream_prefix_sig _ k h8
  · rw [encodePartFile_eq2] at hk ⊢
    have hsig : signature.length = 8 := rfl
    rw [List.length_append, hsig] at hk
    obtain ⟨pre, c, post, e, h1, h2⟩ := chunk_at_offset (partChunks i n body ++ [⟨ChunkType.AEND, []⟩]) (k - 8) (by omega)
    have hpf := partChunks_fit i n body hfit
    have hpn := partChunks_noAEND i n body hno
    -- `pre` is a prefix of the chunks before AEND, `c` is one of the part's chunks or AEND
    have hpre : pre <+: partChunks i n body := by
      rcases List.append_eq_append_iff.mp e with ⟨a, ha, hb⟩ | ⟨a, ha, _⟩
      · cases a with
        | nil => rw [ha, List.append_nil]; exact List.prefix_refl _
        | cons x a =>
          have := congrArg List.length hb
          simp at this
      · exact ⟨a, ha.symm⟩
    have hcfit : c.data.length < 2 ^ 32 := by
      have hmem : c ∈ partChunks i n body ++ [⟨ChunkType.AEND, []⟩] := by rw [e]; simp
      rcases List.mem_append.mp hmem with h | h
      · exact hpf c h
      · simp only [List.mem_singleton] at h; subst h; decide
    refine ⟨pre, hpre, ?_⟩
    rw [e]
    obtain ⟨a, ha⟩ := hpre
    apply chunksStream_cut pre c post
    · intro d hd; exact hpf d (by rw [← ha]; exact List.mem_append_left _ hd)
    · exact hcfit
    · intro d hd; exact hpn d (by rw [← ha]; exact List.mem_append_left _ hd)
    · rw [List.length_append, hsig]; omega
    · rw [List.length_append, hsig]; omega

/-- what a reader reports when the stream breaks off: the entries so far, then the first parse error,
    or else `UnexpectedEof` — never success -/
def cutOut (p : List ReadEntry × Outcome Unit) : List ReadEntry × Outcome Unit :=
  (p.1, match p.2 with | .ok _ => .error .eof | o => o)

theorem cutOut_not_ok (p : List ReadEntry × Outcome Unit) (u : Unit) : (cutOut p).2 ≠ .ok u := by
  obtain ⟨es, o⟩ := p
  cases o <;> simp [cutOut]

theorem cutOut_eof (es : List ReadEntry) (u : Unit) : cutOut (es, .ok u) = (es, .error .eof) := rfl

theorem seqOut_cutOut_not_ok (p q : List ReadEntry × Outcome Unit) (u : Unit) : (seqOut p (cutOut q)).2 ≠ .ok u := by
  obtain ⟨es, o⟩ := p
  cases o with
  | ok v => exact cutOut_not_ok q u
  | error e => simp [seqOut]
  | panic s => simp [seqOut]

theorem groupItems_concat_ANXT (xs : List Chunk) (hx : NoPartMarkers xs) (cur : List Chunk) (nx : Bool) :
    (groupItems cur nx (xs ++ [⟨ChunkType.ANXT, []⟩])).1 = (groupItems cur nx xs).1 := by
  rw [groupItems_append_proj xs _ (fun c hc => (hx c hc).2)]
  simp only
  rw [groupItems, if_neg (by decide), if_pos rfl, groupItems_nil, List.append_nil]

/-- the tokens of a cut part file: nothing, or AHED followed by chunks that group like a prefix of the body -/
theorem partChunks_prefix_cases (i n : Nat) (body : List Chunk) (hno : NoPartMarkers body) (toks : List Chunk)
    (h : toks <+: partChunks i n body) :
    toks = [] ∨ ∃ rest, toks = ⟨ChunkType.AHED, encAHED ⟨0, 0, i⟩⟩ :: rest ∧
      ∃ pre, pre <+: body ∧ ∀ cur nx, (groupItems cur nx rest).1 = (groupItems cur nx pre).1 := by
  have e : partChunks i n body = ⟨ChunkType.AHED, encAHED ⟨0, 0, i⟩⟩ ::
      (body ++ (if i + 1 < n then [⟨ChunkType.ANXT, []⟩] else [])) := by
    simp [partChunks]
  rw [e] at h
  rcases List.prefix_cons_iff.mp h with h0 | ⟨rest, hr, hp⟩
  · exact Or.inl h0
  · refine Or.inr ⟨rest, hr, ?_⟩
    split at hp
    · rcases List.prefix_concat_iff.mp hp with h1 | h1
      · exact ⟨body, List.prefix_refl _, fun cur nx => by rw [h1, groupItems_concat_ANXT body hno]⟩
      · exact ⟨rest, h1, fun _ _ => rfl⟩
    · rw [List.append_nil] at hp
      exact ⟨rest, hp, fun _ _ => rfl⟩

/-- **A part file cut anywhere**, read with any carry buffer: the entries closed inside some prefix `pre` of
    the body (the same `pre` for every carry buffer), and a status that is the first parse error or else
    `UnexpectedEof`. -/
theorem readArchiveWith_partFile_cut (i n : Nat) (hi : i < 2 ^ 32) (body : List Chunk) (hfit : ChunksFit body)
    (hno : NoPartMarkers body) (k : Nat) (hk : k < (encodePartFile i n body).length) :
    ∃ pre, pre <+: body ∧ ∀ carry,
      ((readArchiveWith chunksStream carry ((encodePartFile i n body).take k)).entries,
        (readArchiveWith chunksStream carry ((encodePartFile i n body).take k)).status)
          = cutOut (parseGrouped carry pre) ∧
      ((readArchiveWith chunksStream carry ((encodePartFile i n body).take k)).header = none ∨
        (readArchiveWith chunksStream carry ((encodePartFile i n body).take k)).header = some ⟨0, 0, i⟩) := by
  obtain ⟨toks, hp, ht⟩ := chunksStream_partFile_cut i n body hfit hno k hk
  rcases partChunks_prefix_cases i n body hno toks hp with h0 | ⟨rest, hr, pre, hpre, hg⟩
  · refine ⟨[], List.nil_prefix, fun carry => ?_⟩
    unfold readArchiveWith
    rw [ht, h0]
    exact ⟨rfl, Or.inl rfl⟩
  · refine ⟨pre, hpre, fun carry => ?_⟩
    unfold readArchiveWith
    rw [ht, hr]
    simp only
    rw [if_neg (by simp), decAHED_encAHED ⟨0, 0, i⟩ (show (0 : Nat) < 256 by decide) (show (0 : Nat) < 256 by decide) hi]
    simp only
    refine ⟨?_, Or.inr trivial⟩
    rw [hg carry false]
    simp only [parseGrouped, cutOut]
    generalize parseItems (groupItems carry false pre).1 = p
    obtain ⟨es, o⟩ := p
    cases o <;> rfl

/-- the sequence reader on a single cut part file (as first part, or as the part that is due) -/
theorem multipart_cut_single (i n : Nat) (hi : i < 2 ^ 32) (body : List Chunk) (hfit : ChunksFit body)
    (hno : NoPartMarkers body) (k : Nat) (hk : k < (encodePartFile i n body).length) :
    ∃ pre, pre <+: body ∧ ∀ (first : Bool) (pn : Nat) (carry : List Chunk), (first = true ∨ pn + 1 = i) →
      readMultipartWith chunksStream first pn carry [(encodePartFile i n body).take k]
        = cutOut (parseGrouped carry pre) := by
  obtain ⟨pre, hpre, H⟩ := readArchiveWith_partFile_cut i n hi body hfit hno k hk
  refine ⟨pre, hpre, fun first pn carry hpn => ?_⟩
  obtain ⟨hes, hh⟩ := H carry
  have hr : (if first = true then readArchiveWith chunksStream carry ((encodePartFile i n body).take k)
        else readNextWith chunksStream pn carry ((encodePartFile i n body).take k))
      = readArchiveWith chunksStream carry ((encodePartFile i n body).take k) := by
    rcases hpn with h | h
    · rw [if_pos h]
    · split
      · rfl
      · unfold readNextWith
        rcases hh with h0 | h0
        · simp only [h0]
        · simp only [h0, h, ne_eq, not_true_eq_false, if_false]
  rw [readMultipartWith]
  simp only [hr]
  generalize readArchiveWith chunksStream carry ((encodePartFile i n body).take k) = RA at hes
  have h1 : RA.entries = (cutOut (parseGrouped carry pre)).1 := congrArg Prod.fst hes
  have h2 : RA.status = (cutOut (parseGrouped carry pre)).2 := congrArg Prod.snd hes
  cases hs : RA.status with
  | ok u => exact absurd (h2.symm.trans hs) (cutOut_not_ok _ u)
  | error e => simp only; rw [← hes, hs]
  | panic s => simp only; rw [← hes, hs]

-- ---------------------------------------------------------------- where the chunks of a split body come from

/-- `c` is a chunk of `src`, or a piece of one: same type, payload no longer -/
def ChunkFrom (src : List Chunk) (c : Chunk) : Prop := ∃ d ∈ src, c.ty = d.ty ∧ c.data.length ≤ d.data.length

theorem ChunkFrom.of_mem {src : List Chunk} {c : Chunk} (h : c ∈ src) : ChunkFrom src c :=
  ⟨c, h, rfl, Nat.le_refl _⟩

theorem ChunkFrom.mono {src src2 : List Chunk} {c : Chunk} (h : ChunkFrom src c) (hs : ∀ d ∈ src, d ∈ src2) :
    ChunkFrom src2 c := by
  obtain ⟨d, hd, h1, h2⟩ := h
  exact ⟨d, hs d hd, h1, h2⟩

theorem ChunkFrom.trans {src mid : List Chunk} {c : Chunk} (h : ChunkFrom mid c) (hm : ∀ d ∈ mid, ChunkFrom src d) :
    ChunkFrom src c := by
  obtain ⟨d, hd, h1, h2⟩ := h
  obtain ⟨e, he, h3, h4⟩ := hm d hd
  exact ⟨e, he, h1.trans h3, Nat.le_trans h2 h4⟩

theorem splitGo_origin (max : Nat) (cs : List Chunk) : ∀ (total : Nat) (first : List Chunk),
    (∀ c ∈ (splitGo max total first cs).1, c ∈ first ∨ ChunkFrom cs c) ∧
    (∀ c ∈ (splitGo max total first cs).2, ChunkFrom cs c) := by
  induction cs with
  | nil =>
    intro total first
    exact ⟨fun c hc => Or.inl hc, fun c hc => by simp [splitGo] at hc⟩
  | cons c rest ih =>
    intro total first
    by_cases h1 : max < total + c.bytesLen
    · by_cases h2 : c.isStream ∧ total + Chunk.minBytes < max
      · have hs : splitGo max total first (c :: rest) =
            (first ++ [⟨c.ty, c.data.take (max - total - Chunk.minBytes)⟩],
              ⟨c.ty, c.data.drop (max - total - Chunk.minBytes)⟩ :: rest) := by
          simp only [splitGo, h1, h2, and_self, if_true]
        rw [hs]
        constructor
        · intro x hx
          simp only [List.mem_append, List.mem_singleton] at hx
          rcases hx with hx | rfl
          · exact Or.inl hx
          · exact Or.inr ⟨c, List.mem_cons_self, rfl, by simp [List.length_take]; omega⟩
        · intro x hx
          simp only [List.mem_cons] at hx
          rcases hx with rfl | hx
          · exact ⟨c, List.mem_cons_self, rfl, by simp [List.length_drop]⟩
          · exact ChunkFrom.of_mem (List.mem_cons_of_mem _ hx)
      · have hs : splitGo max total first (c :: rest) = (first, c :: rest) := by
          simp only [splitGo, h1, h2, if_true, if_false]
        rw [hs]
        exact ⟨fun x hx => Or.inl hx, fun x hx => ChunkFrom.of_mem hx⟩
    · have hs : splitGo max total first (c :: rest) =
          splitGo max (total + c.bytesLen) (first ++ [c]) rest := by
        simp only [splitGo, h1, if_false]
      rw [hs]
      obtain ⟨e1, e2⟩ := ih (total + c.bytesLen) (first ++ [c])
      constructor
      · intro x hx
        rcases e1 x hx with h | h
        · simp only [List.mem_append, List.mem_singleton] at h
          rcases h with h | rfl
          · exact Or.inl h
          · exact Or.inr (ChunkFrom.of_mem List.mem_cons_self)
        · exact Or.inr (h.mono fun d hd => List.mem_cons_of_mem _ hd)
      · intro x hx
        exact (e2 x hx).mono fun d hd => List.mem_cons_of_mem _ hd

theorem splitPart_origin (cs : List Chunk) (max : Nat) :
    (∀ c ∈ (splitPart cs max).1, ChunkFrom cs c) ∧ (∀ rem, (splitPart cs max).2 = some rem → ∀ c ∈ rem, ChunkFrom cs c) := by
  by_cases hle : partLen cs ≤ max
  · rw [splitPart_of_le hle]
    exact ⟨fun c hc => ChunkFrom.of_mem hc, fun rem h => by simp at h⟩
  · rw [splitPart_of_gt (by omega)]
    obtain ⟨e1, e2⟩ := splitGo_origin max cs 0 []
    refine ⟨fun c hc => ?_, fun rem h c hc => ?_⟩
    · rcases e1 c hc with h | h
      · simp at h
      · exact h
    · simp only [Option.some.injEq] at h
      subst h
      exact e2 c hc

theorem splitRest_origin (max : Nat) : ∀ (fuel : Nat) (cs : List Chunk) (ps : List (List Chunk)),
    splitRest max fuel cs = .ok ps → ∀ c ∈ ps.flatten, ChunkFrom cs c := by
  intro fuel
  induction fuel with
  | zero => intro cs ps h; simp [splitRest] at h
  | succ fuel ih =>
    intro cs ps h
    rw [splitRest_succ] at h
    have ho := splitPart_origin cs max
    rcases hsp : splitPart cs max with ⟨w, _ | rem⟩
    · rw [hsp] at h ho
      simp only [Outcome.ok.injEq] at h
      subst h
      intro c hc
      simp only [List.flatten_cons, List.flatten_nil, List.append_nil] at hc
      exact ho.1 c hc
    · rw [hsp] at h ho
      simp only at h
      by_cases hw : partLen w = 0
      · simp [hw] at h
      · simp only [hw, if_false] at h
        cases hr : splitRest max fuel rem with
        | ok qs =>
          rw [hr] at h
          simp only [Outcome.ok.injEq] at h
          subst h
          intro c hc
          simp only [List.flatten_cons, List.mem_append] at hc
          rcases hc with hc | hc
          · exact ho.1 c hc
          · exact (ih rem qs hr c hc).trans (ho.2 rem rfl)
        | error e => rw [hr] at h; simp at h
        | panic s => rw [hr] at h; simp at h

theorem splitToParts_origin (cs : List Chunk) (first max : Nat) (parts : List (List Chunk))
    (h : splitToParts cs first max = .ok parts) : ∀ c ∈ parts.flatten, ChunkFrom cs c := by
  rw [splitToParts_eq] at h
  have ho := splitPart_origin cs first
  rcases hsp : splitPart cs first with ⟨w, _ | rem⟩
  · rw [hsp] at h ho
    simp only [Outcome.ok.injEq] at h
    subst h
    intro c hc
    simp only [List.flatten_cons, List.flatten_nil, List.append_nil] at hc
    exact ho.1 c hc
  · rw [hsp] at h ho
    simp only at h
    by_cases hc : max ≤ first ∧ partLen w = 0
    · simp [hc] at h
    · simp only [hc, if_false] at h
      cases hr : splitRest max (partLen rem + 1) rem with
      | ok qs =>
        rw [hr] at h
        simp only [Outcome.ok.injEq] at h
        subst h
        intro c hc
        simp only [List.flatten_cons, List.mem_append] at hc
        rcases hc with hc | hc
        · exact ho.1 c hc
        · exact (splitRest_origin max _ rem qs hr c hc).trans (ho.2 rem rfl)
      | error e => rw [hr] at h; simp at h
      | panic s => rw [hr] at h; simp at h

theorem splitEntries_origin (M : Nat) : ∀ (es : List (List Chunk)) (a a2 : SplitAcc),
    splitEntries M a es = .ok a2 → ∀ c ∈ a2.flat, c ∈ a.flat ∨ ChunkFrom es.flatten c := by
  intro es
  induction es with
  | nil =>
    intro a a2 h
    simp only [splitEntries, Outcome.ok.injEq] at h
    subst h
    exact fun c hc => Or.inl hc
  | cons e es ih =>
    intro a a2 h
    rw [splitEntries_cons] at h
    cases hr : splitToParts e (M - a.written) M with
    | ok parts =>
      rw [hr] at h
      simp only at h
      intro c hc
      rcases ih _ a2 h c hc with h1 | h1
      · rw [placeParts_flat, List.mem_append] at h1
        rcases h1 with h1 | h1
        · exact Or.inl h1
        · exact Or.inr ((splitToParts_origin e _ M parts hr c h1).mono
            fun d hd => by rw [List.flatten_cons]; exact List.mem_append_left _ hd)
      · exact Or.inr (h1.mono fun d hd => by rw [List.flatten_cons]; exact List.mem_append_right _ hd)
    | error err => rw [hr] at h; simp at h
    | panic s => rw [hr] at h; simp at h

/-- **Where the chunks of the part bodies come from**: each is a chunk of the entries or a piece of one
    (same type, payload no longer). -/
theorem body_chunk_origin (entries : List (List Chunk)) (maxFile : Nat) (bodies : List (List Chunk))
    (h : writeSplit entries maxFile = .ok bodies) : ∀ c ∈ bodies.flatten, ChunkFrom entries.flatten c := by
  rw [writeSplit_eq] at h
  by_cases hlt : maxFile < splitOverhead
  · simp [hlt] at h
  · simp only [hlt, if_false] at h
    cases hr : splitEntries (maxFile - splitOverhead) {} entries with
    | ok a =>
      rw [hr] at h
      simp only [Outcome.ok.injEq] at h
      subst h
      intro c hc
      have hc2 : c ∈ a.flat := by simpa [SplitAcc.flat] using hc
      rcases splitEntries_origin _ entries {} a hr c hc2 with h1 | h1
      · simp [SplitAcc.flat] at h1
      · exact h1
    | error e => rw [hr] at h; simp at h
    | panic s => rw [hr] at h; simp at h

theorem writeSplit_ne_nil (entries : List (List Chunk)) (maxFile : Nat) (bodies : List (List Chunk))
    (h : writeSplit entries maxFile = .ok bodies) : bodies ≠ [] := by
  obtain ⟨_, a, _, rfl, _⟩ := writeSplit_ok_spec entries maxFile bodies h
  simp

theorem ItemWF_noPartMarkers {it : List Chunk} (hw : ItemWF it) : NoPartMarkers it := by
  obtain ⟨body, last, rfl, hl, hb⟩ := hw
  intro c hc
  simp only [List.mem_append, List.mem_singleton] at hc
  rcases hc with hc | rfl
  · exact ⟨(hb c hc).2.2.1, (hb c hc).2.2.2⟩
  · rcases hl with hl | hl <;> rw [hl] <;> exact ⟨by decide, by decide⟩

/-- the part bodies of split well-formed items contain no ANXT/AEND and fit the length field -/
theorem writeSplit_bodies_ok (entries : List (List Chunk)) (maxFile : Nat) (bodies : List (List Chunk))
    (h : writeSplit entries maxFile = .ok bodies) (hw : ∀ e ∈ entries, ItemWF e)
    (hfit : ChunksFit entries.flatten) : ChunksFit bodies.flatten ∧ NoPartMarkers bodies.flatten := by
  have ho := body_chunk_origin entries maxFile bodies h
  constructor
  · intro c hc
    obtain ⟨d, hd, _, h2⟩ := ho c hc
    exact Nat.lt_of_le_of_lt h2 (hfit d hd)
  · intro c hc
    obtain ⟨d, hd, h1, _⟩ := ho c hc
    obtain ⟨e, he, hde⟩ := List.mem_flatten.mp hd
    rw [h1]
    exact ItemWF_noPartMarkers (hw e he) d hde

-- ---------------------------------------------------------------- small algebra used by the property file

theorem seqOut_cutOut (p q : List ReadEntry × Outcome Unit) : seqOut p (cutOut q) = cutOut (seqOut p q) := by
  obtain ⟨es, o⟩ := p
  obtain ⟨es2, o2⟩ := q
  cases o <;> cases o2 <;> simp [seqOut, cutOut]

theorem cutOut_fst (p : List ReadEntry × Outcome Unit) : (cutOut p).1 = p.1 := rfl

theorem parseGrouped_prefix (cur xs ys : List Chunk) (hx : NoPartMarkers xs) :
    (parseGrouped cur xs).1 <+: (parseGrouped cur (xs ++ ys)).1 := by
  rw [parseGrouped_append cur xs ys hx]
  exact seqOut_fst_prefix _ _

theorem flatten_take_drop (bs : List (List Chunk)) (p : Nat) :
    bs.flatten = (bs.take p).flatten ++ (bs.drop p).flatten := by
  rw [← List.flatten_append, List.take_append_drop]

/-- variant of `multipart_append` for a non-empty run of parts: what follows is read with `first = false` and
    the number of the last part of the run, so `R` has to describe it in that situation only -/
theorem multipart_append_ne (n : Nat) (ps : List Bytes) (R : List Chunk → List ReadEntry × Outcome Unit) :
    ∀ (bs : List (List Chunk)) (b : List Chunk) (k : Nat), k + (bs.length + 1) ≤ 2 ^ 32 →
      (∀ x ∈ b :: bs, ChunksFit x) → (∀ x ∈ b :: bs, NoPartMarkers x) →
      (∀ c, readMultipartWith chunksStream false (k + bs.length) c ps = R c) →
      ∀ (first : Bool) (pn : Nat) (carry : List Chunk), (first = true ∨ pn + 1 = k) →
        readMultipartWith chunksStream first pn carry (partsFrom k n (b :: bs) ++ ps)
          = seqOut (parseGrouped carry (b :: bs).flatten) (R (carryAfter carry (b :: bs).flatten)) := by
  intro bs
  induction bs with
  | nil =>
    intro b k hk hfit hno hR first pn carry hpn
    have hb1 := hfit b List.mem_cons_self
    have hb2 := hno b List.mem_cons_self
    have hR0 : ∀ c, readMultipartWith chunksStream false k c ps = R c := hR
    rw [partsFrom_cons, partsFrom_nil, List.cons_append, List.nil_append,
      multipart_cons k n (by omega) b hb1 hb2 first pn hpn, hR0]
    simp
  | cons b2 bs ih =>
    intro b k hk hfit hno hR first pn carry hpn
    have hb1 := hfit b List.mem_cons_self
    have hb2 := hno b List.mem_cons_self
    rw [List.length_cons] at hk
    have hR2 : ∀ c, readMultipartWith chunksStream false (k + 1 + bs.length) c ps = R c := by
      intro c
      rw [← hR c, List.length_cons]
      congr 1
      omega
    rw [partsFrom_cons, List.cons_append, multipart_cons k n (by omega) b hb1 hb2 first pn hpn,
      ih b2 (k + 1) (by omega) (fun x hx => hfit x (List.mem_cons_of_mem _ hx))
        (fun x hx => hno x (List.mem_cons_of_mem _ hx)) hR2 false k _ (Or.inr rfl),
      List.flatten_cons (l := b), parseGrouped_append _ _ _ hb2, carryAfter_append _ _ _ hb2, seqOut_assoc]

end Pna
