import PnaVerif.Model.Append
import PnaVerif.Lemmas.ArchiveRt
/-!
  Helpers for `Props/C11Append.lean`: `skip_chunk`, the `seek_to_end` loop over a sequence of
  *frames* (chunk heads followed by a body of the announced size whose content — data and CRC — is
  never looked at), totality, and the overwrite.
-/
namespace Pna.Append
open Pna ChunkType

theorem encodeChunkList_eq (cs : List Chunk) : encodeChunkList cs = encodeChunks cs := rfl

-- ---------------------------------------------------------------- skip_chunk

theorem skipChunk_short (r : Bytes) (h : r.length < 8) : skipChunk r = .error .eof := by
  unfold skipChunk
  simp only [readExact_eq]
  by_cases h1 : r.length < 4
  · simp [h1, bind, Outcome.bind]
  · have h2 : r.length - 4 < 4 := by omega
    simp [h1, h2, bind, Outcome.bind]

theorem skipChunk_app (l : Nat) (ty : ChunkType) (rest : Bytes) :
    skipChunk (be32 l ++ (ty.toBytes ++ rest)) = .ok (ty, 12 + l % 2 ^ 32) := by
  unfold skipChunk
  rw [readExact_app (be32 l) _ 4 (by simp)]
  simp only
  rw [readExact_app ty.toBytes _ 4 (by simp)]
  simp only [ChunkType.ofBytes?_toBytes, fromBe_be32]

/-- `skip_chunk` looks at the first 8 bytes only -/
theorem skipChunk_head (r : Bytes) (l : Nat) (ty : ChunkType) (h : r.take 8 = be32 l ++ ty.toBytes) :
    skipChunk r = .ok (ty, 12 + l % 2 ^ 32) := by
  have e : r = be32 l ++ (ty.toBytes ++ r.drop 8) := by
    rw [← List.append_assoc, ← h, List.take_append_drop]
  rw [e]
  exact skipChunk_app l ty _

theorem skipChunk_ok_inv (r : Bytes) (ty : ChunkType) (n : Nat) (h : skipChunk r = .ok (ty, n)) :
    8 ≤ r.length ∧ 12 ≤ n := by
  by_cases h8 : r.length < 8
  · rw [skipChunk_short r h8] at h; cases h
  · refine ⟨by omega, ?_⟩
    unfold skipChunk at h
    simp only [readExact_eq] at h
    have h1 : ¬ r.length < 4 := by omega
    have h2 : ¬ (r.drop 4).length < 4 := by simp; omega
    simp only [h1, h2, ite_false, Outcome.bind_ok] at h
    split at h
    · cases h
    · simp only [Outcome.ok.injEq, Prod.mk.injEq] at h
      omega

theorem skipChunk_no_panic (r : Bytes) (s : String) : skipChunk r ≠ .panic s := by
  by_cases h8 : r.length < 8
  · rw [skipChunk_short r h8]; intro h; cases h
  · unfold skipChunk
    simp only [readExact_eq]
    have h1 : ¬ r.length < 4 := by omega
    have h2 : ¬ (r.drop 4).length < 4 := by simp; omega
    simp only [h1, h2, ite_false, Outcome.bind_ok]
    have hl : ((r.drop 4).take 4).length = 4 := by simp; omega
    match hb : (r.drop 4).take 4, hl with
    | [a, b, c, d], _ => simp [ChunkType.ofBytes?]

-- ---------------------------------------------------------------- the loop: bounds and totality

/-- when the loop succeeds, the 8-byte head of the chunk it stopped at lies inside the file, at or
    after the starting position -/
theorem seekEndGo_ok_bound (fuel pos : Nat) (nx : Bool) (bs : Bytes) (q : Nat) (f : Bool)
    (h : seekEndGo fuel pos nx bs = .ok (q, f)) : pos ≤ q ∧ q + 8 ≤ bs.length := by
  induction fuel generalizing pos nx with
  | zero => simp [seekEndGo] at h
  | succ fuel ih =>
    unfold seekEndGo at h
    split at h
    · cases h
    · cases h
    · rename_i ty n hs
      have hb := skipChunk_ok_inv _ _ _ hs
      split at h
      · simp only [Outcome.ok.injEq, Prod.mk.injEq] at h
        obtain ⟨rfl, _⟩ := h
        have := hb.1
        simp only [List.length_drop] at this
        omega
      · have := ih _ _ h
        omega

/-- a position closer than 8 bytes to the end (or beyond it) ends in `UnexpectedEof` -/
theorem seekEndGo_short (fuel pos : Nat) (nx : Bool) (bs : Bytes) (h : bs.length < pos + 8) :
    seekEndGo (fuel + 1) pos nx bs = .error .eof := by
  unfold seekEndGo
  rw [skipChunk_short _ (by simp only [List.length_drop]; omega)]

/-- every step advances by at least 12 bytes, so the loop never runs out of fuel -/
theorem seekEndGo_no_panic (fuel pos : Nat) (nx : Bool) (bs : Bytes)
    (hf : bs.length < pos + 8 + 12 * fuel) (s : String) :
    seekEndGo (fuel + 1) pos nx bs ≠ .panic s := by
  induction fuel generalizing pos nx with
  | zero => rw [seekEndGo_short 0 pos nx bs (by omega)]; intro h; cases h
  | succ fuel ih =>
    unfold seekEndGo
    split
    · intro h; cases h
    · rename_i s2 hs; exact absurd hs (skipChunk_no_panic _ _)
    · rename_i ty n hs
      have hb := skipChunk_ok_inv _ _ _ hs
      split
      · intro h; cases h
      · exact ih _ _ (by omega)

-- ---------------------------------------------------------------- single steps

theorem seekEndGo_step (fuel pos : Nat) (nx : Bool) (bs : Bytes) (ty : ChunkType) (n : Nat)
    (hs : skipChunk (bs.drop pos) = .ok (ty, n)) (hty : ty ≠ AEND) :
    seekEndGo (fuel + 1) pos nx bs = seekEndGo fuel (pos + n) (nx || ty == ANXT) bs := by
  rw [seekEndGo, hs]
  simp only
  rw [if_neg hty]

theorem seekEndGo_stop (fuel pos : Nat) (nx : Bool) (bs : Bytes) (n : Nat)
    (hs : skipChunk (bs.drop pos) = .ok (AEND, n)) :
    seekEndGo (fuel + 1) pos nx bs = .ok (pos, nx) := by
  rw [seekEndGo, hs]
  simp only [if_true]

-- ---------------------------------------------------------------- frames

/-- What `seek_to_end` sees of a chunk: its type, and a body (data followed by the 4 CRC bytes)
    of which only the LENGTH matters — the content is sought over. -/
structure Frame where
  ty : ChunkType
  body : Bytes

/-- the body holds at least the CRC, and its data part fits the 32-bit length field -/
def Frame.Valid (f : Frame) : Prop := 4 ≤ f.body.length ∧ f.body.length - 4 < 2 ^ 32

instance (f : Frame) : Decidable f.Valid := by unfold Frame.Valid; exact inferInstance

def Frame.bytes (f : Frame) : Bytes := be32 (f.body.length - 4) ++ (f.ty.toBytes ++ f.body)

def framesBytes (fs : List Frame) : Bytes := fs.flatMap Frame.bytes

def toFrame (c : Chunk) : Frame := ⟨c.ty, c.data ++ be32 c.crc⟩

theorem Frame.bytes_length (f : Frame) : f.bytes.length = 8 + f.body.length := by
  simp [Frame.bytes]; omega

theorem framesBytes_nil : framesBytes [] = [] := rfl

theorem framesBytes_cons (f : Frame) (fs : List Frame) : framesBytes (f :: fs) = f.bytes ++ framesBytes fs := by
  simp [framesBytes]

theorem framesBytes_append (a b : List Frame) : framesBytes (a ++ b) = framesBytes a ++ framesBytes b := by
  simp [framesBytes]

theorem toFrame_bytes (c : Chunk) : (toFrame c).bytes = c.encode := by
  simp [toFrame, Frame.bytes, Chunk.encode, List.append_assoc]

theorem toFrame_valid (c : Chunk) (h : c.data.length < 2 ^ 32) : (toFrame c).Valid := by
  simp only [Frame.Valid, toFrame, List.length_append, be32_length]
  omega

theorem framesBytes_map_toFrame (cs : List Chunk) : framesBytes (cs.map toFrame) = encodeChunks cs := by
  induction cs with
  | nil => rfl
  | cons c cs ih => rw [List.map_cons, framesBytes_cons, encodeChunks_cons, ih, toFrame_bytes]

theorem skipChunk_frame (f : Frame) (hv : f.Valid) (rest : Bytes) :
    skipChunk (f.bytes ++ rest) = .ok (f.ty, f.bytes.length) := by
  unfold Frame.bytes
  rw [List.append_assoc, List.append_assoc, skipChunk_app, Nat.mod_eq_of_lt hv.2]
  have := hv.1
  simp only [List.length_append, be32_length, ChunkType.toBytes_length]
  congr 2
  omega

/-- **walking over frames**: the loop passes over any sequence of valid non-AEND frames, whatever
    their bodies contain, and arrives right behind them with the ANXT flag accumulated. -/
theorem seekEndGo_frames (fs : List Frame) (hv : ∀ f ∈ fs, f.Valid) (hno : ∀ f ∈ fs, f.ty ≠ AEND)
    (pre rest : Bytes) (nx : Bool) (fuel : Nat) :
    seekEndGo (fs.length + fuel) pre.length nx (pre ++ (framesBytes fs ++ rest))
      = seekEndGo fuel (pre.length + (framesBytes fs).length) (nx || fs.any (·.ty == ANXT))
          (pre ++ (framesBytes fs ++ rest)) := by
  induction fs generalizing pre nx with
  | nil => simp [framesBytes_nil]
  | cons f fs ih =>
    have e1 : (f :: fs).length + fuel = (fs.length + fuel) + 1 := by simp; omega
    have hs : skipChunk ((pre ++ (framesBytes (f :: fs) ++ rest)).drop pre.length)
        = .ok (f.ty, f.bytes.length) := by
      rw [List.drop_left, framesBytes_cons, List.append_assoc]
      exact skipChunk_frame f (hv f (by simp)) _
    rw [e1, seekEndGo_step _ _ _ _ _ _ hs (hno f (by simp))]
    have e2 : pre ++ (framesBytes (f :: fs) ++ rest) = (pre ++ f.bytes) ++ (framesBytes fs ++ rest) := by
      rw [framesBytes_cons]; simp [List.append_assoc]
    have e3 : pre.length + f.bytes.length = (pre ++ f.bytes).length := by simp
    rw [e2, e3, ih (fun g hg => hv g (by simp [hg])) (fun g hg => hno g (by simp [hg]))]
    congr 1
    · rw [framesBytes_cons]; simp only [List.length_append]; omega
    · simp [Bool.or_assoc]

-- ---------------------------------------------------------------- the end marker, and cuts

/-- after the frames comes an AEND head — any length field, anything (or nothing) behind it: found -/
theorem seekEndGo_frames_aend (fs : List Frame) (hv : ∀ f ∈ fs, f.Valid) (hno : ∀ f ∈ fs, f.ty ≠ AEND)
    (pre tail : Bytes) (l : Nat) (nx : Bool) (fuel : Nat) (hf : fs.length + 1 ≤ fuel) :
    seekEndGo fuel pre.length nx (pre ++ (framesBytes fs ++ (be32 l ++ (AEND.toBytes ++ tail))))
      = .ok (pre.length + (framesBytes fs).length, nx || fs.any (·.ty == ANXT)) := by
  obtain ⟨f2, rfl⟩ : ∃ f2, fuel = fs.length + (f2 + 1) := ⟨fuel - fs.length - 1, by omega⟩
  rw [seekEndGo_frames fs hv hno]
  apply seekEndGo_stop _ _ _ _ (12 + l % 2 ^ 32)
  have e : pre ++ (framesBytes fs ++ (be32 l ++ (AEND.toBytes ++ tail)))
      = (pre ++ framesBytes fs) ++ (be32 l ++ (AEND.toBytes ++ tail)) := by simp [List.append_assoc]
  have e2 : pre.length + (framesBytes fs).length = (pre ++ framesBytes fs).length := by simp
  rw [e, e2, List.drop_left]
  exact skipChunk_app l AEND tail

theorem take_drop_left (pre z : Bytes) (k : Nat) :
    ((pre ++ z).take k).drop pre.length = z.take (k - pre.length) := by
  rw [List.drop_take, List.drop_left]

/-- **cut before the end marker's head is complete**: a prefix that ends anywhere inside the frames,
    or less than 8 bytes behind them, makes the loop fail with `UnexpectedEof` — whatever the
    uncut file continued with.  (Fuel: 12 bytes per unit, as in `seekEndGo_no_panic`.) -/
theorem seekEndGo_take_eof (fs : List Frame) (hv : ∀ f ∈ fs, f.Valid) (hno : ∀ f ∈ fs, f.ty ≠ AEND)
    (pre rest : Bytes) (nx : Bool) (k fuel : Nat) (hk1 : pre.length ≤ k)
    (hk2 : k < pre.length + (framesBytes fs).length + 8) (hf : k < pre.length + 8 + 12 * fuel) :
    seekEndGo (fuel + 1) pre.length nx ((pre ++ (framesBytes fs ++ rest)).take k) = .error .eof := by
  induction fs generalizing pre nx fuel with
  | nil =>
    apply seekEndGo_short
    simp only [framesBytes_nil, List.length_nil] at hk2
    simp only [List.length_take]
    omega
  | cons f fs ih =>
    have hvf := hv f (by simp)
    have hbl := Frame.bytes_length f
    by_cases hsh2 : k < pre.length + 8
    · apply seekEndGo_short
      simp only [List.length_take]; omega
    · obtain ⟨f2, rfl⟩ : ∃ f2, fuel = f2 + 1 := ⟨fuel - 1, by omega⟩
      by_cases hsh : k < pre.length + f.bytes.length + 8
      · -- the cut is inside this frame (or less than 8 bytes behind it)
        have hs : skipChunk (((pre ++ (framesBytes (f :: fs) ++ rest)).take k).drop pre.length)
            = .ok (f.ty, 12 + (f.body.length - 4) % 2 ^ 32) := by
          rw [take_drop_left]
          apply skipChunk_head
          rw [List.take_take, Nat.min_eq_left (by omega), framesBytes_cons, Frame.bytes]
          have e : be32 (f.body.length - 4) ++ (f.ty.toBytes ++ f.body) ++ framesBytes fs ++ rest
              = (be32 (f.body.length - 4) ++ f.ty.toBytes) ++ (f.body ++ (framesBytes fs ++ rest)) := by
            simp [List.append_assoc]
          rw [e]
          exact take_app _ _ (by simp)
        rw [seekEndGo_step _ _ _ _ _ _ hs (hno f (by simp))]
        apply seekEndGo_short
        rw [Nat.mod_eq_of_lt hvf.2]
        have := hvf.1
        simp only [List.length_take]
        omega
      · have hs : skipChunk (((pre ++ (framesBytes (f :: fs) ++ rest)).take k).drop pre.length)
            = .ok (f.ty, f.bytes.length) := by
          rw [take_drop_left, framesBytes_cons]
          have hl : f.bytes.length ≤ k - pre.length := by omega
          have e : (f.bytes ++ framesBytes fs ++ rest).take (k - pre.length)
              = f.bytes ++ (framesBytes fs ++ rest).take (k - pre.length - f.bytes.length) := by
            rw [List.append_assoc, List.take_append, List.take_of_length_le hl]
          rw [e]
          exact skipChunk_frame f hvf _
        rw [seekEndGo_step _ _ _ _ _ _ hs (hno f (by simp))]
        have e2 : pre ++ (framesBytes (f :: fs) ++ rest) = (pre ++ f.bytes) ++ (framesBytes fs ++ rest) := by
          rw [framesBytes_cons]; simp [List.append_assoc]
        have e3 : pre.length + f.bytes.length = (pre ++ f.bytes).length := by simp
        rw [e2, e3]
        have := hvf.1
        apply ih (fun g hg => hv g (by simp [hg])) (fun g hg => hno g (by simp [hg]))
        · simp only [List.length_append]; omega
        · rw [framesBytes_cons] at hk2; simp only [List.length_append] at hk2 ⊢; omega
        · simp only [List.length_append]; omega

-- ---------------------------------------------------------------- the header steps

/-- the AHED chunk the writers emit for part number `n` -/
def ahedChunk (n : Nat) : Chunk := ⟨AHED, encAHED ⟨0, 0, n⟩⟩

theorem ahedChunk_encode_length (n : Nat) : (ahedChunk n).encode.length = 20 := by
  rw [Chunk.encode_length]; simp [ahedChunk, encAHED_length]

theorem sig_length : signature.length = 8 := rfl

/-- a file that starts like a written archive (signature, AHED): the header steps succeed and
    the loop starts at offset 28 -/
theorem seekEnd_of_header (bs : Bytes) (n : Nat) (hn : n < 2 ^ 32)
    (h : bs.take 28 = signature ++ (ahedChunk n).encode) :
    seekEnd bs = seekEndGo (bs.length + 1) 28 false bs := by
  have e : bs = signature ++ ((ahedChunk n).encode ++ bs.drop 28) := by
    rw [← List.append_assoc, ← h, List.take_append_drop]
  have h1 : readSigStream bs = .ok ((ahedChunk n).encode ++ bs.drop 28) := by
    conv => lhs; rw [e]
    exact readSigStream_sig _
  unfold seekEnd
  rw [h1]
  simp only
  rw [decodeStream_encode _ _ (by simp [ahedChunk, encAHED_length])]
  simp only
  rw [if_neg (by simp [ahedChunk])]
  have h2 : decAHED (ahedChunk n).data = .ok ⟨0, 0, n⟩ :=
    decAHED_encAHED ⟨0, 0, n⟩ (show (0 : Nat) < 256 by decide) (show (0 : Nat) < 256 by decide) hn
  rw [h2]
  simp only [Chunk.bytesLen, Chunk.minBytes, ahedChunk, encAHED_length]

/-- `seekEnd` never panics, and in particular never runs out of the fuel it gives itself -/
theorem seekEnd_no_panic (bs : Bytes) (s : String) : seekEnd bs ≠ .panic s := by
  unfold seekEnd
  split
  · intro h; cases h
  · rename_i s2 hs
    exfalso
    unfold readSigStream at hs
    simp only [readExact_eq] at hs
    split at hs
    · cases hs
    · simp only [Outcome.bind_ok] at hs
      split at hs <;> cases hs
  · split
    · intro h; cases h
    · rename_i s2 hs
      have := decodeStream_no_panic ‹Bytes›
      rw [hs] at this
      cases this
    · split
      · intro h; cases h
      · split
        · intro h; cases h
        · rename_i s2 hs
          exfalso
          unfold decAHED at hs
          split at hs <;> cases hs
        · apply seekEndGo_no_panic
          omega

/-- a successful `seekEnd` points at a complete 8-byte chunk head inside the file, behind the
    28 bytes of signature and AHED -/
theorem seekEnd_ok_bound (bs : Bytes) (pos : Nat) (f : Bool) (h : seekEnd bs = .ok (pos, f)) :
    28 ≤ pos ∧ pos + 8 ≤ bs.length := by
  unfold seekEnd at h
  split at h
  · cases h
  · cases h
  · split at h
    · cases h
    · cases h
    · split at h
      · cases h
      · split at h
        · cases h
        · cases h
        · rename_i c0 _ _ _ _ _ hd
          have := seekEndGo_ok_bound _ _ _ _ _ _ h
          have hl : c0.data.length = 8 := by
            unfold decAHED at hd
            split at hd
            · rename_i heq; rw [heq]; rfl
            · cases hd
          simp only [Chunk.bytesLen, Chunk.minBytes] at this
          omega

-- ---------------------------------------------------------------- the overwrite

theorem overwriteAt_take (bs : Bytes) (pos : Nat) (w : Bytes) (h : pos ≤ bs.length) :
    (overwriteAt bs pos w).take pos = bs.take pos := by
  unfold overwriteAt
  rw [if_pos h, List.append_assoc]
  exact take_app _ _ (by simp; omega)

theorem overwriteAt_length (bs : Bytes) (pos : Nat) (w : Bytes) :
    (overwriteAt bs pos w).length = max bs.length (pos + w.length) := by
  unfold overwriteAt
  split <;> simp <;> omega

/-- overwriting a tail that is not longer than what is written replaces it -/
theorem overwriteAt_tail (a b w : Bytes) (h : b.length ≤ w.length) :
    overwriteAt (a ++ b) a.length w = a ++ w := by
  unfold overwriteAt
  rw [if_pos (by simp), take_app a b rfl, List.drop_of_length_le (by simp; omega), List.append_nil]

-- ---------------------------------------------------------------- files that start like a written archive

theorem framesBytes_length_ge (fs : List Frame) : fs.length ≤ (framesBytes fs).length := by
  induction fs with
  | nil => simp
  | cons f fs ih =>
    rw [framesBytes_cons, List.length_append, Frame.bytes_length, List.length_cons]
    omega

theorem header_length (n : Nat) : (signature ++ (ahedChunk n).encode).length = 28 := by
  rw [List.length_append, ahedChunk_encode_length, sig_length]

/-- **`seek_to_end` at frame level**: signature, AHED, any valid non-AEND frames (bodies — data
    and CRC bytes — arbitrary), then an AEND head with ANY length field followed by ANYTHING,
    possibly nothing: the AEND head is found. -/
theorem seekEnd_frames_aend (n : Nat) (hn : n < 2 ^ 32) (fs : List Frame) (hv : ∀ f ∈ fs, f.Valid)
    (hno : ∀ f ∈ fs, f.ty ≠ AEND) (l : Nat) (tail : Bytes) :
    seekEnd ((signature ++ (ahedChunk n).encode) ++ (framesBytes fs ++ (be32 l ++ (AEND.toBytes ++ tail))))
      = .ok (28 + (framesBytes fs).length, fs.any (·.ty == ANXT)) := by
  rw [seekEnd_of_header _ n hn (take_app _ _ (header_length n))]
  have := seekEndGo_frames_aend fs hv hno (signature ++ (ahedChunk n).encode) tail l false
    (((signature ++ (ahedChunk n).encode) ++ (framesBytes fs ++ (be32 l ++ (AEND.toBytes ++ tail)))).length + 1)
    (by have := framesBytes_length_ge fs; simp only [List.length_append]; omega)
  rw [header_length] at this
  rw [this, Bool.false_or]

/-- **truncation at frame level**: every prefix that stops before the 8-byte head of the end marker
    is complete is refused with `UnexpectedEof`. -/
theorem seekEnd_frames_take_eof (n : Nat) (hn : n < 2 ^ 32) (fs : List Frame) (hv : ∀ f ∈ fs, f.Valid)
    (hno : ∀ f ∈ fs, f.ty ≠ AEND) (rest : Bytes) (k : Nat) (hk : k < 28 + (framesBytes fs).length + 8) :
    seekEnd (((signature ++ (ahedChunk n).encode) ++ (framesBytes fs ++ rest)).take k) = .error .eof := by
  by_cases h8 : k < 8
  · unfold seekEnd readSigStream
    rw [readExact_take_short _ k 8 h8]
    rfl
  · by_cases h28 : k < 28
    · have e : ((signature ++ (ahedChunk n).encode) ++ (framesBytes fs ++ rest)).take k
          = signature ++ ((ahedChunk n).encode ++ (framesBytes fs ++ rest)).take (k - 8) := by
        rw [List.append_assoc, List.take_append, List.take_of_length_le (by rw [sig_length]; omega), sig_length]
      unfold seekEnd
      rw [e, readSigStream_sig]
      simp only
      rw [decodeStream_prefix_eof _ _ _ (by simp [ahedChunk, encAHED_length])
        (by rw [ahedChunk_encode_length]; omega)]
    · have ht : (((signature ++ (ahedChunk n).encode) ++ (framesBytes fs ++ rest)).take k).take 28
          = signature ++ (ahedChunk n).encode := by
        rw [List.take_take, Nat.min_eq_left (by omega)]
        exact take_app _ _ (header_length n)
      rw [seekEnd_of_header _ n hn ht]
      have := seekEndGo_take_eof fs hv hno (signature ++ (ahedChunk n).encode) rest false k
        (((signature ++ (ahedChunk n).encode) ++ (framesBytes fs ++ rest)).take k).length
        (by rw [header_length]; omega) (by rw [header_length]; exact hk)
        (by
          rw [header_length]
          simp only [List.length_take, List.length_append, ahedChunk_encode_length, sig_length]
          omega)
      rw [header_length] at this
      exact this

-- ---------------------------------------------------------------- written archives

def aendChunk : Chunk := ⟨AEND, []⟩

/-- the chunks between AHED and AEND -/
def archBody (items : List (List Chunk)) (next : Bool) : List Chunk :=
  items.flatten ++ (if next then [⟨ANXT, []⟩] else [])

theorem encodeArchive_split (n : Nat) (items : List (List Chunk)) (next : Bool) :
    encodeArchive n items next
      = (signature ++ (ahedChunk n).encode) ++ (encodeChunks (archBody items next) ++ aendChunk.encode) := by
  unfold encodeArchive archBody ahedChunk aendChunk
  simp only [encodeChunks_append, encodeChunks_singleton, List.append_assoc]

theorem aendChunk_encode : aendChunk.encode = be32 0 ++ (AEND.toBytes ++ be32 aendChunk.crc) := by
  simp [Chunk.encode, aendChunk]

theorem aendChunk_encode_length : aendChunk.encode.length = 12 := by
  rw [Chunk.encode_length]; rfl

theorem encodeArchive_length (n : Nat) (items : List (List Chunk)) (next : Bool) :
    (encodeArchive n items next).length = 28 + (encodeChunks (archBody items next)).length + 12 := by
  rw [encodeArchive_split, List.length_append, header_length, List.length_append, aendChunk_encode_length]
  omega

theorem archBody_fit (items : List (List Chunk)) (next : Bool) (hfit : ChunksFit items.flatten) :
    ChunksFit (archBody items next) := by
  intro c hc
  simp only [archBody, List.mem_append] at hc
  rcases hc with hc | hc
  · exact hfit c hc
  · cases next <;> simp at hc
    rw [hc]; simp

theorem ItemWF_no_ANXT {it : List Chunk} (hw : ItemWF it) : ∀ c ∈ it, c.ty ≠ ANXT := by
  obtain ⟨body, last, rfl, hl, hb⟩ := hw
  intro c hc
  simp only [List.mem_append, List.mem_singleton] at hc
  rcases hc with hc | rfl
  · exact (hb c hc).2.2.1
  · rcases hl with hl | hl <;> rw [hl] <;> decide

theorem archBody_noAEND (items : List (List Chunk)) (next : Bool) (hw : ∀ it ∈ items, ItemWF it) :
    ∀ c ∈ archBody items next, c.ty ≠ AEND := by
  intro c hc
  simp only [archBody, List.mem_append] at hc
  rcases hc with hc | hc
  · obtain ⟨it, hit, hcit⟩ := List.mem_flatten.mp hc
    exact ItemWF_no_AEND (hw it hit) c hcit
  · cases next <;> simp at hc
    rw [hc]; decide

theorem archBody_anxt (items : List (List Chunk)) (next : Bool) (hw : ∀ it ∈ items, ItemWF it) :
    (archBody items next).any (·.ty == ANXT) = next := by
  have h1 : items.flatten.any (·.ty == ANXT) = false := by
    rw [List.any_eq_false]
    intro c hc
    obtain ⟨it, hit, hcit⟩ := List.mem_flatten.mp hc
    simpa using ItemWF_no_ANXT (hw it hit) c hcit
  unfold archBody
  rw [List.any_append, h1]
  cases next <;> simp

/-- the frames of a chunk list: validity, types -/
theorem toFrames_valid (cs : List Chunk) (hfit : ChunksFit cs) : ∀ f ∈ cs.map toFrame, f.Valid := by
  intro f hf
  obtain ⟨c, hc, rfl⟩ := List.mem_map.mp hf
  exact toFrame_valid c (hfit c hc)

theorem toFrames_noAEND (cs : List Chunk) (hno : ∀ c ∈ cs, c.ty ≠ AEND) :
    ∀ f ∈ cs.map toFrame, f.ty ≠ AEND := by
  intro f hf
  obtain ⟨c, hc, rfl⟩ := List.mem_map.mp hf
  exact hno c hc

theorem toFrames_anxt (cs : List Chunk) :
    (cs.map toFrame).any (·.ty == ANXT) = cs.any (·.ty == ANXT) := by
  rw [List.any_map]; rfl

-- ---------------------------------------------------------------- cuts inside the end marker

/-- a written archive without its last `j ≤ 12` bytes: everything before AEND, and a cut AEND -/
theorem encodeArchive_trunc (n : Nat) (items : List (List Chunk)) (next : Bool) (j : Nat) (hj : j ≤ 12) :
    (encodeArchive n items next).take ((encodeArchive n items next).length - j)
      = ((signature ++ (ahedChunk n).encode) ++ encodeChunks (archBody items next))
          ++ aendChunk.encode.take (12 - j) := by
  rw [encodeArchive_length, encodeArchive_split, ← List.append_assoc, List.take_append]
  have hl : ((signature ++ (ahedChunk n).encode) ++ encodeChunks (archBody items next)).length
      = 28 + (encodeChunks (archBody items next)).length := by
    simp only [List.length_append, ahedChunk_encode_length, sig_length]
  rw [List.take_of_length_le (by rw [hl]; omega), hl]
  congr 2
  omega

/-- cut inside the CRC of AEND: the 8-byte head is whole -/
theorem aendChunk_take (j : Nat) (hj : j ≤ 4) :
    aendChunk.encode.take (12 - j) = be32 0 ++ (AEND.toBytes ++ (be32 aendChunk.crc).take (4 - j)) := by
  rw [aendChunk_encode, ← List.append_assoc, List.take_append,
    List.take_of_length_le (by simp; omega)]
  simp only [List.length_append, be32_length, ChunkType.toBytes_length, List.append_assoc]
  congr 3
  omega

theorem aendChunk_take_length (j : Nat) : (aendChunk.encode.take (12 - j)).length ≤ 12 := by
  rw [List.length_take]; omega

-- ---------------------------------------------------------------- one altered byte

theorem set_app_right {α} (a b : List α) (i : Nat) (v : α) : (a ++ b).set (a.length + i) v = a ++ b.set i v := by
  simp

theorem set_app_left {α} (a b : List α) (i : Nat) (v : α) (h : i < a.length) :
    (a ++ b).set i v = a.set i v ++ b := by
  simp [h]

/-- altering a data or CRC byte of an encoded chunk (index ≥ 8) gives a frame of the same type
    and body length -/
theorem encode_set (c : Chunk) (j : Nat) (v : UInt8) (h8 : 8 ≤ j) :
    c.encode.set j v = (Frame.mk c.ty ((toFrame c).body.set (j - 8) v)).bytes := by
  have e : c.encode = (be32 c.data.length ++ c.ty.toBytes) ++ (c.data ++ be32 c.crc) := by
    simp [Chunk.encode, List.append_assoc]
  have ej : j = (be32 c.data.length ++ c.ty.toBytes).length + (j - 8) := by simp; omega
  rw [e]
  conv => lhs; rw [ej]
  rw [set_app_right]
  simp [Frame.bytes, toFrame, List.append_assoc]

theorem encode_set_valid (c : Chunk) (j : Nat) (v : UInt8) (h : c.data.length < 2 ^ 32) :
    (Frame.mk c.ty ((toFrame c).body.set j v)).Valid := by
  simp only [Frame.Valid, toFrame, List.length_set, List.length_append, be32_length]
  omega

theorem encode_set_length (c : Chunk) (j : Nat) (v : UInt8) :
    (Frame.mk c.ty ((toFrame c).body.set j v)).bytes.length = c.encode.length := by
  rw [Frame.bytes_length, Chunk.encode_length]
  simp only [toFrame, List.length_set, List.length_append, be32_length]
  omega

end Pna.Append
