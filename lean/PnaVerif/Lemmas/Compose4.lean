import PnaVerif.Lemmas.Compose3
/-!
# C02 composition (4): the invariant of the extraction loop over the entries `create` archives
-/
namespace Pna.Compose
open Pna Pna.Fs Pna.Cli Pna.Confined

theorem nodeIs_isSome {fs : Fs} {p : Path} {k : Nat} {c : Bytes} (h : nodeIs fs p k c) : (fs.lookup p).isSome := by
  unfold nodeIs at h
  split at h
  · obtain ⟨ino, hl, _⟩ := h; rw [hl]; rfl
  · rw [h]; rfl
  · rw [h]; rfl
  · exact h.elim

theorem nodeIs_ext {fs fs' : Fs} {O p : Path} {k : Nat} {c : Bytes} (hs : Sane fs O) (he : Ext fs fs')
    (h : nodeIs fs p k c) : nodeIs fs' p k c := by
  have hk := he.keep p (by
    have := nodeIs_isSome h
    intro e; rw [e] at this; cases this)
  unfold nodeIs at h ⊢
  split at h
  · obtain ⟨ino, hl, hc⟩ := h
    refine ⟨ino, by rw [hk]; exact hl, ?_⟩
    rw [he.cont ino (hs.fresh (p, .file ino) (lookup_mem (lookup_file_ne_nil hl) hl) ino rfl)]
    exact hc
  · rw [hk]; exact h
  · rw [hk]; exact h
  · exact h.elim

/-- a directory node is a directory -/
theorem nodeIs_dir {fs : Fs} {p : Path} {c : Bytes} (h : nodeIs fs p 1 c) : fs.lookup p = some .dir := h

/-- the invariant: `A` are the source nodes whose entries have been extracted so far -/
structure Inv (O : Path) (F : Nat) (fs : Fs) (A : List TNode) : Prop where
  sane : Sane fs O
  fuel : F ≤ fuelFor fs
  pres : ∀ n ∈ A, nodeIs fs (O ++ pcs n) n.kind n.content
  only : ∀ w, w ≠ [] → fs.lookup (O ++ w) ≠ none → ∃ n ∈ A, w <+: pcs n
  uniq : ∀ w w' i, fs.lookup (O ++ w) = some (.file i) → fs.lookup (O ++ w') = some (.file i) → w = w'

theorem emptyOut_none {fs : Fs} {O : Path} (h : EmptyOut fs O) (hO : O ≠ []) (w : List Bytes) (hw : w ≠ []) :
    fs.lookup (O ++ w) = none := by
  cases hl : fs.lookup (O ++ w) with
  | none => rfl
  | some x =>
    have hm := lookup_mem (by simp [hO]) hl
    exact absurd (h.2 _ hm (below_inside O w)) (below_ne O w hw)

theorem inv_init {fs : Fs} {O : Path} (h : EmptyOut fs O) (hO : O ≠ []) : Inv O (fuelFor fs) fs [] := by
  refine ⟨h.1, Nat.le_refl _, fun n hn => (by cases hn), fun w hw hl => ?_, fun w w' i h1 h2 => ?_⟩
  · exact absurd (emptyOut_none h hO w hw) hl
  · have e1 : w = [] := by
      by_cases e : w = []
      · exact e
      · rw [emptyOut_none h hO w e] at h1; cases h1
    have e2 : w' = [] := by
      by_cases e : w' = []
      · exact e
      · rw [emptyOut_none h hO w' e] at h2; cases h2
    rw [e1, e2]

/-- the destination of the next node of a well-formed tree is fresh -/
theorem fresh_of_inv {t pre post : List TNode} {n : TNode} {O : Path} {F : Nat} {fs : Fs} {A : List TNode}
    (hT : TreeOK t) (he : t = pre ++ n :: post) (hA : ∀ m ∈ A, m ∈ pre) (hinv : Inv O F fs A) :
    Fresh fs O (pcs n) := by
  have hn : n ∈ t := by rw [he]; simp
  have hpre : ∀ m ∈ pre, m ∈ t := fun m hm => by rw [he]; simp [hm]
  obtain ⟨hnopath, _⟩ := hT.split he
  have hne : pcs n ≠ [] := splitSlash_ne_nil _
  constructor
  · intro q hq
    cases hl : fs.lookup (O ++ q) with
    | none => exact Or.inl rfl
    | some x =>
      right
      obtain ⟨m, hmA, hqm⟩ := hinv.only q hq.1 (by rw [hl]; simp)
      have hmt := hpre m (hA m hmA)
      have hpm := hinv.pres m hmA
      by_cases e : q = pcs m
      · obtain ⟨m', hm't, hk, hp⟩ := hT.anc_dir hn hq
        have : m' = m := hT.pcs_inj hm't hmt (by rw [hp, e])
        subst this
        rw [hk] at hpm
        rw [← hl, e]; exact hpm
      · have := anc_dir hinv.sane.closed (nodeIs_isSome hpm) ((List.prefix_append_right_inj O).2 hqm)
          (fun e' => e (List.append_cancel_left e'))
        rw [← hl]; exact this
  · cases hl : fs.lookup (O ++ pcs n) with
    | none => rfl
    | some x =>
      exfalso
      obtain ⟨m, hmA, hqm⟩ := hinv.only (pcs n) hne (by rw [hl]; simp)
      have hmp := hA m hmA
      by_cases e : pcs n = pcs m
      · exact hnopath m hmp (congrArg TNode.path (hT.pcs_inj (hpre m hmp) hn e.symm))
      · obtain ⟨s, r, hsr⟩ := List.append_of_mem hmp
        have he2 : t = s ++ m :: (r ++ n :: post) := by rw [he, hsr]; simp
        obtain ⟨_, hanc⟩ := hT.split he2
        obtain ⟨m', hm's, _, hp⟩ := hanc (pcs n) ⟨hne, hqm, e⟩
        have hm'pre : m' ∈ pre := by rw [hsr]; simp [hm's]
        exact hnopath m' hm'pre (congrArg TNode.path (hT.pcs_inj (hpre m' hm'pre) hn hp))

/-- extracting the entry of the next node keeps the invariant, and succeeds -/
theorem inv_step {t pre post : List TNode} {n : TNode} {cwd : Path} {outDir d : Bytes} {F : Nat} {fs : Fs}
    {A : List TNode} (ho : OutDir outDir d) (hT : TreeOK t) (he : t = pre ++ n :: post) (hA : ∀ m ∈ A, m ∈ pre)
    (hinv : Inv (cwd ++ [d]) F fs A) (hdepth : (pcs n).length + 2 ≤ F) :
    ∃ fs', extractEntry false cwd outDir fs (toX n) = (fs', none) ∧ Inv (cwd ++ [d]) F fs' (A ++ [n]) := by
  have hn : n ∈ t := by rw [he]; simp
  have hfr := fresh_of_inv hT he hA hinv
  obtain ⟨fs', heq, s', e', hni, hnew⟩ := extractEntry_fresh ho hinv.sane n (hT.clean hn) (hT.kind hn) hfr
    (Nat.le_trans hdepth hinv.fuel)
  have key : ∀ w i, fs'.lookup (cwd ++ [d] ++ w) = some (.file i) →
      fs.lookup (cwd ++ [d] ++ w) = some (.file i) ∨ (w = pcs n ∧ fs.nextIno ≤ i) := by
    intro w i hw
    rcases e'.files _ i hw with h | h
    · exact Or.inl h
    · cases hl : fs.lookup (cwd ++ [d] ++ w) with
      | some x =>
        left
        have := e'.keep _ (by rw [hl]; simp)
        rw [hl, hw] at this; exact this.symm
      | none =>
        right
        obtain ⟨q, _, hq2, hq3⟩ := (hnew _ (by rw [hw]; simp)).resolve_left (by rw [hl]; simp)
        have := List.append_cancel_left hq3; subst this
        refine ⟨?_, h⟩
        apply Classical.byContradiction
        intro hne
        have := anc_dir s'.closed (nodeIs_isSome hni) ((List.prefix_append_right_inj _).2 hq2)
          (fun e => hne (List.append_cancel_left e))
        rw [this] at hw; cases hw
  refine ⟨fs', heq, s', ?_, ?_, ?_, ?_⟩
  · have := e'.len; have := hinv.fuel; unfold fuelFor at *; omega
  · intro m hm
    rcases List.mem_append.1 hm with h | h
    · exact nodeIs_ext hinv.sane e' (hinv.pres m h)
    · simp at h; subst h; exact hni
  · intro w hw hl
    rcases hnew _ hl with h | ⟨q, _, hq, hq3⟩
    · obtain ⟨m, hm, hwm⟩ := hinv.only w hw h
      exact ⟨m, List.mem_append_left _ hm, hwm⟩
    · have := List.append_cancel_left hq3; subst this
      exact ⟨n, by simp, hq⟩
  · intro w w' i h1 h2
    have old_lt : ∀ w, fs.lookup (cwd ++ [d] ++ w) = some (.file i) → i < fs.nextIno := fun w h =>
      hinv.sane.fresh (_, .file i) (lookup_mem (lookup_file_ne_nil h) h) i rfl
    rcases key w i h1 with a | ⟨a, a'⟩ <;> rcases key w' i h2 with b | ⟨b, b'⟩
    · exact hinv.uniq w w' i a b
    · exact absurd (old_lt w a) (by omega)
    · exact absurd (old_lt w' b) (by omega)
    · rw [a, b]

/-- the first phase of `extractAllWith` over the entries of a well-formed tree -/
theorem scan_inv {t : List TNode} {cwd : Path} {outDir d : Bytes} {F : Nat} (o : CXOpts) (ho : OutDir outDir d)
    (hT : TreeOK t) (hD : ∀ n ∈ t, (pcs n).length + 2 ≤ F) :
    ∀ (post pre : List TNode) (fs : Fs), t = pre ++ post → Inv (cwd ++ [d]) F fs (archived o pre) →
    ∃ fs', extractAllWith.scan (extractEntry false cwd outDir) fs none ((archived o post).map toX) = (fs', none) ∧
      Inv (cwd ++ [d]) F fs' (archived o t) := by
  intro post
  induction post with
  | nil =>
    intro pre fs he hinv
    rw [List.append_nil] at he; subst he
    exact ⟨fs, by simp [archived, extractAllWith.scan], hinv⟩
  | cons n post ih =>
    intro pre fs he hinv
    have he1 : t = (pre ++ [n]) ++ post := by rw [he]; simp
    by_cases hk : (o.keepDir || n.kind != 1) = true
    · have ha : archived o (n :: post) = n :: archived o post :=
        List.filter_cons_of_pos (p := fun n : TNode => o.keepDir || n.kind != 1) hk
      have hpre : archived o (pre ++ [n]) = archived o pre ++ [n] := by
        unfold archived
        rw [List.filter_append, List.filter_cons_of_pos (p := fun n : TNode => o.keepDir || n.kind != 1) hk, List.filter_nil]
      obtain ⟨fs1, h1, inv1⟩ := inv_step ho hT he (fun m hm => (List.mem_filter.1 hm).1) hinv
        (hD n (by rw [he]; simp))
      obtain ⟨fs', h2, inv2⟩ := ih (pre ++ [n]) fs1 he1 (by rw [hpre]; exact inv1)
      refine ⟨fs', ?_, inv2⟩
      rw [ha, List.map_cons]
      unfold extractAllWith.scan
      simp only [h1]
      exact h2
    · have ha : archived o (n :: post) = archived o post :=
        List.filter_cons_of_neg (p := fun n : TNode => o.keepDir || n.kind != 1) hk
      have hpre : archived o (pre ++ [n]) = archived o pre := by
        unfold archived
        rw [List.filter_append, List.filter_cons_of_neg (p := fun n : TNode => o.keepDir || n.kind != 1) hk, List.filter_nil,
          List.append_nil]
      rw [ha]
      exact ih (pre ++ [n]) fs he1 (by rw [hpre]; exact hinv)

/-- **the loop**: extraction of everything `create` archives succeeds and establishes the invariant
    for all archived nodes -/
theorem extractAll_compose {fs : Fs} {cwd : Path} {outDir d : Bytes} {t : List TNode} (o : CXOpts)
    (ho : OutDir outDir d) (hE : EmptyOut fs (cwd ++ [d])) (hT : TreeOK t) (hD : DepthOK fs t) :
    ∃ fs', extractAll false cwd outDir fs (entriesOf o t) = (fs', none) ∧
      Inv (cwd ++ [d]) (fuelFor fs) fs' (archived o t) := by
  obtain ⟨fs', hscan, hinv⟩ := scan_inv (cwd := cwd) o ho hT hD t [] fs rfl (inv_init hE (by simp))
  refine ⟨fs', ?_, hinv⟩
  have hkind : ∀ e ∈ (archived o t).map toX, e.kind ≤ 2 := by
    intro e he
    obtain ⟨m, hm, rfl⟩ := List.mem_map.1 he
    exact hT.kind (List.mem_filter.1 hm).1
  have hf1 : ((archived o t).map toX).filter (·.kind ≠ 3) = (archived o t).map toX := by
    apply List.filter_eq_self.2
    intro e he
    have := hkind e he
    simp only [decide_eq_true_eq]; omega
  have hf2 : ((archived o t).map toX).filter (·.kind = 3) = [] := by
    apply List.filter_eq_nil_iff.2
    intro e he
    have := hkind e he
    simp only [decide_eq_true_eq]; omega
  unfold extractAll extractAllWith entriesOf
  rw [hf1, hf2, hscan]
  rfl

end Pna.Compose
