import PnaVerif.Model.Archive
import PnaVerif.Lemmas.Chunk
import PnaVerif.Lemmas.Codec
import PnaVerif.Lemmas.Reser
/-!
  Archive-level round trip (lib/src/archive/read.rs against the writer's chunk order).

  * `chunksStream_encode`     the chunk iterator returns exactly the written chunks, up to and including AEND
  * `chunksStream_prefix`, `chunksStream_prefix_sig`   interrupted write: a proper prefix yields the complete
                              chunks before the cut and then `UnexpectedEof`, never success
  * `groupItems_items`        grouping the concatenation of complete items gives the items back
  * `serN_ItemWF`, `serS_ItemWF`   serialised entries are complete items (needs `NoMarkers` on `extra`, see below)
  * `readArchive_encode`      archive round trip at entry level
  * `raw_copy_exact`          raw copy is byte-exact

  `NormalEntry.WF` / `SolidEntry.WF` do NOT exclude structural markers among the uninterpreted `extra` chunks
  (`interpretedN SEND = interpretedN ANXT = interpretedN AEND = false`; the solid `WF` allows FEND/ANXT/AEND).
  An entry whose `extra` contains such a chunk serialises to something that is not one item (e.g. a normal
  entry with `extra = [⟨SEND, []⟩]` is read back as two items, the second failing to parse), so the
  entry-level theorems carry the additional hypothesis `NoMarkers` on the `extra` chunks.
-/
namespace Pna
open ChunkType

def encodeChunks (cs : List Chunk) : Bytes := cs.flatMap Chunk.encode

/-- every chunk fits the 32-bit length field -/
def ChunksFit (cs : List Chunk) : Prop := ∀ c ∈ cs, c.data.length < 2 ^ 32

/-- bytes of a (part of an) archive: signature, AHED with part number `n`, the items, optional ANXT, AEND -/
def encodeArchive (n : Nat) (items : List (List Chunk)) (next : Bool) : Bytes :=
  signature ++ encodeChunks ([⟨ChunkType.AHED, encAHED ⟨0, 0, n⟩⟩] ++ items.flatten
    ++ (if next then [⟨ChunkType.ANXT, []⟩] else []) ++ [⟨ChunkType.AEND, []⟩])

/-- a complete item: body chunks none of which is a structural marker, closed by FEND or SEND -/
def ItemWF (it : List Chunk) : Prop :=
  ∃ body last, it = body ++ [last] ∧ (last.ty = ChunkType.FEND ∨ last.ty = ChunkType.SEND) ∧
    ∀ c ∈ body, c.ty ≠ ChunkType.FEND ∧ c.ty ≠ ChunkType.SEND ∧ c.ty ≠ ChunkType.ANXT ∧ c.ty ≠ ChunkType.AEND

/-- **Extra hypothesis** of the entry-level theorems: none of the chunks is a structural marker
    (item terminator FEND/SEND, ANXT, AEND).  Not implied by `NormalEntry.WF` / `SolidEntry.WF` for
    the `extra` chunks. -/
def NoMarkers (cs : List Chunk) : Prop :=
  ∀ c ∈ cs, c.ty ≠ ChunkType.FEND ∧ c.ty ≠ ChunkType.SEND ∧ c.ty ≠ ChunkType.ANXT ∧ c.ty ≠ ChunkType.AEND

-- ---------------------------------------------------------------- encodeChunks

theorem encodeChunks_nil : encodeChunks [] = [] := rfl

theorem encodeChunks_cons (c : Chunk) (cs : List Chunk) :
    encodeChunks (c :: cs) = c.encode ++ encodeChunks cs := by
  simp [encodeChunks]

theorem encodeChunks_append (a b : List Chunk) :
    encodeChunks (a ++ b) = encodeChunks a ++ encodeChunks b := by
  simp [encodeChunks]

theorem encodeChunks_singleton (c : Chunk) : encodeChunks [c] = c.encode := by
  simp [encodeChunks]

theorem encodeChunks_length_ge (cs : List Chunk) : cs.length ≤ (encodeChunks cs).length := by
  induction cs with
  | nil => simp
  | cons c cs ih =>
    rw [encodeChunks_cons, List.length_append, Chunk.encode_length, List.length_cons]
    omega

theorem readSigStream_sig (r : Bytes) : readSigStream (signature ++ r) = .ok r := by
  unfold readSigStream
  rw [readExact_app signature r 8 rfl]
  simp

-- ---------------------------------------------------------------- chunk iterator: complete stream

theorem chunkIter_encode (cs : List Chunk) (junk : Bytes) (hfit : ChunksFit cs)
    (hno : ∀ c ∈ cs, c.ty ≠ ChunkType.AEND) (fuel : Nat) (hf : cs.length + 1 ≤ fuel) :
    chunkIter decodeStream fuel (encodeChunks cs ++ ((Chunk.mk ChunkType.AEND []).encode ++ junk))
      = (cs ++ [⟨ChunkType.AEND, []⟩], .ok ()) := by
  induction cs generalizing fuel with
  | nil =>
    match fuel, hf with
    | f + 1, _ =>
      rw [encodeChunks_nil, List.nil_append, chunkIter,
        decodeStream_encode _ _ (by simp)]
      simp
  | cons c cs ih =>
    match fuel, hf with
    | f + 1, hf =>
      rw [encodeChunks_cons, List.append_assoc, chunkIter,
        decodeStream_encode _ _ (hfit c (by simp))]
      simp only
      rw [if_neg (hno c (by simp)),
        ih (fun c hc => hfit c (by simp [hc])) (fun c hc => hno c (by simp [hc])) f
          (by simp at hf; omega)]
      simp

/-- The chunk iterator returns exactly the chunks that were written, up to and including AEND, whatever follows AEND. -/
theorem chunksStream_encode (cs : List Chunk) (junk : Bytes) (hfit : ChunksFit cs) (hno : ∀ c ∈ cs, c.ty ≠ ChunkType.AEND) :
    chunksStream (signature ++ encodeChunks cs ++ (Chunk.mk ChunkType.AEND []).encode ++ junk)
      = (cs ++ [⟨ChunkType.AEND, []⟩], .ok ()) := by
  have e : signature ++ encodeChunks cs ++ (Chunk.mk ChunkType.AEND []).encode ++ junk
      = signature ++ (encodeChunks cs ++ ((Chunk.mk ChunkType.AEND []).encode ++ junk)) := by
    simp [List.append_assoc]
  rw [e]
  unfold chunksStream
  rw [readSigStream_sig]
  simp only
  apply chunkIter_encode cs junk hfit hno
  have := encodeChunks_length_ge cs
  simp only [List.length_append]
  omega

-- ---------------------------------------------------------------- chunk iterator: interrupted stream

theorem chunkIter_prefix_eof (pre : List Chunk) (c : Chunk) (r : Bytes) (j : Nat) (hfit : ChunksFit pre)
    (hno : ∀ c ∈ pre, c.ty ≠ ChunkType.AEND) (hc : c.data.length < 2 ^ 32) (hj : j < c.encode.length)
    (fuel : Nat) (hf : pre.length + 1 ≤ fuel) :
    chunkIter decodeStream fuel (encodeChunks pre ++ (c.encode ++ r).take j) = (pre, .error .eof) := by
  induction pre generalizing fuel with
  | nil =>
    match fuel, hf with
    | f + 1, _ =>
      rw [encodeChunks_nil, List.nil_append, chunkIter, decodeStream_prefix_eof c r j hc hj]
  | cons d pre ih =>
    match fuel, hf with
    | f + 1, hf =>
      rw [encodeChunks_cons, List.append_assoc, chunkIter,
        decodeStream_encode _ _ (hfit d (by simp))]
      simp only
      rw [if_neg (hno d (by simp)),
        ih (fun c hc => hfit c (by simp [hc])) (fun c hc => hno c (by simp [hc])) f
          (by simp at hf; omega)]

/-- **Interrupted write at chunk level**: for a prefix that ends inside chunk number `i` (or exactly before it), the
    iterator returns the first `i` chunks and then `UnexpectedEof` — never success. -/
theorem chunksStream_prefix (cs : List Chunk) (rest : Bytes) (hfit : ChunksFit cs) (hno : ∀ c ∈ cs, c.ty ≠ ChunkType.AEND)
    (i : Nat) (hi : i < cs.length) (k : Nat)
    (hk1 : (signature ++ encodeChunks (cs.take i)).length ≤ k)
    (hk2 : k < (signature ++ encodeChunks (cs.take (i + 1))).length) :
    chunksStream ((signature ++ encodeChunks cs ++ rest).take k) = (cs.take i, .error .eof) := by
  have hsplit : cs = cs.take i ++ cs[i] :: cs.drop (i + 1) := by
    rw [← List.drop_eq_getElem_cons hi, List.take_append_drop]
  have hmem : cs[i] ∈ cs := List.getElem_mem hi
  have htk : cs.take (i + 1) = cs.take i ++ [cs[i]] := List.take_succ_eq_append_getElem hi
  rw [htk, encodeChunks_append, encodeChunks_singleton] at hk2
  have e : signature ++ encodeChunks cs ++ rest
      = (signature ++ encodeChunks (cs.take i))
          ++ (cs[i].encode ++ (encodeChunks (cs.drop (i + 1)) ++ rest)) := by
    conv => lhs; rw [hsplit]
    rw [encodeChunks_append, encodeChunks_cons]
    simp [List.append_assoc]
  rw [e, List.take_append, List.take_of_length_le hk1, List.append_assoc]
  unfold chunksStream
  rw [readSigStream_sig]
  simp only
  apply chunkIter_prefix_eof
  · intro c hc; exact hfit c (List.mem_of_mem_take hc)
  · intro c hc; exact hno c (List.mem_of_mem_take hc)
  · exact hfit _ hmem
  · simp only [List.length_append] at hk1 hk2 ⊢
    omega
  · have := encodeChunks_length_ge (cs.take i)
    simp only [List.length_append]
    omega

theorem chunksStream_prefix_sig (bs : Bytes) (k : Nat) (hk : k < 8) : chunksStream ((signature ++ bs).take k) = ([], .error .eof) := by
  unfold chunksStream readSigStream
  rw [readExact_take_short _ k 8 hk]
  rfl

-- ---------------------------------------------------------------- grouping

theorem groupItems_body (body : List Chunk) (hb : NoMarkers body) (cur : List Chunk) (nx : Bool) (rest : List Chunk) :
    groupItems cur nx (body ++ rest) = groupItems (cur ++ body) nx rest := by
  induction body generalizing cur with
  | nil => simp
  | cons c body ih =>
    obtain ⟨h1, h2, h3, h4⟩ := hb c (by simp)
    rw [List.cons_append, groupItems]
    rw [if_neg (by simp [h1, h2]), if_neg h3, if_neg h4]
    rw [ih (fun c hc => hb c (by simp [hc]))]
    simp [List.append_assoc]

theorem groupItems_close (cur : List Chunk) (nx : Bool) (last : Chunk) (rest : List Chunk)
    (hl : last.ty = ChunkType.FEND ∨ last.ty = ChunkType.SEND) :
    groupItems cur nx (last :: rest)
      = ((cur ++ [last]) :: (groupItems [] nx rest).1, (groupItems [] nx rest).2.1,
          (groupItems [] nx rest).2.2.1, (groupItems [] nx rest).2.2.2) := by
  rw [groupItems, if_pos hl]

/-- grouping the concatenation of complete items gives the items back -/
theorem groupItems_items (items : List (List Chunk)) (hw : ∀ it ∈ items, ItemWF it) (next : Bool) (tail : List Chunk) :
    groupItems [] false (items.flatten ++ (if next then [⟨ChunkType.ANXT, []⟩] else []) ++ ⟨ChunkType.AEND, []⟩ :: tail)
      = (items, [], next, true) := by
  induction items with
  | nil =>
    cases next with
    | true =>
      simp only [List.flatten_nil, List.nil_append, if_true, List.cons_append]
      rw [groupItems, if_neg (by decide), if_pos rfl, groupItems, if_neg (by decide),
        if_neg (by decide), if_pos rfl]
    | false =>
      simp only [List.flatten_nil, List.nil_append, Bool.false_eq_true, if_false]
      rw [groupItems, if_neg (by decide), if_neg (by decide), if_pos rfl]
  | cons it items ih =>
    obtain ⟨body, last, rfl, hl, hb⟩ := hw it (by simp)
    have ih' := ih (fun it hit => hw it (by simp [hit]))
    have e : (List.flatten ((body ++ [last]) :: items) ++ (if next then [⟨ChunkType.ANXT, []⟩] else [])
          ++ ⟨ChunkType.AEND, []⟩ :: tail)
        = body ++ (last :: (items.flatten ++ (if next then [⟨ChunkType.ANXT, []⟩] else [])
          ++ ⟨ChunkType.AEND, []⟩ :: tail)) := by
      simp [List.append_assoc]
    rw [e, groupItems_body body hb, groupItems_close _ _ _ _ hl, ih']
    simp

-- ---------------------------------------------------------------- entries are items

theorem mem_optChunk {t : ChunkType} {o : Option Bytes} {c : Chunk} (h : c ∈ optChunk t o) : c.ty = t := by
  cases o with
  | none => simp [optChunk] at h
  | some d => simp [optChunk] at h; rw [h]

theorem nm_of_ty {c : Chunk} (t : ChunkType) (h : c.ty = t)
    (ht : t ≠ FEND ∧ t ≠ SEND ∧ t ≠ ANXT ∧ t ≠ AEND) :
    c.ty ≠ FEND ∧ c.ty ≠ SEND ∧ c.ty ≠ ANXT ∧ c.ty ≠ AEND := h ▸ ht

/-- serialised entries are complete items (extra hypothesis: no structural marker among `extra`;
    `WF` is kept in the signature for uniformity but is not what makes this true) -/
theorem serN_ItemWF (e : NormalEntry) (_h : e.WF) (hx : NoMarkers e.extra) : ItemWF (serN e) := by
  refine ⟨_, ⟨FEND, []⟩, rfl, Or.inl rfl, ?_⟩
  intro c hc
  simp only [List.mem_append, List.mem_singleton, List.mem_flatMap, List.mem_map] at hc
  rcases hc with ((((((((hc | hc) | hc) | hc) | hc) | hc) | hc) | hc) | hc) | hc
  · exact nm_of_ty FHED (by rw [hc]) (by decide)
  · exact hx c hc
  · exact nm_of_ty _ (mem_optChunk hc) (by decide)
  · exact nm_of_ty _ (mem_optChunk hc) (by decide)
  · obtain ⟨d, _, u, _, rfl⟩ := hc; exact nm_of_ty FDAT rfl (by decide)
  · exact nm_of_ty _ (mem_optChunk hc) (by decide)
  · exact nm_of_ty _ (mem_optChunk hc) (by decide)
  · exact nm_of_ty _ (mem_optChunk hc) (by decide)
  · exact nm_of_ty _ (mem_optChunk hc) (by decide)
  · obtain ⟨x, _, rfl⟩ := hc; exact nm_of_ty xATR rfl (by decide)

theorem serS_ItemWF (s : SolidEntry) (_h : s.WF) (hx : NoMarkers s.extra) : ItemWF (serS s) := by
  refine ⟨_, ⟨SEND, []⟩, rfl, Or.inr rfl, ?_⟩
  intro c hc
  simp only [List.mem_append, List.mem_singleton, List.mem_map] at hc
  rcases hc with ((hc | hc) | hc) | hc
  · exact nm_of_ty SHED (by rw [hc]) (by decide)
  · exact hx c hc
  · exact nm_of_ty _ (mem_optChunk hc) (by decide)
  · obtain ⟨d, _, rfl⟩ := hc; exact nm_of_ty SDAT rfl (by decide)

/-- what `recut` does to an entry of either kind -/
def ReadEntry.recut : ReadEntry → ReadEntry
  | .normal e => .normal e.recut
  | .solid s => .solid s
def ReadEntry.WF : ReadEntry → Prop
  | .normal e => e.WF
  | .solid s => s.WF
/-- the uninterpreted chunks of an entry of either kind -/
def ReadEntry.extra : ReadEntry → List Chunk
  | .normal e => e.extra
  | .solid s => s.extra

theorem serEntry_ItemWF (e : ReadEntry) (h : e.WF) (hx : NoMarkers e.extra) : ItemWF (serEntry e) := by
  cases e with
  | normal e => exact serN_ItemWF e h hx
  | solid s => exact serS_ItemWF s h hx

theorem parseEntry_serEntry (e : ReadEntry) (h : e.WF) : parseEntry (serEntry e) = .ok e.recut := by
  cases e with
  | normal e =>
    have hh : (serN e).head? = some ⟨FHED, encFHED e.header⟩ := rfl
    show parseEntry (serN e) = _
    unfold parseEntry
    rw [hh]
    simp only
    rw [parseN_serN e h]
    rfl
  | solid s =>
    have hh : (serS s).head? = some ⟨SHED, encSHED s.header⟩ := rfl
    show parseEntry (serS s) = _
    unfold parseEntry
    rw [hh]
    simp only
    rw [parseS_serS s h]
    rfl

theorem parseItems_serEntry (es : List ReadEntry) (hw : ∀ e ∈ es, e.WF) :
    parseItems (es.map serEntry) = (es.map ReadEntry.recut, .ok ()) := by
  induction es with
  | nil => rfl
  | cons e es ih =>
    rw [List.map_cons, parseItems, parseEntry_serEntry e (hw e (by simp))]
    simp only
    rw [ih (fun e he => hw e (by simp [he]))]
    rfl

-- ---------------------------------------------------------------- whole archive

theorem ItemWF_no_AEND {it : List Chunk} (hw : ItemWF it) : ∀ c ∈ it, c.ty ≠ ChunkType.AEND := by
  obtain ⟨body, last, rfl, hl, hb⟩ := hw
  intro c hc
  simp only [List.mem_append, List.mem_singleton] at hc
  rcases hc with hc | rfl
  · exact (hb c hc).2.2.2
  · rcases hl with hl | hl <;> rw [hl] <;> decide

theorem encAHED_length (h : ArchiveHeader) : (encAHED h).length = 8 := by
  simp [encAHED]

/-- the tokeniser on a written archive -/
theorem chunksStream_encodeArchive (n : Nat) (items : List (List Chunk)) (hw : ∀ it ∈ items, ItemWF it)
    (hfit : ChunksFit items.flatten) (next : Bool) :
    chunksStream (encodeArchive n items next)
      = (⟨ChunkType.AHED, encAHED ⟨0, 0, n⟩⟩ ::
          (items.flatten ++ (if next then [⟨ChunkType.ANXT, []⟩] else []) ++ [⟨ChunkType.AEND, []⟩]), .ok ()) := by
  unfold encodeArchive
  rw [encodeChunks_append, encodeChunks_singleton]
  have := chunksStream_encode
    ([⟨ChunkType.AHED, encAHED ⟨0, 0, n⟩⟩] ++ items.flatten ++ (if next then [⟨ChunkType.ANXT, []⟩] else []))
    [] ?_ ?_
  · rw [List.append_nil] at this
    rw [← List.append_assoc, this]
    simp [List.append_assoc]
  · intro c hc
    simp only [List.mem_append, List.mem_singleton] at hc
    rcases hc with (rfl | hc) | hc
    · simp [encAHED_length]
    · exact hfit c hc
    · cases next <;> simp at hc
      rw [hc]; simp
  · intro c hc
    simp only [List.mem_append, List.mem_singleton] at hc
    rcases hc with (rfl | hc) | hc
    · show AHED ≠ AEND
      decide
    · obtain ⟨it, hit, hcit⟩ := List.mem_flatten.mp hc
      exact ItemWF_no_AEND (hw it hit) c hcit
    · cases next <;> simp at hc
      rw [hc]; decide

/-- reading a written archive: header, raw items, flag and carry are exact; entries/status are those of
    `parseItems` on the items -/
theorem readArchiveWith_encodeArchive (n : Nat) (hn : n < 2 ^ 32) (items : List (List Chunk))
    (hw : ∀ it ∈ items, ItemWF it) (hfit : ChunksFit items.flatten) (next : Bool) :
    readArchiveWith chunksStream [] (encodeArchive n items next)
      = { header := some ⟨0, 0, n⟩, rawItems := items, entries := (parseItems items).1,
          status := (match (parseItems items).2 with | .ok _ => .ok () | o => o),
          carry := [], next := next } := by
  unfold readArchiveWith
  rw [chunksStream_encodeArchive n items hw hfit next]
  simp only
  rw [if_neg (by simp), decAHED_encAHED ⟨0, 0, n⟩ (show (0 : Nat) < 256 by decide) (show (0 : Nat) < 256 by decide) hn]
  simp only
  rw [groupItems_items items hw next []]
  rfl

/-- **Archive round trip**: reading an archive written from well-formed entries returns exactly those entries (data
    slices re-cut at u32::MAX), ends cleanly, reports the continuation flag, and leaves no carry.
    Extra hypothesis `hx` (not in the original statement, which is false without it): no entry carries a
    structural marker chunk among its uninterpreted `extra` chunks. -/
theorem readArchive_encode (n : Nat) (hn : n < 2 ^ 32) (es : List ReadEntry) (hw : ∀ e ∈ es, e.WF)
    (hx : ∀ e ∈ es, NoMarkers e.extra)
    (hfit : ChunksFit (es.flatMap serEntry)) (next : Bool) :
    let r := readArchiveStream (encodeArchive n (es.map serEntry) next)
    r.entries = es.map ReadEntry.recut ∧ r.status = .ok () ∧ r.next = next ∧ r.carry = [] ∧
      r.header = some ⟨0, 0, n⟩ ∧ r.rawItems = es.map serEntry := by
  intro r
  have hr : r = _ := readArchiveWith_encodeArchive n hn (es.map serEntry)
    (by
      intro it hit
      obtain ⟨e, he, rfl⟩ := List.mem_map.mp hit
      exact serEntry_ItemWF e (hw e he) (hx e he))
    (by rw [← List.flatMap_def]; exact hfit) next
  rw [parseItems_serEntry es hw] at hr
  rw [hr]
  exact ⟨rfl, rfl, rfl, rfl, rfl, rfl⟩

/-- raw copy is exact: re-encoding the raw items of an archive reproduces its bytes -/
theorem raw_copy_exact (n : Nat) (hn : n < 2 ^ 32) (items : List (List Chunk)) (hw : ∀ it ∈ items, ItemWF it)
    (hfit : ChunksFit items.flatten) :
    (rawEntriesWith chunksStream (encodeArchive n items false)).1 = items ∧
    encodeArchive n (rawEntriesWith chunksStream (encodeArchive n items false)).1 false = encodeArchive n items false := by
  have h : (rawEntriesWith chunksStream (encodeArchive n items false)).1 = items := by
    unfold rawEntriesWith
    rw [readArchiveWith_encodeArchive n hn items hw hfit false]
  exact ⟨h, by rw [h]⟩

end Pna
