import PnaVerif.Model.Name
/-! Entry-name sanitiser: output components are all `Normal`, no root, idempotent. -/
namespace Pna

theorem splitSlash_ne_nil (s : Bytes) : splitSlash s ≠ [] := by
  induction s with
  | nil => simp [splitSlash]
  | cons b rest ih =>
    unfold splitSlash
    split
    · simp
    · split <;> simp

theorem splitSlash_cons_ne (b : UInt8) (rest : Bytes) (hb : b ≠ slash) :
    ∃ h t, splitSlash rest = h :: t ∧ splitSlash (b :: rest) = (b :: h) :: t := by
  cases hs : splitSlash rest with
  | nil => exact absurd hs (splitSlash_ne_nil rest)
  | cons h t =>
    refine ⟨h, t, rfl, ?_⟩
    conv => lhs; unfold splitSlash
    simp [hb, hs]

/-- No component produced by `splitSlash` contains a slash. -/
theorem splitSlash_no_slash (s : Bytes) : ∀ c ∈ splitSlash s, slash ∉ c := by
  induction s with
  | nil => simp [splitSlash]
  | cons b rest ih =>
    by_cases hb : b = slash
    · subst hb
      unfold splitSlash
      simp only [ite_true, List.mem_cons]
      intro c hc
      rcases hc with rfl | hc
      · simp
      · exact ih c hc
    · obtain ⟨h, t, hs, hs'⟩ := splitSlash_cons_ne b rest hb
      rw [hs']
      intro c hc
      simp only [List.mem_cons] at hc
      rcases hc with rfl | hc
      · have := ih h (by rw [hs]; simp)
        simp only [List.mem_cons, not_or]
        exact ⟨fun e => hb e.symm, this⟩
      · exact ih c (by rw [hs]; simp [hc])

theorem splitSlash_noslash (c : Bytes) (hc : slash ∉ c) : splitSlash c = [c] := by
  induction c with
  | nil => rfl
  | cons b rest ih =>
    simp only [List.mem_cons, not_or] at hc
    obtain ⟨h, t, hs, hs'⟩ := splitSlash_cons_ne b rest (fun e => hc.1 e.symm)
    rw [hs', ]
    rw [ih hc.2] at hs
    simp only [List.cons.injEq] at hs
    obtain ⟨rfl, rfl⟩ := hs
    rfl

theorem splitSlash_append_slash (c rest : Bytes) (hc : slash ∉ c) :
    splitSlash (c ++ slash :: rest) = c :: splitSlash rest := by
  induction c with
  | nil => simp [splitSlash]
  | cons b c ih =>
    simp only [List.mem_cons, not_or] at hc
    obtain ⟨h, t, hs, hs'⟩ := splitSlash_cons_ne b (c ++ slash :: rest) (fun e => hc.1 e.symm)
    rw [List.cons_append, hs']
    rw [ih hc.2] at hs
    simp only [List.cons.injEq] at hs
    obtain ⟨rfl, rfl⟩ := hs
    rfl

/-- Splitting a join gives the components back (non-empty list, slash-free components). -/
theorem splitSlash_joinSlash (cs : List Bytes) (hne : cs ≠ []) (hns : ∀ c ∈ cs, slash ∉ c) :
    splitSlash (joinSlash cs) = cs := by
  induction cs with
  | nil => exact absurd rfl hne
  | cons c cs ih =>
    cases cs with
    | nil => simp only [joinSlash]; exact splitSlash_noslash c (hns c (by simp))
    | cons c' cs' =>
      simp only [joinSlash]
      rw [splitSlash_append_slash c _ (hns c (by simp))]
      rw [ih (by simp) (fun x hx => hns x (by simp [hx]))]

theorem filter_normal_no_slash (s : Bytes) : ∀ c ∈ (splitSlash s).filter isNormalComp, slash ∉ c := by
  intro c hc
  exact splitSlash_no_slash s c (List.mem_filter.mp hc).1

theorem sanitize_nil : sanitize [] = [] := by decide

/-- **Idempotence** of the sanitiser. -/
theorem sanitize_idem (s : Bytes) : sanitize (sanitize s) = sanitize s := by
  unfold sanitize
  cases hk : (splitSlash s).filter isNormalComp with
  | nil => decide
  | cons c cs =>
    have hns : ∀ x ∈ c :: cs, slash ∉ x := by
      intro x hx; rw [← hk] at hx; exact filter_normal_no_slash s x hx
    rw [splitSlash_joinSlash (c :: cs) (by simp) hns]
    have : (c :: cs).filter isNormalComp = c :: cs := by
      rw [← hk, List.filter_filter]; simp
    rw [this]

/-- Components of a sanitised name: either the name is empty, or every component is `Normal`
    (non-empty, not `.`, not `..`, slash-free). -/
theorem sanitize_components (s : Bytes) :
    sanitize s = [] ∨
    (splitSlash (sanitize s) = (splitSlash s).filter isNormalComp ∧
     ∀ c ∈ splitSlash (sanitize s), c ≠ [] ∧ c ≠ [dot] ∧ c ≠ [dot, dot] ∧ slash ∉ c) := by
  unfold sanitize
  cases hk : (splitSlash s).filter isNormalComp with
  | nil => left; rfl
  | cons c cs =>
    right
    have hns : ∀ x ∈ c :: cs, slash ∉ x := by
      intro x hx; rw [← hk] at hx; exact filter_normal_no_slash s x hx
    rw [splitSlash_joinSlash (c :: cs) (by simp) hns]
    refine ⟨rfl, ?_⟩
    intro x hx
    have hx' : x ∈ (splitSlash s).filter isNormalComp := by rw [hk]; exact hx
    have hn := (List.mem_filter.mp hx').2
    simp only [isNormalComp, Bool.and_eq_true, decide_eq_true_eq] at hn
    exact ⟨hn.1.1, hn.1.2, hn.2, hns x hx⟩

theorem joinSlash_head (c : Bytes) (cs : List Bytes) (b : UInt8) (rest : Bytes) (hc : c = b :: rest) :
    (joinSlash (c :: cs)).head? = some b := by
  subst hc
  cases cs <;> simp [joinSlash]

/-- A sanitised name never starts with `/` (it is relative). -/
theorem sanitize_no_root (s : Bytes) : (sanitize s).head? ≠ some slash := by
  unfold sanitize
  cases hk : (splitSlash s).filter isNormalComp with
  | nil => simp [joinSlash]
  | cons c cs =>
    have hc : c ∈ (splitSlash s).filter isNormalComp := by rw [hk]; simp
    have hn := (List.mem_filter.mp hc).2
    have hns := filter_normal_no_slash s c hc
    simp only [isNormalComp, Bool.and_eq_true, decide_eq_true_eq] at hn
    cases hcc : c with
    | nil => exact absurd hcc hn.1.1
    | cons b rest =>
      rw [← hcc, joinSlash_head c cs b rest hcc]
      intro h
      simp only [Option.some.injEq] at h
      rw [hcc] at hns
      simp [h] at hns

end Pna
