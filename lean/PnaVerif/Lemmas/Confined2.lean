import PnaVerif.Lemmas.Confined
/-!
# Confinement (2): elementary updates inside `O` preserve `Sane` and are a `Step`
-/
namespace Pna.Confined
open Pna Pna.Fs Pna.Cli

theorem inside_ne_nil {O p : Path} (hO : O ≠ []) (h : Inside O p) : p ≠ [] := by
  intro e; subst e; exact hO (List.prefix_nil.1 h)

theorem dropLast_ne {p : Path} (hp : p ≠ []) : p.dropLast ≠ p := by
  intro e
  have := congrArg List.length e
  have hl : 0 < p.length := List.length_pos_iff.2 hp
  simp at this; omega

/-- a new directory entry at a free path strictly inside `O` whose parent is a directory; a file entry
    must reference an inode that is in use below `nextIno` and not referenced from outside -/
theorem setNode_new {fs : Fs} {O p : Path} {n : Node} (hs : Sane fs O) (hin : Inside O p) (hne : p ≠ O)
    (hnone : fs.lookup p = none) (hpar : fs.lookup p.dropLast = some .dir)
    (hfile : ∀ i, n = .file i → i < fs.nextIno ∧ ∀ b ∈ fs.nodes, ¬ Inside O b.1 → b.2 ≠ .file i) :
    Sane (fs.setNode p n) O ∧ Step O fs (fs.setNode p n) := by
  have hp : p ≠ [] := lookup_none_ne_nil hnone
  have hmem : ∀ x ∈ (fs.setNode p n).nodes, x ∈ fs.nodes ∨ x = (p, n) := by
    intro x hx
    simp only [Fs.setNode, List.mem_append, List.mem_filter, List.mem_singleton] at hx
    rcases hx with hx | hx
    · exact Or.inl hx.1
    · exact Or.inr hx
  refine ⟨⟨?_, ?_, ?_, ?_⟩, ⟨filter_out_setNode O p n hin fs.nodes, fun _ _ _ _ _ => rfl⟩⟩
  · rw [lookup_setNode_ne _ _ _ _ (Ne.symm hne)]; exact hs.odir
  · intro x hx
    rcases hmem x hx with hx | hx
    · have hd := hs.closed x hx
      have : x.1.dropLast ≠ p := by intro e; rw [e, hnone] at hd; cases hd
      rw [lookup_setNode_ne _ _ _ _ this]; exact hd
    · subst hx
      rw [lookup_setNode_ne _ _ _ _ (dropLast_ne hp)]; exact hpar
  · intro a ha b hb ino hai hbi hia hob
    rcases hmem a ha with ha | ha <;> rcases hmem b hb with hb | hb
    · exact hs.sep a ha b hb ino hai hbi hia hob
    · subst hb; exact hob hin
    · subst ha; exact (hfile ino hai).2 b hb hob hbi
    · subst hb; exact hob hin
  · intro x hx ino hi
    rcases hmem x hx with hx | hx
    · exact hs.fresh x hx ino hi
    · subst hx; exact (hfile ino hi).1

theorem setNode_new_mono {fs : Fs} {p : Path} {n : Node} (hp : p ≠ []) (hn : ∀ t, n ≠ .link t) :
    Mono fs (fs.setNode p n) := by
  intro q h t ht
  by_cases e : q = p
  · subst e; rw [lookup_setNode_eq _ _ _ hp] at ht
    simp only [Option.some.injEq] at ht; exact hn t ht
  · rw [lookup_setNode_ne _ _ _ _ e] at ht; exact h t ht

/-- rewriting the content of an inode that is not referenced from outside `O` -/
theorem setContent_inside {fs : Fs} {O : Path} (ino : Nat) (c : Bytes) (hs : Sane fs O)
    (hout : ∀ b ∈ fs.nodes, ¬ Inside O b.1 → b.2 ≠ .file ino) :
    Sane (fs.setContent ino c) O ∧ Step O fs (fs.setContent ino c) ∧ Mono fs (fs.setContent ino c) := by
  refine ⟨⟨hs.odir, hs.closed, hs.sep, hs.fresh⟩, ⟨rfl, fun n hn ho i hi => ?_⟩, fun _ h => h⟩
  have : i ≠ ino := by intro e; subst e; exact hout n hn ho hi
  exact content_setContent_ne fs i ino c this

theorem sane_bump {fs : Fs} {O : Path} (hs : Sane fs O) : Sane { fs with nextIno := fs.nextIno + 1 } O :=
  ⟨hs.odir, hs.closed, hs.sep, fun n hn ino hi => Nat.lt_succ_of_lt (hs.fresh n hn ino hi)⟩

/-- a brand-new regular file (fresh inode) at a free path strictly inside `O` -/
theorem newFile_inside {fs : Fs} {O p : Path} (c : Bytes) (hs : Sane fs O) (hin : Inside O p) (hne : p ≠ O)
    (hnone : fs.lookup p = none) (hpar : fs.lookup p.dropLast = some .dir) :
    let fs' : Fs := { (fs.setNode p (.file fs.nextIno)).setContent fs.nextIno c with nextIno := fs.nextIno + 1 }
    Sane fs' O ∧ Step O fs fs' ∧ Mono fs fs' := by
  intro fs'
  have hout : ∀ b ∈ fs.nodes, ¬ Inside O b.1 → b.2 ≠ .file fs.nextIno :=
    fun b hb _ hi => Nat.lt_irrefl _ (hs.fresh b hb _ hi)
  have h0 := sane_bump hs
  have ⟨h1, s1⟩ := setNode_new (n := .file fs.nextIno) h0 hin hne hnone hpar (fun i hi => by
    cases hi; exact ⟨Nat.lt_succ_self _, hout⟩)
  have hout1 : ∀ b ∈ (Fs.setNode { fs with nextIno := fs.nextIno + 1 } p (.file fs.nextIno)).nodes,
      ¬ Inside O b.1 → b.2 ≠ .file fs.nextIno := by
    intro b hb ho
    have : b ∈ fs.nodes := (outside_mem_iff s1.nodes b ho).1 hb
    exact hout b this ho
  have ⟨h2, s2, _⟩ := setContent_inside fs.nextIno c h1 hout1
  refine ⟨h2, ⟨s2.nodes.trans s1.nodes, fun n hn ho i hi => ?_⟩, ?_⟩
  · exact (s2.content n ((outside_mem_iff s1.nodes n ho).2 hn) ho i hi).trans (s1.content n hn ho i hi)
  · have hp : p ≠ [] := lookup_none_ne_nil hnone
    exact setNode_new_mono (fs := fs) (n := .file fs.nextIno) hp (fun t h => by cases h)

/-- dropping directory entries by a predicate on keys that keeps `O`, everything outside `O`, and the
    parent of every kept entry -/
theorem filter_keys {fs : Fs} {O : Path} (P : Path → Bool) (hs : Sane fs O) (hO : P O = true)
    (hpar : ∀ n ∈ fs.nodes, P n.1 = true → P n.1.dropLast = true)
    (hout : ∀ q, ¬ Inside O q → P q = true) :
    let fs' : Fs := { fs with nodes := fs.nodes.filter (fun n => P n.1) }
    Sane fs' O ∧ Step O fs fs' ∧ Mono fs fs' := by
  intro fs'
  have hsub : ∀ x ∈ fs'.nodes, x ∈ fs.nodes ∧ P x.1 = true := fun x hx => List.mem_filter.1 hx
  refine ⟨⟨?_, ?_, ?_, ?_⟩, ⟨?_, fun _ _ _ _ _ => rfl⟩, ?_⟩
  · rw [lookup_filter_true fs P O hO]; exact hs.odir
  · intro x hx
    have ⟨h1, h2⟩ := hsub x hx
    rw [lookup_filter_true fs P _ (hpar x h1 h2)]; exact hs.closed x h1
  · intro a ha b hb; exact hs.sep a (hsub a ha).1 b (hsub b hb).1
  · intro x hx; exact hs.fresh x (hsub x hx).1
  · show (fs.nodes.filter (fun n => P n.1)).filter (outB O) = fs.nodes.filter (outB O)
    rw [List.filter_filter]
    apply List.filter_congr
    intro x _
    cases hx : outB O x with
    | false => simp
    | true => simp [hout x.1 ((outB_iff O x).1 hx)]
  · intro q h t ht
    cases hq : P q with
    | true => rw [lookup_filter_true fs P q hq] at ht; exact h t ht
    | false =>
      by_cases hn : q = []
      · subst hn; simp [Fs.lookup] at ht
      · rw [lookup_filter_false fs P q hq hn] at ht; cases ht

theorem strict_inside_not_prefix {O p q : Path} (hin : Inside O p) (hq : ¬ Inside O q) : ¬ p <+: q :=
  fun h => hq (List.IsPrefix.trans hin h)

/-- removing the subtree at `p`, strictly inside `O` -/
theorem remove_tree_inside {fs : Fs} {O p : Path} (hs : Sane fs O) (hin : Inside O p) (hne : p ≠ O) :
    let fs' : Fs := { fs with nodes := fs.nodes.filter (fun q => !(p.isPrefixOf q.1)) }
    Sane fs' O ∧ Step O fs fs' ∧ Mono fs fs' := by
  have hnp : ∀ q, (!(p.isPrefixOf q)) = true ↔ ¬ p <+: q := by
    intro q; rw [← List.isPrefixOf_iff_prefix]; cases p.isPrefixOf q <;> simp
  refine filter_keys (fun q => !(p.isPrefixOf q)) hs ?_ ?_ ?_
  · apply (hnp O).2
    intro h; exact hne (List.IsPrefix.eq_of_length_le h (List.IsPrefix.length_le hin))
  · intro n _ h
    apply (hnp _).2
    intro h'
    exact (hnp _).1 h (List.IsPrefix.trans h' (List.dropLast_prefix _))
  · intro q hq; exact (hnp q).2 (strict_inside_not_prefix hin hq)

/-- removing the single non-directory entry at `p`, strictly inside `O` -/
theorem remove_one_inside {fs : Fs} {O p : Path} (hs : Sane fs O) (hin : Inside O p) (hne : p ≠ O)
    (hnd : fs.lookup p ≠ some .dir) :
    let fs' : Fs := { fs with nodes := fs.nodes.filter (·.1 != p) }
    Sane fs' O ∧ Step O fs fs' ∧ Mono fs fs' := by
  refine filter_keys (fun q => q != p) hs ?_ ?_ ?_
  · simpa using Ne.symm hne
  · intro n hn _
    have := hs.closed n hn
    simp only [bne_iff_ne, ne_eq]
    intro e; rw [e] at this; exact hnd this
  · intro q hq
    simp only [bne_iff_ne, ne_eq]
    intro e; subst e; exact hq hin

end Pna.Confined
