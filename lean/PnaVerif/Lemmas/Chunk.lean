import PnaVerif.Model.Chunk
/-! Chunk framing lemmas: the two parsers agree, encode/decode are exact inverses, proper
    prefixes are rejected with `eof`. -/
namespace Pna

theorem take_app {α} (a b : List α) {n : Nat} (h : a.length = n) : (a ++ b).take n = a := by
  subst h; simp

theorem drop_app {α} (a b : List α) {n : Nat} (h : a.length = n) : (a ++ b).drop n = b := by
  subst h; simp

theorem readExact_eq (n : Nat) (bs : Bytes) :
    readExact n bs = if bs.length < n then .error .eof else .ok (bs.take n, bs.drop n) := rfl

theorem splitFirstChunk_eq (n : Nat) (bs : Bytes) :
    splitFirstChunk n bs = if n ≤ bs.length then some (bs.take n, bs.drop n) else none := rfl

/-- The slice parser and the stream parser are the same function. -/
theorem decodeSlice_eq_decodeStream (bs : Bytes) : decodeSlice bs = decodeStream bs := by
  unfold decodeSlice decodeStream
  simp only [splitFirstChunk_eq, readExact_eq, splitPayload]
  by_cases h1 : 4 ≤ bs.length
  · have h1' : ¬ bs.length < 4 := by omega
    simp only [h1, h1', ite_true, ite_false, Outcome.bind_ok, bind, Outcome.bind]
    by_cases h2 : 4 ≤ (bs.drop 4).length
    · have h2' : ¬ (bs.drop 4).length < 4 := by omega
      simp only [h2, h2', ite_true, ite_false]
      by_cases h3 : fromBe (bs.take 4) ≤ ((bs.drop 4).drop 4).length
      · have h3' : ¬ ((bs.drop 4).drop 4).length < fromBe (bs.take 4) := by omega
        simp only [h3, h3', ite_true, ite_false]
        by_cases h4 : 4 ≤ (((bs.drop 4).drop 4).drop (fromBe (bs.take 4))).length
        · have h4' : ¬ (((bs.drop 4).drop 4).drop (fromBe (bs.take 4))).length < 4 := by omega
          simp only [h4, h4', ite_true, ite_false]
        · have h4' : (((bs.drop 4).drop 4).drop (fromBe (bs.take 4))).length < 4 := by omega
          simp only [h4, h4', ite_true, ite_false]
      · have h3' : ((bs.drop 4).drop 4).length < fromBe (bs.take 4) := by omega
        simp only [h3, h3', ite_true, ite_false]
    · have h2' : (bs.drop 4).length < 4 := by omega
      simp only [h2, h2', ite_true, ite_false]
  · have h1' : bs.length < 4 := by omega
    simp only [h1, h1', ite_true, ite_false, bind, Outcome.bind]

theorem readSigSlice_eq_readSigStream (bs : Bytes) : readSigSlice bs = readSigStream bs := by
  unfold readSigSlice readSigStream
  simp only [splitPayload, readExact_eq]
  by_cases h : 8 ≤ bs.length
  · have h' : ¬ bs.length < 8 := by omega
    simp only [h, h', ite_true, ite_false, bind, Outcome.bind]
  · have h' : bs.length < 8 := by omega
    simp only [h, h', ite_true, ite_false, bind, Outcome.bind]

theorem decodeSlice_funext : decodeSlice = decodeStream := funext decodeSlice_eq_decodeStream

/-- Both chunk iterators return the same chunks and end the same way, on every input. -/
theorem chunksSlice_eq_chunksStream (bs : Bytes) : chunksSlice bs = chunksStream bs := by
  unfold chunksSlice chunksStream
  rw [readSigSlice_eq_readSigStream, decodeSlice_funext]

namespace Chunk

theorem encode_length (c : Chunk) : c.encode.length = 12 + c.data.length := by
  simp [encode]; omega

theorem bytesLen_eq_encode_length (c : Chunk) : c.bytesLen = c.encode.length := by
  rw [encode_length]; rfl

end Chunk

/-- Exact round trip: a chunk whose payload fits the 32-bit length field decodes back to
    itself, leaving exactly the bytes that followed it. -/
theorem decodeStream_encode (c : Chunk) (r : Bytes) (h : c.data.length < 2 ^ 32) :
    decodeStream (c.encode ++ r) = .ok (c, r) := by
  unfold decodeStream Chunk.encode
  simp only [readExact_eq]
  have e1 : (be32 c.data.length ++ c.ty.toBytes ++ c.data ++ be32 c.crc ++ r)
      = be32 c.data.length ++ (c.ty.toBytes ++ (c.data ++ (be32 c.crc ++ r))) := by
    simp [List.append_assoc]
  rw [e1]
  have t1 : (be32 c.data.length ++ (c.ty.toBytes ++ (c.data ++ (be32 c.crc ++ r)))).take 4 = be32 c.data.length := by
    exact take_app _ _ (by simp)
  have d1 : (be32 c.data.length ++ (c.ty.toBytes ++ (c.data ++ (be32 c.crc ++ r)))).drop 4 = c.ty.toBytes ++ (c.data ++ (be32 c.crc ++ r)) := by
    exact drop_app _ _ (by simp)
  have l1 : ¬ (be32 c.data.length ++ (c.ty.toBytes ++ (c.data ++ (be32 c.crc ++ r)))).length < 4 := by
    simp
  simp only [l1, ite_false, Outcome.bind_ok, t1, d1]
  have t2 : (c.ty.toBytes ++ (c.data ++ (be32 c.crc ++ r))).take 4 = c.ty.toBytes := by
    exact take_app _ _ (by simp)
  have d2 : (c.ty.toBytes ++ (c.data ++ (be32 c.crc ++ r))).drop 4 = c.data ++ (be32 c.crc ++ r) := by
    exact drop_app _ _ (by simp)
  have l2 : ¬ (c.ty.toBytes ++ (c.data ++ (be32 c.crc ++ r))).length < 4 := by simp
  simp only [l2, ite_false, Outcome.bind_ok, t2, d2]
  have hlen : fromBe (be32 c.data.length) = c.data.length := by
    rw [fromBe_be32, Nat.mod_eq_of_lt h]
  rw [hlen]
  have t3 : (c.data ++ (be32 c.crc ++ r)).take c.data.length = c.data := by simp
  have d3 : (c.data ++ (be32 c.crc ++ r)).drop c.data.length = be32 c.crc ++ r := by simp
  have l3 : ¬ (c.data ++ (be32 c.crc ++ r)).length < c.data.length := by simp
  simp only [l3, ite_false, Outcome.bind_ok, t3, d3]
  have t4 : (be32 c.crc ++ r).take 4 = be32 c.crc := by
    exact take_app _ _ (by simp)
  have d4 : (be32 c.crc ++ r).drop 4 = r := by
    exact drop_app _ _ (by simp)
  have l4 : ¬ (be32 c.crc ++ r).length < 4 := by simp
  simp only [l4, ite_false, Outcome.bind_ok, t4, d4, ChunkType.ofBytes?_toBytes]
  have hcrc : fromBe (be32 c.crc) = c.crc := by
    rw [fromBe_be32]; exact Nat.mod_eq_of_lt (Crc32.crc32_lt _)
  simp [hcrc]

theorem decodeSlice_encode (c : Chunk) (r : Bytes) (h : c.data.length < 2 ^ 32) :
    decodeSlice (c.encode ++ r) = .ok (c, r) := by
  rw [decodeSlice_eq_decodeStream]; exact decodeStream_encode c r h

end Pna

namespace Pna

theorem readExact_bind_ok {β} (n : Nat) (bs : Bytes) (f : Bytes × Bytes → Outcome β) (x : β) :
    (readExact n bs >>= f) = .ok x ↔ n ≤ bs.length ∧ f (bs.take n, bs.drop n) = .ok x := by
  unfold readExact
  by_cases h : bs.length < n
  · simp [h, bind, Outcome.bind]; omega
  · simp [h, bind, Outcome.bind]; omega

theorem readExact_bind_isPanic {β} (n : Nat) (bs : Bytes) (f : Bytes × Bytes → Outcome β)
    (hf : ∀ p, (f p).isPanic = false) : (readExact n bs >>= f).isPanic = false := by
  unfold readExact
  by_cases h : bs.length < n
  · simp [h, bind, Outcome.bind, Outcome.isPanic]
  · simp [h, bind, Outcome.bind, hf]

/-- Byte-exact converse: whatever the parser accepts re-encodes to exactly the consumed bytes. -/
theorem decodeStream_ok_inv (bs : Bytes) (c : Chunk) (r : Bytes)
    (h : decodeStream bs = .ok (c, r)) : c.encode ++ r = bs ∧ c.data.length < 2 ^ 32 := by
  unfold decodeStream at h
  rw [readExact_bind_ok] at h
  obtain ⟨k1, h⟩ := h
  simp only [] at h
  rw [readExact_bind_ok] at h
  obtain ⟨k2, h⟩ := h
  simp only [] at h
  rw [readExact_bind_ok] at h
  obtain ⟨k3, h⟩ := h
  simp only [] at h
  rw [readExact_bind_ok] at h
  obtain ⟨k4, h⟩ := h
  simp only [] at h
  generalize hA : bs.take 4 = lenB at *
  generalize hB : bs.drop 4 = r1 at *
  generalize hC : r1.take 4 = tyB at *
  generalize hD : r1.drop 4 = r2 at *
  generalize hE : r2.take (fromBe lenB) = data at *
  generalize hF : r2.drop (fromBe lenB) = r3 at *
  generalize hG : r3.take 4 = crcB at *
  generalize hH : r3.drop 4 = r4 at *
  cases hty : ChunkType.ofBytes? tyB with
  | none => simp [hty] at h
  | some ty =>
    simp only [hty] at h
    split at h
    · simp at h
    · rename_i hcrc
      simp only [Outcome.ok.injEq, Prod.mk.injEq] at h
      obtain ⟨hc, hr⟩ := h
      subst hc hr
      have hcrc' : fromBe crcB = (Chunk.mk ty data).crc := Classical.not_not.mp hcrc
      have lenB4 : lenB.length = 4 := by rw [← hA]; simp; omega
      have crcB4 : crcB.length = 4 := by rw [← hG]; simp; omega
      have hdl : data.length = fromBe lenB := by rw [← hE]; simp; omega
      have hlt : data.length < 2 ^ 32 := by
        rw [hdl]; have := fromBe_lt lenB; rw [lenB4] at this; exact this
      refine ⟨?_, hlt⟩
      unfold Chunk.encode
      simp only []
      rw [hdl, be32_fromBe _ lenB4, ← hcrc', be32_fromBe _ crcB4]
      rw [ChunkType.toBytes_of_ofBytes? hty]
      rw [← hA, ← hC, ← hE, ← hG, ← hH, ← hF, ← hD, ← hB]
      simp only [List.append_assoc, List.take_append_drop]

theorem decodeSlice_ok_inv (bs : Bytes) (c : Chunk) (r : Bytes)
    (h : decodeSlice bs = .ok (c, r)) : c.encode ++ r = bs ∧ c.data.length < 2 ^ 32 := by
  rw [decodeSlice_eq_decodeStream] at h; exact decodeStream_ok_inv bs c r h

/-- The parser never panics. -/
theorem decodeStream_no_panic (bs : Bytes) : (decodeStream bs).isPanic = false := by
  unfold decodeStream
  apply readExact_bind_isPanic; intro ⟨lenB, r1⟩
  by_cases hk : r1.length < 4
  · simp [readExact, hk, bind, Outcome.bind, Outcome.isPanic]
  · have hl : (r1.take 4).length = 4 := by simp; omega
    simp only [readExact, hk, ite_false, Outcome.bind_ok]
    apply readExact_bind_isPanic; intro ⟨data, r3⟩
    apply readExact_bind_isPanic; intro ⟨crcB, r4⟩
    match hb : r1.take 4, hl with
    | [a, b, c, d], _ =>
      simp only [ChunkType.ofBytes?]
      split <;> simp [Outcome.isPanic]

/-- Each successfully parsed chunk consumes at least 12 bytes. -/
theorem decodeStream_rest_lt (bs : Bytes) (c : Chunk) (r : Bytes)
    (h : decodeStream bs = .ok (c, r)) : r.length + 12 ≤ bs.length := by
  have ⟨he, _⟩ := decodeStream_ok_inv bs c r h
  rw [← he]; simp [Chunk.encode_length]; omega

end Pna

namespace Pna

theorem readExact_take_app (a rest : Bytes) (k n : Nat) (h : a.length = n) (hk : n ≤ k) :
    readExact n ((a ++ rest).take k) = .ok (a, rest.take (k - n)) := by
  subst h
  unfold readExact
  have hl : ¬ ((a ++ rest).take k).length < a.length := by
    simp [List.length_take]; omega
  simp only [hl, ite_false]
  congr 2
  · rw [List.take_take, Nat.min_eq_left hk]; simp
  · rw [List.drop_take]; simp

theorem readExact_take_short (e : Bytes) (k n : Nat) (hk : k < n) :
    readExact n (e.take k) = .error .eof := by
  unfold readExact
  have : (e.take k).length < n := by simp [List.length_take]; omega
  rw [if_pos this]

/-- **Interrupted chunk:** every proper prefix of an encoded chunk (whatever follows it) is
    rejected with `UnexpectedEof`. -/
theorem decodeStream_prefix_eof (c : Chunk) (r : Bytes) (k : Nat)
    (hlen : c.data.length < 2 ^ 32) (hk : k < c.encode.length) :
    decodeStream ((c.encode ++ r).take k) = .error .eof := by
  rw [Chunk.encode_length] at hk
  have e1 : c.encode ++ r = be32 c.data.length ++ (c.ty.toBytes ++ (c.data ++ (be32 c.crc ++ r))) := by
    simp [Chunk.encode, List.append_assoc]
  rw [e1]
  unfold decodeStream
  by_cases h1 : k < 4
  · rw [readExact_take_short _ _ _ h1]; rfl
  · rw [readExact_take_app _ _ k 4 (by simp) (by omega)]
    simp only [Outcome.bind_ok]
    by_cases h2 : k - 4 < 4
    · rw [readExact_take_short _ _ _ h2]; rfl
    · rw [readExact_take_app _ _ (k-4) 4 (by simp) (by omega)]
      simp only [Outcome.bind_ok]
      have hL : fromBe (be32 c.data.length) = c.data.length := by
        rw [fromBe_be32, Nat.mod_eq_of_lt hlen]
      rw [hL]
      by_cases h3 : k - 4 - 4 < c.data.length
      · rw [readExact_take_short _ _ _ h3]; rfl
      · rw [readExact_take_app _ _ (k-4-4) c.data.length rfl (by omega)]
        simp only [Outcome.bind_ok]
        rw [readExact_take_short _ _ _ (by omega)]; rfl

end Pna

namespace Pna

/-- Decoding a well-framed byte string: the outcome depends only on the CRC comparison. -/
theorem decodeStream_frame (tyB data crcB r : Bytes) (ty : ChunkType)
    (hty : ChunkType.ofBytes? tyB = some ty) (hcrc : crcB.length = 4) (hlen : data.length < 2 ^ 32) :
    decodeStream (be32 data.length ++ (tyB ++ (data ++ (crcB ++ r))))
      = if fromBe crcB ≠ (Chunk.mk ty data).crc then .error .invalidData else .ok (⟨ty, data⟩, r) := by
  have hty4 : tyB.length = 4 := by
    have := ChunkType.toBytes_of_ofBytes? hty; rw [← this]; rfl
  unfold decodeStream
  have h1 := readExact_take_app (be32 data.length) (tyB ++ (data ++ (crcB ++ r)))
    (be32 data.length ++ (tyB ++ (data ++ (crcB ++ r)))).length 4 (by simp) (by simp)
  rw [List.take_length] at h1
  rw [h1]; simp only [Outcome.bind_ok]
  have hL : fromBe (be32 data.length) = data.length := by rw [fromBe_be32, Nat.mod_eq_of_lt hlen]
  rw [hL]
  have e2 : (tyB ++ (data ++ (crcB ++ r))).take ((be32 data.length ++ (tyB ++ (data ++ (crcB ++ r)))).length - 4)
      = tyB ++ (data ++ (crcB ++ r)) := by
    apply List.take_of_length_le; simp
  rw [e2]
  have h2 := readExact_take_app tyB (data ++ (crcB ++ r)) (tyB ++ (data ++ (crcB ++ r))).length 4 hty4 (by simp; omega)
  rw [List.take_length] at h2
  rw [h2]; simp only [Outcome.bind_ok]
  have e3 : (data ++ (crcB ++ r)).take ((tyB ++ (data ++ (crcB ++ r))).length - 4) = data ++ (crcB ++ r) := by
    apply List.take_of_length_le; simp; omega
  rw [e3]
  have h3 := readExact_take_app data (crcB ++ r) (data ++ (crcB ++ r)).length data.length rfl (by simp)
  rw [List.take_length] at h3
  rw [h3]; simp only [Outcome.bind_ok]
  have e4 : (crcB ++ r).take ((data ++ (crcB ++ r)).length - data.length) = crcB ++ r := by
    apply List.take_of_length_le; simp
  rw [e4]
  have h4 := readExact_take_app crcB r (crcB ++ r).length 4 hcrc (by simp; omega)
  rw [List.take_length] at h4
  rw [h4]; simp only [Outcome.bind_ok]
  have e5 : r.take ((crcB ++ r).length - 4) = r := by
    apply List.take_of_length_le; simp; omega
  rw [e5, hty]

end Pna
