import PnaVerif.Lemmas.Confined5
/-!
# Confinement (6): `extract_entry` and the archive loop
-/
namespace Pna.Confined
open Pna Pna.Fs Pna.Cli

theorem extractEntry_good (ow : Bool) (cwd : Path) (outDir d : Bytes) (fs : Fs) (e : XEntry)
    (ho : OutDir outDir d) (hs : Sane fs (cwd ++ [d])) (hn : NameOk e.name) :
    Sane (extractEntry ow cwd outDir fs e).1 (cwd ++ [d]) ∧
      Step (cwd ++ [d]) fs (extractEntry ow cwd outDir fs e).1 := by
  unfold extractEntry
  dsimp only
  split
  · exact ⟨hs, Step.refl _ _⟩
  · rename_i hconf
    have hconf' : confined fs cwd outDir ((parentP e.name).getD []) = true := by simpa using hconf
    obtain ⟨init, last, par, pcs, hcn, hlast, hdd, hrel, hja, hjc, hpar, hpa, hpc, hlp, hli⟩ :=
      name_shape ho hs hn hconf'
    have pc : PathCtx cwd d (joinP outDir e.name) init last := ⟨ho.nodd, hlast, hdd, hja, hjc⟩
    split
    · exact ⟨hs, Step.refl _ _⟩
    · rw [hpar]
      dsimp only
      cases hcd : fs.createDirAll cwd par with
      | error err =>
        have hstep : step (fs, none) (fun fs => fs.createDirAll cwd par) = (fs, some (.fs err)) := by
          simp only [step, hcd]
        rw [hstep]
        split <;> exact ⟨hs, Step.refl _ _⟩
      | ok fs1 =>
        have hstep : step (fs, none) (fun fs => fs.createDirAll cwd par) = (fs1, none) := by
          simp only [step, hcd]
        rw [hstep]
        have ⟨s1, t1, m1⟩ := createDirAll_confined ho.nodd hpa hpc hs hlp hcd
        have hli1 := hli.mono m1 _ _
        have hnl : isLinkAt fs cwd (joinP outDir e.name) = false →
            NotLink fs1 (cwd ++ [d] ++ (init ++ [last])) := fun h =>
          m1 _ (isLinkAt_false ho.nodd hja hjc hs (nodd_snoc hdd hlast) h)
        split
        · have := tail_file e.content pc s1 hli1 (isLinkAt fs cwd (joinP outDir e.name)) hnl
          exact ⟨this.1, t1.trans this.2⟩
        · have := tail_dir pc s1 hli1 (isLinkAt fs cwd (joinP outDir e.name)) hnl
          exact ⟨this.1, t1.trans this.2⟩
        · have := tail_symlink e.content pc s1 hli1
            (fun f => ow && (f.existsP cwd (joinP outDir e.name) || isLinkAt fs cwd (joinP outDir e.name)))
          exact ⟨this.1, t1.trans this.2⟩
        · dsimp only
          split
          · exact ⟨s1, t1⟩
          · rename_i hc2
            have hc2' : confined fs1 cwd outDir
                ((parentP (joinP ((parentP e.name).getD []) e.content)).getD []) = true := by simpa using hc2
            split
            · exact ⟨s1, t1⟩
            · rename_i hnf
              obtain ⟨ss, sc, hsc, hoa, hoc, hsl⟩ := src_shape ho s1 hc2' (by simpa using hnf)
              have := tail_hard pc s1 hli1 hsc hoa hoc hsl
                (fun f => ow && (f.existsP cwd (joinP outDir e.name) || isLinkAt fs cwd (joinP outDir e.name)))
              exact ⟨this.1, t1.trans this.2⟩

theorem resolve_nil_pos (fs : Fs) (fl : Bool) (fuel : Nat) (cur : Path) (h : 0 < fuel) :
    resolve fs fl fuel cur [] = some cur := by
  cases fuel with
  | zero => cases h
  | succ f => simp [resolve]

/-- a name without components designates the output directory (or the root): it exists -/
theorem existsP_nocomps {fs : Fs} {cwd : Path} {outDir d name : Bytes} (ho : OutDir outDir d)
    (hs : Sane fs (cwd ++ [d])) (hc : comps name = []) : fs.existsP cwd (joinP outDir name) = true := by
  unfold Fs.existsP
  cases ha : isAbs name with
  | true =>
    rw [joinP_abs _ _ ha]
    simp only [ha, hc, if_true, fuelFor_succ]
    rw [resolve_nil_pos _ _ _ _ (by omega)]
    simp [Fs.lookup]
  | false =>
    have ⟨hja, hjc⟩ := ho.comps_join name ha
    rw [hc] at hjc
    simp only [hja, hjc, Bool.false_eq_true, if_false, fuelFor_succ]
    rw [resolve_step_dir ho.nodd hs.odir, resolve_nil_pos _ _ _ _ (by omega)]
    simp [hs.odir]

/-- without `--overwrite`, an entry whose name has no components changes nothing -/
theorem extractEntry_nocomps (cwd : Path) (outDir d : Bytes) (fs : Fs) (e : XEntry)
    (ho : OutDir outDir d) (hs : Sane fs (cwd ++ [d])) (hc : comps e.name = []) :
    (extractEntry false cwd outDir fs e).1 = fs := by
  unfold extractEntry
  dsimp only
  split
  · rfl
  · split
    · rfl
    · rename_i h
      simp [existsP_nocomps ho hs hc] at h

/-- the hypothesis on entry names: no `..` component, and a file name unless `--overwrite` is off -/
def NameOkW (ow : Bool) (name : Bytes) : Prop := [dot, dot] ∉ comps name ∧ (comps name ≠ [] ∨ ow = false)

instance (ow : Bool) (name : Bytes) : Decidable (NameOkW ow name) := inferInstanceAs (Decidable (_ ∧ _))

theorem extractEntry_goodW (ow : Bool) (cwd : Path) (outDir d : Bytes) (fs : Fs) (e : XEntry)
    (ho : OutDir outDir d) (hs : Sane fs (cwd ++ [d])) (hn : NameOkW ow e.name) :
    Sane (extractEntry ow cwd outDir fs e).1 (cwd ++ [d]) ∧
      Step (cwd ++ [d]) fs (extractEntry ow cwd outDir fs e).1 := by
  by_cases hc : comps e.name = []
  · rcases hn.2 with h | h
    · exact absurd hc h
    · subst h
      rw [extractEntry_nocomps cwd outDir d fs e ho hs hc]
      exact ⟨hs, Step.refl _ _⟩
  · exact extractEntry_good ow cwd outDir d fs e ho hs ⟨hc, hn.1⟩

section loop
variable {O : Path} {one : Fs → XEntry → Fs × Option XErr} {P : XEntry → Prop}

theorem scan_good (h1 : ∀ fs e, P e → Sane fs O → Sane (one fs e).1 O ∧ Step O fs (one fs e).1) :
    ∀ (es : List XEntry) (fs : Fs) (err : Option XErr), (∀ e ∈ es, P e) → Sane fs O →
      Sane (extractAllWith.scan one fs err es).1 O ∧ Step O fs (extractAllWith.scan one fs err es).1 := by
  intro es
  induction es with
  | nil => intro fs err _ hs; exact ⟨hs, Step.refl _ _⟩
  | cons e rest ih =>
    intro fs err hp hs
    have ⟨s1, t1⟩ := h1 fs e (hp e (by simp)) hs
    have hr : ∀ x ∈ rest, P x := fun x hx => hp x (by simp [hx])
    unfold extractAllWith.scan
    split
    · rename_i fs' he
      rw [he] at s1 t1
      have ⟨s2, t2⟩ := ih fs' err hr s1
      exact ⟨s2, t1.trans t2⟩
    · rename_i fs' x he
      rw [he] at s1 t1
      have ⟨s2, t2⟩ := ih fs' (err.orElse fun _ => some x) hr s1
      exact ⟨s2, t1.trans t2⟩

theorem links_good (h1 : ∀ fs e, P e → Sane fs O → Sane (one fs e).1 O ∧ Step O fs (one fs e).1) :
    ∀ (es : List XEntry) (fs : Fs), (∀ e ∈ es, P e) → Sane fs O →
      Sane (extractAllWith.links one fs es).1 O ∧ Step O fs (extractAllWith.links one fs es).1 := by
  intro es
  induction es with
  | nil => intro fs _ hs; exact ⟨hs, Step.refl _ _⟩
  | cons e rest ih =>
    intro fs hp hs
    have ⟨s1, t1⟩ := h1 fs e (hp e (by simp)) hs
    have hr : ∀ x ∈ rest, P x := fun x hx => hp x (by simp [hx])
    unfold extractAllWith.links
    split
    · rename_i fs' he
      rw [he] at s1 t1
      have ⟨s2, t2⟩ := ih fs' hr s1
      exact ⟨s2, t1.trans t2⟩
    · rename_i fs' x he
      rw [he] at s1 t1
      exact ⟨s1, t1⟩
end loop

theorem extractAll_good (ow : Bool) (cwd : Path) (outDir d : Bytes) (fs : Fs) (es : List XEntry)
    (ho : OutDir outDir d) (hs : Sane fs (cwd ++ [d])) (hn : ∀ e ∈ es, NameOkW ow e.name) :
    Sane (extractAll ow cwd outDir fs es).1 (cwd ++ [d]) ∧
      Step (cwd ++ [d]) fs (extractAll ow cwd outDir fs es).1 := by
  have h1 : ∀ fs e, NameOkW ow e.name → Sane fs (cwd ++ [d]) →
      Sane (extractEntry ow cwd outDir fs e).1 (cwd ++ [d]) ∧
      Step (cwd ++ [d]) fs (extractEntry ow cwd outDir fs e).1 :=
    fun fs e hp hs => extractEntry_goodW ow cwd outDir d fs e ho hs hp
  have hA : ∀ e ∈ es.filter (·.kind ≠ 3), NameOkW ow e.name := fun e he => hn e (List.mem_filter.1 he).1
  have hB : ∀ e ∈ es.filter (·.kind = 3), NameOkW ow e.name := fun e he => hn e (List.mem_filter.1 he).1
  have ⟨s1, t1⟩ := scan_good (P := fun e => NameOkW ow e.name) h1 _ fs none hA hs
  unfold extractAll extractAllWith
  split
  · rename_i fs' x he
    rw [he] at s1 t1; exact ⟨s1, t1⟩
  · rename_i fs' he
    rw [he] at s1 t1
    have ⟨s2, t2⟩ := links_good (P := fun e => NameOkW ow e.name) h1 _ fs' hB s1
    exact ⟨s2, t1.trans t2⟩

theorem filter_via_outside (O : Path) (l : List (Path × Node)) (p : Path × Node → Bool)
    (h : ∀ x ∈ l, p x = true → ¬ Inside O x.1) : l.filter p = (l.filter (outB O)).filter p := by
  rw [List.filter_filter]
  apply List.filter_congr
  intro x hx
  cases hp : p x with
  | false => simp
  | true => simp [(outB_iff O x).2 (h x hx hp)]

/-- the directory entries referencing an inode that is referenced from outside `O` are the same
    (so its link count is unchanged) -/
theorem OutsideSame.links_same {O : Path} {fs fs' : Fs} (h : OutsideSame O fs fs') (hs : Sane fs O)
    (n : Path × Node) (hn : n ∈ fs.nodes) (ho : ¬ Inside O n.1) (ino : Nat) (hi : n.2 = .file ino) :
    fs'.nodes.filter (·.2 == .file ino) = fs.nodes.filter (·.2 == .file ino) := by
  rw [filter_via_outside O fs'.nodes _ (fun x hx hp hin => h.nolink n hn ho ino hi x hx hin (by simpa using hp)),
    filter_via_outside O fs.nodes _ (fun x hx hp hin => hs.sep x hx n hn ino (by simpa using hp) hi hin ho),
    h.nodes]

/-- sanitised entry names (`EntryName`) satisfy the hypothesis, the empty name only without `--overwrite` -/
theorem sanitize_nameOkW (ow : Bool) (raw : Bytes) (h : sanitize raw ≠ [] ∨ ow = false) :
    NameOkW ow (sanitize raw) := by
  rcases sanitize_components raw with he | ⟨_, hall⟩
  · rw [he]
    refine ⟨by decide, ?_⟩
    rcases h with h | h
    · exact absurd he h
    · exact Or.inr h
  · have hc : comps (sanitize raw) = splitSlash (sanitize raw) := by
      unfold comps
      apply List.filter_eq_self.2
      intro c hc
      have := hall c hc
      simp [this.1, this.2.1]
    rw [NameOkW, hc]
    exact ⟨fun hm => (hall _ hm).2.2.1 rfl, Or.inl (splitSlash_ne_nil _)⟩

end Pna.Confined
