import PnaVerif.Lemmas.ArchiveRt
import PnaVerif.Lemmas.Multipart
import PnaVerif.Model.Cli.Concat
/-!
  What `raw_entries()` hands out and what it keeps back (property C13, raw copy).

  * `groupItems_partition`, `groupItems_partition_aend`   grouping never drops or reorders a chunk: every chunk
                                that is not ANXT is in an item or in the carry buffer, in order; after AEND nothing
                                is looked at
  * `openTail`, `closedPart`    the chunks after the last FEND/SEND of a chunk list, and the chunks up to it
  * `groupItems_carry_spec`     the carry buffer is the open tail (stated for any decomposition `pre ++ tail`)
  * `archiveBytes`              signature, AHED(number n), any chunks, AEND
  * `rawAcross_archiveBytes`    `pna concat`'s walk over such an archive: the grouped items, ok
-/
namespace Pna
open ChunkType

-- ---------------------------------------------------------------- nothing is dropped, nothing reordered

/-- **Grouping never drops or reorders a chunk** (no AEND in the input): the items, flattened, followed by the
    open item are the carry buffer followed by the input without its ANXT chunks; the end flag stays down. -/
theorem groupItems_partition_proj (cs : List Chunk) (hno : ∀ c ∈ cs, c.ty ≠ ChunkType.AEND) :
    ∀ (cur : List Chunk) (nx : Bool),
      (groupItems cur nx cs).2.2.2 = false ∧
      (groupItems cur nx cs).1.flatten ++ (groupItems cur nx cs).2.1
        = cur ++ cs.filter (fun c => decide (c.ty ≠ ChunkType.ANXT)) := by
  induction cs with
  | nil => intro cur nx; simp [groupItems_nil]
  | cons c cs ih =>
    intro cur nx
    have hno2 : ∀ d ∈ cs, d.ty ≠ ChunkType.AEND := fun d hd => hno d (List.mem_cons_of_mem _ hd)
    have hc : c.ty ≠ ChunkType.AEND := hno c List.mem_cons_self
    by_cases h1 : c.ty = FEND ∨ c.ty = SEND
    · have hnx : c.ty ≠ ChunkType.ANXT := by
        rcases h1 with h | h <;> rw [h] <;> decide
      obtain ⟨i1, i2⟩ := ih hno2 [] nx
      rw [groupItems_close _ _ _ _ h1]
      refine ⟨i1, ?_⟩
      simp only [List.flatten_cons, List.append_assoc]
      rw [i2, List.filter_cons_of_pos (by simpa using hnx)]
      simp
    · by_cases h2 : c.ty = ANXT
      · obtain ⟨i1, i2⟩ := ih hno2 cur true
        rw [groupItems, if_neg h1, if_pos h2]
        refine ⟨i1, ?_⟩
        rw [i2, List.filter_cons_of_neg (by simpa using h2)]
      · obtain ⟨i1, i2⟩ := ih hno2 (cur ++ [c]) nx
        rw [groupItems, if_neg h1, if_neg h2, if_neg hc]
        refine ⟨i1, ?_⟩
        rw [i2, List.filter_cons_of_pos (by simpa using h2)]
        simp

/-- what `groupItems` returns when it meets AEND first -/
theorem groupItems_at_aend (cur : List Chunk) (nx : Bool) (a : Chunk) (post : List Chunk)
    (ha : a.ty = ChunkType.AEND) : groupItems cur nx (a :: post) = ([], cur, nx, true) := by
  rw [groupItems, if_neg (by rw [ha]; decide), if_neg (by rw [ha]; decide), if_pos ha]

/-- grouping a list that holds an AEND chunk: the grouping of what precedes it, with the end flag up; what
    follows AEND is never looked at -/
theorem groupItems_upto_aend (pre : List Chunk) (a : Chunk) (post : List Chunk)
    (hpre : ∀ c ∈ pre, c.ty ≠ ChunkType.AEND) (ha : a.ty = ChunkType.AEND) (cur : List Chunk) (nx : Bool) :
    groupItems cur nx (pre ++ [a] ++ post)
      = ((groupItems cur nx pre).1, (groupItems cur nx pre).2.1, (groupItems cur nx pre).2.2.1, true) := by
  rw [List.append_assoc, groupItems_append_proj pre ([a] ++ post) hpre cur nx, List.singleton_append,
    groupItems_at_aend _ _ a post ha]
  simp

-- ---------------------------------------------------------------- the open tail

/-- FEND or SEND: the chunk that closes a raw item -/
def isEnd (c : Chunk) : Bool := decide (c.ty = ChunkType.FEND ∨ c.ty = ChunkType.SEND)

theorem isEnd_iff (c : Chunk) : isEnd c = true ↔ (c.ty = ChunkType.FEND ∨ c.ty = ChunkType.SEND) := by
  simp [isEnd]

/-- the chunks after the last FEND/SEND chunk (all chunks when there is none) -/
def openTail (cs : List Chunk) : List Chunk := (cs.reverse.takeWhile (fun c => !isEnd c)).reverse

/-- the chunks up to and including the last FEND/SEND chunk (none when there is none) -/
def closedPart (cs : List Chunk) : List Chunk := (cs.reverse.dropWhile (fun c => !isEnd c)).reverse

theorem takeWhile_mem_true {α : Type} (p : α → Bool) : ∀ (l : List α) (a : α), a ∈ l.takeWhile p → p a = true
  | [], a, h => by simp at h
  | b :: l, a, h => by
    by_cases hb : p b = true
    · rw [List.takeWhile_cons_of_pos hb] at h
      rcases List.mem_cons.mp h with rfl | h
      · exact hb
      · exact takeWhile_mem_true p l a h
    · rw [List.takeWhile_cons_of_neg hb] at h
      simp at h

theorem closedPart_append_openTail (cs : List Chunk) : closedPart cs ++ openTail cs = cs := by
  unfold closedPart openTail
  rw [← List.reverse_append, List.takeWhile_append_dropWhile, List.reverse_reverse]

theorem openTail_no_end (cs : List Chunk) : ∀ c ∈ openTail cs, ¬ (c.ty = ChunkType.FEND ∨ c.ty = ChunkType.SEND) := by
  intro c hc
  unfold openTail at hc
  rw [List.mem_reverse] at hc
  have := takeWhile_mem_true _ _ _ hc
  intro h
  rw [(isEnd_iff c).mpr h] at this
  exact absurd this (by decide)

theorem closedPart_ends (cs : List Chunk) :
    closedPart cs = [] ∨ ∃ p e, closedPart cs = p ++ [e] ∧ (e.ty = ChunkType.FEND ∨ e.ty = ChunkType.SEND) := by
  unfold closedPart
  cases h : cs.reverse.dropWhile (fun c => !isEnd c) with
  | nil => exact Or.inl rfl
  | cons e l =>
    refine Or.inr ⟨l.reverse, e, by simp, ?_⟩
    have := List.head_dropWhile_not (fun c => !isEnd c) (l := cs.reverse) (by rw [h]; simp)
    simp only [h, List.head_cons] at this
    exact (isEnd_iff e).mp (by simpa using this)

/-- the decomposition is unique: `openTail` is THE end-free suffix preceded by nothing or by FEND/SEND -/
theorem openTail_unique (pre tail : List Chunk)
    (ht : ∀ c ∈ tail, ¬ (c.ty = ChunkType.FEND ∨ c.ty = ChunkType.SEND))
    (hp : pre = [] ∨ ∃ p e, pre = p ++ [e] ∧ (e.ty = ChunkType.FEND ∨ e.ty = ChunkType.SEND)) :
    openTail (pre ++ tail) = tail ∧ closedPart (pre ++ tail) = pre := by
  have htw : ∀ c ∈ tail.reverse, (fun c => !isEnd c) c = true := by
    intro c hc
    have := ht c (List.mem_reverse.mp hc)
    cases h : isEnd c with
    | false => simp [h]
    | true => exact absurd ((isEnd_iff c).mp h) this
  unfold openTail closedPart
  rw [List.reverse_append]
  rcases hp with rfl | ⟨p, e, rfl, he⟩
  · simp only [List.reverse_nil, List.append_nil]
    have e1 := List.takeWhile_append_of_pos (l₂ := []) htw
    have e2 := List.dropWhile_append_of_pos (l₂ := []) htw
    rw [List.append_nil] at e1 e2
    rw [e1, e2]
    simp
  · have he2 : (fun c => !isEnd c) e = false := by simp [(isEnd_iff e).mpr he]
    rw [List.reverse_append, List.reverse_singleton, List.singleton_append]
    rw [List.takeWhile_append_of_pos htw, List.dropWhile_append_of_pos htw]
    rw [List.takeWhile_cons_of_neg (by simp [he2]), List.dropWhile_cons_of_neg (by simp [he2])]
    simp

-- ---------------------------------------------------------------- the carry buffer is the open tail

/-- after a list that ends with FEND/SEND nothing is open -/
theorem groupItems_closed_carry (p : List Chunk) (e : Chunk) (hp : ∀ c ∈ p, c.ty ≠ ChunkType.AEND)
    (he : e.ty = ChunkType.FEND ∨ e.ty = ChunkType.SEND) (cur : List Chunk) (nx : Bool) :
    (groupItems cur nx (p ++ [e])).2.1 = [] := by
  rw [groupItems_append_proj p [e] hp cur nx, groupItems_close _ _ _ _ he]
  rfl

/-- **The carry buffer is the open tail**: for a chunk list without AEND and ANXT, written as `pre ++ tail` where
    `tail` holds no FEND/SEND and `pre` is empty or ends with FEND/SEND, grouping from an empty buffer leaves
    exactly `tail` open, and the items are exactly `pre`, cut after every FEND/SEND. -/
theorem groupItems_carry_spec (pre tail : List Chunk) (hno : NoPartMarkers (pre ++ tail))
    (ht : ∀ c ∈ tail, ¬ (c.ty = ChunkType.FEND ∨ c.ty = ChunkType.SEND))
    (hp : pre = [] ∨ ∃ p e, pre = p ++ [e] ∧ (e.ty = ChunkType.FEND ∨ e.ty = ChunkType.SEND)) (nx : Bool) :
    (groupItems [] nx (pre ++ tail)).2.1 = tail ∧ (groupItems [] nx (pre ++ tail)).1.flatten = pre := by
  have hnm : NoMarkers tail := fun c hc =>
    ⟨fun h => ht c hc (Or.inl h), fun h => ht c hc (Or.inr h), (hno.right c hc).1, (hno.right c hc).2⟩
  have hcarry : (groupItems [] nx (pre ++ tail)).2.1 = tail := by
    rw [groupItems_append_proj pre tail (fun c hc => (hno.left c hc).2) [] nx]
    have eb := groupItems_body tail hnm (groupItems [] nx pre).2.1 (groupItems [] nx pre).2.2.1 []
    rw [List.append_nil] at eb
    rw [eb, groupItems_nil]
    show (groupItems [] nx pre).2.1 ++ tail = tail
    rcases hp with rfl | ⟨p, e, rfl, he⟩
    · rfl
    · rw [groupItems_closed_carry p e (fun c hc => (hno.left.left c hc).2) he]
      rfl
  refine ⟨hcarry, ?_⟩
  have h := (groupItems_partition_proj (pre ++ tail) (fun c hc => (hno c hc).2) [] nx).2
  rw [hcarry, List.nil_append, List.filter_eq_self.mpr (by intro c hc; simpa using (hno c hc).1)] at h
  exact List.append_cancel_right h

theorem groupItems_carry_openTail (cs : List Chunk) (hno : NoPartMarkers cs) (nx : Bool) :
    (groupItems [] nx cs).2.1 = openTail cs ∧ (groupItems [] nx cs).1.flatten = closedPart cs := by
  have h := groupItems_carry_spec (closedPart cs) (openTail cs) (by rw [closedPart_append_openTail]; exact hno)
    (openTail_no_end cs) (closedPart_ends cs) nx
  rw [closedPart_append_openTail] at h
  exact h

/-- every item `groupItems` hands out is closed by FEND/SEND and holds no other FEND/SEND: the items are
    determined by their concatenation -/
theorem groupItems_items_closed (cs : List Chunk) : ∀ (cur : List Chunk) (nx : Bool),
    (∀ c ∈ cur, ¬ (c.ty = ChunkType.FEND ∨ c.ty = ChunkType.SEND)) →
    ∀ it ∈ (groupItems cur nx cs).1, ∃ b e, it = b ++ [e] ∧ (e.ty = ChunkType.FEND ∨ e.ty = ChunkType.SEND) ∧
      ∀ c ∈ b, ¬ (c.ty = ChunkType.FEND ∨ c.ty = ChunkType.SEND) := by
  induction cs with
  | nil => intro cur nx _ it hit; simp [groupItems_nil] at hit
  | cons c cs ih =>
    intro cur nx hcur it hit
    by_cases h1 : c.ty = FEND ∨ c.ty = SEND
    · rw [groupItems_close _ _ _ _ h1] at hit
      rcases List.mem_cons.mp hit with rfl | hit
      · exact ⟨cur, c, rfl, h1, hcur⟩
      · exact ih [] nx (fun _ h => absurd h List.not_mem_nil) it hit
    · rw [groupItems, if_neg h1] at hit
      split at hit
      · exact ih cur true hcur it hit
      · split at hit
        · simp at hit
        · refine ih (cur ++ [c]) nx ?_ it hit
          intro d hd
          rcases List.mem_append.mp hd with hd | hd
          · exact hcur d hd
          · rw [List.mem_singleton.mp hd]; exact h1

-- ---------------------------------------------------------------- an archive holding ANY chunks

/-- signature, AHED with part number `n`, the chunks `body` (any types), AEND -/
def archiveBytes (n : Nat) (body : List Chunk) : Bytes :=
  signature ++ encodeChunks ([⟨ChunkType.AHED, encAHED ⟨0, 0, n⟩⟩] ++ body ++ [⟨ChunkType.AEND, []⟩])

theorem encodeArchive_eq_archiveBytes (n : Nat) (items : List (List Chunk)) :
    encodeArchive n items false = archiveBytes n items.flatten := by
  simp [encodeArchive, archiveBytes]

/-- the tokeniser on such an archive: exactly the written chunks -/
theorem chunksStream_archiveBytes (n : Nat) (body : List Chunk) (hfit : ChunksFit body)
    (hno : ∀ c ∈ body, c.ty ≠ ChunkType.AEND) :
    chunksStream (archiveBytes n body)
      = (⟨ChunkType.AHED, encAHED ⟨0, 0, n⟩⟩ :: (body ++ [⟨ChunkType.AEND, []⟩]), .ok ()) := by
  have h := chunksStream_encode ([⟨ChunkType.AHED, encAHED ⟨0, 0, n⟩⟩] ++ body) [] ?_ ?_
  · unfold archiveBytes
    rw [encodeChunks_append, encodeChunks_singleton, ← List.append_assoc]
    rw [List.append_nil] at h
    rw [h]
    simp
  · intro c hc
    rcases List.mem_append.mp hc with hc | hc
    · rw [List.mem_singleton.mp hc]; simp [encAHED_length]
    · exact hfit c hc
  · intro c hc
    rcases List.mem_append.mp hc with hc | hc
    · rw [List.mem_singleton.mp hc]
      show AHED ≠ AEND
      decide
    · exact hno c hc

/-- reading such an archive with a carry buffer: header, raw items, open item and flag are those of the grouping -/
theorem readArchiveWith_archiveBytes (n : Nat) (hn : n < 2 ^ 32) (body : List Chunk) (hfit : ChunksFit body)
    (hno : ∀ c ∈ body, c.ty ≠ ChunkType.AEND) (carry : List Chunk) :
    let r := readArchiveWith chunksStream carry (archiveBytes n body)
    r.header = some ⟨0, 0, n⟩ ∧ r.rawItems = (groupItems carry false body).1 ∧
      r.carry = (groupItems carry false body).2.1 ∧ r.next = (groupItems carry false body).2.2.1 := by
  intro r
  have hr : r = readArchiveWith chunksStream carry (archiveBytes n body) := rfl
  unfold readArchiveWith at hr
  rw [chunksStream_archiveBytes n body hfit hno] at hr
  simp only at hr
  rw [if_neg (by simp), decAHED_encAHED ⟨0, 0, n⟩ (show (0 : Nat) < 256 by decide) (show (0 : Nat) < 256 by decide) hn]
    at hr
  simp only at hr
  have e := groupItems_upto_aend body ⟨ChunkType.AEND, []⟩ [] hno rfl carry false
  rw [List.append_nil] at e
  rw [e] at hr
  rw [hr]
  exact ⟨rfl, rfl, rfl, rfl⟩

/-- `pna concat`'s walk over ONE archive that holds any chunks but ANXT/AEND: its raw items, then stop -/
theorem rawAcross_archiveBytes (n : Nat) (hn : n < 2 ^ 32) (body : List Chunk) (hfit : ChunksFit body)
    (hno : NoPartMarkers body) (ps : List Bytes) :
    Cli.rawAcross true 0 [] (archiveBytes n body :: ps) = ((groupItems [] false body).1, .ok ()) := by
  have hno2 : ∀ c ∈ body, c.ty ≠ ChunkType.AEND := fun c hc => (hno c hc).2
  obtain ⟨h1, h2, _, h4⟩ := readArchiveWith_archiveBytes n hn body hfit hno2 []
  rw [groupItems_next_eq body (fun c hc => (hno c hc).1)] at h4
  rw [Cli.rawAcross]
  simp only [h1, h2, h4, chunksStream_archiveBytes n body hfit hno2]
  simp

end Pna
