import PnaVerif.Lemmas.Capstone
import PnaVerif.Props.C01
import PnaVerif.Props.C07Solid
/-!
  Glue lemmas for the C01 capstone: the entries the write model builds are well-formed, have no marker chunks
  and fit the 32-bit length field — all derived from the primitive conditions `LFile.WF` / `StreamCfg.OK`.
-/
namespace Pna.Capstone
open Pna ChunkType

-- ---------------------------------------------------------------- configurations

theorem idPerm_lawful : idPerm.Lawful := ⟨fun _ _ _ => rfl, fun _ _ h => h, fun _ _ h => h⟩

theorem plain_ok : plain.OK where
  perm := idPerm_lawful
  comp := C01.store_lawful
  iv := by decide
  phsfUtf8 := validUtf8_nil
  phsfFit := by decide
  codec := by decide
  cipher := Or.inl rfl

theorem validEncryption_cfg (cfg : StreamCfg) (h : cfg.OK) : validEncryption cfg.encryption = true := by
  unfold StreamCfg.encryption
  cases cfg.sel with
  | none => show validEncryption 0 = true; decide
  | cbc => show validEncryption cfg.cipher = true; rcases h.cipher with h | h <;> rw [h] <;> decide
  | ctr => show validEncryption cfg.cipher = true; rcases h.cipher with h | h <;> rw [h] <;> decide

theorem validCipherMode_cfg (cfg : StreamCfg) : validCipherMode cfg.cipherMode = true := by
  unfold StreamCfg.cipherMode
  cases cfg.sel
  · show validCipherMode 0 = true; decide
  · show validCipherMode 0 = true; decide
  · show validCipherMode 1 = true; decide

theorem phsfChunk_valid (cfg : StreamCfg) (h : cfg.OK) : ∀ p, cfg.phsfChunk = some p → validUtf8 p = true := by
  intro p hp
  unfold StreamCfg.phsfChunk at hp
  split at hp
  · cases hp
  · cases hp; exact h.phsfUtf8

theorem phsfChunk_fit (cfg : StreamCfg) (h : cfg.OK) : ∀ p, cfg.phsfChunk = some p → p.length < 2 ^ 32 := by
  intro p hp
  unfold StreamCfg.phsfChunk at hp
  split at hp
  · cases hp
  · cases hp; exact h.phsfFit

/-- whichever writer stored the data, the reader gets the concatenation of the write calls back -/
theorem readData_storedData (s : Sink) (cfg : StreamCfg) (h : cfg.OK) (ws : List Bytes) :
    readData cfg.P cfg.C cfg.sel cfg.key (storedData s cfg ws) = .ok ws.flatten := by
  cases s with
  | builder => exact C01.roundtrip_builder cfg.P h.perm cfg.C h.comp cfg.sel cfg.key cfg.iv h.iv ws
  | stream => exact C01.roundtrip_stream cfg.P h.perm cfg.C h.comp cfg.sel cfg.key cfg.iv h.iv ws

/-- the builder sink stores slices of at most `u32::MAX` bytes (and the 16-byte IV) -/
theorem slicesFit_builder (cfg : StreamCfg) (hiv : cfg.iv.length = 16) (ws : List Bytes) :
    SlicesFit (storedData .builder cfg ws) := by
  have hp := flattenWriter_pieces maxChunkData maxChunkData_pos
    (cipherWrites cfg.P cfg.sel cfg.key cfg.iv (cfg.C.comp ws))
  have hm : maxChunkData < 2 ^ 32 := by decide
  have hst : ∀ d ∈ flattenWriter maxChunkData (cipherWrites cfg.P cfg.sel cfg.key cfg.iv (cfg.C.comp ws)),
      d.length < 2 ^ 32 := fun d hd => Nat.lt_of_le_of_lt (hp d hd).2 hm
  intro d hd
  simp only [storedData, buildData] at hd
  cases hs : cfg.sel with
  | none => rw [hs] at hd hst; exact hst d hd
  | cbc =>
    rw [hs] at hd hst
    rcases List.mem_cons.mp hd with rfl | hd
    · rw [hiv]; decide
    · exact hst d hd
  | ctr =>
    rw [hs] at hd hst
    rcases List.mem_cons.mp hd with rfl | hd
    · rw [hiv]; decide
    · exact hst d hd

-- ---------------------------------------------------------------- normal entries

/-- the entry built for a well-formed file under a good configuration is well-formed -/
theorem buildNormalW_WF (s : Sink) (cfg : StreamCfg) (hc : cfg.OK) (f : LFile) (hf : f.WF) :
    (buildNormalW s cfg f).WF :=
  ⟨rfl, rfl, hf.kind, hc.codec, validEncryption_cfg cfg hc, validCipherMode_cfg cfg, hf.nameUtf8, hf.nameSan,
    hf.extraUn, phsfChunk_valid cfg hc, hf.rawSize, hf.created, hf.modified, hf.accessed, hf.perm, hf.xattrs⟩

theorem mem_optChunk_data {t : ChunkType} {o : Option Bytes} {c : Chunk} (h : c ∈ optChunk t o) :
    o = some c.data := by
  cases o with
  | none => simp [optChunk] at h
  | some d => simp [optChunk] at h; rw [h]

theorem encFSIZ_length_le (n : Nat) : (encFSIZ n).length ≤ 16 := by
  have := dropLeadingZeros_length_le (be128 n)
  have h16 : (be128 n).length = 16 := beN_length 16 n
  unfold encFSIZ
  omega

theorem encTime_length (n : Nat) : (encTime n).length = 8 := be64_length n

theorem encFPRM_length (p : Permission) : (encFPRM p).length = 20 + p.uname.length + p.gname.length := by
  simp [encFPRM]
  omega

theorem encXATR_length (x : XAttr) : (encXATR x).length = x.name.length + x.value.length + 8 := by
  simp [encXATR]
  omega

theorem encFHED_length (h : EntryHeader) : (encFHED h).length = h.name.length + 6 := by
  simp [encFHED]

/-- every chunk of the serialised entry fits the 32-bit length field -/
theorem buildNormalW_fit (s : Sink) (cfg : StreamCfg) (hc : cfg.OK) (f : LFile) (hf : f.WF) :
    ChunksFit (serN (buildNormalW s cfg f)) := by
  intro c hc'
  simp only [serN, List.mem_append, List.mem_singleton, List.mem_flatMap, List.mem_map] at hc'
  rcases hc' with ((((((((((hc' | hc') | hc') | hc') | hc') | hc') | hc') | hc') | hc') | hc') | hc')
  · rw [hc']; show (encFHED _).length < 2 ^ 32
    rw [encFHED_length]; exact hf.nameFit
  · exact hf.extraFit c hc'
  · have := mem_optChunk_data hc'
    cases hr : (buildNormalW s cfg f).md.rawSize with
    | none => rw [hr] at this; simp at this
    | some n =>
      rw [hr] at this
      simp only [Option.map_some, Option.some.injEq] at this
      rw [← this]
      have := encFSIZ_length_le n
      omega
  · exact phsfChunk_fit cfg hc _ (mem_optChunk_data hc')
  · obtain ⟨d, _, u, hu, rfl⟩ := hc'
    have := (rustChunks_pieces maxChunkData maxChunkData_pos d u hu).2
    have hm : maxChunkData < 2 ^ 32 := by decide
    exact Nat.lt_of_le_of_lt this hm
  · have := mem_optChunk_data hc'
    cases hr : (buildNormalW s cfg f).md.created with
    | none => rw [hr] at this; simp at this
    | some n =>
      rw [hr] at this
      simp only [Option.map_some, Option.some.injEq] at this
      rw [← this, encTime_length]; decide
  · have := mem_optChunk_data hc'
    cases hr : (buildNormalW s cfg f).md.modified with
    | none => rw [hr] at this; simp at this
    | some n =>
      rw [hr] at this
      simp only [Option.map_some, Option.some.injEq] at this
      rw [← this, encTime_length]; decide
  · have := mem_optChunk_data hc'
    cases hr : (buildNormalW s cfg f).md.accessed with
    | none => rw [hr] at this; simp at this
    | some n =>
      rw [hr] at this
      simp only [Option.map_some, Option.some.injEq] at this
      rw [← this, encTime_length]; decide
  · have := mem_optChunk_data hc'
    cases hr : (buildNormalW s cfg f).md.permission with
    | none => rw [hr] at this; simp at this
    | some p =>
      rw [hr] at this
      simp only [Option.map_some, Option.some.injEq] at this
      obtain ⟨_, _, _, h4, h5, _, _⟩ := hf.perm p hr
      rw [← this, encFPRM_length]
      omega
  · obtain ⟨x, hx, rfl⟩ := hc'
    show (encXATR x).length < 2 ^ 32
    rw [encXATR_length]
    exact hf.xattrsFit x hx
  · rw [hc']; decide

/-- opening the entry that comes back from the archive reader (data re-cut at `u32::MAX`) gives the file back -/
theorem openEntry_recut (s : Sink) (cfg : StreamCfg) (hc : cfg.OK) (f : LFile) :
    openEntry cfg (buildNormalW s cfg f).recut = .ok f.out := by
  have hd : openNormal cfg (buildNormalW s cfg f).recut = .ok f.writes.flatten := by
    unfold openNormal
    rw [C01.readData_recut cfg.P cfg.C cfg.sel cfg.key _ (buildNormalW s cfg f).data
      (recut_meaning (buildNormalW s cfg f)).2.2.2.2.2]
    exact readData_storedData s cfg hc f.writes
  unfold openEntry
  rw [hd]
  rfl

-- ---------------------------------------------------------------- solid blocks

theorem buildSolidW_WF (s : Sink) (cfg : StreamCfg) (hc : cfg.OK) (fs : List LFile) :
    (buildSolidW s cfg fs).WF := by
  refine ⟨(by decide : (0 : Nat) < 256), (by decide : (0 : Nat) < 256), hc.codec, validEncryption_cfg cfg hc,
    validCipherMode_cfg cfg, ?_, phsfChunk_valid cfg hc⟩
  intro c h
  exact absurd h List.not_mem_nil

theorem buildSolidW_fit (s : Sink) (cfg : StreamCfg) (hc : cfg.OK) (fs : List LFile)
    (hfit : SlicesFit (storedData s cfg [innerStream fs])) :
    ChunksFit (serS (buildSolidW s cfg fs)) := by
  intro c hc'
  simp only [serS, List.mem_append, List.mem_singleton, List.mem_map] at hc'
  rcases hc' with (((hc' | hc') | hc') | hc') | hc'
  · rw [hc']; show (encSHED _).length < 2 ^ 32
    simp [encSHED]
  · exact absurd hc' List.not_mem_nil
  · exact phsfChunk_fit cfg hc _ (mem_optChunk_data hc')
  · obtain ⟨d, hd, rfl⟩ := hc'
    exact hfit d hd
  · rw [hc']; decide

/-- expanding the block that was written yields its files' entries, built plain, data re-cut -/
theorem expandSolid_buildSolidW (s : Sink) (cfg : StreamCfg) (hc : cfg.OK) (fs : List LFile)
    (hf : ∀ f ∈ fs, f.WF) :
    expandSolid cfg (buildSolidW s cfg fs) = fs.map (fun f => .ok (buildNormal plain f).recut) := by
  have hr : readData cfg.P cfg.C cfg.sel cfg.key (buildSolidW s cfg fs).data = .ok (innerStream fs) := by
    have := readData_storedData s cfg hc [innerStream fs]
    rw [List.flatten_singleton] at this
    exact this
  unfold expandSolid
  rw [hr]
  simp only [innerStream]
  rw [C07S.solid_roundtrip (fs.map (buildNormal plain))
    (by
      intro e he
      obtain ⟨f, hfm, rfl⟩ := List.mem_map.mp he
      exact buildNormalW_WF .builder plain plain_ok f (hf f hfm))
    (by
      intro e he
      obtain ⟨f, hfm, rfl⟩ := List.mem_map.mp he
      exact buildNormalW_fit .builder plain plain_ok f (hf f hfm))]
  rw [List.map_map]
  rfl

/-- reading back one written item with its configuration -/
theorem openReadEntry_item (it : LItem) (hw : it.WF) :
    openReadEntry it.cfg (toReadEntry it).recut = it.files.map (fun f => .ok f.out) := by
  cases it with
  | file s cfg f =>
    show [openEntry cfg (buildNormalW s cfg f).recut] = [.ok f.out]
    rw [openEntry_recut s cfg hw.1 f]
  | block s cfg fs =>
    obtain ⟨hc, hf, _⟩ := hw
    show (expandSolid cfg (buildSolidW s cfg fs)).map _ = fs.map (fun f => Outcome.ok f.out)
    rw [expandSolid_buildSolidW s cfg hc fs hf, List.map_map]
    apply List.map_congr_left
    intro f _
    show openEntry plain (buildNormalW .builder plain f).recut = .ok f.out
    exact openEntry_recut .builder plain plain_ok f

-- ---------------------------------------------------------------- archives

/-- `LItem.WF` from its parts; the slice condition only concerns blocks -/
theorem LItem.WF_intro (it : LItem) (hc : it.cfg.OK) (hf : ∀ f ∈ it.files, f.WF)
    (hfit : ∀ s cfg fs, it = .block s cfg fs → SlicesFit (storedData s cfg [innerStream fs])) : it.WF := by
  cases it with
  | file s cfg f => exact ⟨hc, hf f (by simp [LItem.files])⟩
  | block s cfg fs => exact ⟨hc, hf, hfit s cfg fs rfl⟩

/-- with the builder sink (`EntryBuilder`, `SolidEntryBuilder`) nothing is asked of the stored slices -/
theorem LItem.WF_builder (it : LItem) (hs : it.sink = .builder) (hc : it.cfg.OK) (hf : ∀ f ∈ it.files, f.WF) :
    it.WF := by
  apply LItem.WF_intro it hc hf
  intro s cfg fs h
  subst h
  have : s = .builder := hs
  subst this
  exact slicesFit_builder cfg hc.iv _

/-- the three hypotheses of `readArchive_encode`, from the primitive conditions -/
theorem toReadEntry_WF (it : LItem) (hw : it.WF) : (toReadEntry it).WF := by
  cases it with
  | file s cfg f => exact buildNormalW_WF s cfg hw.1 f hw.2
  | block s cfg fs => exact buildSolidW_WF s cfg hw.1 fs

theorem toReadEntry_noMarkers (it : LItem) (hw : it.WF) : NoMarkers (toReadEntry it).extra := by
  cases it with
  | file s cfg f => exact hw.2.extraNM
  | block s cfg fs => intro c h; exact absurd h List.not_mem_nil

theorem toReadEntry_fit (it : LItem) (hw : it.WF) : ChunksFit (serEntry (toReadEntry it)) := by
  cases it with
  | file s cfg f => exact buildNormalW_fit s cfg hw.1 f hw.2
  | block s cfg fs => exact buildSolidW_fit s cfg hw.1 fs hw.2.2

theorem items_fit (items : List LItem) (hw : ∀ it ∈ items, it.WF) :
    ChunksFit ((items.map toReadEntry).flatMap serEntry) := by
  intro c hc
  obtain ⟨e, he, hce⟩ := List.mem_flatMap.mp hc
  obtain ⟨it, hit, rfl⟩ := List.mem_map.mp he
  exact toReadEntry_fit it (hw it hit) c hce

/-- opening, in order and each with the configuration it was written with, the entries that come back -/
theorem openAll_items (items : List LItem) (hw : ∀ it ∈ items, it.WF) (cfgOf : Nat → StreamCfg)
    (hcfg : ∀ i (h : i < items.length), cfgOf i = items[i].cfg) :
    openAll cfgOf ((items.map toReadEntry).map ReadEntry.recut)
      = (items.flatMap LItem.files).map (fun f => .ok f.out) := by
  induction items generalizing cfgOf with
  | nil => rfl
  | cons it items ih =>
    have h0 : cfgOf 0 = it.cfg := hcfg 0 (by simp)
    have ih' := ih (fun x hx => hw x (by simp [hx])) (fun i => cfgOf (i + 1))
      (by
        intro i hi
        have := hcfg (i + 1) (by simp; omega)
        simpa using this)
    simp only [List.map_cons, openAll, List.flatMap_cons, List.map_append]
    rw [h0, openReadEntry_item it (hw it (by simp)), ih']

/-- the cipher selection is recoverable from the header bytes the writer stores -/
theorem selOfHeader_cfg (cfg : StreamCfg) (h : cfg.OK) : selOfHeader cfg.encryption cfg.cipherMode = cfg.sel := by
  unfold selOfHeader StreamCfg.encryption StreamCfg.cipherMode
  cases cfg.sel with
  | none => rfl
  | cbc => rcases h.cipher with h | h <;> simp [h]
  | ctr => rcases h.cipher with h | h <;> simp [h]

/-- what comes back records the parameters of the configuration it was written with -/
theorem entryParams_item (it : LItem) : entryParams (toReadEntry it).recut = it.cfg.params := by
  cases it <;> rfl

theorem cfgsOf_spec (items : List LItem) : ∀ i (h : i < items.length), cfgsOf items i = items[i].cfg := by
  intro i h
  simp [cfgsOf, h]

end Pna.Capstone
