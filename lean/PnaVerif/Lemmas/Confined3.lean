import PnaVerif.Lemmas.Confined2
/-!
# Confinement (3): the file-system primitives along a link-free lexical path below `O`
-/
namespace Pna.Confined
open Pna Pna.Fs Pna.Cli

theorem below_inside (O w : Path) : Inside O (O ++ w) := List.prefix_append O w

theorem below_ne (O w : Path) (hw : w ≠ []) : O ++ w ≠ O := by
  intro e
  have := congrArg List.length e
  simp at this; exact hw this

/-- `create_dir_all` worker from `O ++ w` along a link-free lexical walk -/
theorem go_confined {O : Path} (hO : O ≠ []) : ∀ (fuel : Nat) (fs : Fs) (w cs : List Bytes) (fs' : Fs),
    Sane fs O → fs.lookup (O ++ w) = some .dir → LexOk fs O w cs →
    Fs.createDirAll.go fs (O ++ w) fuel cs = .ok fs' → Sane fs' O ∧ Step O fs fs' ∧ Mono fs fs' := by
  intro fuel
  induction fuel with
  | zero => intro fs w cs fs' _ _ _ h; simp [Fs.createDirAll.go] at h
  | succ fuel ih =>
    intro fs w cs fs' hs hw hl h
    cases cs with
    | nil =>
      simp [Fs.createDirAll.go] at h
      subst h; exact ⟨hs, Step.refl _ _, Mono.refl _⟩
    | cons c rest =>
      simp only [Fs.createDirAll.go] at h
      unfold LexOk at hl
      split at h
      · rename_i hc
        rw [if_pos hc] at hl
        rw [dropLast_below O w hl.1] at h
        have hne : O ++ w ≠ [] := by simp [hO]
        have hd := hs.closed _ (lookup_mem hne hw)
        simp only [dropLast_below O w hl.1] at hd
        exact ih fs _ rest fs' hs hd hl.2 h
      · rename_i hc
        rw [if_neg hc] at hl
        rw [List.append_assoc] at h
        split at h
        · rename_i hnone
          have hin := below_inside O (w ++ [c])
          have hne := below_ne O (w ++ [c]) (by simp)
          have hpar : fs.lookup (O ++ (w ++ [c])).dropLast = some .dir := by
            rw [← List.append_assoc, List.dropLast_concat]; exact hw
          have ⟨s1, t1⟩ := setNode_new (n := .dir) hs hin hne hnone hpar (fun i hi => by cases hi)
          have hp : O ++ (w ++ [c]) ≠ [] := by simp [hO]
          have m1 : Mono fs (fs.setNode (O ++ (w ++ [c])) .dir) := setNode_new_mono hp (fun t e => by cases e)
          have ⟨s2, t2, m2⟩ := ih _ _ rest fs' s1 (lookup_setNode_eq _ _ _ hp) (hl.2.mono m1 _ _) h
          exact ⟨s2, t1.trans t2, m1.trans m2⟩
        · rename_i hdir
          exact ih fs _ rest fs' hs hdir hl.2 h
        · cases h
        · rename_i t ht; exact absurd ht (hl.1 t)

theorem fuelFor_succ (fs : Fs) : fuelFor fs = (39 + 8 * fs.nodes.length) + 1 := by unfold fuelFor; omega

/-- `create_dir_all s` where `s` spells `O` followed by a link-free lexical walk -/
theorem createDirAll_confined {fs fs' : Fs} {cwd : Path} {d : Bytes} {s : Bytes} {cs : List Bytes}
    (hd : d ≠ [dot, dot]) (habs : isAbs s = false) (hcomps : comps s = d :: cs)
    (hs : Sane fs (cwd ++ [d])) (hl : LexOk fs (cwd ++ [d]) [] cs) (h : fs.createDirAll cwd s = .ok fs') :
    Sane fs' (cwd ++ [d]) ∧ Step (cwd ++ [d]) fs fs' ∧ Mono fs fs' := by
  unfold Fs.createDirAll at h
  simp only [habs, hcomps, fuelFor_succ, Bool.false_eq_true, if_false] at h
  simp only [Fs.createDirAll.go, if_neg hd, hs.odir] at h
  have hO : cwd ++ [d] ≠ [] := by simp
  exact go_confined hO _ fs [] cs fs' hs (by simpa using hs.odir) hl (by simpa using h)

/-- `resolve` of such a string (if it succeeds) is lexical -/
theorem resolve_confined {fs : Fs} {cwd : Path} {d : Bytes} {s : Bytes} {cs : List Bytes} {fl : Bool} {p : Path}
    (hd : d ≠ [dot, dot]) (habs : isAbs s = false) (hcomps : comps s = d :: cs)
    (hs : Sane fs (cwd ++ [d])) (hl : LexOk fs (cwd ++ [d]) [] cs)
    (h : resolve fs fl (fuelFor fs) (if isAbs s then [] else cwd) (comps s) = some p) :
    p = cwd ++ [d] ++ lexEnd [] cs := by
  simp only [habs, hcomps, fuelFor_succ, Bool.false_eq_true, if_false] at h
  rw [resolve_step_dir hd hs.odir] at h
  exact resolve_lex_eq (w := []) hl (by simpa using h)

/-- the same without following the last component, which need not be link-free -/
theorem resolve_confined_last {fs : Fs} {cwd : Path} {d : Bytes} {s : Bytes} {cs : List Bytes} {c : Bytes} {p : Path}
    (hd : d ≠ [dot, dot]) (hc : c ≠ [dot, dot]) (habs : isAbs s = false) (hcomps : comps s = d :: (cs ++ [c]))
    (hs : Sane fs (cwd ++ [d])) (hl : LexOk fs (cwd ++ [d]) [] cs)
    (h : resolve fs false (fuelFor fs) (if isAbs s then [] else cwd) (comps s) = some p) :
    p = cwd ++ [d] ++ lexEnd [] cs ++ [c] := by
  simp only [habs, hcomps, fuelFor_succ, Bool.false_eq_true, if_false] at h
  rw [resolve_step_dir hd hs.odir] at h
  exact resolve_parent_last (w := []) hl hc (by simpa using h)

/-- `File::create s` where `s` spells a link-free lexical walk ending strictly below `O` -/
theorem createFile_confined {fs fs' : Fs} {cwd : Path} {d : Bytes} {s : Bytes} {cs : List Bytes} (content : Bytes)
    (hd : d ≠ [dot, dot]) (habs : isAbs s = false) (hcomps : comps s = d :: cs)
    (hs : Sane fs (cwd ++ [d])) (hl : LexOk fs (cwd ++ [d]) [] cs) (hend : lexEnd [] cs ≠ [])
    (h : fs.createFile cwd s content = .ok fs') :
    Sane fs' (cwd ++ [d]) ∧ Step (cwd ++ [d]) fs fs' ∧ Mono fs fs' := by
  unfold Fs.createFile at h
  split at h
  · cases h
  · rename_i p hr
    have hp := resolve_confined hd habs hcomps hs hl hr
    have hin : Inside (cwd ++ [d]) p := by rw [hp]; exact below_inside _ _
    have hne : p ≠ cwd ++ [d] := by rw [hp]; exact below_ne _ _ hend
    split at h
    · cases h
    · rename_i ino hf
      cases h
      have hpn : p ≠ [] := lookup_file_ne_nil hf
      have hm := lookup_mem hpn hf
      exact setContent_inside ino content hs (fun b hb ho hi => hs.sep _ hm b hb ino rfl hi hin ho)
    · cases h
    · rename_i hnone
      split at h
      · rename_i hpar
        cases h
        exact newFile_inside content hs hin hne hnone hpar
      · cases h

/-- `remove s` (no-follow) where the parent walk is link-free and the last component is a name -/
theorem remove_confined {fs fs' : Fs} {cwd : Path} {d : Bytes} {s : Bytes} {cs : List Bytes} {c : Bytes}
    (hd : d ≠ [dot, dot]) (hc : c ≠ [dot, dot]) (habs : isAbs s = false) (hcomps : comps s = d :: (cs ++ [c]))
    (hs : Sane fs (cwd ++ [d])) (hl : LexOk fs (cwd ++ [d]) [] cs) (h : fs.remove cwd s = .ok fs') :
    (Sane fs' (cwd ++ [d]) ∧ Step (cwd ++ [d]) fs fs' ∧ Mono fs fs') ∧
    fs'.lookup (cwd ++ [d] ++ lexEnd [] cs ++ [c]) = none := by
  unfold Fs.remove at h
  split at h
  · cases h
  · rename_i p hr
    have hp := resolve_confined_last hd hc habs hcomps hs hl hr
    rw [List.append_assoc] at hp
    have hin : Inside (cwd ++ [d]) p := by rw [hp]; exact below_inside _ _
    have hne : p ≠ cwd ++ [d] := by rw [hp]; exact below_ne _ _ (by simp)
    have hpn : p ≠ [] := by rw [hp]; simp
    rw [List.append_assoc, ← hp]
    split at h
    · cases h
    · cases h
      refine ⟨remove_tree_inside hs hin hne, ?_⟩
      exact lookup_filter_false fs (fun q => !(p.isPrefixOf q)) p (by simp) hpn
    · rename_i hv hnd
      cases h
      refine ⟨remove_one_inside hs hin hne (by rw [hnd]; intro e; cases e; exact hv rfl), ?_⟩
      exact lookup_filter_false fs (fun q => q != p) p (by simp) hpn

/-- where a new entry named by such a string goes -/
theorem entryPath_confined {fs : Fs} {cwd : Path} {d : Bytes} {s : Bytes} {cs : List Bytes} {c : Bytes} {p : Path}
    (hd : d ≠ [dot, dot]) (hc : c ≠ [dot, dot]) (habs : isAbs s = false) (hcomps : comps s = d :: (cs ++ [c]))
    (hs : Sane fs (cwd ++ [d])) (hl : LexOk fs (cwd ++ [d]) [] cs) (h : entryPath fs cwd s = some p) :
    p = cwd ++ [d] ++ (lexEnd [] cs ++ [c]) := by
  unfold entryPath at h
  have hrev : (comps s).reverse = c :: (d :: cs).reverse := by rw [hcomps]; simp
  rw [hrev] at h
  simp only [if_neg hc, List.reverse_reverse, habs, Bool.false_eq_true, if_false, fuelFor_succ,
    Option.map_eq_some_iff] at h
  obtain ⟨q, hq, rfl⟩ := h
  rw [resolve_step_dir hd hs.odir] at hq
  have := resolve_lex_eq (w := []) hl (by simpa using hq)
  rw [this]; simp

/-- `symlink(target, s)` -/
theorem symlink_confined {fs fs' : Fs} {cwd : Path} {d : Bytes} {s : Bytes} {cs : List Bytes} {c : Bytes} (target : Bytes)
    (hd : d ≠ [dot, dot]) (hc : c ≠ [dot, dot]) (habs : isAbs s = false) (hcomps : comps s = d :: (cs ++ [c]))
    (hs : Sane fs (cwd ++ [d])) (hl : LexOk fs (cwd ++ [d]) [] cs) (h : fs.symlink cwd target s = .ok fs') :
    Sane fs' (cwd ++ [d]) ∧ Step (cwd ++ [d]) fs fs' := by
  unfold Fs.symlink at h
  split at h
  · cases h
  · rename_i p he
    have hp := entryPath_confined hd hc habs hcomps hs hl he
    have hin : Inside (cwd ++ [d]) p := by rw [hp]; exact below_inside _ _
    have hne : p ≠ cwd ++ [d] := by rw [hp]; exact below_ne _ _ (by simp)
    split at h
    · cases h
    · rename_i hnone hpar
      cases h
      exact setNode_new hs hin hne hnone hpar (fun i hi => by cases hi)
    · cases h

/-- `hard_link(src, dst)`: both are names below link-free lexical walks under `O` -/
theorem hardLink_confined {fs fs' : Fs} {cwd : Path} {d : Bytes} {src dst : Bytes} {ss cs : List Bytes} {sc c : Bytes}
    (hd : d ≠ [dot, dot]) (hc : c ≠ [dot, dot]) (hsc : sc ≠ [dot, dot])
    (habs : isAbs dst = false) (hcomps : comps dst = d :: (cs ++ [c]))
    (hsabs : isAbs src = false) (hscomps : comps src = d :: (ss ++ [sc]))
    (hs : Sane fs (cwd ++ [d])) (hl : LexOk fs (cwd ++ [d]) [] cs) (hsl : LexOk fs (cwd ++ [d]) [] ss)
    (h : fs.hardLink cwd src dst = .ok fs') :
    Sane fs' (cwd ++ [d]) ∧ Step (cwd ++ [d]) fs fs' := by
  unfold Fs.hardLink at h
  split at h
  · rename_i sp dp hr he
    have hp := entryPath_confined hd hc habs hcomps hs hl he
    have hsp := resolve_confined_last hd hsc hsabs hscomps hs hsl hr
    rw [List.append_assoc] at hsp
    have hin : Inside (cwd ++ [d]) dp := by rw [hp]; exact below_inside _ _
    have hne : dp ≠ cwd ++ [d] := by rw [hp]; exact below_ne _ _ (by simp)
    have hsin : Inside (cwd ++ [d]) sp := by rw [hsp]; exact below_inside _ _
    split at h
    · rename_i ino hf hnone hpar
      cases h
      have hm := lookup_mem (lookup_file_ne_nil hf) hf
      exact setNode_new hs hin hne hnone hpar (fun i hi => by
        cases hi
        exact ⟨hs.fresh _ hm ino rfl, fun b hb ho hbi => hs.sep _ hm b hb ino rfl hbi hsin ho⟩)
    · rename_i t _ hnone hpar
      cases h
      exact setNode_new hs hin hne hnone hpar (fun i hi => by cases hi)
    · cases h
    · cases h
    · cases h
    · cases h
  · cases h

end Pna.Confined
