import PnaVerif.Model.Stream
import PnaVerif.Lemmas.Chunk
/-! `<[u8]>::chunks(N)`, `FlattenWriter<N>` and `FlattenReader`: nothing is lost, nothing is
    reordered, pieces respect the bound, and reads are insensitive to the caller's buffer sizes. -/
namespace Pna

-- ---------------------------------------------------------------- rustChunks

theorem rustChunks_nil (N : Nat) : rustChunks N [] = [] := by
  rw [rustChunks]; simp

theorem rustChunks_zero (bs : Bytes) : rustChunks 0 bs = [] := by
  rw [rustChunks]; simp

/-- one unfolding step on a non-empty buffer -/
theorem rustChunks_step (N : Nat) (hN : 0 < N) (bs : Bytes) (hne : bs ≠ []) :
    rustChunks N bs = bs.take N :: rustChunks N (bs.drop N) := by
  rw [rustChunks]
  have : ¬ (N = 0 ∨ bs = []) := by
    intro h
    cases h with
    | inl h => omega
    | inr h => exact hne h
  rw [dif_neg this]

/-- chunks(N) loses nothing -/
theorem rustChunks_flatten (N : Nat) (hN : 0 < N) (bs : Bytes) : (rustChunks N bs).flatten = bs := by
  induction h : bs.length using Nat.strongRecOn generalizing bs with
  | _ len ih =>
    by_cases hne : bs = []
    · subst hne; rw [rustChunks_nil]; rfl
    · rw [rustChunks_step N hN bs hne, List.flatten_cons]
      have hl : 0 < bs.length := List.length_pos_iff.mpr hne
      have : (bs.drop N).length < len := by rw [List.length_drop]; omega
      rw [ih _ this (bs.drop N) rfl, List.take_append_drop]

/-- every piece is non-empty and at most N long -/
theorem rustChunks_pieces (N : Nat) (hN : 0 < N) (bs : Bytes) :
    ∀ p ∈ rustChunks N bs, p ≠ [] ∧ p.length ≤ N := by
  induction h : bs.length using Nat.strongRecOn generalizing bs with
  | _ len ih =>
    by_cases hne : bs = []
    · subst hne; rw [rustChunks_nil]; intro p hp; cases hp
    · rw [rustChunks_step N hN bs hne]
      have hl : 0 < bs.length := List.length_pos_iff.mpr hne
      intro p hp
      rw [List.mem_cons] at hp
      cases hp with
      | inl hp =>
        subst hp
        refine ⟨?_, ?_⟩
        · intro h0
          have : (bs.take N).length = 0 := by rw [h0]; rfl
          rw [List.length_take] at this
          omega
        · rw [List.length_take]; omega
      | inr hp =>
        have : (bs.drop N).length < len := by rw [List.length_drop]; omega
        exact ih _ this (bs.drop N) rfl p hp

/-- a buffer that fits in one piece is stored as that one piece (or not at all if empty) -/
theorem rustChunks_small (N : Nat) (bs : Bytes) (h : bs.length ≤ N) (hne : bs ≠ []) :
    rustChunks N bs = [bs] := by
  have hl : 0 < bs.length := List.length_pos_iff.mpr hne
  have hN : 0 < N := by omega
  rw [rustChunks_step N hN bs hne, List.take_of_length_le h, List.drop_of_length_le h,
    rustChunks_nil]

-- ---------------------------------------------------------------- FlattenWriter

theorem flattenWriter_foldl_flatten (N : Nat) (hN : 0 < N) (ws : List Bytes) (st : List Bytes) :
    (ws.foldl (flattenWrite N) st).flatten = st.flatten ++ ws.flatten := by
  induction ws generalizing st with
  | nil => simp
  | cons w ws ih =>
    rw [List.foldl_cons, ih, flattenWrite, List.flatten_append, rustChunks_flatten N hN,
      List.flatten_cons, List.append_assoc]

/-- FlattenWriter: concatenation of stored slices = concatenation of the writes, whatever the partition -/
theorem flattenWriter_flatten (N : Nat) (hN : 0 < N) (ws : List Bytes) :
    (flattenWriter N ws).flatten = ws.flatten := by
  unfold flattenWriter
  rw [flattenWriter_foldl_flatten N hN]; rfl

theorem flattenWriter_foldl_pieces (N : Nat) (hN : 0 < N) (ws : List Bytes) (st : List Bytes)
    (hst : ∀ p ∈ st, p ≠ [] ∧ p.length ≤ N) :
    ∀ p ∈ ws.foldl (flattenWrite N) st, p ≠ [] ∧ p.length ≤ N := by
  induction ws generalizing st with
  | nil => exact hst
  | cons w ws ih =>
    rw [List.foldl_cons]
    apply ih
    intro p hp
    rw [flattenWrite, List.mem_append] at hp
    cases hp with
    | inl hp => exact hst p hp
    | inr hp => exact rustChunks_pieces N hN w p hp

theorem flattenWriter_pieces (N : Nat) (hN : 0 < N) (ws : List Bytes) :
    ∀ p ∈ flattenWriter N ws, p ≠ [] ∧ p.length ≤ N := by
  unfold flattenWriter
  apply flattenWriter_foldl_pieces N hN
  intro p hp; cases hp

-- ---------------------------------------------------------------- FlattenReader

theorem FlatR.read_zero (s : FlatR) : s.read 0 = (s, []) := by
  unfold FlatR.read; rw [if_pos rfl]

theorem FlatR.read_pos (s : FlatR) (n : Nat) (hn : 0 < n) : s.read n = FlatR.read.go n s.slices := by
  unfold FlatR.read
  have : ¬ n = 0 := by omega
  rw [if_neg this]

theorem FlatR.read.go_nil (n : Nat) : FlatR.read.go n [] = (⟨[]⟩, []) := rfl

theorem FlatR.read.go_cons_nil (n : Nat) (cs : List Bytes) :
    FlatR.read.go n ([] :: cs) = FlatR.read.go n cs := by
  rw [FlatR.read.go]; rw [if_pos rfl]

theorem FlatR.read.go_cons_ne (n : Nat) (c : Bytes) (cs : List Bytes) (hc : c ≠ []) :
    FlatR.read.go n (c :: cs) = (⟨c.drop n :: cs⟩, c.take n) := by
  rw [FlatR.read.go]; rw [if_neg hc]

theorem FlatR.read.go_conserves (n : Nat) (cs : List Bytes) :
    (FlatR.read.go n cs).2 ++ (FlatR.read.go n cs).1.slices.flatten = cs.flatten := by
  induction cs with
  | nil => rfl
  | cons c cs ih =>
    by_cases hc : c = []
    · subst hc; rw [FlatR.read.go_cons_nil, ih]; rfl
    · rw [FlatR.read.go_cons_ne n c cs hc]
      show c.take n ++ (c.drop n :: cs).flatten = (c :: cs).flatten
      rw [List.flatten_cons, List.flatten_cons, ← List.append_assoc, List.take_append_drop]

theorem FlatR.read.go_progress (n : Nat) (hn : 0 < n) (cs : List Bytes) :
    (FlatR.read.go n cs).2 = [] ↔ cs.flatten = [] := by
  induction cs with
  | nil => exact ⟨fun _ => rfl, fun _ => rfl⟩
  | cons c cs ih =>
    by_cases hc : c = []
    · subst hc; rw [FlatR.read.go_cons_nil, ih]; rfl
    · rw [FlatR.read.go_cons_ne n c cs hc]
      have hl : 0 < c.length := List.length_pos_iff.mpr hc
      constructor
      · intro h
        exfalso
        have h' : (c.take n).length = 0 := by
          show (((⟨c.drop n :: cs⟩ : FlatR), c.take n).2).length = 0
          rw [h]; rfl
        rw [List.length_take] at h'
        omega
      · intro h
        exfalso
        rw [List.flatten_cons] at h
        have h' : (c ++ cs.flatten).length = 0 := by rw [h]; rfl
        rw [List.length_append] at h'
        omega

theorem FlatR.read.go_le (n : Nat) (cs : List Bytes) : (FlatR.read.go n cs).2.length ≤ n := by
  induction cs with
  | nil => exact Nat.zero_le n
  | cons c cs ih =>
    by_cases hc : c = []
    · subst hc; rw [FlatR.read.go_cons_nil]; exact ih
    · rw [FlatR.read.go_cons_ne n c cs hc]
      show (c.take n).length ≤ n
      rw [List.length_take]; omega

/-- one read: output followed by what is left is exactly what was there -/
theorem FlatR.read_conserves (s : FlatR) (n : Nat) :
    (s.read n).2 ++ (s.read n).1.slices.flatten = s.slices.flatten := by
  by_cases hn : n = 0
  · subst hn; rw [FlatR.read_zero]; rfl
  · rw [FlatR.read_pos s n (by omega)]; exact FlatR.read.go_conserves n s.slices

/-- a read with a non-empty buffer returns no bytes only when the reader is exhausted -/
theorem FlatR.read_progress (s : FlatR) (n : Nat) (hn : 0 < n) :
    (s.read n).2 = [] ↔ s.slices.flatten = [] := by
  rw [FlatR.read_pos s n hn]; exact FlatR.read.go_progress n hn s.slices

theorem FlatR.read_le (s : FlatR) (n : Nat) : (s.read n).2.length ≤ n := by
  by_cases hn : n = 0
  · subst hn; rw [FlatR.read_zero]; exact Nat.le_refl 0
  · rw [FlatR.read_pos s n (by omega)]; exact FlatR.read.go_le n s.slices

theorem FlatR.run_nil (s : FlatR) : FlatR.run s [] = [] := rfl

theorem FlatR.run_cons (s : FlatR) (n : Nat) (ns : List Nat) :
    FlatR.run s (n :: ns) = (s.read n).2 :: FlatR.run (s.read n).1 ns := rfl

/-- any schedule of reads (zeros allowed) yields a prefix of the concatenated slices -/
theorem FlatR.run_prefix (s : FlatR) (sched : List Nat) :
    ∃ rest, (FlatR.run s sched).flatten ++ rest = s.slices.flatten := by
  induction sched generalizing s with
  | nil => exact ⟨s.slices.flatten, rfl⟩
  | cons n ns ih =>
    obtain ⟨rest, hrest⟩ := ih (s.read n).1
    refine ⟨rest, ?_⟩
    rw [FlatR.run_cons, List.flatten_cons, List.append_assoc, hrest, FlatR.read_conserves]

theorem FlatR.readToEnd_cons (s : FlatR) (acc : Bytes) (n : Nat) (ns : List Nat) :
    FlatR.readToEnd s acc (n :: ns)
      = if (s.read n).2 = [] then some acc
        else FlatR.readToEnd (s.read n).1 (acc ++ (s.read n).2) ns := rfl

/-- read_to_end is independent of the buffer sizes: whenever it completes it returns acc ++ all the data -/
theorem FlatR.readToEnd_eq (s : FlatR) (acc : Bytes) (sched : List Nat) (hpos : ∀ n ∈ sched, 0 < n)
    (out : Bytes) (h : FlatR.readToEnd s acc sched = some out) : out = acc ++ s.slices.flatten := by
  induction sched generalizing s acc with
  | nil => cases h
  | cons n ns ih =>
    have hn : 0 < n := hpos n (List.mem_cons_self ..)
    have hns : ∀ m ∈ ns, 0 < m := fun m hm => hpos m (List.mem_cons_of_mem _ hm)
    rw [FlatR.readToEnd_cons] at h
    by_cases ho : (s.read n).2 = []
    · rw [if_pos ho] at h
      have he := (FlatR.read_progress s n hn).mp ho
      rw [he, List.append_nil]
      exact (Option.some.inj h).symm
    · rw [if_neg ho] at h
      rw [ih (s.read n).1 (acc ++ (s.read n).2) hns h, List.append_assoc, FlatR.read_conserves]

/-- …and it does complete as soon as the schedule has more calls than there are bytes -/
theorem FlatR.readToEnd_complete (s : FlatR) (acc : Bytes) (sched : List Nat)
    (hpos : ∀ n ∈ sched, 0 < n) (hlen : s.slices.flatten.length < sched.length) :
    FlatR.readToEnd s acc sched = some (acc ++ s.slices.flatten) := by
  induction sched generalizing s acc with
  | nil => exact absurd hlen (Nat.not_lt_zero _)
  | cons n ns ih =>
    have hn : 0 < n := hpos n (List.mem_cons_self ..)
    have hns : ∀ m ∈ ns, 0 < m := fun m hm => hpos m (List.mem_cons_of_mem _ hm)
    rw [FlatR.readToEnd_cons]
    by_cases ho : (s.read n).2 = []
    · rw [if_pos ho]
      have he := (FlatR.read_progress s n hn).mp ho
      rw [he, List.append_nil]
    · rw [if_neg ho]
      have hc := FlatR.read_conserves s n
      have hol : 0 < (s.read n).2.length := List.length_pos_iff.mpr ho
      have hl : (s.read n).2.length + (s.read n).1.slices.flatten.length = s.slices.flatten.length := by
        rw [← List.length_append, hc]
      rw [List.length_cons] at hlen
      have hlt : (s.read n).1.slices.flatten.length < ns.length := by omega
      rw [ih (s.read n).1 (acc ++ (s.read n).2) hns hlt, List.append_assoc, hc]

end Pna
