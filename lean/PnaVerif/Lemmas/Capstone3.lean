import PnaVerif.Model.Toy
import PnaVerif.Lemmas.Capstone2
/-!
  The toy block permutation of Model/Toy.lean (the one the harness runs the repository's generic CBC/CTR code
  with) is a lawful `BlockPerm`: the hypotheses of the C01 theorems are satisfiable with a cipher that actually
  permutes bytes.  Used by the non-vacuity instance of Props/C01Archive.lean.
-/
namespace Pna.Capstone
open Pna Pna.Toy

theorem rot_inv_nat : ∀ n, n < 256 → rotr3 (rotl3 (UInt8.ofNat n)) = UInt8.ofNat n := by decide +kernel

theorem rotr3_rotl3 (x : UInt8) : rotr3 (rotl3 x) = x := by
  have := rot_inv_nat x.toNat x.toNat_lt
  simpa using this

theorem xor_cancel (a b : UInt8) : a ^^^ b ^^^ b = a := by
  rw [UInt8.xor_assoc, UInt8.xor_self, UInt8.xor_zero]

theorem toyE_getD (k b : Bytes) (i : Nat) (hi : i < 16) :
    (E k b).getD i 0 = rotl3 (b.getD ((i + 1) % 16) 0 ^^^ k.getD i 0) + k.getD (16 + i) 0 := by
  simp [E, List.getD_eq_getElem?_getD, hi]

theorem toyE_length (k b : Bytes) : (E k b).length = 16 := by simp [E]
theorem toyD_length (k b : Bytes) : (D k b).length = 16 := by simp [D]

theorem toyD_E (k b : Bytes) (hb : b.length = 16) : D k (E k b) = b := by
  apply List.ext_getElem
  · rw [toyD_length, hb]
  · intro j h1 h2
    have hj : j < 16 := by rw [toyD_length] at h1; exact h1
    have hi : (j + 15) % 16 < 16 := Nat.mod_lt _ (by decide)
    have hij : ((j + 15) % 16 + 1) % 16 = j := by omega
    simp only [D, List.getElem_map, List.getElem_range]
    rw [toyE_getD k b _ hi, UInt8.add_sub_cancel, rotr3_rotl3, xor_cancel, hij]
    simp [List.getD_eq_getElem?_getD, h2]

/-- the toy permutation satisfies the only law the theorems assume of a block cipher -/
theorem toy_lawful : Toy.perm.Lawful :=
  ⟨fun k b hb => toyD_E k b hb, fun k b _ => toyE_length k b, fun k b _ => toyD_length k b⟩

/-- a toy "codec" that is not the identity (every byte masked with 0x55), to exercise the codec stage -/
def maskCodec : Compressor :=
  ⟨fun ws => ws.map (List.map (· ^^^ 0x55)), fun b => .ok (b.map (· ^^^ 0x55))⟩

theorem maskCodec_lawful : maskCodec.Lawful := by
  intro ws
  simp only [maskCodec]
  rw [← List.map_flatten, List.map_map]
  have : ((fun x : UInt8 => x ^^^ 0x55) ∘ fun x => x ^^^ 0x55) = id := by
    funext x; exact xor_cancel x 0x55
  rw [this, List.map_id]

-- ---------------------------------------------------------------- a concrete archive

def exKey : Bytes := (List.range 32).map fun i => UInt8.ofNat (7 * i + 3)
def exIvA : Bytes := (List.range 16).map fun i => UInt8.ofNat (i + 1)
def exIvB : Bytes := (List.range 16).map fun i => UInt8.ofNat (200 - 3 * i)
/-- `$toy$v=1` -/
def exPhsf : Bytes := [36, 116, 111, 121, 36, 118, 61, 49]

/-- toy cipher in CBC mode, store -/
def exCbc : StreamCfg :=
  { P := Toy.perm, C := storeCompressor, sel := .cbc, key := exKey, iv := exIvA, phsf := exPhsf,
    codec := 0, cipher := 1 }
/-- toy cipher in CTR mode, masking codec -/
def exCtr : StreamCfg :=
  { P := Toy.perm, C := maskCodec, sel := .ctr, key := exKey, iv := exIvB, phsf := exPhsf,
    codec := 2, cipher := 2 }
/-- toy cipher in CBC mode over the masking codec: the stream of the solid block -/
def exCbcMask : StreamCfg :=
  { P := Toy.perm, C := maskCodec, sel := .cbc, key := exKey, iv := exIvB, phsf := exPhsf,
    codec := 4, cipher := 1 }

/-- file `a`: a private chunk, size, mtime, owner, one xattr; content written in three calls (one empty) -/
def exA : LFile :=
  { name := [97], kind := 0,
    md := { rawSize := some 5, modified := some 7, permission := some ⟨1000, [117], 1000, [103], 420⟩ },
    xattrs := [⟨[117], [9]⟩], extra := [⟨⟨109, 121, 84, 121⟩, [1, 2, 3]⟩],
    writes := [[1, 2, 3], [], [4, 5]] }
/-- file `d/b`: 20 bytes written in two calls -/
def exB : LFile :=
  { name := [100, 47, 98], kind := 0, writes := [(List.range 17).map UInt8.ofNat, [30, 31, 32]] }
/-- file `c` and directory `d`, members of the solid block -/
def exC : LFile := { name := [99], kind := 0, md := { created := some 1 }, writes := [[7, 7, 7]] }
def exD : LFile := { name := [100], kind := 1, writes := [] }

/-- a built CBC entry, a streamed CTR entry, a built solid block of two files -/
def exItems : List LItem :=
  [.file .builder exCbc exA, .file .stream exCtr exB, .block .builder exCbcMask [exC, exD]]

theorem exCbc_ok : exCbc.OK :=
  ⟨toy_lawful, C01.store_lawful, by decide, by decide +kernel, by decide, by decide, Or.inl rfl⟩
theorem exCtr_ok : exCtr.OK :=
  ⟨toy_lawful, maskCodec_lawful, by decide, by decide +kernel, by decide, by decide, Or.inr rfl⟩
theorem exCbcMask_ok : exCbcMask.OK :=
  ⟨toy_lawful, maskCodec_lawful, by decide, by decide +kernel, by decide, by decide, Or.inl rfl⟩

theorem exA_wf : exA.WF where
  kind := by decide
  nameUtf8 := by decide +kernel
  nameSan := by decide +kernel
  nameFit := by decide
  extraUn := by decide
  extraNM := by show ∀ c ∈ exA.extra, _; decide
  extraFit := by show ∀ c ∈ exA.extra, _; decide
  rawSize := by intro n h; cases h; decide
  created := by intro n h; cases h
  modified := by intro n h; cases h; decide
  accessed := by intro n h; cases h
  perm := by
    intro p h; cases h
    exact ⟨by decide, by decide, by decide, by decide, by decide, by decide +kernel, by decide +kernel⟩
  xattrs := by
    intro x hx
    rcases List.mem_singleton.mp hx with rfl
    exact ⟨by decide, by decide, by decide +kernel⟩
  xattrsFit := by
    intro x hx
    rcases List.mem_singleton.mp hx with rfl
    decide

/-- a file with no metadata, xattrs or extra chunks is well-formed as soon as its name and kind are -/
theorem wf_bare (name : Bytes) (kind : Nat) (ws : List Bytes) (hk : validKind kind = true)
    (hu : validUtf8 name = true) (hs : sanitize name = name) (hl : name.length + 6 < 2 ^ 32) :
    ({ name := name, kind := kind, writes := ws } : LFile).WF where
  kind := hk
  nameUtf8 := hu
  nameSan := hs
  nameFit := hl
  extraUn := fun _ h => absurd h List.not_mem_nil
  extraNM := fun _ h => absurd h List.not_mem_nil
  extraFit := fun _ h => absurd h List.not_mem_nil
  rawSize := fun _ h => nomatch h
  created := fun _ h => nomatch h
  modified := fun _ h => nomatch h
  accessed := fun _ h => nomatch h
  perm := fun _ h => nomatch h
  xattrs := fun _ h => absurd h List.not_mem_nil
  xattrsFit := fun _ h => absurd h List.not_mem_nil

theorem exB_wf : exB.WF :=
  wf_bare _ _ _ (by decide) (by decide +kernel) (by decide +kernel) (by decide)
theorem exD_wf : exD.WF :=
  wf_bare _ _ _ (by decide) (by decide +kernel) (by decide +kernel) (by decide)

theorem exC_wf : exC.WF where
  kind := by decide
  nameUtf8 := by decide +kernel
  nameSan := by decide +kernel
  nameFit := by decide
  extraUn := fun _ h => absurd h List.not_mem_nil
  extraNM := fun _ h => absurd h List.not_mem_nil
  extraFit := fun _ h => absurd h List.not_mem_nil
  rawSize := by intro n h; cases h
  created := by intro n h; cases h; decide
  modified := by intro n h; cases h
  accessed := by intro n h; cases h
  perm := by intro p h; cases h
  xattrs := fun _ h => absurd h List.not_mem_nil
  xattrsFit := fun _ h => absurd h List.not_mem_nil

/-- the example archive satisfies the hypotheses of the end-to-end theorem -/
theorem exItems_wf : ∀ it ∈ exItems, it.WF := by
  intro it hit
  simp only [exItems, List.mem_cons, List.not_mem_nil, or_false] at hit
  rcases hit with rfl | rfl | rfl
  · exact ⟨exCbc_ok, exA_wf⟩
  · exact ⟨exCtr_ok, exB_wf⟩
  · refine ⟨exCbcMask_ok, ?_, slicesFit_builder exCbcMask exCbcMask_ok.iv _⟩
    intro f hf
    simp only [List.mem_cons, List.not_mem_nil, or_false] at hf
    rcases hf with rfl | rfl
    · exact exC_wf
    · exact exD_wf

end Pna.Capstone
