import PnaVerif.Model.Cli.Sched
namespace Pna.Cli.Sched

/-- invariant of the per-item scope: at most the last submitted item is running, and what has arrived
    plus what is running is exactly what has been submitted, in order -/
def Inv (s : St) : Prop := s.chan ++ s.running = List.range s.next ∧ s.running.length ≤ 1

theorem Inv_init : Inv {} := by simp [Inv]

/-- shapes that submit the next item only when nothing is running -/
def Joins (sh : Shape) : Prop := ∀ s, canSpawn sh s = true → s.running = []

theorem step_inv (sh : Shape) (hj : Joins sh) (n : Nat) (s s' : St) (e : Ev) (h : Inv s)
    (hs : step sh n s e = some s') : Inv s' := by
  obtain ⟨h1, h2⟩ := h
  cases e with
  | spawn =>
    simp only [step] at hs
    by_cases hc : s.next < n ∧ canSpawn sh s = true
    · rw [if_pos hc] at hs
      injection hs with hs; subst hs
      have hr : s.running = [] := hj s hc.2
      simp only [Inv, hr, List.append_nil, List.nil_append, List.length_singleton, Nat.le_refl, and_true] at h1 ⊢
      rw [List.range_succ, h1]
    · rw [if_neg hc] at hs; cases hs
  | finish i =>
    simp only [step] at hs
    by_cases hi : i ∈ s.running
    · rw [if_pos hi] at hs
      injection hs with hs; subst hs
      match hr : s.running, h2, hi with
      | [j], _, hi =>
        have : i = j := by simpa using hi
        subst this
        simp only [Inv, hr] at h1 ⊢
        simp [h1]
      | [], _, hi => simp at hi
      | _ :: _ :: _, h2, _ => simp at h2
    · rw [if_neg hi] at hs; cases hs

theorem run_inv (sh : Shape) (hj : Joins sh) (n : Nat) :
    ∀ (tr : List Ev) (s s' : St), Inv s → run sh n s tr = some s' → Inv s'
  | [], s, s', h, hr => by simp [run] at hr; subst hr; exact h
  | e :: es, s, s', h, hr => by
    simp only [run] at hr
    cases hst : step sh n s e with
    | none => simp [hst] at hr
    | some s1 =>
      simp only [hst] at hr
      exact run_inv sh hj n es s1 s' (step_inv sh hj n s s1 e h hst) hr

theorem joins_deterministic (sh : Shape) (hj : Joins sh) : Deterministic sh := by
  intro n tr s hr hf
  have hi := run_inv sh hj n tr {} s Inv_init hr
  obtain ⟨h1, _⟩ := hi
  obtain ⟨hn, hrun⟩ := hf
  rw [hrun, hn] at h1
  simpa using h1

theorem scopePerItem_joins : Joins .scopePerItem := by
  intro s h; simpa [canSpawn] using h

theorem single_joins : Joins .single := by
  intro s h
  simp only [canSpawn, Bool.and_eq_true, List.isEmpty_iff] at h
  exact h.1

theorem scopePerItem_deterministic : Deterministic .scopePerItem := joins_deterministic _ scopePerItem_joins

/-- a single task has nothing to be reordered with -/
theorem single_deterministic : Deterministic .single := joins_deterministic _ single_joins

/-- one scope around the loop: a later task may finish first -/
theorem scopeAroundLoop_not_deterministic : ¬ Deterministic .scopeAroundLoop := by
  intro h
  have := h 2 [.spawn, .spawn, .finish 1, .finish 0] ⟨2, [], [1, 0]⟩ (by decide) ⟨rfl, rfl⟩
  exact absurd this (by decide)

theorem detached_not_deterministic : ¬ Deterministic .detached := by
  intro h
  have := h 2 [.spawn, .spawn, .finish 1, .finish 0] ⟨2, [], [1, 0]⟩ (by decide) ⟨rfl, rfl⟩
  exact absurd this (by decide)

theorem parIterUnordered_not_deterministic : ¬ Deterministic .parIterUnordered := by
  intro h
  have := h 2 [.spawn, .spawn, .finish 1, .finish 0] ⟨2, [], [1, 0]⟩ (by decide) ⟨rfl, rfl⟩
  exact absurd this (by decide)

end Pna.Cli.Sched
