import PnaVerif.Lemmas.Chunk
import PnaVerif.Model.Archive
/-! Totality: no read path of the model reaches a `panic` outcome, on any input. -/
namespace Pna

theorem readExact_no_panic (n : Nat) (bs : Bytes) : (readExact n bs).isPanic = false := by
  unfold readExact; split <;> rfl

theorem bind_no_panic {α β} (x : Outcome α) (f : α → Outcome β)
    (hx : x.isPanic = false) (hf : ∀ a, (f a).isPanic = false) : (x >>= f).isPanic = false := by
  cases x with
  | ok a => exact hf a
  | error e => rfl
  | panic s => simp [Outcome.isPanic] at hx

theorem decAHED_no_panic (bs : Bytes) : (decAHED bs).isPanic = false := by
  unfold decAHED; split <;> rfl

theorem decFHED_no_panic (bs : Bytes) : (decFHED bs).isPanic = false := by
  unfold decFHED
  split
  · repeat' split
    all_goals rfl
  · rfl

theorem decSHED_no_panic (bs : Bytes) : (decSHED bs).isPanic = false := by
  unfold decSHED
  split
  · repeat' split
    all_goals rfl
  · rfl

theorem decTime_no_panic (bs : Bytes) : (decTime bs).isPanic = false := by
  unfold decTime; split <;> rfl

theorem decFPRM_no_panic (bs : Bytes) : (decFPRM bs).isPanic = false := by
  unfold decFPRM
  apply bind_no_panic _ _ (readExact_no_panic _ _); intro ⟨_, r⟩
  apply bind_no_panic _ _ (readExact_no_panic _ _); intro ⟨_, r⟩
  apply bind_no_panic _ _ (readExact_no_panic _ _); intro ⟨_, r⟩
  simp only
  split
  · rfl
  · apply bind_no_panic _ _ (readExact_no_panic _ _); intro ⟨_, r⟩
    apply bind_no_panic _ _ (readExact_no_panic _ _); intro ⟨_, r⟩
    apply bind_no_panic _ _ (readExact_no_panic _ _); intro ⟨_, r⟩
    simp only
    split
    · rfl
    · apply bind_no_panic _ _ (readExact_no_panic _ _); intro ⟨_, r⟩
      rfl

theorem splitPayload_no_panic (bs : Bytes) (n : Nat) : ∀ s, splitPayload bs n ≠ .panic s := by
  intro s; unfold splitPayload; split <;> simp

theorem decXATR_no_panic (bs : Bytes) : (decXATR bs).isPanic = false := by
  unfold decXATR
  split
  · rfl
  · split
    · rfl
    · rename_i s hs; exact absurd hs (splitPayload_no_panic _ _ s)
    · repeat' split
      all_goals rfl

theorem ite_no_panic {α} (c : Prop) [Decidable c] (x y : Outcome α)
    (hx : x.isPanic = false) (hy : y.isPanic = false) : (if c then x else y).isPanic = false := by
  split <;> assumption

theorem ok_no_panic {α} (a : α) : (Outcome.ok a).isPanic = false := rfl
theorem error_no_panic {α} (e : Err) : (Outcome.error e : Outcome α).isPanic = false := rfl

theorem nStep_no_panic (a : NAcc) (c : Chunk) : (nStep a c).isPanic = false := by
  unfold nStep
  repeat' apply ite_no_panic
  all_goals first
    | exact ok_no_panic _
    | exact error_no_panic _
    | rfl
    | exact bind_no_panic _ _ (decFHED_no_panic _) (fun _ => ok_no_panic _)
    | exact bind_no_panic _ _ (decTime_no_panic _) (fun _ => ok_no_panic _)
    | exact bind_no_panic _ _ (decFPRM_no_panic _) (fun _ => ok_no_panic _)
    | exact bind_no_panic _ _ (decXATR_no_panic _) (fun _ => ok_no_panic _)

theorem nLoop_no_panic (a : NAcc) (cs : List Chunk) : (nLoop a cs).isPanic = false := by
  induction cs generalizing a with
  | nil => rfl
  | cons c cs ih =>
    unfold nLoop
    have := nStep_no_panic a c
    split
    · rfl
    · rename_i s hs; rw [hs] at this; simp [Outcome.isPanic] at this
    · rfl
    · exact ih _

theorem parseN_go_no_panic (raw : List Chunk) : (parseN.go raw).isPanic = false := by
  unfold parseN.go
  have := nLoop_no_panic {} raw
  split
  · rfl
  · rename_i s hs; rw [hs] at this; simp [Outcome.isPanic] at this
  · split
    · rfl
    · split <;> rfl

theorem parseN_no_panic (raw : List Chunk) : (parseN raw).isPanic = false := by
  unfold parseN
  split
  · split
    · rfl
    · exact parseN_go_no_panic raw
  · exact parseN_go_no_panic raw

theorem sStep_no_panic (a : SAcc) (c : Chunk) : (sStep a c).isPanic = false := by
  unfold sStep
  repeat' apply ite_no_panic
  all_goals first
    | exact ok_no_panic _
    | exact error_no_panic _
    | exact bind_no_panic _ _ (decSHED_no_panic _) (fun _ => ok_no_panic _)

theorem sLoop_no_panic (a : SAcc) (cs : List Chunk) : (sLoop a cs).isPanic = false := by
  induction cs generalizing a with
  | nil => rfl
  | cons c cs ih =>
    unfold sLoop
    have := sStep_no_panic a c
    split
    · rfl
    · rename_i s hs; rw [hs] at this; simp [Outcome.isPanic] at this
    · rfl
    · exact ih _

theorem parseS_go_no_panic (raw : List Chunk) : (parseS.go raw).isPanic = false := by
  unfold parseS.go
  have := sLoop_no_panic {} raw
  split
  · rfl
  · rename_i s hs; rw [hs] at this; simp [Outcome.isPanic] at this
  · split <;> rfl

theorem parseS_no_panic (raw : List Chunk) : (parseS raw).isPanic = false := by
  unfold parseS
  split
  · split
    · rfl
    · exact parseS_go_no_panic raw
  · exact parseS_go_no_panic raw

theorem map'_no_panic {α β} (f : α → β) (x : Outcome α) (h : x.isPanic = false) :
    (x.map' f).isPanic = false := by
  cases x <;> simp_all [Outcome.map', Outcome.isPanic]

theorem parseEntry_no_panic (raw : List Chunk) : (parseEntry raw).isPanic = false := by
  unfold parseEntry
  split
  · rfl
  · split
    · exact map'_no_panic _ _ (parseS_no_panic raw)
    · split
      · exact map'_no_panic _ _ (parseN_no_panic raw)
      · rfl

theorem parseItems_no_panic (its : List (List Chunk)) : (parseItems its).2.isPanic = false := by
  induction its with
  | nil => rfl
  | cons it its ih =>
    unfold parseItems
    have := parseEntry_no_panic it
    split
    · rfl
    · rename_i s hs; rw [hs] at this; simp [Outcome.isPanic] at this
    · exact ih

/-- With fuel exceeding the input length the chunk iterator never runs out of fuel and never
    panics (each accepted chunk consumes at least 12 bytes). -/
theorem chunkIter_no_panic (fuel : Nat) (bs : Bytes) (hf : bs.length < fuel) :
    (chunkIter decodeStream fuel bs).2.isPanic = false := by
  induction fuel generalizing bs with
  | zero => omega
  | succ fuel ih =>
    unfold chunkIter
    have hp := decodeStream_no_panic bs
    cases hd : decodeStream bs with
    | error e => rfl
    | panic s => rw [hd] at hp; simp [Outcome.isPanic] at hp
    | ok p =>
      obtain ⟨c, r⟩ := p
      simp only
      split
      · rfl
      · have := decodeStream_rest_lt bs c r hd
        exact ih r (by omega)

theorem readSigStream_no_panic (bs : Bytes) : (readSigStream bs).isPanic = false := by
  unfold readSigStream
  apply bind_no_panic _ _ (readExact_no_panic _ _); intro ⟨_, _⟩
  simp only
  split <;> rfl

theorem chunksStream_no_panic (bs : Bytes) : (chunksStream bs).2.isPanic = false := by
  unfold chunksStream
  have := readSigStream_no_panic bs
  split
  · rfl
  · rename_i s hs; rw [hs] at this; simp [Outcome.isPanic] at this
  · exact chunkIter_no_panic _ _ (by omega)

/-- `chunkIter` ends with `ok` only after an AEND chunk, so its chunk list is then non-empty. -/
theorem chunkIter_ok_nonempty (fuel : Nat) (bs : Bytes)
    (h : (chunkIter decodeStream fuel bs).2.isOk = true) : (chunkIter decodeStream fuel bs).1 ≠ [] := by
  induction fuel generalizing bs with
  | zero => simp [chunkIter, Outcome.isOk] at h
  | succ fuel ih =>
    unfold chunkIter at h ⊢
    cases hd : decodeStream bs with
    | error e => rw [hd] at h; simp [Outcome.isOk] at h
    | panic s => rw [hd] at h; simp [Outcome.isOk] at h
    | ok p =>
      obtain ⟨c, r⟩ := p
      simp only [hd] at h ⊢
      split <;> simp

theorem readArchiveStream_no_panic (carry : List Chunk) (bs : Bytes) :
    (readArchiveWith chunksStream carry bs).status.isPanic = false := by
  unfold readArchiveWith
  have hcs := chunksStream_no_panic bs
  cases hch : chunksStream bs with
  | mk cs st =>
    rw [hch] at hcs
    simp only at hcs ⊢
    cases cs with
    | nil =>
      simp only
      cases st with
      | ok u =>
        exfalso
        have h1 : (chunksStream bs).2.isOk = true := by rw [hch]; rfl
        unfold chunksStream at h1 hch
        cases hs : readSigStream bs with
        | error e => rw [hs] at h1; simp [Outcome.isOk] at h1
        | panic s => rw [hs] at h1; simp [Outcome.isOk] at h1
        | ok r =>
          rw [hs] at h1 hch
          simp only at h1 hch
          have := chunkIter_ok_nonempty _ _ h1
          rw [hch] at this
          exact this rfl
      | error e => rfl
      | panic s => simp [Outcome.isPanic] at hcs
    | cons c0 rest =>
      simp only
      split
      · rfl
      · have hA := decAHED_no_panic c0.data
        split
        · rfl
        · rename_i s hs; rw [hs] at hA; simp [Outcome.isPanic] at hA
        · simp only
          have hp := parseItems_no_panic (groupItems carry false rest).1
          cases hpi : parseItems (groupItems carry false rest).1 with
          | mk es po =>
            rw [hpi] at hp
            simp only at hp ⊢
            cases po with
            | ok u => exact hcs
            | error e => rfl
            | panic s => simp [Outcome.isPanic] at hp

end Pna
