import PnaVerif.Model.Cli.Update
/-
  Properties of the entry-list model of `pna append`, `pna experimental update` and `delete`
  (`PnaVerif/Model/Cli/Update.lean`).

  The scan of `updateOp` is a `List.foldl` of `updateStep`; every property is an invariant of that
  fold proved by induction on the scanned list with the state generalised (`scan_*`), then read off
  the final state `kept ++ replaced ++ pending`.

  `update_count` is the central counting fact: with unique names on both sides, a name occurs in
  the result once if it is a target and as often as in the old archive otherwise.  Both uniqueness
  hypotheses are necessary for it (see the `example`s at the end of the file).
-/
namespace Pna.Cli

def names (l : List UEntry) : List Bytes := l.map (·.name)

/-! ### `append` / `delete` -/

theorem append_spec (a ts : List UEntry) :
    appendOp a ts = a ++ ts ∧ (appendOp a ts).take a.length = a ∧ (appendOp a ts).drop a.length = ts := by
  simp [appendOp]

theorem delete_spec (sel : Bytes → Bool) (a : List UEntry) :
    deleteOp sel a = a.filter (fun e => !sel e.name) ∧ ∀ e ∈ deleteOp sel a, e ∈ a ∧ sel e.name = false := by
  refine ⟨rfl, ?_⟩
  intro e he
  simpa [deleteOp, List.mem_filter] using he

theorem append_nodup (a ts : List UEntry) (ha : (names a).Nodup) (ht : (names ts).Nodup)
    (hd : ∀ n ∈ names ts, n ∉ names a) : (names (appendOp a ts)).Nodup := by
  unfold appendOp names at *
  rw [List.map_append, List.nodup_append]
  refine ⟨ha, ht, ?_⟩
  intro x hx y hy hxy
  exact hd y hy (hxy ▸ hx)

theorem delete_nodup (sel : Bytes → Bool) (a : List UEntry) (ha : (names a).Nodup) :
    (names (deleteOp sel a)).Nodup := by
  unfold deleteOp names at *
  exact List.Nodup.sublist (List.Sublist.map _ List.filter_sublist) ha

/-! ### the scan of `update` -/

/-- the three possible shapes of one scan step -/
theorem updateStep_cases (excl : Bytes → Bool) (need : UEntry → Bool) (s : UState) (e : UEntry) :
    (s.pending.find? (·.name == e.name) = none ∧
        updateStep excl need s e = { s with kept := s.kept ++ [e] }) ∨
    (∃ t, s.pending.find? (·.name == e.name) = some t ∧ (excl e.name = false ∧ need e = true) ∧
        updateStep excl need s e =
          { kept := s.kept, replaced := s.replaced ++ [t],
            pending := s.pending.filter (·.name != e.name) }) ∨
    (∃ t, s.pending.find? (·.name == e.name) = some t ∧ ¬ (excl e.name = false ∧ need e = true) ∧
        updateStep excl need s e =
          { kept := s.kept ++ [e], replaced := s.replaced,
            pending := s.pending.filter (·.name != e.name) }) := by
  unfold updateStep
  cases hf : s.pending.find? (·.name == e.name) with
  | none => left; simp
  | some t =>
    right
    by_cases hc : (excl e.name = false ∧ need e = true)
    · left; refine ⟨t, rfl, hc, ?_⟩; simp [hc.1, hc.2]
    · right; refine ⟨t, rfl, hc, ?_⟩
      have : (!excl e.name && need e) = false := by
        cases h1 : excl e.name <;> cases h2 : need e <;> simp_all
      simp [this]
@[simp] theorem names_nil : names [] = [] := rfl
@[simp] theorem names_cons (e : UEntry) (l : List UEntry) : names (e :: l) = e.name :: names l := rfl
@[simp] theorem names_append (l₁ l₂ : List UEntry) : names (l₁ ++ l₂) = names l₁ ++ names l₂ := by
  simp [names]

theorem mem_names_of_mem {e : UEntry} {l : List UEntry} (h : e ∈ l) : e.name ∈ names l :=
  List.mem_map_of_mem h

theorem mem_names_filter_ne (n m : Bytes) (p : List UEntry) :
    n ∈ names (p.filter (·.name != m)) ↔ n ∈ names p ∧ n ≠ m := by
  simp only [names, List.mem_map, List.mem_filter, bne_iff_ne]
  constructor
  · rintro ⟨x, ⟨hx, hne⟩, rfl⟩; exact ⟨⟨x, hx, rfl⟩, hne⟩
  · rintro ⟨⟨x, hx, rfl⟩, hne⟩; exact ⟨x, ⟨hx, hne⟩, rfl⟩

theorem names_filter_ne_sublist (m : Bytes) (p : List UEntry) :
    (names (p.filter (·.name != m))).Sublist (names p) :=
  List.Sublist.map _ List.filter_sublist

theorem count_names_filter_ne (n m : Bytes) (p : List UEntry) (h : n ≠ m) :
    (names (p.filter (·.name != m))).count n = (names p).count n := by
  induction p with
  | nil => rfl
  | cons x p ih =>
    by_cases hx : x.name = m
    · have : (x.name != m) = false := by simp [hx]
      rw [List.filter_cons_of_neg (p := fun y : UEntry => y.name != m) (by simp [this])]
      have hxn : (x.name == n) = false := by
        simp only [beq_eq_false_iff_ne, ne_eq]; intro h'; exact h (h'.symm.trans hx)
      simp [List.count_cons, hxn, ih]
    · have : (x.name != m) = true := by simp [hx]
      rw [List.filter_cons_of_pos (p := fun y : UEntry => y.name != m) this]
      simp [List.count_cons, ih]

/-- in a list with unique names an entry is determined by its name -/
theorem eq_of_name_eq {p : List UEntry} (hp : (names p).Nodup) {x y : UEntry}
    (hx : x ∈ p) (hy : y ∈ p) (h : x.name = y.name) : x = y := by
  induction p with
  | nil => cases hx
  | cons z p ih =>
    simp only [names_cons, List.nodup_cons] at hp
    rcases List.mem_cons.1 hx with rfl | hx' <;> rcases List.mem_cons.1 hy with rfl | hy'
    · rfl
    · exact absurd (h ▸ mem_names_of_mem hy') hp.1
    · exact absurd (h ▸ mem_names_of_mem hx') hp.1
    · exact ih hp.2 hx' hy'

theorem find_name_spec {p : List UEntry} {m : Bytes} {t : UEntry}
    (h : p.find? (·.name == m) = some t) : t ∈ p ∧ t.name = m := by
  refine ⟨List.mem_of_find?_eq_some h, ?_⟩
  have := List.find?_some h
  simpa using this

theorem find_name_none {p : List UEntry} {m : Bytes}
    (h : p.find? (·.name == m) = none) : m ∉ names p := by
  intro hm
  rcases List.mem_map.1 hm with ⟨x, hx, rfl⟩
  have := List.find?_eq_none.1 h x hx
  simp at this

/-- membership invariant of the scan -/
theorem scan_sub (excl : Bytes → Bool) (need : UEntry → Bool) (A T : UEntry → Prop)
    (a : List UEntry) : ∀ s : UState, (∀ x ∈ a, A x) → (∀ x ∈ s.kept, A x) →
      (∀ x ∈ s.replaced, T x) → (∀ x ∈ s.pending, T x) →
      (∀ x ∈ (a.foldl (updateStep excl need) s).kept, A x) ∧
      (∀ x ∈ (a.foldl (updateStep excl need) s).replaced, T x) ∧
      (∀ x ∈ (a.foldl (updateStep excl need) s).pending, T x) := by
  induction a with
  | nil => intro s _ hk hr hp; exact ⟨hk, hr, hp⟩
  | cons e a ih =>
    intro s hA hk hr hp
    have hA' : ∀ x ∈ a, A x := fun x hx => hA x (List.mem_cons_of_mem _ hx)
    have hAe : A e := hA e List.mem_cons_self
    rw [List.foldl_cons]
    rcases updateStep_cases excl need s e with ⟨_, hs⟩ | ⟨t, hf, _, hs⟩ | ⟨t, hf, _, hs⟩ <;>
      rw [hs] <;> apply ih _ hA'
    · intro x hx; rcases List.mem_append.1 hx with h | h
      · exact hk x h
      · rw [List.mem_singleton.1 h]; exact hAe
    · exact hr
    · exact hp
    · exact hk
    · intro x hx; rcases List.mem_append.1 hx with h | h
      · exact hr x h
      · rw [List.mem_singleton.1 h]; exact hp t (find_name_spec hf).1
    · intro x hx; exact hp x (List.mem_filter.1 hx).1
    · intro x hx; rcases List.mem_append.1 hx with h | h
      · exact hk x h
      · rw [List.mem_singleton.1 h]; exact hAe
    · exact hr
    · intro x hx; exact hp x (List.mem_filter.1 hx).1
/-- the untargeted part of `kept` is the untargeted part of what was scanned -/
theorem scan_kept_filter (excl : Bytes → Bool) (need : UEntry → Bool) (ts : List UEntry)
    (a : List UEntry) : ∀ s : UState, (∀ x ∈ s.pending, x ∈ ts) →
      (a.foldl (updateStep excl need) s).kept.filter (fun e => !(names ts).contains e.name) =
        s.kept.filter (fun e => !(names ts).contains e.name) ++
          a.filter (fun e => !(names ts).contains e.name) := by
  induction a with
  | nil => intro s _; simp
  | cons e a ih =>
    intro s hp
    rw [List.foldl_cons]
    rcases updateStep_cases excl need s e with ⟨_, hs⟩ | ⟨t, hf, _, hs⟩ | ⟨t, hf, _, hs⟩
    · rw [hs]; refine (ih { s with kept := s.kept ++ [e] } (fun x hx => hp x hx)).trans ?_
      simp only [List.filter_append, List.filter_cons, List.filter_nil]
      split <;> simp
    · have ht := find_name_spec hf
      have hin : e.name ∈ names ts := by
        rw [← ht.2]; exact mem_names_of_mem (hp t ht.1)
      rw [hs]; refine (ih _ (fun x hx => hp x (List.mem_filter.1 hx).1)).trans ?_
      simp [hin]
    · rw [hs]; refine (ih _ (fun x hx => hp x (List.mem_filter.1 hx).1)).trans ?_
      simp only [List.filter_append, List.filter_cons, List.filter_nil]
      split <;> simp

/-- entries that are not to be replaced end up in `kept` -/
theorem scan_kept_mono (excl : Bytes → Bool) (need : UEntry → Bool) (e : UEntry)
    (a : List UEntry) : ∀ s : UState, e ∈ s.kept → e ∈ (a.foldl (updateStep excl need) s).kept := by
  induction a with
  | nil => intro s h; exact h
  | cons x a ih =>
    intro s h
    rw [List.foldl_cons]
    rcases updateStep_cases excl need s x with ⟨_, hs⟩ | ⟨t, _, _, hs⟩ | ⟨t, _, _, hs⟩ <;>
      rw [hs] <;> apply ih <;> simp [h]

theorem scan_kept_mem (excl : Bytes → Bool) (need : UEntry → Bool) (e : UEntry)
    (hk : ¬ (excl e.name = false ∧ need e = true))
    (a : List UEntry) : ∀ s : UState, e ∈ a → e ∈ (a.foldl (updateStep excl need) s).kept := by
  induction a with
  | nil => intro s h; cases h
  | cons x a ih =>
    intro s h
    rw [List.foldl_cons]
    rcases List.mem_cons.1 h with rfl | h'
    · apply scan_kept_mono
      rcases updateStep_cases excl need s e with ⟨_, hs⟩ | ⟨t, _, hc, hs⟩ | ⟨t, _, _, hs⟩
      · rw [hs]; simp
      · exact absurd hc hk
      · rw [hs]; simp
    · exact ih _ h'

/-- a pending target all of whose old versions are to be replaced survives with its current
    contents (in `replaced` or still in `pending`) -/
theorem scan_current (excl : Bytes → Bool) (need : UEntry → Bool) (t : UEntry)
    (a : List UEntry) : ∀ s : UState, (names s.pending).Nodup →
      (∀ e ∈ a, e.name = t.name → (excl e.name = false ∧ need e = true)) →
      (t ∈ s.replaced ∨ t ∈ s.pending) →
      (t ∈ (a.foldl (updateStep excl need) s).replaced ∨
        t ∈ (a.foldl (updateStep excl need) s).pending) := by
  induction a with
  | nil => intro s _ _ h; exact h
  | cons e a ih =>
    intro s hnd hcur h
    have hcur' : ∀ x ∈ a, x.name = t.name → (excl x.name = false ∧ need x = true) :=
      fun x hx => hcur x (List.mem_cons_of_mem _ hx)
    have hnd' : (names (s.pending.filter (·.name != e.name))).Nodup :=
      List.Nodup.sublist (names_filter_ne_sublist _ _) hnd
    rw [List.foldl_cons]
    rcases updateStep_cases excl need s e with ⟨_, hs⟩ | ⟨t', hf, _, hs⟩ | ⟨t', hf, hc, hs⟩
    · rw [hs]; exact ih _ hnd hcur' h
    · rw [hs]; apply ih _ hnd' hcur'
      rcases h with h | h
      · left; simp [h]
      · by_cases hn : e.name = t.name
        · have ht' := find_name_spec hf
          have : t' = t := eq_of_name_eq hnd ht'.1 h (ht'.2.trans hn)
          left; simp [this]
        · right; simp only [List.mem_filter, bne_iff_ne]
          exact ⟨h, fun h' => hn h'.symm⟩
    · rw [hs]; apply ih _ hnd' hcur'
      rcases h with h | h
      · left; exact h
      · by_cases hn : e.name = t.name
        · exact absurd (hcur e List.mem_cons_self hn) hc
        · right; simp only [List.mem_filter, bne_iff_ne]
          exact ⟨h, fun h' => hn h'.symm⟩

/-- name counting through the scan -/
theorem scan_count (excl : Bytes → Bool) (need : UEntry → Bool) (n : Bytes)
    (a : List UEntry) : ∀ s : UState, (names a).Nodup → (names s.pending).Nodup →
      (names (a.foldl (updateStep excl need) s).kept).count n +
        (names (a.foldl (updateStep excl need) s).replaced).count n +
        (names (a.foldl (updateStep excl need) s).pending).count n =
      (names s.kept).count n + (names s.replaced).count n +
        (if n ∈ names s.pending then 1 else (names a).count n) := by
  induction a with
  | nil =>
    intro s _ hnd
    by_cases hn : n ∈ names s.pending
    · have h1 := List.nodup_iff_count.1 hnd n
      have h2 := List.count_pos_iff.2 hn
      simp [hn]; omega
    · simp [hn, List.count_eq_zero.2 hn]
  | cons e a ih =>
    intro s ha hnd
    simp only [names_cons, List.nodup_cons] at ha
    have hnd' : (names (s.pending.filter (·.name != e.name))).Nodup :=
      List.Nodup.sublist (names_filter_ne_sublist _ _) hnd
    rw [List.foldl_cons]
    rcases updateStep_cases excl need s e with ⟨hf, hs⟩ | ⟨t, hf, _, hs⟩ | ⟨t, hf, _, hs⟩
    · rw [hs]; refine (ih { s with kept := s.kept ++ [e] } ha.2 hnd).trans ?_
      have hne := find_name_none hf
      by_cases hn : e.name = n
      · subst hn
        simp [hne]; omega
      · have : (e.name == n) = false := by simp [hn]
        simp [List.count_cons, this]
    · rw [hs]; refine (ih _ ha.2 hnd').trans ?_
      have ht := find_name_spec hf
      have hin : e.name ∈ names s.pending := ht.2 ▸ mem_names_of_mem ht.1
      by_cases hn : e.name = n
      · subst hn
        have h0 := List.count_eq_zero.2 ha.1
        simp [mem_names_filter_ne, hin, h0, ht.2]; omega
      · have hb : (e.name == n) = false := by simp [hn]
        have hb' : (t.name == n) = false := by simp [ht.2, hn]
        have hn' : n ≠ e.name := fun h => hn h.symm
        simp [mem_names_filter_ne, hn', List.count_cons, hb, hb']
    · rw [hs]; refine (ih _ ha.2 hnd').trans ?_
      have ht := find_name_spec hf
      have hin : e.name ∈ names s.pending := ht.2 ▸ mem_names_of_mem ht.1
      by_cases hn : e.name = n
      · subst hn
        have h0 := List.count_eq_zero.2 ha.1
        simp [mem_names_filter_ne, hin, h0]; omega
      · have hb : (e.name == n) = false := by simp [hn]
        have hn' : n ≠ e.name := fun h => hn h.symm
        simp [mem_names_filter_ne, hn', List.count_cons, hb]
/-! ### `update` -/

theorem count_names_eq (n : Bytes) (l : List UEntry) :
    (l.filter (fun e => e.name == n)).length = (names l).count n := by
  rw [← List.countP_eq_length_filter, List.count_eq_countP, names, List.countP_map]
  rfl

/-- update: every entry whose name is not among the targets is still there, unchanged, in the
    same relative order, and nothing else with such a name appears. -/
theorem update_untouched (excl : Bytes → Bool) (need : UEntry → Bool) (a ts : List UEntry) :
    (updateOp excl need a ts).filter (fun e => !(names ts).contains e.name) =
      a.filter (fun e => !(names ts).contains e.name) := by
  unfold updateOp
  have hsub := scan_sub excl need (fun _ => True) (fun x => x ∈ ts) a { pending := ts }
    (fun _ _ => trivial) (fun _ _ => trivial) (fun x hx => by cases hx) (fun x hx => hx)
  have hk := scan_kept_filter excl need ts a { pending := ts } (fun x hx => hx)
  have hnil : ∀ l : List UEntry, (∀ x ∈ l, x ∈ ts) →
      l.filter (fun e => !(names ts).contains e.name) = [] := by
    intro l hl
    rw [List.filter_eq_nil_iff]
    intro x hx
    simp [mem_names_of_mem (hl x hx)]
  simp only [List.filter_append, hk, hnil _ hsub.2.1, hnil _ hsub.2.2]
  simp

/-- update: nothing is invented — every entry of the result is an old entry or a target. -/
theorem update_sound (excl : Bytes → Bool) (need : UEntry → Bool) (a ts : List UEntry) :
    ∀ e ∈ updateOp excl need a ts, e ∈ a ∨ e ∈ ts := by
  intro e he
  unfold updateOp at he
  have hsub := scan_sub excl need (fun x => x ∈ a) (fun x => x ∈ ts) a { pending := ts }
    (fun _ h => h) (fun x hx => by cases hx) (fun x hx => by cases hx) (fun x hx => hx)
  simp only [List.mem_append] at he
  rcases he with (h | h) | h
  · exact Or.inl (hsub.1 e h)
  · exact Or.inr (hsub.2.1 e h)
  · exact Or.inr (hsub.2.2 e h)

/-- update: a target that is new (not in the archive) or that is replaced (not excluded, needs
    update) is present with its CURRENT contents. -/
theorem update_target_current (excl : Bytes → Bool) (need : UEntry → Bool) (a ts : List UEntry)
    (ha : (names a).Nodup) (ht : (names ts).Nodup) (t : UEntry) (h : t ∈ ts)
    (hcur : ∀ e ∈ a, e.name = t.name → (excl e.name = false ∧ need e = true)) :
    t ∈ updateOp excl need a ts := by
  have _ := ha
  unfold updateOp
  have := scan_current excl need t a { pending := ts } ht hcur (Or.inr h)
  simp only [List.mem_append]
  rcases this with h | h
  · exact Or.inl (Or.inr h)
  · exact Or.inr h

/-- name counting for `update` -/
theorem update_count (excl : Bytes → Bool) (need : UEntry → Bool) (a ts : List UEntry)
    (ha : (names a).Nodup) (ht : (names ts).Nodup) (n : Bytes) :
    (names (updateOp excl need a ts)).count n =
      if n ∈ names ts then 1 else (names a).count n := by
  unfold updateOp
  have := scan_count excl need n a { pending := ts } ha ht
  simp only [names_append, List.count_append]
  simpa using this

/-- update: every target name is present exactly once. -/
theorem update_target_once (excl : Bytes → Bool) (need : UEntry → Bool) (a ts : List UEntry)
    (ha : (names a).Nodup) (ht : (names ts).Nodup) (t : UEntry) (h : t ∈ ts) :
    ((updateOp excl need a ts).filter (fun e => e.name == t.name)).length = 1 := by
  rw [count_names_eq, update_count excl need a ts ha ht, if_pos (mem_names_of_mem h)]

/-- update: a target whose old entry is excluded or does not need updating keeps the OLD entry. -/
theorem update_target_kept (excl : Bytes → Bool) (need : UEntry → Bool) (a ts : List UEntry)
    (ha : (names a).Nodup) (e : UEntry) (he : e ∈ a) (hin : (names ts).contains e.name = true)
    (hk : ¬ (excl e.name = false ∧ need e = true)) : e ∈ updateOp excl need a ts := by
  have _ := ha; have _ := hin
  unfold updateOp
  have := scan_kept_mem excl need e hk a { pending := ts } he
  simp only [List.mem_append]
  exact Or.inl (Or.inl this)

/-- name uniqueness is an invariant of `update`. -/
theorem update_nodup (excl : Bytes → Bool) (need : UEntry → Bool) (a ts : List UEntry)
    (ha : (names a).Nodup) (ht : (names ts).Nodup) : (names (updateOp excl need a ts)).Nodup := by
  rw [List.nodup_iff_count]
  intro n
  rw [update_count excl need a ts ha ht]
  split
  · exact Nat.le_refl 1
  · exact List.nodup_iff_count.1 ha n

/-! ### why the uniqueness hypotheses are needed (concrete instances) -/

/-- the running example: `[2]` is replaced (moves behind the kept ones), `[4]` is new -/
example : updateOp (fun _ => false) (fun _ => true)
      [⟨[1], [10]⟩, ⟨[2], [20]⟩, ⟨[3], [30]⟩] [⟨[2], [21]⟩, ⟨[4], [40]⟩] =
    [⟨[1], [10]⟩, ⟨[3], [30]⟩, ⟨[2], [21]⟩, ⟨[4], [40]⟩] := by decide

/-- excluded `[2]`: the old entry stays in place -/
example : updateOp (fun n => n == [2]) (fun _ => true)
      [⟨[1], [10]⟩, ⟨[2], [20]⟩, ⟨[3], [30]⟩] [⟨[2], [21]⟩, ⟨[4], [40]⟩] =
    [⟨[1], [10]⟩, ⟨[2], [20]⟩, ⟨[3], [30]⟩, ⟨[4], [40]⟩] := by decide

/-- without `ht` (a target name twice, not in the archive) both copies are written -/
example : updateOp (fun _ => false) (fun _ => true) [] [⟨[2], [21]⟩, ⟨[2], [22]⟩] =
    [⟨[2], [21]⟩, ⟨[2], [22]⟩] := by decide

/-- without `ht` (a target name twice, in the archive) only the FIRST target survives: the second
    one is not in the result, so `update_target_current` needs `ht` -/
example : updateOp (fun _ => false) (fun _ => true) [⟨[2], [20]⟩] [⟨[2], [21]⟩, ⟨[2], [22]⟩] =
    [⟨[2], [21]⟩] := by decide

/-- without `ha` (an archive name twice) only the first old entry is matched against the target:
    the second is kept although it needed updating, next to the re-created one -/
example : updateOp (fun _ => false) (fun _ => true) [⟨[2], [1]⟩, ⟨[2], [2]⟩] [⟨[2], [21]⟩] =
    [⟨[2], [2]⟩, ⟨[2], [21]⟩] := by decide

end Pna.Cli
