import PnaVerif.Model.Cli.Update
/-
  Properties of the entry-list model of `pna append`, `pna experimental update` and `delete`
  (`PnaVerif/Model/Cli/Update.lean`), after the two repairs of `update` (the walker's result is
  de-duplicated by name; later entries of a re-created name are left out).

  NO uniqueness hypothesis is needed any more.  The central fact is `update_withName`: for EVERY
  archive `a`, EVERY walker result `ts` and every name `n`, the entries of the result named `n` are
  * the entries of `a` named `n`, unchanged and in order, if `n` is not a target, or if the first
    archived entry of that name is excluded / filtered out by the time condition;
  * exactly the FIRST target named `n` otherwise.
  It is proved by following one name through the scan (`List.foldl updateStep`): with respect to a
  name the scan state is in one of three modes — `dropping` (the name has been re-created: later
  entries are left out), `keeping` (the name is neither pending nor re-created: entries are
  copied), `pending` (the name still waits for its first archived entry) — see `scan_dropping`,
  `scan_keeping`, `scan_pending`.
-/
namespace Pna.Cli

def names (l : List UEntry) : List Bytes := l.map (·.name)

/-- the entries named `n`, in order -/
def withName (n : Bytes) (l : List UEntry) : List UEntry := l.filter (fun e => e.name == n)

/-- "this archived entry is to be re-created": not excluded and the time filter asks for it -/
def wants (excl : Bytes → Bool) (need : UEntry → Bool) (e : UEntry) : Bool := !excl e.name && need e

theorem wants_iff (excl : Bytes → Bool) (need : UEntry → Bool) (e : UEntry) :
    wants excl need e = true ↔ (excl e.name = false ∧ need e = true) := by
  unfold wants; cases excl e.name <;> cases need e <;> simp

/-! ### `append` / `delete` -/

theorem append_spec (a ts : List UEntry) :
    appendOp a ts = a ++ ts ∧ (appendOp a ts).take a.length = a ∧ (appendOp a ts).drop a.length = ts := by
  simp [appendOp]

theorem delete_spec (sel : Bytes → Bool) (a : List UEntry) :
    deleteOp sel a = a.filter (fun e => !sel e.name) ∧ ∀ e ∈ deleteOp sel a, e ∈ a ∧ sel e.name = false := by
  refine ⟨rfl, ?_⟩
  intro e he
  simpa [deleteOp, List.mem_filter] using he

theorem append_nodup (a ts : List UEntry) (ha : (names a).Nodup) (ht : (names ts).Nodup)
    (hd : ∀ n ∈ names ts, n ∉ names a) : (names (appendOp a ts)).Nodup := by
  unfold appendOp names at *
  rw [List.map_append, List.nodup_append]
  refine ⟨ha, ht, ?_⟩
  intro x hx y hy hxy
  exact hd y hy (hxy ▸ hx)

theorem delete_nodup (sel : Bytes → Bool) (a : List UEntry) (ha : (names a).Nodup) :
    (names (deleteOp sel a)).Nodup := by
  unfold deleteOp names at *
  exact List.Nodup.sublist (List.Sublist.map _ List.filter_sublist) ha

/-! ### names, `withName` -/

@[simp] theorem names_nil : names [] = [] := rfl
@[simp] theorem names_cons (e : UEntry) (l : List UEntry) : names (e :: l) = e.name :: names l := rfl
@[simp] theorem names_append (l₁ l₂ : List UEntry) : names (l₁ ++ l₂) = names l₁ ++ names l₂ := by
  simp [names]

theorem mem_names_of_mem {e : UEntry} {l : List UEntry} (h : e ∈ l) : e.name ∈ names l :=
  List.mem_map_of_mem h

theorem mem_names_iff {n : Bytes} {l : List UEntry} : n ∈ names l ↔ ∃ x ∈ l, x.name = n := by
  simp [names]

@[simp] theorem withName_nil (n : Bytes) : withName n [] = [] := rfl

theorem withName_cons_eq {n : Bytes} {e : UEntry} (h : e.name = n) (l : List UEntry) :
    withName n (e :: l) = e :: withName n l := by
  unfold withName; rw [List.filter_cons_of_pos (by simp [h])]

theorem withName_cons_ne {n : Bytes} {e : UEntry} (h : e.name ≠ n) (l : List UEntry) :
    withName n (e :: l) = withName n l := by
  unfold withName; rw [List.filter_cons_of_neg (by simp [h])]

@[simp] theorem withName_append (n : Bytes) (l₁ l₂ : List UEntry) :
    withName n (l₁ ++ l₂) = withName n l₁ ++ withName n l₂ := by
  simp [withName]

theorem mem_withName {n : Bytes} {x : UEntry} {l : List UEntry} :
    x ∈ withName n l ↔ x ∈ l ∧ x.name = n := by
  simp [withName, List.mem_filter]

theorem withName_eq_nil {n : Bytes} {l : List UEntry} : withName n l = [] ↔ n ∉ names l := by
  simp [withName, List.filter_eq_nil_iff, names]

/-- dropping the entries named `m` does not change the entries named `n ≠ m` … -/
theorem withName_filter_ne {n m : Bytes} (h : n ≠ m) (p : List UEntry) :
    withName n (p.filter (·.name != m)) = withName n p := by
  unfold withName
  rw [List.filter_filter]
  apply List.filter_congr
  intro x _
  by_cases hx : x.name = n
  · simp [hx, h]
  · simp [hx]

/-- … and removes all entries named `m` -/
theorem withName_filter_self (n : Bytes) (p : List UEntry) :
    withName n (p.filter (·.name != n)) = [] := by
  rw [withName_eq_nil, mem_names_iff]
  rintro ⟨x, hx, rfl⟩
  simp [List.mem_filter] at hx

theorem mem_names_filter_ne (n m : Bytes) (p : List UEntry) :
    n ∈ names (p.filter (·.name != m)) ↔ n ∈ names p ∧ n ≠ m := by
  simp only [names, List.mem_map, List.mem_filter, bne_iff_ne]
  constructor
  · rintro ⟨x, ⟨hx, hne⟩, rfl⟩; exact ⟨⟨x, hx, rfl⟩, hne⟩
  · rintro ⟨⟨x, hx, rfl⟩, hne⟩; exact ⟨x, ⟨hx, hne⟩, rfl⟩

theorem names_filter_ne_sublist (m : Bytes) (p : List UEntry) :
    (names (p.filter (·.name != m))).Sublist (names p) :=
  List.Sublist.map _ List.filter_sublist

theorem find_name_spec {p : List UEntry} {m : Bytes} {t : UEntry}
    (h : p.find? (·.name == m) = some t) : t ∈ p ∧ t.name = m := by
  refine ⟨List.mem_of_find?_eq_some h, ?_⟩
  have := List.find?_some h
  simpa using this

theorem find_name_none {p : List UEntry} {m : Bytes}
    (h : p.find? (·.name == m) = none) : m ∉ names p := by
  intro hm
  rcases List.mem_map.1 hm with ⟨x, hx, rfl⟩
  have := List.find?_eq_none.1 h x hx
  simp at this

/-- the first entry named `n` is the head of the entries named `n` -/
theorem find_eq_head_withName (n : Bytes) (l : List UEntry) :
    l.find? (·.name == n) = (withName n l).head? := by
  induction l with
  | nil => rfl
  | cons x l ih =>
    by_cases hx : x.name = n
    · rw [withName_cons_eq hx]; simp [hx]
    · rw [withName_cons_ne hx, List.find?_cons_of_neg (by simp [hx]), ih]

/-- searching for `n` is not disturbed by dropping the entries named `m ≠ n` -/
theorem find_name_filter_ne {n m : Bytes} (h : n ≠ m) (p : List UEntry) :
    (p.filter (·.name != m)).find? (·.name == n) = p.find? (·.name == n) := by
  rw [find_eq_head_withName, find_eq_head_withName, withName_filter_ne h]

/-! ### the de-duplicated walker result -/

theorem dedupGo_sub (x : UEntry) (ts : List UEntry) : ∀ seen : List Bytes,
    x ∈ dedupGo seen ts → x ∈ ts ∧ x.name ∉ seen := by
  induction ts with
  | nil => intro seen h; simp [dedupGo] at h
  | cons t ts ih =>
    intro seen h
    unfold dedupGo at h
    by_cases hs : t.name ∈ seen
    · rw [if_pos (by simpa using hs)] at h
      exact ⟨List.mem_cons_of_mem _ (ih seen h).1, (ih seen h).2⟩
    · rw [if_neg (by simpa using hs)] at h
      rcases List.mem_cons.1 h with rfl | h
      · exact ⟨List.mem_cons_self, hs⟩
      · have := ih _ h
        exact ⟨List.mem_cons_of_mem _ this.1, fun hx => this.2 (List.mem_cons_of_mem _ hx)⟩

/-- the entries named `n` of the de-duplicated list: the first one of the original list, unless
    the name has been seen before -/
theorem withName_dedupGo (n : Bytes) (ts : List UEntry) : ∀ seen : List Bytes,
    withName n (dedupGo seen ts) =
      if n ∈ seen then [] else (ts.find? (·.name == n)).toList := by
  induction ts with
  | nil => intro seen; simp [dedupGo]
  | cons t ts ih =>
    intro seen
    unfold dedupGo
    by_cases hs : t.name ∈ seen
    · rw [if_pos (by simpa using hs), ih]
      by_cases hn : n ∈ seen
      · simp [hn]
      · have : t.name ≠ n := fun h => hn (h ▸ hs)
        simp [hn, List.find?_cons_of_neg, this]
    · rw [if_neg (by simpa using hs)]
      by_cases ht : t.name = n
      · rw [withName_cons_eq ht, ih]
        subst ht
        simp [hs]
      · rw [withName_cons_ne ht, ih]
        have hne : n ≠ t.name := fun h => ht h.symm
        simp [List.find?_cons_of_neg, ht, hne]

theorem withName_dedupNames (n : Bytes) (ts : List UEntry) :
    withName n (dedupNames ts) = (ts.find? (·.name == n)).toList := by
  unfold dedupNames; rw [withName_dedupGo]; simp

theorem find_dedupNames (n : Bytes) (ts : List UEntry) :
    (dedupNames ts).find? (·.name == n) = ts.find? (·.name == n) := by
  rw [find_eq_head_withName, withName_dedupNames]
  cases ts.find? (·.name == n) <;> rfl

theorem dedupNames_sub {x : UEntry} {ts : List UEntry} (h : x ∈ dedupNames ts) : x ∈ ts :=
  (dedupGo_sub x ts [] h).1

theorem mem_names_dedupNames (n : Bytes) (ts : List UEntry) :
    n ∈ names (dedupNames ts) ↔ n ∈ names ts := by
  constructor
  · intro h
    rcases mem_names_iff.1 h with ⟨x, hx, rfl⟩
    exact mem_names_of_mem (dedupNames_sub hx)
  · intro h
    apply Classical.byContradiction
    intro hn
    have h1 := withName_eq_nil.2 hn
    rw [withName_dedupNames] at h1
    cases hf : ts.find? (·.name == n) with
    | none => exact find_name_none hf h
    | some t => rw [hf] at h1; simp at h1

theorem dedupGo_nodup (ts : List UEntry) : ∀ seen : List Bytes, (names (dedupGo seen ts)).Nodup := by
  induction ts with
  | nil => intro seen; simp [dedupGo]
  | cons t ts ih =>
    intro seen
    unfold dedupGo
    split
    · exact ih seen
    · rw [names_cons, List.nodup_cons]
      refine ⟨?_, ih _⟩
      intro h
      rcases mem_names_iff.1 h with ⟨x, hx, hxn⟩
      exact (dedupGo_sub x ts _ hx).2 (hxn ▸ List.mem_cons_self)

theorem dedupNames_nodup (ts : List UEntry) : (names (dedupNames ts)).Nodup := dedupGo_nodup ts []

/-- a list with unique names is not changed -/
theorem dedupGo_of_nodup (ts : List UEntry) : ∀ seen : List Bytes, (names ts).Nodup →
    (∀ n ∈ names ts, n ∉ seen) → dedupGo seen ts = ts := by
  induction ts with
  | nil => intro seen _ _; rfl
  | cons t ts ih =>
    intro seen hnd hs
    rw [names_cons, List.nodup_cons] at hnd
    unfold dedupGo
    rw [if_neg (by simpa using hs t.name List.mem_cons_self)]
    congr 1
    apply ih _ hnd.2
    intro n hn hmem
    rcases List.mem_cons.1 hmem with rfl | h
    · exact hnd.1 hn
    · exact hs n (List.mem_cons_of_mem _ hn) h

theorem dedupNames_of_nodup (ts : List UEntry) (h : (names ts).Nodup) : dedupNames ts = ts :=
  dedupGo_of_nodup ts [] h (fun _ _ h => by cases h)

/-! ### the scan of `update` -/

/-- the four possible shapes of one scan step -/
theorem updateStep_cases (excl : Bytes → Bool) (need : UEntry → Bool) (s : UState) (e : UEntry) :
    (e.name ∈ s.done ∧ updateStep excl need s e = s) ∨
    (e.name ∉ s.done ∧ s.pending.find? (·.name == e.name) = none ∧
        updateStep excl need s e = { s with kept := s.kept ++ [e] }) ∨
    (∃ t, e.name ∉ s.done ∧ s.pending.find? (·.name == e.name) = some t ∧
        wants excl need e = true ∧
        updateStep excl need s e =
          { kept := s.kept, replaced := s.replaced ++ [t],
            pending := s.pending.filter (·.name != e.name), done := e.name :: s.done }) ∨
    (∃ t, e.name ∉ s.done ∧ s.pending.find? (·.name == e.name) = some t ∧
        wants excl need e = false ∧
        updateStep excl need s e =
          { kept := s.kept ++ [e], replaced := s.replaced,
            pending := s.pending.filter (·.name != e.name), done := s.done }) := by
  unfold updateStep
  by_cases hd : e.name ∈ s.done
  · left; exact ⟨hd, by rw [if_pos (by simpa using hd)]⟩
  · right
    rw [if_neg (by simpa using hd)]
    cases hf : s.pending.find? (·.name == e.name) with
    | none => left; exact ⟨hd, rfl, rfl⟩
    | some t =>
      right
      cases hw : wants excl need e
      · right; refine ⟨t, hd, rfl, rfl, ?_⟩
        unfold wants at hw; simp only [hw]; simp
      · left; refine ⟨t, hd, rfl, rfl, ?_⟩
        unfold wants at hw; simp only [hw]; simp

/-- `dropping`: the name has been re-created — nothing named `n` is added or removed any more -/
theorem scan_dropping (excl : Bytes → Bool) (need : UEntry → Bool) (n : Bytes)
    (a : List UEntry) : ∀ s : UState, n ∈ s.done →
      withName n (a.foldl (updateStep excl need) s).kept = withName n s.kept ∧
      withName n (a.foldl (updateStep excl need) s).replaced = withName n s.replaced ∧
      withName n (a.foldl (updateStep excl need) s).pending = withName n s.pending := by
  induction a with
  | nil => intro s _; exact ⟨rfl, rfl, rfl⟩
  | cons e a ih =>
    intro s hd
    rw [List.foldl_cons]
    rcases updateStep_cases excl need s e with ⟨_, hs⟩ | ⟨hnd, _, hs⟩ | ⟨t, hnd, hf, _, hs⟩ |
      ⟨t, hnd, hf, _, hs⟩
    · rw [hs]; exact ih s hd
    · have hne : e.name ≠ n := fun h => hnd (h ▸ hd)
      rw [hs]; have := ih { s with kept := s.kept ++ [e] } hd
      simpa [withName_cons_ne hne] using this
    · have hne : e.name ≠ n := fun h => hnd (h ▸ hd)
      have hne2 : n ≠ e.name := fun h => hne h.symm
      have htn : t.name ≠ n := (find_name_spec hf).2 ▸ hne
      rw [hs]
      have := ih { kept := s.kept, replaced := s.replaced ++ [t],
                   pending := s.pending.filter (·.name != e.name), done := e.name :: s.done }
        (List.mem_cons_of_mem _ hd)
      simpa [withName_cons_ne htn, withName_filter_ne hne2] using this
    · have hne : e.name ≠ n := fun h => hnd (h ▸ hd)
      have hne2 : n ≠ e.name := fun h => hne h.symm
      rw [hs]
      have := ih { kept := s.kept ++ [e], replaced := s.replaced,
                   pending := s.pending.filter (·.name != e.name), done := s.done } hd
      simpa [withName_cons_ne hne, withName_filter_ne hne2] using this

/-- `keeping`: the name is neither re-created nor pending — the scanned entries named `n` are
    copied -/
theorem scan_keeping (excl : Bytes → Bool) (need : UEntry → Bool) (n : Bytes)
    (a : List UEntry) : ∀ s : UState, n ∉ s.done → n ∉ names s.pending →
      withName n (a.foldl (updateStep excl need) s).kept = withName n s.kept ++ withName n a ∧
      withName n (a.foldl (updateStep excl need) s).replaced = withName n s.replaced ∧
      withName n (a.foldl (updateStep excl need) s).pending = withName n s.pending := by
  induction a with
  | nil => intro s _ _; simp
  | cons e a ih =>
    intro s hd hp
    rw [List.foldl_cons]
    rcases updateStep_cases excl need s e with ⟨hin, hs⟩ | ⟨hnd, _, hs⟩ | ⟨t, hnd, hf, _, hs⟩ |
      ⟨t, hnd, hf, _, hs⟩
    · have hne : e.name ≠ n := fun h => hd (h ▸ hin)
      rw [hs, withName_cons_ne hne]; exact ih s hd hp
    · rw [hs]; have := ih { s with kept := s.kept ++ [e] } hd hp
      by_cases hne : e.name = n
      · simpa [withName_cons_eq hne] using this
      · simpa [withName_cons_ne hne] using this
    · have ht := find_name_spec hf
      have hne : e.name ≠ n := fun h => hp (h ▸ ht.2 ▸ mem_names_of_mem ht.1)
      have hne2 : n ≠ e.name := fun h => hne h.symm
      have htn : t.name ≠ n := ht.2 ▸ hne
      rw [hs, withName_cons_ne hne]
      have := ih { kept := s.kept, replaced := s.replaced ++ [t],
                   pending := s.pending.filter (·.name != e.name), done := e.name :: s.done }
        (by simp [hd, hne2]) (by simp [mem_names_filter_ne, hp])
      simpa [withName_cons_ne htn, withName_filter_ne hne2] using this
    · have ht := find_name_spec hf
      have hne : e.name ≠ n := fun h => hp (h ▸ ht.2 ▸ mem_names_of_mem ht.1)
      have hne2 : n ≠ e.name := fun h => hne h.symm
      rw [hs, withName_cons_ne hne]
      have := ih { kept := s.kept ++ [e], replaced := s.replaced,
                   pending := s.pending.filter (·.name != e.name), done := s.done }
        hd (by simp [mem_names_filter_ne, hp])
      simpa [withName_cons_ne hne, withName_filter_ne hne2] using this

/-- a step on an entry with another name does not concern `n` -/
theorem updateStep_other (excl : Bytes → Bool) (need : UEntry → Bool) (n : Bytes) (s : UState)
    (e : UEntry) (hne : e.name ≠ n) :
    withName n (updateStep excl need s e).kept = withName n s.kept ∧
    withName n (updateStep excl need s e).replaced = withName n s.replaced ∧
    withName n (updateStep excl need s e).pending = withName n s.pending ∧
    (n ∈ (updateStep excl need s e).done ↔ n ∈ s.done) ∧
    (updateStep excl need s e).pending.find? (·.name == n) = s.pending.find? (·.name == n) := by
  have hne2 : n ≠ e.name := fun h => hne h.symm
  rcases updateStep_cases excl need s e with ⟨_, hs⟩ | ⟨_, _, hs⟩ | ⟨t, _, hf, _, hs⟩ |
    ⟨t, _, hf, _, hs⟩
  · rw [hs]; simp
  · rw [hs]; simp [withName_cons_ne hne]
  · have htn : t.name ≠ n := (find_name_spec hf).2 ▸ hne
    rw [hs]; simp [withName_cons_ne htn, withName_filter_ne hne2, find_name_filter_ne hne2, hne2]
  · rw [hs]; simp [withName_cons_ne hne, withName_filter_ne hne2, find_name_filter_ne hne2]

/-- a name that does not occur in the scanned list is not concerned by the scan -/
theorem scan_absent (excl : Bytes → Bool) (need : UEntry → Bool) (n : Bytes)
    (a : List UEntry) : ∀ s : UState, n ∉ names a →
      withName n (a.foldl (updateStep excl need) s).kept = withName n s.kept ∧
      withName n (a.foldl (updateStep excl need) s).replaced = withName n s.replaced ∧
      withName n (a.foldl (updateStep excl need) s).pending = withName n s.pending := by
  induction a with
  | nil => intro s _; exact ⟨rfl, rfl, rfl⟩
  | cons e a ih =>
    intro s hn
    rw [names_cons, List.mem_cons, not_or] at hn
    have ho := updateStep_other excl need n s e (fun h => hn.1 h.symm)
    have := ih (updateStep excl need s e) hn.2
    rw [List.foldl_cons, this.1, this.2.1, this.2.2, ho.1, ho.2.1, ho.2.2.1]
    exact ⟨rfl, rfl, rfl⟩

/-- `pending`, first archived entry of the name is to be re-created: the pending target is written
    once (to `replaced`), every archived entry of the name is left out -/
theorem scan_pending_wants (excl : Bytes → Bool) (need : UEntry → Bool) (n : Bytes) (t e : UEntry)
    (hw : wants excl need e = true)
    (a : List UEntry) : ∀ s : UState, n ∉ s.done → s.pending.find? (·.name == n) = some t →
      a.find? (·.name == n) = some e →
      withName n (a.foldl (updateStep excl need) s).kept = withName n s.kept ∧
      withName n (a.foldl (updateStep excl need) s).replaced = withName n s.replaced ++ [t] ∧
      withName n (a.foldl (updateStep excl need) s).pending = [] := by
  induction a with
  | nil => intro s _ _ h; simp at h
  | cons x a ih =>
    intro s hd hp ha
    rw [List.foldl_cons]
    by_cases hx : x.name = n
    · rw [List.find?_cons_of_pos (by simp [hx])] at ha
      have hxe : x = e := Option.some.inj ha
      rw [hxe] at hx ⊢
      subst hx
      have htn := (find_name_spec hp).2
      rcases updateStep_cases excl need s e with ⟨hin, _⟩ | ⟨_, hf, _⟩ | ⟨t', _, hf, _, hs⟩ |
        ⟨t', _, hf, hw', _⟩
      · exact absurd hin hd
      · rw [hp] at hf; cases hf
      · rw [hp] at hf; cases hf
        rw [hs]
        have := scan_dropping excl need e.name a
          { kept := s.kept, replaced := s.replaced ++ [t],
            pending := s.pending.filter (·.name != e.name), done := e.name :: s.done }
          List.mem_cons_self
        simpa [withName_cons_eq htn, withName_filter_self] using this
      · rw [hw] at hw'; cases hw'
    · rw [List.find?_cons_of_neg (by simp [hx])] at ha
      have ho := updateStep_other excl need n s x hx
      have := ih (updateStep excl need s x) (fun h => hd (ho.2.2.2.1.1 h)) (ho.2.2.2.2 ▸ hp) ha
      rw [this.1, this.2.1, this.2.2, ho.1, ho.2.1]
      exact ⟨rfl, rfl, rfl⟩

/-- `pending`, first archived entry of the name is excluded / filtered out: the target is
    forgotten, every archived entry of the name is copied -/
theorem scan_pending_skips (excl : Bytes → Bool) (need : UEntry → Bool) (n : Bytes) (t e : UEntry)
    (hw : wants excl need e = false)
    (a : List UEntry) : ∀ s : UState, n ∉ s.done → s.pending.find? (·.name == n) = some t →
      a.find? (·.name == n) = some e →
      withName n (a.foldl (updateStep excl need) s).kept = withName n s.kept ++ withName n a ∧
      withName n (a.foldl (updateStep excl need) s).replaced = withName n s.replaced ∧
      withName n (a.foldl (updateStep excl need) s).pending = [] := by
  induction a with
  | nil => intro s _ _ h; simp at h
  | cons x a ih =>
    intro s hd hp ha
    rw [List.foldl_cons]
    by_cases hx : x.name = n
    · rw [List.find?_cons_of_pos (by simp [hx])] at ha
      have hxe : x = e := Option.some.inj ha
      rw [hxe] at hx ⊢
      subst hx
      rcases updateStep_cases excl need s e with ⟨hin, _⟩ | ⟨_, hf, _⟩ | ⟨t', _, hf, hw', _⟩ |
        ⟨t', _, hf, _, hs⟩
      · exact absurd hin hd
      · rw [hp] at hf; cases hf
      · rw [hw] at hw'; cases hw'
      · rw [hs]
        have := scan_keeping excl need e.name a
          { kept := s.kept ++ [e], replaced := s.replaced,
            pending := s.pending.filter (·.name != e.name), done := s.done }
          hd (by simp [mem_names_filter_ne])
        simpa [withName_cons_eq, withName_filter_self] using this
    · rw [List.find?_cons_of_neg (by simp [hx])] at ha
      have ho := updateStep_other excl need n s x hx
      have := ih (updateStep excl need s x) (fun h => hd (ho.2.2.2.1.1 h)) (ho.2.2.2.2 ▸ hp) ha
      rw [this.1, this.2.1, this.2.2, ho.1, ho.2.1, withName_cons_ne hx]
      exact ⟨rfl, rfl, rfl⟩

/-! ### the three parts of the result, one name at a time -/

/-- the final state of the scan of `updateOp` -/
def updateScan (excl : Bytes → Bool) (need : UEntry → Bool) (a ts : List UEntry) : UState :=
  a.foldl (updateStep excl need) { pending := dedupNames ts }

theorem updateOp_eq_scan (excl : Bytes → Bool) (need : UEntry → Bool) (a ts : List UEntry) :
    updateOp excl need a ts =
      (updateScan excl need a ts).kept ++ (updateScan excl need a ts).replaced ++
        (updateScan excl need a ts).pending := rfl

/-- where the entries named `n` of the result sit: copied (`kept`), re-created (`replaced`) or
    new (`pending`) -/
theorem update_parts (excl : Bytes → Bool) (need : UEntry → Bool) (a ts : List UEntry) (n : Bytes) :
    (ts.find? (·.name == n) = none ∧
      withName n (updateScan excl need a ts).kept = withName n a ∧
      withName n (updateScan excl need a ts).replaced = [] ∧
      withName n (updateScan excl need a ts).pending = []) ∨
    (∃ t0, ts.find? (·.name == n) = some t0 ∧ a.find? (·.name == n) = none ∧
      withName n (updateScan excl need a ts).kept = [] ∧
      withName n (updateScan excl need a ts).replaced = [] ∧
      withName n (updateScan excl need a ts).pending = [t0]) ∨
    (∃ t0 e, ts.find? (·.name == n) = some t0 ∧ a.find? (·.name == n) = some e ∧
      wants excl need e = true ∧
      withName n (updateScan excl need a ts).kept = [] ∧
      withName n (updateScan excl need a ts).replaced = [t0] ∧
      withName n (updateScan excl need a ts).pending = []) ∨
    (∃ t0 e, ts.find? (·.name == n) = some t0 ∧ a.find? (·.name == n) = some e ∧
      wants excl need e = false ∧
      withName n (updateScan excl need a ts).kept = withName n a ∧
      withName n (updateScan excl need a ts).replaced = [] ∧
      withName n (updateScan excl need a ts).pending = []) := by
  unfold updateScan
  have hfd := find_dedupNames n ts
  cases hft : ts.find? (·.name == n) with
  | none =>
    rw [hft] at hfd
    have hp : n ∉ names (dedupNames ts) := find_name_none hfd
    have := scan_keeping excl need n a { pending := dedupNames ts } (by simp) hp
    left
    rw [this.1, this.2.1, this.2.2, withName_eq_nil.2 hp]
    simp
  | some t0 =>
    rw [hft] at hfd
    have hwd : withName n (dedupNames ts) = [t0] := by rw [withName_dedupNames, hft]; rfl
    right
    cases hfa : a.find? (·.name == n) with
    | none =>
      have := scan_absent excl need n a { pending := dedupNames ts } (find_name_none hfa)
      left
      rw [this.1, this.2.1, this.2.2, hwd]; simp
    | some e =>
      right
      cases hw : wants excl need e
      · have := scan_pending_skips excl need n t0 e hw a { pending := dedupNames ts } (by simp)
          hfd hfa
        right
        rw [this.1, this.2.1, this.2.2]; simp [hw]
      · have := scan_pending_wants excl need n t0 e hw a { pending := dedupNames ts } (by simp)
          hfd hfa
        left
        rw [this.1, this.2.1, this.2.2]; simp [hw]

/-! ### `update`, one name at a time -/

/-- what `update` does to the name `n`, as a function of the first target and the first archived
    entry of that name -/
def updateName (excl : Bytes → Bool) (need : UEntry → Bool) (a ts : List UEntry) (n : Bytes) :
    List UEntry :=
  match ts.find? (·.name == n) with
  | none => withName n a
  | some t0 =>
    match a.find? (·.name == n) with
    | none => [t0]
    | some e => if wants excl need e then [t0] else withName n a

/-- **The central fact**, for every archive and every walker result (no uniqueness assumed): the
    entries of the result named `n` are the archived ones, unchanged and in order, when `n` is not
    a target or the first archived entry of that name is excluded / filtered out; otherwise they
    are exactly the first target of that name. -/
theorem update_withName (excl : Bytes → Bool) (need : UEntry → Bool) (a ts : List UEntry)
    (n : Bytes) : withName n (updateOp excl need a ts) = updateName excl need a ts n := by
  rw [updateOp_eq_scan, updateName]
  simp only [withName_append]
  rcases update_parts excl need a ts n with ⟨hft, hk, hr, hp⟩ | ⟨t0, hft, hfa, hk, hr, hp⟩ |
    ⟨t0, e, hft, hfa, hw, hk, hr, hp⟩ | ⟨t0, e, hft, hfa, hw, hk, hr, hp⟩ <;>
    rw [hk, hr, hp, hft]
  · simp
  · simp [hfa]
  · simp [hfa, hw]
  · simp [hfa, hw]

theorem count_names_eq (n : Bytes) (l : List UEntry) :
    (l.filter (fun e => e.name == n)).length = (names l).count n := by
  rw [← List.countP_eq_length_filter, List.count_eq_countP, names, List.countP_map]
  rfl

/-- update: a target whose first archived entry (if there is one) is to be re-created is present
    exactly once: as the first target of its name. -/
theorem update_target_exact (excl : Bytes → Bool) (need : UEntry → Bool) (a ts : List UEntry)
    (n : Bytes) (t0 : UEntry) (h0 : ts.find? (·.name == n) = some t0)
    (hcur : ∀ e, a.find? (·.name == n) = some e → (excl e.name = false ∧ need e = true)) :
    (updateOp excl need a ts).filter (fun e => e.name == n) = [t0] := by
  show withName n (updateOp excl need a ts) = [t0]
  rw [update_withName, updateName, h0]
  cases hfa : a.find? (·.name == n) with
  | none => rfl
  | some e => simp only; rw [if_pos ((wants_iff excl need e).2 (hcur e hfa))]

/-- every element of a list has a first element of its name -/
theorem exists_first_of_mem {t : UEntry} {ts : List UEntry} (h : t ∈ ts) :
    ∃ t0, ts.find? (·.name == t.name) = some t0 := by
  cases hf : ts.find? (·.name == t.name) with
  | none => exact absurd (mem_names_of_mem h) (find_name_none hf)
  | some t0 => exact ⟨t0, rfl⟩

/-- update: every target whose first archived entry is to be re-created is present exactly once —
    whatever the number of archived entries and of targets of that name. -/
theorem update_target_once (excl : Bytes → Bool) (need : UEntry → Bool) (a ts : List UEntry)
    (t : UEntry) (h : t ∈ ts)
    (hcur : ∀ e, a.find? (·.name == t.name) = some e → (excl e.name = false ∧ need e = true)) :
    ((updateOp excl need a ts).filter (fun e => e.name == t.name)).length = 1 := by
  rcases exists_first_of_mem h with ⟨t0, h0⟩
  rw [update_target_exact excl need a ts t.name t0 h0 hcur]; rfl

/-- update: … and it is the first target of that name (its CURRENT contents). -/
theorem update_target_first (excl : Bytes → Bool) (need : UEntry → Bool) (a ts : List UEntry)
    (t t0 : UEntry) (h0 : ts.find? (·.name == t.name) = some t0)
    (hcur : ∀ e, a.find? (·.name == t.name) = some e → (excl e.name = false ∧ need e = true)) :
    t0 ∈ updateOp excl need a ts := by
  have := update_target_exact excl need a ts t.name t0 h0 hcur
  have hm : t0 ∈ (updateOp excl need a ts).filter (fun e => e.name == t.name) := by
    rw [this]; exact List.mem_singleton.2 rfl
  exact (List.mem_filter.1 hm).1

/-- in a list with unique names an entry is the first of its name -/
theorem find_of_nodup {ts : List UEntry} (ht : (names ts).Nodup) {t : UEntry} (h : t ∈ ts) :
    ts.find? (·.name == t.name) = some t := by
  induction ts with
  | nil => cases h
  | cons x ts ih =>
    rw [names_cons, List.nodup_cons] at ht
    rcases List.mem_cons.1 h with rfl | h'
    · simp
    · have : x.name ≠ t.name := fun hx => ht.1 (hx ▸ mem_names_of_mem h')
      rw [List.find?_cons_of_neg (by simp [this])]
      exact ih ht.2 h'

/-- the old formulation (walker result with unique names): the target itself is present -/
theorem update_target_current (excl : Bytes → Bool) (need : UEntry → Bool) (a ts : List UEntry)
    (ht : (names ts).Nodup) (t : UEntry) (h : t ∈ ts)
    (hcur : ∀ e, a.find? (·.name == t.name) = some e → (excl e.name = false ∧ need e = true)) :
    t ∈ updateOp excl need a ts :=
  update_target_first excl need a ts t t (find_of_nodup ht h) hcur

/-- update: when the first archived entry of a name is excluded or does not need updating, ALL
    archived entries of that name are kept, unchanged and in order, and nothing else has that name. -/
theorem update_target_kept (excl : Bytes → Bool) (need : UEntry → Bool) (a ts : List UEntry)
    (e : UEntry) (he : a.find? (·.name == e.name) = some e)
    (hk : ¬ (excl e.name = false ∧ need e = true)) :
    (updateOp excl need a ts).filter (fun x => x.name == e.name) =
      a.filter (fun x => x.name == e.name) := by
  show withName e.name (updateOp excl need a ts) = withName e.name a
  rw [update_withName, updateName, he]
  have hw : wants excl need e = false := by
    cases h : wants excl need e
    · rfl
    · exact absurd ((wants_iff excl need e).1 h) hk
  cases ts.find? (·.name == e.name) with
  | none => rfl
  | some t0 => simp only; rw [hw]; rfl

/-! ### whole-list invariants of the scan -/

/-- membership invariant of the scan -/
theorem scan_sub (excl : Bytes → Bool) (need : UEntry → Bool) (A T : UEntry → Prop)
    (a : List UEntry) : ∀ s : UState, (∀ x ∈ a, A x) → (∀ x ∈ s.kept, A x) →
      (∀ x ∈ s.replaced, T x) → (∀ x ∈ s.pending, T x) →
      (∀ x ∈ (a.foldl (updateStep excl need) s).kept, A x) ∧
      (∀ x ∈ (a.foldl (updateStep excl need) s).replaced, T x) ∧
      (∀ x ∈ (a.foldl (updateStep excl need) s).pending, T x) := by
  induction a with
  | nil => intro s _ hk hr hp; exact ⟨hk, hr, hp⟩
  | cons e a ih =>
    intro s hA hk hr hp
    have hA2 : ∀ x ∈ a, A x := fun x hx => hA x (List.mem_cons_of_mem _ hx)
    have hAe : A e := hA e List.mem_cons_self
    have hke : ∀ x ∈ s.kept ++ [e], A x := by
      intro x hx; rcases List.mem_append.1 hx with h | h
      · exact hk x h
      · rw [List.mem_singleton.1 h]; exact hAe
    have hpf : ∀ x ∈ s.pending.filter (·.name != e.name), T x :=
      fun x hx => hp x (List.mem_filter.1 hx).1
    rw [List.foldl_cons]
    rcases updateStep_cases excl need s e with ⟨_, hs⟩ | ⟨_, _, hs⟩ | ⟨t, _, hf, _, hs⟩ |
      ⟨t, _, hf, _, hs⟩ <;> rw [hs]
    · exact ih s hA2 hk hr hp
    · exact ih { s with kept := s.kept ++ [e] } hA2 hke hr hp
    · refine ih { kept := s.kept, replaced := s.replaced ++ [t],
                  pending := s.pending.filter (·.name != e.name), done := e.name :: s.done }
        hA2 hk ?_ hpf
      intro x hx; rcases List.mem_append.1 hx with h | h
      · exact hr x h
      · rw [List.mem_singleton.1 h]; exact hp t (find_name_spec hf).1
    · exact ih { kept := s.kept ++ [e], replaced := s.replaced,
                 pending := s.pending.filter (·.name != e.name), done := s.done } hA2 hke hr hpf

/-- the untargeted part of `kept` is the untargeted part of what was scanned -/
theorem scan_kept_filter (excl : Bytes → Bool) (need : UEntry → Bool) (ts : List UEntry)
    (a : List UEntry) : ∀ s : UState, (∀ x ∈ s.pending, x ∈ ts) → (∀ m ∈ s.done, m ∈ names ts) →
      (a.foldl (updateStep excl need) s).kept.filter (fun e => !(names ts).contains e.name) =
        s.kept.filter (fun e => !(names ts).contains e.name) ++
          a.filter (fun e => !(names ts).contains e.name) := by
  induction a with
  | nil => intro s _ _; simp
  | cons e a ih =>
    intro s hp hd
    have hpf : ∀ x ∈ s.pending.filter (·.name != e.name), x ∈ ts :=
      fun x hx => hp x (List.mem_filter.1 hx).1
    rw [List.foldl_cons]
    rcases updateStep_cases excl need s e with ⟨hin, hs⟩ | ⟨_, _, hs⟩ | ⟨t, _, hf, _, hs⟩ |
      ⟨t, _, hf, _, hs⟩ <;> rw [hs]
    · refine (ih s hp hd).trans ?_
      simp [hd _ hin]
    · refine (ih { s with kept := s.kept ++ [e] } hp hd).trans ?_
      simp only [List.filter_append, List.filter_cons, List.filter_nil]
      split <;> simp
    · have ht := find_name_spec hf
      have hin : e.name ∈ names ts := by
        rw [← ht.2]; exact mem_names_of_mem (hp t ht.1)
      refine (ih { kept := s.kept, replaced := s.replaced ++ [t],
                   pending := s.pending.filter (·.name != e.name), done := e.name :: s.done }
        hpf ?_).trans ?_
      · intro m hm; rcases List.mem_cons.1 hm with rfl | hm
        · exact hin
        · exact hd m hm
      · simp [hin]
    · refine (ih { kept := s.kept ++ [e], replaced := s.replaced,
                   pending := s.pending.filter (·.name != e.name), done := s.done } hpf hd).trans ?_
      simp only [List.filter_append, List.filter_cons, List.filter_nil]
      split <;> simp

/-! ### `update`, whole-list statements -/

/-- update: every entry whose name is not among the targets is still there, unchanged, in the
    same relative order, and nothing else with such a name appears. -/
theorem update_untouched (excl : Bytes → Bool) (need : UEntry → Bool) (a ts : List UEntry) :
    (updateOp excl need a ts).filter (fun e => !(names ts).contains e.name) =
      a.filter (fun e => !(names ts).contains e.name) := by
  unfold updateOp
  have hD : ∀ x ∈ dedupNames ts, x ∈ ts := fun x hx => dedupNames_sub hx
  have hsub := scan_sub excl need (fun _ => True) (fun x => x ∈ ts) a { pending := dedupNames ts }
    (fun _ _ => trivial) (fun _ _ => trivial) (fun x hx => by cases hx) hD
  have hk := scan_kept_filter excl need ts a { pending := dedupNames ts } hD
    (fun m hm => by cases hm)
  have hnil : ∀ l : List UEntry, (∀ x ∈ l, x ∈ ts) →
      l.filter (fun e => !(names ts).contains e.name) = [] := by
    intro l hl
    rw [List.filter_eq_nil_iff]
    intro x hx
    simp [mem_names_of_mem (hl x hx)]
  simp only [List.filter_append, hk, hnil _ hsub.2.1, hnil _ hsub.2.2]
  simp

/-- update: nothing is invented — every entry of the result is an old entry or a target. -/
theorem update_sound (excl : Bytes → Bool) (need : UEntry → Bool) (a ts : List UEntry) :
    ∀ e ∈ updateOp excl need a ts, e ∈ a ∨ e ∈ ts := by
  intro e he
  unfold updateOp at he
  have hsub := scan_sub excl need (fun x => x ∈ a) (fun x => x ∈ ts) a { pending := dedupNames ts }
    (fun _ h => h) (fun x hx => by cases hx) (fun x hx => by cases hx)
    (fun x hx => dedupNames_sub hx)
  simp only [List.mem_append] at he
  rcases he with (h | h) | h
  · exact Or.inl (hsub.1 e h)
  · exact Or.inr (hsub.2.1 e h)
  · exact Or.inr (hsub.2.2 e h)

/-- name counting for `update` -/
theorem update_count (excl : Bytes → Bool) (need : UEntry → Bool) (a ts : List UEntry) (n : Bytes) :
    (names (updateOp excl need a ts)).count n = (updateName excl need a ts n).length := by
  rw [← count_names_eq, ← update_withName]; rfl

theorem updateName_length_le (excl : Bytes → Bool) (need : UEntry → Bool) (a ts : List UEntry)
    (n : Bytes) : (updateName excl need a ts n).length ≤ max 1 ((names a).count n) := by
  have hc : (withName n a).length = (names a).count n := count_names_eq n a
  unfold updateName
  split
  · omega
  · split
    · simp only [List.length_singleton]; omega
    · split
      · simp only [List.length_singleton]; omega
      · omega

/-- name uniqueness of the ARCHIVE is an invariant of `update` (the walker result may repeat
    names). -/
theorem update_nodup (excl : Bytes → Bool) (need : UEntry → Bool) (a ts : List UEntry)
    (ha : (names a).Nodup) : (names (updateOp excl need a ts)).Nodup := by
  rw [List.nodup_iff_count]
  intro n
  rw [update_count]
  have h1 := updateName_length_le excl need a ts n
  have h2 := List.nodup_iff_count.1 ha n
  omega

/-- a name is in the result iff it is archived or a target -/
theorem mem_names_update (excl : Bytes → Bool) (need : UEntry → Bool) (a ts : List UEntry)
    (n : Bytes) : n ∈ names (updateOp excl need a ts) ↔ n ∈ names a ∨ n ∈ names ts := by
  have h1 : n ∈ names (updateOp excl need a ts) ↔ updateName excl need a ts n ≠ [] := by
    rw [← update_withName, Ne, withName_eq_nil, Classical.not_not]
  rw [h1]
  unfold updateName
  cases hft : ts.find? (·.name == n) with
  | none =>
    have := find_name_none hft
    simp only [Ne, withName_eq_nil, Classical.not_not]
    exact ⟨Or.inl, fun h => h.resolve_right this⟩
  | some t0 =>
    have ht : n ∈ names ts := (find_name_spec hft).2 ▸ mem_names_of_mem (find_name_spec hft).1
    cases hfa : a.find? (·.name == n) with
    | none => simp [ht]
    | some e =>
      have hae : n ∈ names a := (find_name_spec hfa).2 ▸ mem_names_of_mem (find_name_spec hfa).1
      simp only [ht, or_true, iff_true]
      split
      · simp
      · exact fun h => withName_eq_nil.1 h hae

/-! ### running `update` twice -/

/-- two lists with the same entries under every name are permutations of each other -/
theorem perm_of_withName_eq {l₁ l₂ : List UEntry} (h : ∀ n, withName n l₁ = withName n l₂) :
    l₁.Perm l₂ := by
  rw [List.perm_iff_count]
  intro x
  have hc : ∀ l : List UEntry, (withName x.name l).count x = l.count x := by
    intro l; unfold withName; exact List.count_filter (by simp)
  rw [← hc l₁, ← hc l₂, h]

/-- … and equal as soon as their name sequences agree -/
theorem eq_of_withName_eq : ∀ {l₁ l₂ : List UEntry}, (∀ n, withName n l₁ = withName n l₂) →
    names l₁ = names l₂ → l₁ = l₂
  | [], [], _, _ => rfl
  | [], _ :: _, _, hn => by simp at hn
  | _ :: _, [], _, hn => by simp at hn
  | x :: l₁, y :: l₂, h, hn => by
    rw [names_cons, names_cons, List.cons.injEq] at hn
    have hx := h x.name
    rw [withName_cons_eq rfl, withName_cons_eq hn.1.symm, List.cons.injEq] at hx
    have hxy : x = y := hx.1
    subst hxy
    congr 1
    apply eq_of_withName_eq _ hn.2
    intro n
    have := h n
    by_cases hxn : x.name = n
    · rw [withName_cons_eq hxn, withName_cons_eq hxn, List.cons.injEq] at this; exact this.2
    · rw [withName_cons_ne hxn, withName_cons_ne hxn] at this; exact this

/-- a second identical `update` changes nothing under any name -/
theorem update_twice_withName (excl : Bytes → Bool) (need : UEntry → Bool) (a ts : List UEntry)
    (n : Bytes) :
    withName n (updateOp excl need (updateOp excl need a ts) ts) =
      withName n (updateOp excl need a ts) := by
  have hb := update_withName excl need a ts n
  rw [update_withName excl need (updateOp excl need a ts) ts n]
  have hfb := find_eq_head_withName n (updateOp excl need a ts)
  have hfa := find_eq_head_withName n a
  unfold updateName at hb ⊢
  cases hft : ts.find? (·.name == n) with
  | none => rfl
  | some t0 =>
    rw [hft] at hb
    simp only at hb ⊢
    cases hfa2 : a.find? (·.name == n) with
    | none =>
      rw [hfa2] at hb; simp only at hb
      rw [hb] at hfb ⊢; rw [hfb]; simp
    | some e =>
      rw [hfa2] at hb; simp only at hb
      cases hw : wants excl need e
      · rw [hw] at hb; simp only [Bool.false_eq_true, if_false] at hb
        rw [hb, ← hfa, hfa2] at hfb
        rw [hfb]; simp only [hw, Bool.false_eq_true, if_false]
      · rw [hw] at hb; simp only [if_true] at hb
        rw [hb] at hfb ⊢; rw [hfb]; simp

/-- **Idempotence up to order**: a second identical `update` yields the same entries (as a
    multiset), for every archive and walker result. -/
theorem update_twice_perm (excl : Bytes → Bool) (need : UEntry → Bool) (a ts : List UEntry) :
    (updateOp excl need (updateOp excl need a ts) ts).Perm (updateOp excl need a ts) :=
  perm_of_withName_eq (update_twice_withName excl need a ts)

/-! ### scanning a list whose entries are all copied / all matched by their own target -/

theorem find_filter_of {p : List UEntry} {g f : UEntry → Bool} {q : UEntry}
    (h : p.find? g = some q) (hf : f q = true) : (p.filter f).find? g = some q := by
  induction p with
  | nil => simp at h
  | cons x p ih =>
    by_cases hg : g x = true
    · rw [List.find?_cons_of_pos hg] at h
      obtain rfl : x = q := Option.some.inj h
      rw [List.filter_cons_of_pos hf, List.find?_cons_of_pos hg]
    · rw [List.find?_cons_of_neg hg] at h
      by_cases hfx : f x = true
      · rw [List.filter_cons_of_pos hfx, List.find?_cons_of_neg hg]; exact ih h
      · rw [List.filter_cons_of_neg hfx]; exact ih h

theorem filter_not_names_cons (e : UEntry) (K p : List UEntry) :
    p.filter (fun t => !(names (e :: K)).contains t.name) =
      (p.filter (·.name != e.name)).filter (fun t => !(names K).contains t.name) := by
  rw [List.filter_filter]
  apply List.filter_congr
  intro x _
  by_cases hx : x.name = e.name <;> simp [hx, bne]

theorem filter_ne_of_not_mem {m : Bytes} {p : List UEntry} (h : m ∉ names p) :
    p.filter (·.name != m) = p := by
  rw [List.filter_eq_self]
  intro x hx
  simp only [bne_iff_ne]
  exact fun hxm => h (hxm ▸ mem_names_of_mem hx)

/-- a list in which every entry is copied: no name re-created so far, and whenever a name is
    still pending its first entry in the list is excluded / filtered out -/
theorem scan_all_kept (excl : Bytes → Bool) (need : UEntry → Bool)
    (K : List UEntry) : ∀ s : UState, (∀ e ∈ K, e.name ∉ s.done) →
      (∀ e ∈ K, e.name ∈ names s.pending →
        ∃ e0, K.find? (·.name == e.name) = some e0 ∧ wants excl need e0 = false) →
      (K.foldl (updateStep excl need) s).kept = s.kept ++ K ∧
      (K.foldl (updateStep excl need) s).replaced = s.replaced ∧
      (K.foldl (updateStep excl need) s).pending =
        s.pending.filter (fun t => !(names K).contains t.name) ∧
      (K.foldl (updateStep excl need) s).done = s.done := by
  induction K with
  | nil => intro s _ _; simp; exact (List.filter_eq_self.2 (fun _ _ => rfl)).symm
  | cons e K ih =>
    intro s hd hk
    have hd2 : ∀ x ∈ K, x.name ∉ s.done := fun x hx => hd x (List.mem_cons_of_mem _ hx)
    -- the hypothesis for the tail, once the entries named `e.name` are gone from `pending`
    have hk2 : ∀ x ∈ K, x.name ∈ names (s.pending.filter (·.name != e.name)) →
        ∃ e0, K.find? (·.name == x.name) = some e0 ∧ wants excl need e0 = false := by
      intro x hx hin
      rw [mem_names_filter_ne] at hin
      rcases hk x (List.mem_cons_of_mem _ hx) hin.1 with ⟨e0, h0, hw0⟩
      have : e.name ≠ x.name := fun h => hin.2 h.symm
      rw [List.find?_cons_of_neg (by simp [this])] at h0
      exact ⟨e0, h0, hw0⟩
    rw [List.foldl_cons, filter_not_names_cons]
    rcases updateStep_cases excl need s e with ⟨hin, _⟩ | ⟨_, hf, hs⟩ | ⟨t, _, hf, hw, _⟩ |
      ⟨t, _, hf, _, hs⟩
    · exact absurd hin (hd e List.mem_cons_self)
    · have hnp := find_name_none hf
      rw [hs]
      have := ih { s with kept := s.kept ++ [e] } hd2
        (fun x hx hin => hk2 x hx (by rw [filter_ne_of_not_mem hnp]; exact hin))
      rw [filter_ne_of_not_mem hnp]
      simpa using this
    · have ht := find_name_spec hf
      rcases hk e List.mem_cons_self (ht.2 ▸ mem_names_of_mem ht.1) with ⟨e0, h0, hw0⟩
      rw [List.find?_cons_of_pos (by simp)] at h0
      obtain rfl : e = e0 := Option.some.inj h0
      rw [hw] at hw0; cases hw0
    · rw [hs]
      have := ih { kept := s.kept ++ [e], replaced := s.replaced,
                   pending := s.pending.filter (·.name != e.name), done := s.done } hd2 hk2
      simpa using this

/-- a list of distinct names in which every entry finds ITSELF as its pending target: each entry
    is copied (excluded / filtered out) or re-created by itself -/
theorem scan_own_targets (excl : Bytes → Bool) (need : UEntry → Bool)
    (Q : List UEntry) : ∀ s : UState, (names Q).Nodup → (∀ q ∈ Q, q.name ∉ s.done) →
      (∀ q ∈ Q, s.pending.find? (·.name == q.name) = some q) →
      (Q.foldl (updateStep excl need) s).kept =
        s.kept ++ Q.filter (fun q => !wants excl need q) ∧
      (Q.foldl (updateStep excl need) s).replaced = s.replaced ++ Q.filter (wants excl need) ∧
      (Q.foldl (updateStep excl need) s).pending =
        s.pending.filter (fun t => !(names Q).contains t.name) := by
  induction Q with
  | nil => intro s _ _ _; simp; exact (List.filter_eq_self.2 (fun _ _ => rfl)).symm
  | cons e Q ih =>
    intro s hnd hd hp
    rw [names_cons, List.nodup_cons] at hnd
    have hne : ∀ q ∈ Q, q.name ≠ e.name := fun q hq h => hnd.1 (h ▸ mem_names_of_mem hq)
    have hd2 : ∀ q ∈ Q, q.name ∉ s.done := fun q hq => hd q (List.mem_cons_of_mem _ hq)
    have hp2 : ∀ q ∈ Q, (s.pending.filter (·.name != e.name)).find? (·.name == q.name) = some q :=
      fun q hq => by rw [find_name_filter_ne (hne q hq)]; exact hp q (List.mem_cons_of_mem _ hq)
    rw [List.foldl_cons, filter_not_names_cons]
    rcases updateStep_cases excl need s e with ⟨hin, _⟩ | ⟨_, hf, _⟩ | ⟨t, _, hf, hw, hs⟩ |
      ⟨t, _, hf, hw, hs⟩
    · exact absurd hin (hd e List.mem_cons_self)
    · rw [hp e List.mem_cons_self] at hf; cases hf
    · rw [hp e List.mem_cons_self] at hf
      obtain rfl : e = t := Option.some.inj hf
      rw [hs]
      have := ih { kept := s.kept, replaced := s.replaced ++ [e],
                   pending := s.pending.filter (·.name != e.name), done := e.name :: s.done }
        hnd.2 (fun q hq => by simp [hd2 q hq, hne q hq]) hp2
      simpa [List.filter_cons, hw] using this
    · rw [hs]
      have := ih { kept := s.kept ++ [e], replaced := s.replaced,
                   pending := s.pending.filter (·.name != e.name), done := s.done }
        hnd.2 hd2 hp2
      simpa [List.filter_cons, hw] using this

/-! ### the exact result of a second identical `update` -/

theorem scan_kept_first (excl : Bytes → Bool) (need : UEntry → Bool) (a ts : List UEntry) :
    ∀ e ∈ (updateScan excl need a ts).kept, e.name ∈ names (dedupNames ts) →
      ∃ e0, (updateScan excl need a ts).kept.find? (·.name == e.name) = some e0 ∧
        wants excl need e0 = false := by
  intro e he hin
  rw [mem_names_dedupNames] at hin
  have hmem : e ∈ withName e.name (updateScan excl need a ts).kept := mem_withName.2 ⟨he, rfl⟩
  rcases update_parts excl need a ts e.name with ⟨hft, _⟩ | ⟨t0, _, _, hk, _⟩ |
    ⟨t0, e0, _, _, _, hk, _⟩ | ⟨t0, e0, _, hfa, hw, hk, _⟩
  · exact absurd hin (find_name_none hft)
  · rw [hk] at hmem; cases hmem
  · rw [hk] at hmem; cases hmem
  · exact ⟨e0, by rw [find_eq_head_withName, hk, ← find_eq_head_withName, hfa], hw⟩

theorem scan_new_nodup (excl : Bytes → Bool) (need : UEntry → Bool) (a ts : List UEntry) :
    (names ((updateScan excl need a ts).replaced ++ (updateScan excl need a ts).pending)).Nodup := by
  rw [List.nodup_iff_count]
  intro n
  rw [← count_names_eq]
  show (withName n _).length ≤ 1
  rw [withName_append]
  rcases update_parts excl need a ts n with ⟨_, _, hr, hp⟩ | ⟨t0, _, _, _, hr, hp⟩ |
    ⟨t0, e0, _, _, _, _, hr, hp⟩ | ⟨t0, e0, _, _, _, _, hr, hp⟩ <;> rw [hr, hp] <;> simp

theorem scan_new_sub (excl : Bytes → Bool) (need : UEntry → Bool) (a ts : List UEntry) :
    ∀ q ∈ (updateScan excl need a ts).replaced ++ (updateScan excl need a ts).pending,
      q ∈ dedupNames ts := by
  have hsub := scan_sub excl need (fun _ => True) (fun x => x ∈ dedupNames ts) a
    { pending := dedupNames ts } (fun _ _ => trivial) (fun _ _ => trivial)
    (fun x hx => by cases hx) (fun x hx => hx)
  intro q hq
  rcases List.mem_append.1 hq with h | h
  · exact hsub.2.1 q h
  · exact hsub.2.2 q h

theorem scan_new_not_kept (excl : Bytes → Bool) (need : UEntry → Bool) (a ts : List UEntry) :
    ∀ q ∈ (updateScan excl need a ts).replaced ++ (updateScan excl need a ts).pending,
      q.name ∉ names (updateScan excl need a ts).kept := by
  intro q hq
  have hmem : q ∈ withName q.name
      ((updateScan excl need a ts).replaced ++ (updateScan excl need a ts).pending) :=
    mem_withName.2 ⟨hq, rfl⟩
  rw [withName_append] at hmem
  rcases update_parts excl need a ts q.name with ⟨_, _, hr, hp⟩ | ⟨t0, _, _, hk, _⟩ |
    ⟨t0, e0, _, _, _, hk, _⟩ | ⟨t0, e0, _, _, _, _, hr, hp⟩
  · rw [hr, hp] at hmem; cases hmem
  · exact withName_eq_nil.1 hk
  · exact withName_eq_nil.1 hk
  · rw [hr, hp] at hmem; cases hmem

theorem scan_covers (excl : Bytes → Bool) (need : UEntry → Bool) (a ts : List UEntry) :
    ∀ t ∈ dedupNames ts, t.name ∈ names (updateScan excl need a ts).kept ∨
      t.name ∈ names ((updateScan excl need a ts).replaced ++ (updateScan excl need a ts).pending) := by
  intro t ht
  have hin : t.name ∈ names ts := mem_names_of_mem (dedupNames_sub ht)
  have hne : ∀ {l : List UEntry} {x : UEntry}, withName t.name l = [x] → t.name ∈ names l := by
    intro l x h
    apply Classical.byContradiction
    intro hn; rw [withName_eq_nil.2 hn] at h; cases h
  rcases update_parts excl need a ts t.name with ⟨hft, _⟩ | ⟨t0, _, _, _, _, hp⟩ |
    ⟨t0, e0, _, _, _, _, hr, _⟩ | ⟨t0, e0, _, hfa, _, hk, _⟩
  · exact absurd hin (find_name_none hft)
  · right; rw [names_append, List.mem_append]; exact Or.inr (hne hp)
  · right; rw [names_append, List.mem_append]; exact Or.inl (hne hr)
  · left
    have h1 := find_name_spec hfa
    have : e0 ∈ withName t.name (updateScan excl need a ts).kept := by
      rw [hk]; exact mem_withName.2 h1
    exact (mem_withName.1 this).2 ▸ mem_names_of_mem (mem_withName.1 this).1

/-- **The exact result of a second identical `update`**: the first result is `K ++ Q` (`K` the
    copied entries, `Q` the re-created and new ones); the second run copies `K` again and moves
    those entries of `Q` that are to be re-created behind the others. -/
theorem update_twice_shape (excl : Bytes → Bool) (need : UEntry → Bool) (a ts : List UEntry) :
    ∃ K Q, updateOp excl need a ts = K ++ Q ∧ (∀ q ∈ Q, q ∈ ts) ∧
      updateOp excl need (updateOp excl need a ts) ts =
        K ++ Q.filter (fun q => !wants excl need q) ++ Q.filter (wants excl need) := by
  refine ⟨(updateScan excl need a ts).kept,
    (updateScan excl need a ts).replaced ++ (updateScan excl need a ts).pending, ?_, ?_, ?_⟩
  · rw [updateOp_eq_scan, List.append_assoc]
  · exact fun q hq => dedupNames_sub (scan_new_sub excl need a ts q hq)
  · generalize hK : (updateScan excl need a ts).kept = K
    generalize hQ : (updateScan excl need a ts).replaced ++ (updateScan excl need a ts).pending = Q
    have f1 := scan_kept_first excl need a ts
    have f2 := scan_new_nodup excl need a ts
    have f3 := scan_new_sub excl need a ts
    have f4 := scan_new_not_kept excl need a ts
    have f5 := scan_covers excl need a ts
    rw [hK] at f1 f4 f5; rw [hQ] at f2 f3 f4 f5
    have hb : updateOp excl need a ts = K ++ Q := by
      rw [updateOp_eq_scan, List.append_assoc, hK, hQ]
    rw [hb, updateOp_eq_scan]
    unfold updateScan
    rw [List.foldl_append]
    have h1 := scan_all_kept excl need K { pending := dedupNames ts } (by simp) f1
    have h2 := scan_own_targets excl need Q
      (K.foldl (updateStep excl need) { pending := dedupNames ts }) f2
      (by rw [h1.2.2.2]; simp)
      (by
        intro q hq
        rw [h1.2.2.1]
        apply find_filter_of (find_of_nodup (dedupNames_nodup ts) (f3 q hq))
        simpa using f4 q hq)
    rw [h2.1, h2.2.1, h2.2.2, h1.1, h1.2.1, h1.2.2.1]
    have hnil : ((dedupNames ts).filter (fun t => !(names K).contains t.name)).filter
        (fun t => !(names Q).contains t.name) = [] := by
      rw [List.filter_filter, List.filter_eq_nil_iff]
      intro t ht
      rcases f5 t ht with h | h <;> simp [h]
    rw [hnil]; simp

/-- **Full idempotence** when the targets agree on "to be re-created" (all of them would be
    re-created — e.g. no `--exclude` and no time filter — or none of them — e.g. the time filter
    finds every freshly written entry up to date). -/
theorem update_idempotent (excl : Bytes → Bool) (need : UEntry → Bool) (a ts : List UEntry)
    (h : ∀ t ∈ ts, ∀ u ∈ ts, wants excl need t = wants excl need u) :
    updateOp excl need (updateOp excl need a ts) ts = updateOp excl need a ts := by
  rcases update_twice_shape excl need a ts with ⟨K, Q, hb, hQ, h2⟩
  rw [h2, hb, List.append_assoc]
  congr 1
  cases Q with
  | nil => rfl
  | cons q Q =>
    have hq : ∀ x ∈ q :: Q, wants excl need x = wants excl need q :=
      fun x hx => h x (hQ x hx) q (hQ q List.mem_cons_self)
    cases hw : wants excl need q
    · rw [List.filter_eq_self.2 (fun x hx => by simp [hq x hx, hw]),
        List.filter_eq_nil_iff.2 (fun x hx => by simp [hq x hx, hw])]
      simp
    · rw [List.filter_eq_nil_iff.2 (fun x hx => by simp [hq x hx, hw]),
        List.filter_eq_self.2 (fun x hx => by simp [hq x hx, hw])]
      simp

/-- the default invocation (no `--exclude`, no time filter) is idempotent -/
theorem update_idempotent_default (a ts : List UEntry) :
    updateOp (fun _ => false) (fun _ => true) (updateOp (fun _ => false) (fun _ => true) a ts) ts =
      updateOp (fun _ => false) (fun _ => true) a ts :=
  update_idempotent _ _ a ts (fun _ _ _ _ => rfl)

/-- without that hypothesis the ORDER may change (the entries are the same, `update_twice_perm`):
    `[1]` is re-created again and moves behind the excluded `[2]` -/
example : updateOp (fun n => n == [2]) (fun _ => true)
      (updateOp (fun n => n == [2]) (fun _ => true) [] [⟨[1], [10]⟩, ⟨[2], [20]⟩])
      [⟨[1], [10]⟩, ⟨[2], [20]⟩] = [⟨[2], [20]⟩, ⟨[1], [10]⟩] ∧
    updateOp (fun n => n == [2]) (fun _ => true) [] [⟨[1], [10]⟩, ⟨[2], [20]⟩] =
      [⟨[1], [10]⟩, ⟨[2], [20]⟩] := by decide

/-! ### the model as it was before the two repairs, and the inputs on which it was wrong -/

/-- the old scan step: no memory of re-created names -/
def updateStepLegacy (excl : Bytes → Bool) (need : UEntry → Bool) (s : UState) (e : UEntry) : UState :=
  match s.pending.find? (·.name == e.name) with
  | some t =>
    let pending := s.pending.filter (·.name != e.name)
    if !excl e.name && need e then { s with replaced := s.replaced ++ [t], pending := pending }
    else { s with kept := s.kept ++ [e], pending := pending }
  | none => { s with kept := s.kept ++ [e] }

/-- the old `update`: the walker's result is used as it comes -/
def updateOpLegacy (excl : Bytes → Bool) (need : UEntry → Bool) (a targets : List UEntry) :
    List UEntry :=
  let s := a.foldl (updateStepLegacy excl need) { pending := targets }
  s.kept ++ s.replaced ++ s.pending

/-- legacy failure 1: create `[q:v1]`, append `[q:v2]`, update `[q:v3]` — the first entry is
    re-created, the second (stale `v2`) is carried over: two entries named `q` -/
theorem legacy_keeps_stale_duplicate :
    updateOpLegacy (fun _ => false) (fun _ => true)
        (appendOp [⟨[113], [1]⟩] [⟨[113], [2]⟩]) [⟨[113], [3]⟩] =
      [⟨[113], [2]⟩, ⟨[113], [3]⟩] ∧
    ((updateOpLegacy (fun _ => false) (fun _ => true)
        (appendOp [⟨[113], [1]⟩] [⟨[113], [2]⟩]) [⟨[113], [3]⟩]).filter
          (fun e => e.name == [113])).length = 2 := by decide

/-- the repaired model on the same input: one entry named `q`, the current one -/
theorem repaired_drops_stale_duplicate :
    updateOp (fun _ => false) (fun _ => true)
        (appendOp [⟨[113], [1]⟩] [⟨[113], [2]⟩]) [⟨[113], [3]⟩] = [⟨[113], [3]⟩] := by decide

/-- legacy failure 2: update of `[z]` with the walker result `[f, f]` (overlapping arguments)
    adds `f` twice -/
theorem legacy_adds_target_twice :
    updateOpLegacy (fun _ => false) (fun _ => true) [⟨[122], [1]⟩] [⟨[102], [7]⟩, ⟨[102], [7]⟩] =
      [⟨[122], [1]⟩, ⟨[102], [7]⟩, ⟨[102], [7]⟩] ∧
    ((updateOpLegacy (fun _ => false) (fun _ => true) [⟨[122], [1]⟩]
        [⟨[102], [7]⟩, ⟨[102], [7]⟩]).filter (fun e => e.name == [102])).length = 2 := by decide

/-- the repaired model on the same input -/
theorem repaired_adds_target_once :
    updateOp (fun _ => false) (fun _ => true) [⟨[122], [1]⟩] [⟨[102], [7]⟩, ⟨[102], [7]⟩] =
      [⟨[122], [1]⟩, ⟨[102], [7]⟩] := by decide

/-- one step: as long as the entry's name has not been re-created the two scans agree -/
theorem updateStep_eq_legacy (excl : Bytes → Bool) (need : UEntry → Bool) (s l : UState)
    (e : UEntry) (hd : e.name ∉ s.done)
    (h : s.kept = l.kept ∧ s.replaced = l.replaced ∧ s.pending = l.pending) :
    ((updateStep excl need s e).kept = (updateStepLegacy excl need l e).kept ∧
      (updateStep excl need s e).replaced = (updateStepLegacy excl need l e).replaced ∧
      (updateStep excl need s e).pending = (updateStepLegacy excl need l e).pending) ∧
    ∀ m ∈ (updateStep excl need s e).done, m = e.name ∨ m ∈ s.done := by
  unfold updateStep updateStepLegacy
  rw [if_neg (by simpa using hd), ← h.1, ← h.2.1, ← h.2.2]
  cases s.pending.find? (·.name == e.name) with
  | none => exact ⟨⟨rfl, rfl, rfl⟩, fun m hm => Or.inr hm⟩
  | some t =>
    simp only
    split
    · exact ⟨⟨rfl, rfl, rfl⟩, fun m hm => by simpa using hm⟩
    · exact ⟨⟨rfl, rfl, rfl⟩, fun m hm => Or.inr hm⟩

theorem scan_eq_legacy (excl : Bytes → Bool) (need : UEntry → Bool) (a : List UEntry) :
    ∀ s l : UState, (names a).Nodup → (∀ e ∈ a, e.name ∉ s.done) →
      (s.kept = l.kept ∧ s.replaced = l.replaced ∧ s.pending = l.pending) →
      (a.foldl (updateStep excl need) s).kept = (a.foldl (updateStepLegacy excl need) l).kept ∧
      (a.foldl (updateStep excl need) s).replaced =
        (a.foldl (updateStepLegacy excl need) l).replaced ∧
      (a.foldl (updateStep excl need) s).pending =
        (a.foldl (updateStepLegacy excl need) l).pending := by
  induction a with
  | nil => intro s l _ _ h; exact h
  | cons e a ih =>
    intro s l hnd hd h
    rw [names_cons, List.nodup_cons] at hnd
    have hs := updateStep_eq_legacy excl need s l e (hd e List.mem_cons_self) h
    rw [List.foldl_cons, List.foldl_cons]
    apply ih _ _ hnd.2 _ hs.1
    intro x hx hin
    rcases hs.2 _ hin with h1 | h1
    · exact hnd.1 (h1 ▸ mem_names_of_mem hx)
    · exact hd x (List.mem_cons_of_mem _ hx) h1

/-- **The repairs change nothing on the inputs the old theorems covered**: with unique names in
    the archive and in the walker result the two models agree. -/
theorem updateOp_eq_legacy (excl : Bytes → Bool) (need : UEntry → Bool) (a ts : List UEntry)
    (ha : (names a).Nodup) (ht : (names ts).Nodup) :
    updateOp excl need a ts = updateOpLegacy excl need a ts := by
  unfold updateOp updateOpLegacy
  have := scan_eq_legacy excl need a { pending := dedupNames ts } { pending := ts } ha
    (fun _ _ h => by cases h) ⟨rfl, rfl, dedupNames_of_nodup ts ht⟩
  simp only [this.1, this.2.1, this.2.2]

/-- an instance of the agreement, with an excluded target -/
theorem updateStep_eq_legacy_example :
    updateOpLegacy (fun n => n == [3]) (fun _ => true)
        [⟨[1], [10]⟩, ⟨[2], [20]⟩, ⟨[3], [30]⟩] [⟨[2], [21]⟩, ⟨[3], [31]⟩, ⟨[4], [40]⟩] =
      updateOp (fun n => n == [3]) (fun _ => true)
        [⟨[1], [10]⟩, ⟨[2], [20]⟩, ⟨[3], [30]⟩] [⟨[2], [21]⟩, ⟨[3], [31]⟩, ⟨[4], [40]⟩] := by decide

/-! ### concrete runs -/

/-- the running example: `[2]` is replaced (moves behind the kept ones), `[4]` is new -/
example : updateOp (fun _ => false) (fun _ => true)
      [⟨[1], [10]⟩, ⟨[2], [20]⟩, ⟨[3], [30]⟩] [⟨[2], [21]⟩, ⟨[4], [40]⟩] =
    [⟨[1], [10]⟩, ⟨[3], [30]⟩, ⟨[2], [21]⟩, ⟨[4], [40]⟩] := by decide

/-- excluded `[2]`: the old entry stays in place -/
example : updateOp (fun n => n == [2]) (fun _ => true)
      [⟨[1], [10]⟩, ⟨[2], [20]⟩, ⟨[3], [30]⟩] [⟨[2], [21]⟩, ⟨[4], [40]⟩] =
    [⟨[1], [10]⟩, ⟨[2], [20]⟩, ⟨[3], [30]⟩, ⟨[4], [40]⟩] := by decide

/-- a target name twice, not in the archive: written once, the first one -/
example : updateOp (fun _ => false) (fun _ => true) [] [⟨[2], [21]⟩, ⟨[2], [22]⟩] =
    [⟨[2], [21]⟩] := by decide

/-- an archived name three times and a target name twice: one entry, the first target -/
example : updateOp (fun _ => false) (fun _ => true)
      [⟨[2], [1]⟩, ⟨[5], [50]⟩, ⟨[2], [2]⟩, ⟨[2], [3]⟩] [⟨[2], [21]⟩, ⟨[2], [22]⟩] =
    [⟨[5], [50]⟩, ⟨[2], [21]⟩] := by decide

/-- an archived name three times, excluded: all three are kept, in order, the target is dropped -/
example : updateOp (fun n => n == [2]) (fun _ => true)
      [⟨[2], [1]⟩, ⟨[5], [50]⟩, ⟨[2], [2]⟩, ⟨[2], [3]⟩] [⟨[2], [21]⟩, ⟨[2], [22]⟩] =
    [⟨[2], [1]⟩, ⟨[5], [50]⟩, ⟨[2], [2]⟩, ⟨[2], [3]⟩] := by decide

/-- the time filter is asked about the FIRST archived entry of a name only: here it says "up to
    date" for the first and "outdated" for the second — both are kept -/
example : updateOp (fun _ => false) (fun e => e.body == [2])
      [⟨[2], [1]⟩, ⟨[2], [2]⟩] [⟨[2], [21]⟩] = [⟨[2], [1]⟩, ⟨[2], [2]⟩] := by decide

/-- … and here "outdated" for the first and "up to date" for the second — both are left out -/
example : updateOp (fun _ => false) (fun e => e.body == [1])
      [⟨[2], [1]⟩, ⟨[2], [2]⟩] [⟨[2], [21]⟩] = [⟨[2], [21]⟩] := by decide

end Pna.Cli
