import PnaVerif.Lemmas.Compose
/-!
# C02 composition (2): the file-system primitives SUCCEED along a path of directories / free names
and only extend the file system (`Ext`), adding objects only where expected (`NewIn`).
-/
namespace Pna.Compose
open Pna Pna.Fs Pna.Cli Pna.Confined

/-- `fs'` extends `fs`: existing objects and the contents of inodes in use are kept, new regular
    files get new inodes -/
structure Ext (fs fs' : Fs) : Prop where
  keep : ∀ p, fs.lookup p ≠ none → fs'.lookup p = fs.lookup p
  cont : ∀ i, i < fs.nextIno → fs'.content i = fs.content i
  ino : fs.nextIno ≤ fs'.nextIno
  len : fs.nodes.length ≤ fs'.nodes.length
  files : ∀ p i, fs'.lookup p = some (.file i) → fs.lookup p = some (.file i) ∨ fs.nextIno ≤ i

theorem Ext.refl (fs : Fs) : Ext fs fs :=
  ⟨fun _ _ => rfl, fun _ _ => rfl, Nat.le_refl _, Nat.le_refl _, fun _ _ h => Or.inl h⟩

theorem Ext.trans {a b c : Fs} (h1 : Ext a b) (h2 : Ext b c) : Ext a c := by
  refine ⟨fun p hp => ?_, fun i hi => ?_, Nat.le_trans h1.ino h2.ino, Nat.le_trans h1.len h2.len,
    fun p i hc => ?_⟩
  · have e1 := h1.keep p hp
    rw [h2.keep p (by rw [e1]; exact hp), e1]
  · rw [h2.cont i (Nat.lt_of_lt_of_le hi h1.ino), h1.cont i hi]
  · rcases h2.files p i hc with hb | hb
    · exact h1.files p i hb
    · exact Or.inr (Nat.le_trans h1.ino hb)

/-- objects of `fs'` that `fs` did not have are at paths in `S` -/
def NewIn (fs fs' : Fs) (S : Path → Prop) : Prop := ∀ p, fs'.lookup p ≠ none → fs.lookup p ≠ none ∨ S p

theorem NewIn.refl (fs : Fs) (S : Path → Prop) : NewIn fs fs S := fun _ h => Or.inl h

theorem NewIn.trans {a b c : Fs} {S T U : Path → Prop} (h1 : NewIn a b S) (h2 : NewIn b c T)
    (hS : ∀ p, S p → U p) (hT : ∀ p, T p → U p) : NewIn a c U := by
  intro p hp
  rcases h2 p hp with h | h
  · rcases h1 p h with h' | h'
    · exact Or.inl h'
    · exact Or.inr (hS p h')
  · exact Or.inr (hT p h)

theorem filter_ne_of_lookup_none {fs : Fs} {p : Path} (h : fs.lookup p = none) :
    fs.nodes.filter (·.1 != p) = fs.nodes := by
  apply List.filter_eq_self.2
  intro x hx
  simp only [bne_iff_ne, ne_eq]
  intro e
  exact lookup_none_not_mem h x.2 (by rw [← e]; exact hx)

theorem ext_setNode {fs : Fs} {p : Path} {n : Node} (h : fs.lookup p = none)
    (hn : ∀ i, n = .file i → fs.nextIno ≤ i) : Ext fs (fs.setNode p n) := by
  have hp : p ≠ [] := lookup_none_ne_nil h
  refine ⟨fun q hq => ?_, fun _ _ => rfl, Nat.le_refl _, ?_, fun q i hq => ?_⟩
  · have : q ≠ p := by intro e; rw [e] at hq; exact hq h
    exact lookup_setNode_ne _ _ _ _ this
  · show fs.nodes.length ≤ ((fs.nodes.filter (·.1 != p)) ++ [(p, n)]).length
    rw [filter_ne_of_lookup_none h]; simp
  · by_cases e : q = p
    · subst e
      rw [lookup_setNode_eq _ _ _ hp] at hq
      exact Or.inr (hn i (Option.some.inj hq))
    · rw [lookup_setNode_ne _ _ _ _ e] at hq; exact Or.inl hq

theorem newIn_setNode (fs : Fs) (p : Path) (n : Node) : NewIn fs (fs.setNode p n) (· = p) := by
  intro q hq
  by_cases e : q = p
  · exact Or.inr e
  · rw [lookup_setNode_ne _ _ _ _ e] at hq; exact Or.inl hq

theorem content_setContent_eq (fs : Fs) (j : Nat) (c : Bytes) : (fs.setContent j c).content j = c := by
  unfold Fs.content Fs.setContent
  have : (fs.inodes.filter (·.1 != j)).find? (·.1 == j) = none := by
    apply List.find?_eq_none.2
    intro x hx
    have := (List.mem_filter.1 hx).2
    simpa using this
  simp only [List.find?_append, this]
  simp

/-- the state after creating a brand-new regular file at `p` (what `createFile` does at a free name) -/
def withNewFile (fs : Fs) (p : Path) (c : Bytes) : Fs :=
  { (fs.setNode p (.file fs.nextIno)).setContent fs.nextIno c with nextIno := fs.nextIno + 1 }

theorem lookup_withNewFile (fs : Fs) (p q : Path) (c : Bytes) :
    (withNewFile fs p c).lookup q = (fs.setNode p (.file fs.nextIno)).lookup q := rfl

theorem content_withNewFile (fs : Fs) (p : Path) (c : Bytes) : (withNewFile fs p c).content fs.nextIno = c :=
  content_setContent_eq (fs.setNode p (.file fs.nextIno)) fs.nextIno c

theorem ext_withNewFile {fs : Fs} {p : Path} (c : Bytes) (h : fs.lookup p = none) : Ext fs (withNewFile fs p c) := by
  have e0 := ext_setNode (n := .file fs.nextIno) h (fun i hi => by cases hi; exact Nat.le_refl _)
  refine ⟨fun q hq => ?_, fun i hi => ?_, Nat.le_succ _, e0.len, fun q i hq => ?_⟩
  · rw [lookup_withNewFile]; exact e0.keep q hq
  · show ((fs.setNode p (.file fs.nextIno)).setContent fs.nextIno c).content i = fs.content i
    rw [content_setContent_ne _ _ _ _ (Nat.ne_of_lt hi)]
    rfl
  · rw [lookup_withNewFile] at hq; exact e0.files q i hq

theorem newIn_withNewFile (fs : Fs) (p : Path) (c : Bytes) : NewIn fs (withNewFile fs p c) (· = p) := by
  intro q hq
  rw [lookup_withNewFile] at hq
  exact newIn_setNode fs p _ q hq

/-! ### `create_dir_all` succeeds along a path whose prefixes are free or directories -/

/-- every non-empty prefix of `cs` below `O ++ w` is free or a directory -/
def FreeOrDir (fs : Fs) (O : Path) (w cs : List Bytes) : Prop :=
  ∀ q, q ≠ [] → q <+: cs → fs.lookup (O ++ (w ++ q)) = none ∨ fs.lookup (O ++ (w ++ q)) = some .dir

theorem go_ok {O : Path} (hO : O ≠ []) : ∀ (cs : List Bytes) (fuel : Nat) (fs : Fs) (w : List Bytes),
    Sane fs O → fs.lookup (O ++ w) = some .dir → [dot, dot] ∉ cs → FreeOrDir fs O w cs → cs.length < fuel →
    ∃ fs', Fs.createDirAll.go fs (O ++ w) fuel cs = .ok fs' ∧ Sane fs' O ∧ Ext fs fs' ∧
      (∀ q, q <+: cs → fs'.lookup (O ++ (w ++ q)) = some .dir) ∧
      NewIn fs fs' (fun p => ∃ q, q ≠ [] ∧ q <+: cs ∧ p = O ++ (w ++ q)) := by
  intro cs
  induction cs with
  | nil =>
    intro fuel fs w hs hw _ _ hf
    obtain ⟨f, rfl⟩ : ∃ f, fuel = f + 1 := ⟨fuel - 1, by simp at hf; omega⟩
    refine ⟨fs, by simp [Fs.createDirAll.go], hs, Ext.refl _, fun q hq => ?_, NewIn.refl _ _⟩
    rw [List.prefix_nil.1 hq, List.append_nil]; exact hw
  | cons c r ih =>
    intro fuel fs w hs hw hdd hfree hf
    obtain ⟨f, rfl⟩ : ∃ f, fuel = f + 1 := ⟨fuel - 1, by simp at hf; omega⟩
    simp only [List.mem_cons, not_or] at hdd
    have hc : c ≠ [dot, dot] := Ne.symm hdd.1
    have hfr : r.length < f := by simp at hf; omega
    have hassoc : ∀ q : List Bytes, O ++ (w ++ c :: q) = O ++ ((w ++ [c]) ++ q) := by intro q; simp
    have hpre : ∀ q, q <+: r → c :: q <+: c :: r := fun q hq => (List.prefix_cons_inj c).2 hq
    simp only [Fs.createDirAll.go, if_neg hc]
    rw [List.append_assoc]
    rcases hfree [c] (by simp) ⟨r, rfl⟩ with hnone | hdir
    · rw [hnone]
      have hp : O ++ (w ++ [c]) ≠ [] := by simp [hO]
      have hpar : fs.lookup (O ++ (w ++ [c])).dropLast = some .dir := by
        rw [← List.append_assoc, List.dropLast_concat]; exact hw
      have ⟨s1, _⟩ := setNode_new (n := .dir) hs (below_inside O (w ++ [c])) (below_ne O (w ++ [c]) (by simp))
        hnone hpar (fun i hi => by cases hi)
      have e1 : Ext fs (fs.setNode (O ++ (w ++ [c])) .dir) := ext_setNode hnone (fun i hi => by cases hi)
      have hfree1 : FreeOrDir (fs.setNode (O ++ (w ++ [c])) .dir) O (w ++ [c]) r := by
        intro q hq hqr
        have hne : O ++ ((w ++ [c]) ++ q) ≠ O ++ (w ++ [c]) := by
          intro e
          have := List.append_cancel_left e
          have := congrArg List.length this
          simp at this; exact hq this
        rw [lookup_setNode_ne _ _ _ _ hne, ← hassoc]
        exact hfree (c :: q) (by simp) (hpre q hqr)
      obtain ⟨fs', hgo, s2, e2, hd2, hn2⟩ := ih f _ (w ++ [c]) s1 (lookup_setNode_eq _ _ _ hp) hdd.2 hfree1 hfr
      refine ⟨fs', hgo, s2, e1.trans e2, fun q hq => ?_, ?_⟩
      · rcases List.prefix_cons_iff.1 hq with rfl | ⟨q', rfl, hq'⟩
        · rw [List.append_nil, (e1.trans e2).keep _ (by rw [hw]; simp)]; exact hw
        · rw [hassoc]; exact hd2 q' hq'
      · refine NewIn.trans (newIn_setNode fs _ _) hn2 (fun p hp => ?_) (fun p hp => ?_)
        · exact ⟨[c], by simp, ⟨r, rfl⟩, hp⟩
        · obtain ⟨q, _, hqr, rfl⟩ := hp
          exact ⟨c :: q, by simp, hpre q hqr, (hassoc q).symm⟩
    · rw [hdir]
      have hfree1 : FreeOrDir fs O (w ++ [c]) r := by
        intro q hq hqr
        rw [← hassoc]
        exact hfree (c :: q) (by simp) (hpre q hqr)
      obtain ⟨fs', hgo, s2, e2, hd2, hn2⟩ := ih f fs (w ++ [c]) hs hdir hdd.2 hfree1 hfr
      refine ⟨fs', hgo, s2, e2, fun q hq => ?_, ?_⟩
      · rcases List.prefix_cons_iff.1 hq with rfl | ⟨q', rfl, hq'⟩
        · rw [List.append_nil, e2.keep _ (by rw [hw]; simp)]; exact hw
        · rw [hassoc]; exact hd2 q' hq'
      · intro p hp
        rcases hn2 p hp with h | ⟨q, _, hqr, rfl⟩
        · exact Or.inl h
        · exact Or.inr ⟨c :: q, by simp, hpre q hqr, (hassoc q).symm⟩

/-- `create_dir_all s`, where `s` spells `O` followed by `cs`, succeeds when every prefix of `cs` is
    free or a directory; afterwards all of them are directories, and nothing else is new -/
theorem createDirAll_ok {fs : Fs} {cwd : Path} {d s : Bytes} {cs : List Bytes}
    (hd : d ≠ [dot, dot]) (habs : isAbs s = false) (hcomps : comps s = d :: cs)
    (hs : Sane fs (cwd ++ [d])) (hdd : [dot, dot] ∉ cs) (hfree : FreeOrDir fs (cwd ++ [d]) [] cs)
    (hfuel : cs.length + 2 ≤ fuelFor fs) :
    ∃ fs', fs.createDirAll cwd s = .ok fs' ∧ Sane fs' (cwd ++ [d]) ∧ Ext fs fs' ∧
      (∀ q, q <+: cs → fs'.lookup (cwd ++ [d] ++ q) = some .dir) ∧
      NewIn fs fs' (fun p => ∃ q, q ≠ [] ∧ q <+: cs ∧ p = cwd ++ [d] ++ q) := by
  have hO : cwd ++ [d] ≠ [] := by simp
  obtain ⟨fs', hgo, h⟩ := go_ok hO cs (39 + 8 * fs.nodes.length) fs [] hs (by simpa using hs.odir) hdd hfree
    (by rw [fuelFor_succ] at hfuel; omega)
  refine ⟨fs', ?_, by simpa using h⟩
  unfold Fs.createDirAll
  simp only [habs, hcomps, fuelFor_succ, Bool.false_eq_true, if_false]
  simp only [Fs.createDirAll.go, if_neg hd, hs.odir]
  simpa using hgo

/-! ### `resolve` along directories -/

theorem resolve_dirs {fs : Fs} {fl : Bool} : ∀ (cs : List Bytes) (cur : Path) (fuel : Nat) (rest : List Bytes),
    [dot, dot] ∉ cs → (∀ q, q ≠ [] → q <+: cs → fs.lookup (cur ++ q) = some .dir) → cs.length ≤ fuel →
    resolve fs fl fuel cur (cs ++ rest) = resolve fs fl (fuel - cs.length) (cur ++ cs) rest := by
  intro cs
  induction cs with
  | nil => intro cur fuel rest _ _ _; simp
  | cons c r ih =>
    intro cur fuel rest hdd hdirs hf
    obtain ⟨f, rfl⟩ : ∃ f, fuel = f + 1 := ⟨fuel - 1, by simp at hf; omega⟩
    simp only [List.mem_cons, not_or] at hdd
    have hl : fs.lookup (cur ++ [c]) = some .dir := hdirs [c] (by simp) ⟨r, rfl⟩
    rw [List.cons_append, resolve_step_dir (Ne.symm hdd.1) hl,
      ih (cur ++ [c]) f rest hdd.2 (fun q hq hqr => by
        have := hdirs (c :: q) (by simp) ((List.prefix_cons_inj c).2 hqr)
        simpa using this) (by simp at hf; omega)]
    have e1 : f + 1 - (c :: r).length = f - r.length := by simp
    have e2 : cur ++ [c] ++ r = cur ++ c :: r := by simp
    rw [e1, e2]

/-- the walk to a free name below directories ends at the lexical path -/
theorem resolve_to_free {fs : Fs} {fl : Bool} {cwd : Path} {d : Bytes} {init : List Bytes} {last : Bytes}
    (hd : d ≠ [dot, dot]) (hs : Sane fs (cwd ++ [d])) (hdd : [dot, dot] ∉ init) (hlast : last ≠ [dot, dot])
    (hdirs : ∀ q, q <+: init → fs.lookup (cwd ++ [d] ++ q) = some .dir)
    (hnone : fs.lookup (cwd ++ [d] ++ (init ++ [last])) = none) (hfuel : init.length + 3 ≤ fuelFor fs) :
    resolve fs fl (fuelFor fs) cwd (d :: (init ++ [last])) = some (cwd ++ [d] ++ (init ++ [last])) := by
  rw [fuelFor_succ] at hfuel ⊢
  rw [resolve_step_dir hd hs.odir, resolve_dirs init _ _ [last] hdd (fun q _ hq => hdirs q hq) (by omega)]
  obtain ⟨g, hg⟩ : ∃ g, 39 + 8 * fs.nodes.length - init.length = g + 1 :=
    ⟨39 + 8 * fs.nodes.length - init.length - 1, by omega⟩
  rw [hg]
  simp only [resolve, if_neg hlast]
  rw [List.append_assoc (cwd ++ [d]) init [last], hnone]
  simp

/-- the walk along directories ends at the lexical path -/
theorem resolve_to_dir {fs : Fs} {fl : Bool} {cwd : Path} {d : Bytes} {init : List Bytes}
    (hd : d ≠ [dot, dot]) (hs : Sane fs (cwd ++ [d])) (hdd : [dot, dot] ∉ init)
    (hdirs : ∀ q, q <+: init → fs.lookup (cwd ++ [d] ++ q) = some .dir) (hfuel : init.length + 2 ≤ fuelFor fs) :
    resolve fs fl (fuelFor fs) cwd (d :: init) = some (cwd ++ [d] ++ init) := by
  rw [fuelFor_succ] at hfuel ⊢
  have := resolve_dirs (fs := fs) (fl := fl) init (cwd ++ [d]) (39 + 8 * fs.nodes.length) [] hdd
    (fun q _ hq => hdirs q hq) (by omega)
  rw [List.append_nil] at this
  rw [resolve_step_dir hd hs.odir, this]
  exact resolve_nil_pos _ _ _ _ (by omega)

/-! ### `File::create` and `symlink` at a free name below directories -/

theorem dropLast_dest (O : Path) (init : List Bytes) (last : Bytes) :
    (O ++ (init ++ [last])).dropLast = O ++ init := by
  rw [← List.append_assoc, List.dropLast_concat]

theorem createFile_ok {fs : Fs} {cwd : Path} {d s : Bytes} {init : List Bytes} {last : Bytes} (content : Bytes)
    (hd : d ≠ [dot, dot]) (habs : isAbs s = false) (hcomps : comps s = d :: (init ++ [last]))
    (hs : Sane fs (cwd ++ [d])) (hdd : [dot, dot] ∉ init) (hlast : last ≠ [dot, dot])
    (hdirs : ∀ q, q <+: init → fs.lookup (cwd ++ [d] ++ q) = some .dir)
    (hnone : fs.lookup (cwd ++ [d] ++ (init ++ [last])) = none) (hfuel : init.length + 3 ≤ fuelFor fs) :
    fs.createFile cwd s content = .ok (withNewFile fs (cwd ++ [d] ++ (init ++ [last])) content) := by
  unfold Fs.createFile
  simp only [habs, hcomps, Bool.false_eq_true, if_false]
  rw [resolve_to_free hd hs hdd hlast hdirs hnone hfuel]
  simp only [hnone, dropLast_dest, hdirs init (List.prefix_refl _)]
  rfl

theorem symlink_ok {fs : Fs} {cwd : Path} {d s : Bytes} {init : List Bytes} {last : Bytes} (target : Bytes)
    (hd : d ≠ [dot, dot]) (habs : isAbs s = false) (hcomps : comps s = d :: (init ++ [last]))
    (hs : Sane fs (cwd ++ [d])) (hdd : [dot, dot] ∉ init) (hlast : last ≠ [dot, dot])
    (hdirs : ∀ q, q <+: init → fs.lookup (cwd ++ [d] ++ q) = some .dir)
    (hnone : fs.lookup (cwd ++ [d] ++ (init ++ [last])) = none) (hfuel : init.length + 3 ≤ fuelFor fs) :
    fs.symlink cwd target s = .ok (fs.setNode (cwd ++ [d] ++ (init ++ [last])) (.link target)) := by
  have hrev : (comps s).reverse = last :: (d :: init).reverse := by rw [hcomps]; simp
  have hep : entryPath fs cwd s = some (cwd ++ [d] ++ (init ++ [last])) := by
    unfold entryPath
    rw [hrev]
    simp only [if_neg hlast, List.reverse_reverse, habs, Bool.false_eq_true, if_false]
    rw [resolve_to_dir hd hs hdd hdirs (by omega)]
    simp
  unfold Fs.symlink
  rw [hep]
  simp only [hnone, dropLast_dest, hdirs init (List.prefix_refl _)]

/-- what the new regular file looks like -/
theorem withNewFile_facts {fs : Fs} {O p : Path} (c : Bytes) (hs : Sane fs O) (hin : Inside O p) (hne : p ≠ O)
    (hnone : fs.lookup p = none) (hpar : fs.lookup p.dropLast = some .dir) :
    Sane (withNewFile fs p c) O ∧ Ext fs (withNewFile fs p c) ∧ NewIn fs (withNewFile fs p c) (· = p) ∧
      nodeIs (withNewFile fs p c) p 0 c := by
  refine ⟨(newFile_inside c hs hin hne hnone hpar).1, ext_withNewFile c hnone, newIn_withNewFile fs p c, ?_⟩
  refine ⟨fs.nextIno, ?_, content_withNewFile fs p c⟩
  rw [lookup_withNewFile]
  exact lookup_setNode_eq _ _ _ (lookup_none_ne_nil hnone)

/-- what the new symbolic link looks like -/
theorem withLink_facts {fs : Fs} {O p : Path} (target : Bytes) (hs : Sane fs O) (hin : Inside O p) (hne : p ≠ O)
    (hnone : fs.lookup p = none) (hpar : fs.lookup p.dropLast = some .dir) :
    Sane (fs.setNode p (.link target)) O ∧ Ext fs (fs.setNode p (.link target)) ∧
      NewIn fs (fs.setNode p (.link target)) (· = p) ∧ nodeIs (fs.setNode p (.link target)) p 2 target := by
  refine ⟨(setNode_new hs hin hne hnone hpar (fun i hi => by cases hi)).1,
    ext_setNode hnone (fun i hi => by cases hi), newIn_setNode fs p _, ?_⟩
  exact lookup_setNode_eq _ _ _ (lookup_none_ne_nil hnone)

end Pna.Compose
