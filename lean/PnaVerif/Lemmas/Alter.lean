import PnaVerif.Lemmas.ArchiveRt
import PnaVerif.Props.C05
/-!
  Helper lemmas for C05 at archive level: one altered byte of a written chunk stream / archive.

  * `decodeStream_alter`     one altered non-length byte of an encoded chunk ⇒ `InvalidData`
  * `decodeStream_alter_len` one altered length byte ⇒ whatever is decoded is not the original chunk
  * `chunkIter_pre`          the iterator walks over a well-framed prefix
  * `set_in_chunk`           position arithmetic: where the altered byte lands
  * `groupItems_items_tail`  grouping complete items followed by an arbitrary tail
-/
namespace Pna

-- ---------------------------------------------------------------- one chunk

theorem Chunk.encode_split (c : Chunk) :
    c.encode = be32 c.data.length ++ ((c.ty.toBytes ++ c.data) ++ be32 c.crc) := by
  simp [Chunk.encode, List.append_assoc]

/-- One altered byte of an encoded chunk, outside the length field, is always reported as `InvalidData`. -/
theorem decodeStream_alter (c : Chunk) (r : Bytes) (hlen : c.data.length < 2 ^ 32)
    (j : Nat) (hj4 : 4 ≤ j) (hj : j < c.encode.length) (v : UInt8) (hv : v ≠ c.encode[j]) :
    decodeStream ((c.encode ++ r).set j v) = .error .invalidData := by
  rw [List.set_append_left _ _ hj]
  have hj' := hj
  rw [Chunk.encode_length] at hj'
  by_cases hb : j - 4 < (c.ty.toBytes ++ c.data).length
  · have hset : c.encode.set j v
        = be32 c.data.length ++ ((c.ty.toBytes ++ c.data).set (j - 4) v ++ be32 c.crc) := by
      rw [Chunk.encode_split, List.set_append_right _ _ (by simp; omega), List.set_append_left _ _ (by simpa using hb)]
      simp
    have hget : c.encode[j] = (c.ty.toBytes ++ c.data)[j - 4] := by
      simp only [Chunk.encode_split]
      rw [List.getElem_append_right (by simp; omega), List.getElem_append_left (by simpa using hb)]
      simp
    rw [hget] at hv
    have hl : ((c.ty.toBytes ++ c.data).set (j - 4) v).length = 4 + c.data.length := by simp
    have key := C05.alter_body_detected c r (j - 4) v hlen hb hv
      (((c.ty.toBytes ++ c.data).set (j - 4) v).take 4) (((c.ty.toBytes ++ c.data).set (j - 4) v).drop 4)
      (List.take_append_drop _ _).symm (by rw [List.length_take, hl]; omega)
    have hdl : (((c.ty.toBytes ++ c.data).set (j - 4) v).drop 4).length = c.data.length := by
      rw [List.length_drop, hl]; omega
    rw [hdl] at key
    have e : ∀ (s X : Bytes), s.take 4 ++ (s.drop 4 ++ X) = s ++ X := by
      intro s X; rw [← List.append_assoc, List.take_append_drop]
    rw [e] at key
    rw [hset]
    simp only [List.append_assoc]
    exact key
  · have hb' : 4 + c.data.length ≤ j - 4 := by simpa using hb
    have hset : c.encode.set j v
        = be32 c.data.length ++ (c.ty.toBytes ++ (c.data ++ (be32 c.crc).set (j - 4 - (4 + c.data.length)) v)) := by
      rw [Chunk.encode_split, List.set_append_right _ _ (by simp; omega),
        List.set_append_right _ _ (by simpa using hb)]
      simp [List.append_assoc]
    have hget : c.encode[j] = (be32 c.crc)[j - 4 - (4 + c.data.length)]'(by simp; omega) := by
      simp only [Chunk.encode_split]
      rw [List.getElem_append_right (by simp; omega), List.getElem_append_right (by simpa using hb)]
      simp
    rw [hget] at hv
    rw [hset]
    simp only [List.append_assoc]
    refine C05.alter_crc_detected c r ((be32 c.crc).set (j - 4 - (4 + c.data.length)) v) hlen (by simp) ?_
    intro h
    have := congrArg (fun l => l[j - 4 - (4 + c.data.length)]?) h
    simp only [List.getElem?_set] at this
    rw [if_pos trivial, if_pos (by simp; omega), List.getElem?_eq_getElem (by simp; omega)] at this
    exact hv (Option.some.inj this)

/-- One altered byte of the length field: whatever the parser then returns, it is not the original chunk. -/
theorem decodeStream_alter_len (c : Chunk) (r : Bytes) (j : Nat) (hj : j < c.encode.length)
    (v : UInt8) (hv : v ≠ c.encode[j]) (d : Chunk) (r2 : Bytes)
    (h : decodeStream ((c.encode ++ r).set j v) = .ok (d, r2)) : d ≠ c := by
  intro hdc
  subst hdc
  have h1 := (decodeStream_ok_inv _ _ _ h).1
  rw [List.set_append_left _ _ hj] at h1
  have h2 := congrArg (fun l => l[j]?) h1
  rw [List.getElem?_append_left hj, List.getElem?_append_left (by simpa using hj),
    List.getElem?_eq_getElem hj, List.getElem?_set_self hj] at h2
  exact hv (Option.some.inj h2).symm

/-- If the length field announces more bytes than remain (after the 8 bytes of length and type), the
    parser answers `UnexpectedEof`. -/
theorem decodeStream_len_eof (bs : Bytes) (h8 : 8 ≤ bs.length)
    (hlen : bs.length < 12 + fromBe (bs.take 4)) : decodeStream bs = .error .eof := by
  unfold decodeStream
  simp only [readExact_eq]
  rw [if_neg (by omega)]
  simp only [Outcome.bind_ok]
  rw [if_neg (by rw [List.length_drop]; omega)]
  simp only [Outcome.bind_ok]
  by_cases h3 : ((bs.drop 4).drop 4).length < fromBe (bs.take 4)
  · rw [if_pos h3]; rfl
  · rw [if_neg h3]
    simp only [Outcome.bind_ok]
    rw [if_pos (by simp only [List.length_drop] at h3 ⊢; omega)]
    rfl

-- ---------------------------------------------------------------- the iterator over a well-framed prefix

theorem chunkIter_pre (pre : List Chunk) (tail : Bytes) (hfit : ChunksFit pre)
    (hno : ∀ c ∈ pre, c.ty ≠ ChunkType.AEND) (fuel : Nat) :
    chunkIter decodeStream (pre.length + fuel) (encodeChunks pre ++ tail)
      = (pre ++ (chunkIter decodeStream fuel tail).1, (chunkIter decodeStream fuel tail).2) := by
  induction pre with
  | nil => simp [encodeChunks_nil]
  | cons d pre ih =>
    have e : (d :: pre).length + fuel = (pre.length + fuel) + 1 := by simp; omega
    rw [e, encodeChunks_cons, List.append_assoc, chunkIter,
      decodeStream_encode _ _ (hfit d (by simp))]
    simp only
    rw [if_neg (hno d (by simp)),
      ih (fun c hc => hfit c (by simp [hc])) (fun c hc => hno c (by simp [hc]))]
    simp

theorem chunkIter_error (fuel : Nat) (bs : Bytes) (e : Err) (h : decodeStream bs = .error e) :
    chunkIter decodeStream (fuel + 1) bs = ([], .error e) := by
  rw [chunkIter, h]

theorem chunkIter_head (fuel : Nat) (bs : Bytes) (c : Chunk)
    (h : (chunkIter decodeStream fuel bs).1.head? = some c) : ∃ r, decodeStream bs = .ok (c, r) := by
  match fuel with
  | 0 => simp [chunkIter] at h
  | f + 1 =>
    rw [chunkIter] at h
    split at h
    · simp at h
    · simp at h
    · rename_i d r hd
      split at h
      · simp at h; subst h; exact ⟨r, hd⟩
      · simp at h; subst h; exact ⟨r, hd⟩

-- ---------------------------------------------------------------- where the altered byte lands

/-- position arithmetic: altering byte `8 + |pre| + j` of a stream alters byte `j` of the chunk after `pre` -/
theorem set_in_chunk (pre : List Chunk) (c : Chunk) (post : List Chunk) (rest : Bytes)
    (j : Nat) (v : UInt8) :
    (signature ++ encodeChunks (pre ++ c :: post) ++ rest).set (8 + (encodeChunks pre).length + j) v
      = signature ++ (encodeChunks pre ++ ((c.encode ++ (encodeChunks post ++ rest)).set j v)) := by
  have e : signature ++ encodeChunks (pre ++ c :: post) ++ rest
      = signature ++ (encodeChunks pre ++ (c.encode ++ (encodeChunks post ++ rest))) := by
    rw [encodeChunks_append, encodeChunks_cons]
    simp only [List.append_assoc]
  have hs : signature.length = 8 := rfl
  rw [e, List.set_append_right _ _ (by rw [hs]; omega),
    List.set_append_right _ _ (by rw [hs]; omega)]
  congr 3
  rw [hs]; omega

/-- The tokeniser on a stream with one altered byte inside the chunk `c` that follows `pre`: the chunks of `pre`
    come out unchanged, then whatever the iterator makes of the altered remainder. -/
theorem chunksStream_alter_split (pre : List Chunk) (c : Chunk) (post : List Chunk) (rest : Bytes)
    (hfit : ChunksFit pre) (hno : ∀ c ∈ pre, c.ty ≠ ChunkType.AEND) (j : Nat) (v : UInt8) :
    ∃ fuel, chunksStream ((signature ++ encodeChunks (pre ++ c :: post) ++ rest).set
        (8 + (encodeChunks pre).length + j) v)
      = (pre ++ (chunkIter decodeStream (fuel + 1) ((c.encode ++ (encodeChunks post ++ rest)).set j v)).1,
          (chunkIter decodeStream (fuel + 1) ((c.encode ++ (encodeChunks post ++ rest)).set j v)).2) := by
  rw [set_in_chunk]
  unfold chunksStream
  rw [readSigStream_sig]
  simp only
  have hl := encodeChunks_length_ge pre
  generalize hT : (c.encode ++ (encodeChunks post ++ rest)).set j v = T
  refine ⟨(encodeChunks pre ++ T).length - pre.length, ?_⟩
  have e : (encodeChunks pre ++ T).length + 1 = pre.length + ((encodeChunks pre ++ T).length - pre.length + 1) := by
    simp only [List.length_append]; omega
  rw [e]
  exact chunkIter_pre pre T hfit hno _

/-- split form of "altered non-length byte ⇒ the chunks before it, then `InvalidData`" -/
theorem chunksStream_alter_detected_split (pre : List Chunk) (c : Chunk) (post : List Chunk) (rest : Bytes)
    (hfit : ChunksFit pre) (hno : ∀ c ∈ pre, c.ty ≠ ChunkType.AEND) (hc : c.data.length < 2 ^ 32)
    (j : Nat) (hj4 : 4 ≤ j) (hj : j < c.encode.length) (v : UInt8) (hv : v ≠ c.encode[j]) :
    chunksStream ((signature ++ encodeChunks (pre ++ c :: post) ++ rest).set
        (8 + (encodeChunks pre).length + j) v) = (pre, .error .invalidData) := by
  obtain ⟨fuel, h⟩ := chunksStream_alter_split pre c post rest hfit hno j v
  rw [h, chunkIter_error _ _ _ (decodeStream_alter c _ hc j hj4 hj v hv)]
  simp

/-- split form of the length-field case -/
theorem chunksStream_alter_len_split (pre : List Chunk) (c : Chunk) (post : List Chunk) (rest : Bytes)
    (hfit : ChunksFit pre) (hno : ∀ c ∈ pre, c.ty ≠ ChunkType.AEND)
    (j : Nat) (hj : j < c.encode.length) (v : UInt8) (hv : v ≠ c.encode[j]) :
    ∃ more st, chunksStream ((signature ++ encodeChunks (pre ++ c :: post) ++ rest).set
        (8 + (encodeChunks pre).length + j) v) = (pre ++ more, st) ∧
      (∀ d, more.head? = some d → d ≠ c) := by
  obtain ⟨fuel, h⟩ := chunksStream_alter_split pre c post rest hfit hno j v
  refine ⟨_, _, h, ?_⟩
  intro d hd
  obtain ⟨r2, hr2⟩ := chunkIter_head _ _ _ hd
  exact decodeStream_alter_len c _ j hj v hv d r2 hr2

/-- split form: the altered length announces more than what remains ⇒ the chunks before it, then `UnexpectedEof` -/
theorem chunksStream_alter_len_eof_split (pre : List Chunk) (c : Chunk) (post : List Chunk) (rest : Bytes)
    (hfit : ChunksFit pre) (hno : ∀ c ∈ pre, c.ty ≠ ChunkType.AEND)
    (j : Nat) (hj : j < 4) (v : UInt8)
    (hbig : (c.encode ++ (encodeChunks post ++ rest)).length < 12 + fromBe ((be32 c.data.length).set j v)) :
    chunksStream ((signature ++ encodeChunks (pre ++ c :: post) ++ rest).set
        (8 + (encodeChunks pre).length + j) v) = (pre, .error .eof) := by
  obtain ⟨fuel, h⟩ := chunksStream_alter_split pre c post rest hfit hno j v
  have ht : ((c.encode ++ (encodeChunks post ++ rest)).set j v).take 4 = (be32 c.data.length).set j v := by
    rw [Chunk.encode_split, List.append_assoc, List.set_append_left _ _ (by simpa using hj)]
    exact take_app _ _ (by simp)
  have hd : decodeStream ((c.encode ++ (encodeChunks post ++ rest)).set j v) = .error .eof := by
    apply decodeStream_len_eof
    · rw [List.length_set, List.length_append, Chunk.encode_length]; omega
    · rw [ht, List.length_set]; exact hbig
  rw [h, chunkIter_error _ _ _ hd]
  simp

-- ---------------------------------------------------------------- index form

theorem split_at_index {α} (cs : List α) (i : Nat) (hi : i < cs.length) :
    cs = cs.take i ++ cs[i] :: cs.drop (i + 1) := by
  rw [← List.drop_eq_getElem_cons hi, List.take_append_drop]

theorem chunksStream_alter_detected (cs : List Chunk) (rest : Bytes) (hfit : ChunksFit cs)
    (i : Nat) (hi : i < cs.length) (hno : ∀ c ∈ cs.take i, c.ty ≠ ChunkType.AEND)
    (j : Nat) (hj4 : 4 ≤ j) (hj : j < (cs[i]).encode.length)
    (v : UInt8) (hv : v ≠ (cs[i]).encode[j]) :
    chunksStream ((signature ++ encodeChunks cs ++ rest).set (8 + (encodeChunks (cs.take i)).length + j) v)
      = (cs.take i, .error .invalidData) := by
  have h := chunksStream_alter_detected_split (cs.take i) cs[i] (cs.drop (i + 1)) rest
    (fun c hc => hfit c (List.mem_of_mem_take hc)) hno (hfit _ (List.getElem_mem hi)) j hj4 hj v hv
  rw [← split_at_index cs i hi] at h
  exact h

theorem chunksStream_alter_len (cs : List Chunk) (rest : Bytes) (hfit : ChunksFit cs)
    (i : Nat) (hi : i < cs.length) (hno : ∀ c ∈ cs.take i, c.ty ≠ ChunkType.AEND)
    (j : Nat) (hj : j < (cs[i]).encode.length)
    (v : UInt8) (hv : v ≠ (cs[i]).encode[j]) :
    ∃ more st, chunksStream ((signature ++ encodeChunks cs ++ rest).set (8 + (encodeChunks (cs.take i)).length + j) v)
        = (cs.take i ++ more, st) ∧ (∀ c, more.head? = some c → c ≠ cs[i]) := by
  have h := chunksStream_alter_len_split (cs.take i) cs[i] (cs.drop (i + 1)) rest
    (fun c hc => hfit c (List.mem_of_mem_take hc)) hno j hj v hv
  rw [← split_at_index cs i hi] at h
  exact h

theorem chunksStream_alter_len_eof (cs : List Chunk) (rest : Bytes) (hfit : ChunksFit cs)
    (i : Nat) (hi : i < cs.length) (hno : ∀ c ∈ cs.take i, c.ty ≠ ChunkType.AEND)
    (j : Nat) (hj : j < 4) (v : UInt8)
    (hbig : (encodeChunks (cs.drop i) ++ rest).length < 12 + fromBe ((be32 (cs[i]).data.length).set j v)) :
    chunksStream ((signature ++ encodeChunks cs ++ rest).set (8 + (encodeChunks (cs.take i)).length + j) v)
      = (cs.take i, .error .eof) := by
  have h := chunksStream_alter_len_eof_split (cs.take i) cs[i] (cs.drop (i + 1)) rest
    (fun c hc => hfit c (List.mem_of_mem_take hc)) hno j hj v
    (by rw [List.drop_eq_getElem_cons hi, encodeChunks_cons, List.append_assoc] at hbig; exact hbig)
  rw [← split_at_index cs i hi] at h
  exact h

-- ---------------------------------------------------------------- grouping: complete items, then a tail

theorem groupItems_items_tail (items : List (List Chunk)) (hw : ∀ it ∈ items, ItemWF it) (nx : Bool)
    (tail : List Chunk) :
    groupItems [] nx (items.flatten ++ tail)
      = (items ++ (groupItems [] nx tail).1, (groupItems [] nx tail).2) := by
  induction items with
  | nil => simp
  | cons it items ih =>
    obtain ⟨body, last, rfl, hl, hb⟩ := hw it (by simp)
    have ih2 := ih (fun it hit => hw it (by simp [hit]))
    have e : List.flatten ((body ++ [last]) :: items) ++ tail = body ++ (last :: (items.flatten ++ tail)) := by
      simp [List.append_assoc]
    rw [e, groupItems_body body hb, groupItems_close _ _ _ _ hl, ih2]
    simp

/-- a proper prefix of a complete item contains no structural marker -/
theorem ItemWF_take_noMarkers {it : List Chunk} (hw : ItemWF it) (k : Nat) (hk : k < it.length) :
    NoMarkers (it.take k) := by
  obtain ⟨body, last, rfl, _, hb⟩ := hw
  have hk2 : k ≤ body.length := by simp at hk; omega
  rw [List.take_append_of_le_length hk2]
  intro c hc
  exact hb c (List.mem_of_mem_take hc)

theorem groupItems_noMarkers (pre : List Chunk) (hp : NoMarkers pre) (nx : Bool) :
    groupItems [] nx pre = ([], pre, nx, false) := by
  have := groupItems_body pre hp [] nx []
  rw [List.append_nil, List.nil_append] at this
  rw [this, groupItems]

-- ---------------------------------------------------------------- the archive reader on a given token list

/-- the chunks of a written archive (what `encodeArchive` encodes after the signature) -/
def archChunks (n : Nat) (items : List (List Chunk)) (next : Bool) : List Chunk :=
  ⟨ChunkType.AHED, encAHED ⟨0, 0, n⟩⟩ ::
    (items.flatten ++ (if next then [⟨ChunkType.ANXT, []⟩] else []) ++ [⟨ChunkType.AEND, []⟩])

theorem encodeArchive_eq (n : Nat) (items : List (List Chunk)) (next : Bool) :
    encodeArchive n items next = signature ++ encodeChunks (archChunks n items next) ++ [] := by
  unfold encodeArchive archChunks
  simp [List.append_assoc]

/-- The entry reader when the tokeniser returned AHED, some complete items, and a tail that closes no item. -/
theorem readArchiveStream_of_chunks (bs : Bytes) (n : Nat) (hn : n < 2 ^ 32) (its : List (List Chunk))
    (hw : ∀ it ∈ its, ItemWF it) (tail : List Chunk) (st : Outcome Unit)
    (h : chunksStream bs = (⟨ChunkType.AHED, encAHED ⟨0, 0, n⟩⟩ :: (its.flatten ++ tail), st))
    (hg : (groupItems [] false tail).1 = []) :
    (readArchiveStream bs).rawItems = its ∧ (readArchiveStream bs).entries = (parseItems its).1 ∧
      (readArchiveStream bs).status = (match (parseItems its).2 with | .ok _ => st | o => o) := by
  unfold readArchiveStream readArchiveWith
  rw [h]
  simp only
  rw [if_neg (by simp), decAHED_encAHED ⟨0, 0, n⟩ (show (0 : Nat) < 256 by decide) (show (0 : Nat) < 256 by decide) hn]
  simp only
  rw [groupItems_items_tail its hw false tail]
  rcases hgt : groupItems [] false tail with ⟨g1, gc, gn, ge⟩
  rw [hgt] at hg
  simp only at hg
  subst hg
  simp only [List.append_nil]
  rcases hp : parseItems its with ⟨es, po⟩
  simp only
  refine ⟨trivial, trivial, ?_⟩
  cases po <;> rfl

/-- ... and the tokeniser ended with `InvalidData`. -/
theorem readArchiveStream_of_chunks_err (bs : Bytes) (n : Nat) (hn : n < 2 ^ 32) (its : List (List Chunk))
    (hw : ∀ it ∈ its, ItemWF it) (tail : List Chunk)
    (h : chunksStream bs = (⟨ChunkType.AHED, encAHED ⟨0, 0, n⟩⟩ :: (its.flatten ++ tail), .error .invalidData))
    (hg : (groupItems [] false tail).1 = []) :
    (readArchiveStream bs).rawItems = its ∧ (readArchiveStream bs).entries = (parseItems its).1 ∧
      (readArchiveStream bs).status.isOk = false ∧
      ((parseItems its).2 = .ok () → (readArchiveStream bs).status = .error .invalidData) := by
  obtain ⟨h1, h2, h3⟩ := readArchiveStream_of_chunks bs n hn its hw tail _ h hg
  refine ⟨h1, h2, ?_, ?_⟩
  · rw [h3]; cases (parseItems its).2 <;> rfl
  · intro hok; rw [h3, hok]

/-- The entry reader when the tokeniser returned nothing. -/
theorem readArchiveStream_of_no_chunks (bs : Bytes) (e : Err) (h : chunksStream bs = ([], .error e)) :
    (readArchiveStream bs).rawItems = [] ∧ (readArchiveStream bs).entries = [] ∧
      (readArchiveStream bs).header = none ∧ (readArchiveStream bs).status = .error e := by
  unfold readArchiveStream readArchiveWith
  rw [h]
  exact ⟨rfl, rfl, rfl, rfl⟩

-- ---------------------------------------------------------------- one altered byte of a written archive

theorem AHED_encode_length (n : Nat) : (Chunk.mk ChunkType.AHED (encAHED ⟨0, 0, n⟩)).encode.length = 20 := by
  rw [Chunk.encode_length, encAHED_length]

/-- Core: the archive's chunk list is `AHED :: (complete items ++ tail) ++ c :: post`, a non-length byte of `c`
    is altered. -/
theorem readArchive_alter_core (n : Nat) (hn : n < 2 ^ 32) (items : List (List Chunk)) (next : Bool)
    (its : List (List Chunk)) (tail : List Chunk) (c : Chunk) (post : List Chunk)
    (hsplit : archChunks n items next
      = (⟨ChunkType.AHED, encAHED ⟨0, 0, n⟩⟩ :: (its.flatten ++ tail)) ++ c :: post)
    (hw : ∀ it ∈ its, ItemWF it) (hfit : ChunksFit (its.flatten ++ tail))
    (hnoT : ∀ c ∈ tail, c.ty ≠ ChunkType.AEND) (hg : (groupItems [] false tail).1 = [])
    (hc : c.data.length < 2 ^ 32)
    (j : Nat) (hj4 : 4 ≤ j) (hj : j < c.encode.length) (v : UInt8) (hv : v ≠ c.encode[j])
    (pos : Nat) (hpos : pos = 8 + 20 + (encodeChunks (its.flatten ++ tail)).length + j) :
    (readArchiveStream ((encodeArchive n items next).set pos v)).rawItems = its ∧
    (readArchiveStream ((encodeArchive n items next).set pos v)).entries = (parseItems its).1 ∧
    (readArchiveStream ((encodeArchive n items next).set pos v)).status.isOk = false ∧
    ((parseItems its).2 = .ok () →
      (readArchiveStream ((encodeArchive n items next).set pos v)).status = .error .invalidData) := by
  apply readArchiveStream_of_chunks_err _ n hn its hw tail _ hg
  rw [encodeArchive_eq, hsplit]
  have hp : pos = 8 + (encodeChunks (⟨ChunkType.AHED, encAHED ⟨0, 0, n⟩⟩ :: (its.flatten ++ tail))).length + j := by
    rw [hpos, encodeChunks_cons, List.length_append, AHED_encode_length]; omega
  rw [hp]
  apply chunksStream_alter_detected_split _ c post [] _ _ hc j hj4 hj v hv
  · intro d hd
    rcases List.mem_cons.mp hd with rfl | hd
    · simp [encAHED_length]
    · exact hfit d hd
  · intro d hd
    rcases List.mem_cons.mp hd with rfl | hd
    · show ChunkType.AHED ≠ ChunkType.AEND
      decide
    · rcases List.mem_append.mp hd with hd | hd
      · obtain ⟨it, hit, hdit⟩ := List.mem_flatten.mp hd
        exact ItemWF_no_AEND (hw it hit) d hdit
      · exact hnoT d hd

theorem flatten_split {α} (items : List (List α)) (m : Nat) (hm : m < items.length)
    (ci : Nat) (hci : ci < (items[m]).length) :
    items.flatten = ((items.take m).flatten ++ (items[m]).take ci)
      ++ (items[m])[ci] :: ((items[m]).drop (ci + 1) ++ (items.drop (m + 1)).flatten) := by
  have e1 : items.flatten = (items.take m).flatten ++ (items[m] ++ (items.drop (m + 1)).flatten) := by
    have e0 := congrArg List.flatten (split_at_index items m hm)
    rw [List.flatten_append, List.flatten_cons] at e0
    exact e0
  have e2 : ((items.take m).flatten ++ (items[m]).take ci)
      ++ (items[m])[ci] :: ((items[m]).drop (ci + 1) ++ (items.drop (m + 1)).flatten)
      = (items.take m).flatten ++ (((items[m]).take ci ++ (items[m])[ci] :: (items[m]).drop (ci + 1))
          ++ (items.drop (m + 1)).flatten) := by
    simp only [List.append_assoc, List.cons_append]
  rw [e2, ← split_at_index (items[m]) ci hci]
  exact e1

end Pna
