import PnaVerif.Model.Cipher
import PnaVerif.Lemmas.Chunk
/-!
  The CBC encrypting writer (`CbcW`, lib/src/cipher/block/write.rs) against the reference
  `cbcEncrypt`: the ciphertext does not depend on how the caller slices the plaintext into
  `write` calls.  No law of the block cipher is used: `P : BlockPerm` is arbitrary.

  Architecture: `CbcAbsorb P k s data s'` says that `s'` is `s` after having absorbed `data`:
  a list of whole 16-byte blocks went through the cipher (appended to `out`, chained), the
  remainder (`< 16` bytes) is parked in `buf`.  `write` satisfies it (`CbcW.write_absorb`), and
  the reference encryption of `s.buf ++ data ++ rest` splits along those blocks.
-/
namespace Pna

-- ---------------------------------------------------------------- reference CBC on appended lists

/-- Chaining value after the reference encryption of `blocks` starting from `c`. -/
def cbcChain (P : BlockPerm) (k : Bytes) (c : Bytes) : List Bytes → Bytes
  | [] => c
  | b :: bs => cbcChain P k (P.E k (xorBytes b c)) bs

theorem cbcEncBlocks_append (P : BlockPerm) (k c : Bytes) (xs ys : List Bytes) :
    cbcEncBlocks P k c (xs ++ ys)
      = cbcEncBlocks P k c xs ++ cbcEncBlocks P k (cbcChain P k c xs) ys := by
  induction xs generalizing c with
  | nil => rfl
  | cons b bs ih => simp [cbcEncBlocks, cbcChain, ih]

theorem cbcEncBlocks_length (P : BlockPerm) (k c : Bytes) (xs : List Bytes) :
    (cbcEncBlocks P k c xs).length = xs.length := by
  induction xs generalizing c with
  | nil => rfl
  | cons b bs ih => simp [cbcEncBlocks, ih]

/-- The chaining value is the last ciphertext block, or the initial value if there is none. -/
theorem cbcChain_eq_getLast (P : BlockPerm) (k c : Bytes) (xs : List Bytes) :
    cbcChain P k c xs = ((cbcEncBlocks P k c xs).getLast?).getD c := by
  induction xs generalizing c with
  | nil => rfl
  | cons b bs ih =>
    simp only [cbcChain, cbcEncBlocks, ih]
    cases h : cbcEncBlocks P k (P.E k (xorBytes b c)) bs with
    | nil => simp
    | cons x xs => simp [List.getLast?_cons]

-- ---------------------------------------------------------------- `rustChunks 16`

theorem cbcw_rustChunks_nil (n : Nat) : rustChunks n [] = [] := by
  rw [rustChunks]; simp

/-- A non-empty string shorter than a block is its own single chunk. -/
theorem cbcw_rustChunks_short (bs : Bytes) (h0 : bs ≠ []) (h : bs.length ≤ 16) :
    rustChunks 16 bs = [bs] := by
  rw [rustChunks]
  have hne : ¬ ((16 : Nat) = 0 ∨ bs = []) := by simp [h0]
  rw [dif_neg hne, List.take_of_length_le h, List.drop_eq_nil_of_le h, cbcw_rustChunks_nil]

theorem cbcw_rustChunks_cons16 (b rest : Bytes) (h : b.length = 16) :
    rustChunks 16 (b ++ rest) = b :: rustChunks 16 rest := by
  have hne : ¬ ((16 : Nat) = 0 ∨ b ++ rest = []) := by
    intro hh
    have hl : (b ++ rest).length = 0 := by
      cases hh with
      | inl h1 => exact absurd h1 (by decide)
      | inr h2 => rw [h2]; rfl
    rw [List.length_append] at hl; omega
  rw [rustChunks, dif_neg hne, take_app _ _ h, drop_app _ _ h]

theorem cbcw_flatten_length (blocks : List Bytes) (h : ∀ b ∈ blocks, b.length = 16) :
    blocks.flatten.length = 16 * blocks.length := by
  induction blocks with
  | nil => rfl
  | cons b bs ih =>
    have hb := h b (by simp)
    have := ih (fun x hx => h x (by simp [hx]))
    simp [hb, this]; omega

/-- Whole blocks in front are cut off one by one. -/
theorem cbcw_rustChunks_flatten_append (blocks : List Bytes) (x : Bytes)
    (h : ∀ b ∈ blocks, b.length = 16) :
    rustChunks 16 (blocks.flatten ++ x) = blocks ++ rustChunks 16 x := by
  induction blocks with
  | nil => rfl
  | cons b bs ih =>
    have hb := h b (by simp)
    have := ih (fun x hx => h x (by simp [hx]))
    simp only [List.flatten_cons, List.append_assoc, List.cons_append]
    rw [cbcw_rustChunks_cons16 _ _ hb, this]

theorem toBlocks_flatten_append (blocks : List Bytes) (x : Bytes)
    (h : ∀ b ∈ blocks, b.length = 16) :
    toBlocks (blocks.flatten ++ x) = blocks ++ toBlocks x :=
  cbcw_rustChunks_flatten_append blocks x h

-- ---------------------------------------------------------------- padding

theorem pkcs7PadBlock_length (buf : Bytes) (h : buf.length < 16) :
    (pkcs7PadBlock buf).length = 16 := by
  simp [pkcs7PadBlock]; omega

theorem pkcs7Pad_eq_padBlock (buf : Bytes) (h : buf.length < 16) :
    pkcs7Pad buf = pkcs7PadBlock buf := by
  simp [pkcs7Pad, pkcs7PadBlock, Nat.mod_eq_of_lt h]

/-- Padding only looks at the length modulo 16: whole blocks in front pass through. -/
theorem pkcs7Pad_flatten_append (blocks : List Bytes) (x : Bytes)
    (h : ∀ b ∈ blocks, b.length = 16) :
    pkcs7Pad (blocks.flatten ++ x) = blocks.flatten ++ pkcs7Pad x := by
  have hl : (blocks.flatten ++ x).length % 16 = x.length % 16 := by
    rw [List.length_append, cbcw_flatten_length blocks h]; omega
  simp only [pkcs7Pad, hl, List.append_assoc]

-- ---------------------------------------------------------------- the writer

/-- `s'` is `s` after absorbing `data`: some whole blocks were encrypted and emitted, the
    remainder is buffered. -/
def CbcAbsorb (P : BlockPerm) (k : Bytes) (s : CbcW) (data : Bytes) (s' : CbcW) : Prop :=
  ∃ blocks : List Bytes,
    (∀ b ∈ blocks, b.length = 16) ∧
    s.buf ++ data = blocks.flatten ++ s'.buf ∧
    s'.buf.length < 16 ∧
    s'.out = s.out ++ cbcEncBlocks P k s.chain blocks ∧
    s'.chain = cbcChain P k s.chain blocks

/-- The `chunks(16)` loop, entered with an empty buffer: encrypts every full chunk, parks the
    final short one. -/
theorem CbcW.loop_absorb (P : BlockPerm) (k : Bytes) (n : Nat) :
    ∀ (data : Bytes) (s : CbcW), data.length ≤ n → s.buf = [] →
      CbcAbsorb P k s data (CbcW.loop P k s (rustChunks 16 data)) := by
  induction n with
  | zero =>
    intro data s hn hb
    have : data = [] := List.eq_nil_of_length_eq_zero (by omega)
    subst this
    rw [cbcw_rustChunks_nil]
    exact ⟨[], by simp, by simp [CbcW.loop], by simp [CbcW.loop, hb], by simp [CbcW.loop, cbcEncBlocks],
      by simp [CbcW.loop, cbcChain]⟩
  | succ n ih =>
    intro data s hn hb
    by_cases h0 : data = []
    · subst h0
      rw [cbcw_rustChunks_nil]
      exact ⟨[], by simp, by simp [CbcW.loop], by simp [CbcW.loop, hb],
        by simp [CbcW.loop, cbcEncBlocks], by simp [CbcW.loop, cbcChain]⟩
    · have hpos : 0 < data.length := List.length_pos_iff.mpr h0
      by_cases h16 : data.length < 16
      · -- a single short chunk
        rw [cbcw_rustChunks_short data h0 (by omega)]
        have hne : ¬ data.length = 16 := by omega
        refine ⟨[], by simp, ?_, ?_, ?_, ?_⟩
        · simp [CbcW.loop, hne]
        · simp [CbcW.loop, hne, hb]; omega
        · simp [CbcW.loop, hne, cbcEncBlocks]
        · simp [CbcW.loop, hne, cbcChain]
      · -- a full first chunk
        have hsplit : data = data.take 16 ++ data.drop 16 := (List.take_append_drop 16 data).symm
        have htl : (data.take 16).length = 16 := by simp; omega
        have hdl : (data.drop 16).length ≤ n := by simp; omega
        rw [hsplit, cbcw_rustChunks_cons16 _ _ htl, ← hsplit]
        have hloop : CbcW.loop P k s (data.take 16 :: rustChunks 16 (data.drop 16))
            = CbcW.loop P k (s.encBlock P k (data.take 16)) (rustChunks 16 (data.drop 16)) := by
          simp [CbcW.loop, htl]
        rw [hloop]
        have hb1 : (s.encBlock P k (data.take 16)).buf = [] := by simp [CbcW.encBlock, hb]
        obtain ⟨blocks, hall, hcat, hlt, hout, hch⟩ := ih (data.drop 16) _ hdl hb1
        refine ⟨data.take 16 :: blocks, ?_, ?_, hlt, ?_, ?_⟩
        · intro b hbm
          rcases List.mem_cons.mp hbm with rfl | hbm
          · exact htl
          · exact hall b hbm
        · rw [hb1] at hcat
          simp only [List.nil_append] at hcat
          rw [hb, List.nil_append, List.flatten_cons, List.append_assoc, ← hcat]
          exact hsplit
        · rw [hout]; simp [CbcW.encBlock, cbcEncBlocks]
        · rw [hch]; simp [CbcW.encBlock, cbcChain]

/-- One `write` call absorbs its argument. -/
theorem CbcW.write_absorb (P : BlockPerm) (k : Bytes) (s : CbcW) (b : Bytes)
    (hs : s.buf.length < 16) : CbcAbsorb P k s b (s.write P k b) := by
  unfold CbcW.write
  by_cases hlt : b.length + s.buf.length < 16
  · rw [if_pos hlt]
    exact ⟨[], by simp, by simp, by simp; omega, by simp [cbcEncBlocks], by simp [cbcChain]⟩
  · rw [if_neg hlt]
    simp only []
    have hfl : (s.buf ++ b.take (16 - s.buf.length)).length = 16 := by
      simp [List.length_take]; omega
    have hb1 : (({ s with buf := [] } : CbcW).encBlock P k
        (s.buf ++ b.take (16 - s.buf.length))).buf = [] := by simp [CbcW.encBlock]
    obtain ⟨blocks, hall, hcat, hl, hout, hch⟩ :=
      CbcW.loop_absorb P k (b.drop (16 - s.buf.length)).length (b.drop (16 - s.buf.length))
        (({ s with buf := [] } : CbcW).encBlock P k (s.buf ++ b.take (16 - s.buf.length)))
        (Nat.le_refl _) hb1
    refine ⟨(s.buf ++ b.take (16 - s.buf.length)) :: blocks, ?_, ?_, hl, ?_, ?_⟩
    · intro x hx
      rcases List.mem_cons.mp hx with rfl | hx
      · exact hfl
      · exact hall x hx
    · rw [hb1] at hcat
      simp only [List.nil_append] at hcat
      rw [List.flatten_cons, List.append_assoc, ← hcat, List.append_assoc, List.take_append_drop]
    · rw [hout]; simp [CbcW.encBlock, cbcEncBlocks]
    · rw [hch]; simp [CbcW.encBlock, cbcChain]

/-- `finish` on a state with a short buffer emits exactly the padded buffer as the last block. -/
theorem CbcW.finish_out (P : BlockPerm) (k : Bytes) (s : CbcW) (hs : s.buf.length < 16) :
    (s.finish P k).out = s.out ++ cbcEncBlocks P k s.chain (toBlocks (pkcs7Pad s.buf)) := by
  have h16 := pkcs7PadBlock_length s.buf hs
  have hne : pkcs7PadBlock s.buf ≠ [] := by
    intro h; rw [h] at h16; simp at h16
  rw [pkcs7Pad_eq_padBlock _ hs, toBlocks, cbcw_rustChunks_short _ hne (by omega)]
  simp [CbcW.finish, CbcW.encBlock, cbcEncBlocks]

/-- Generalised run: from any state with a short buffer, the remaining writes followed by
    `finish` emit the reference encryption (continuing the chain) of buffer ++ remaining data. -/
theorem CbcW.run_out (P : BlockPerm) (k : Bytes) (ws : List Bytes) :
    ∀ s : CbcW, s.buf.length < 16 →
      ((ws.foldl (CbcW.write P k) s).finish P k).out
        = s.out ++ cbcEncBlocks P k s.chain (toBlocks (pkcs7Pad (s.buf ++ ws.flatten))) := by
  induction ws with
  | nil =>
    intro s hs
    simp only [List.foldl_nil, List.flatten_nil, List.append_nil]
    exact CbcW.finish_out P k s hs
  | cons w ws ih =>
    intro s hs
    obtain ⟨blocks, hall, hcat, hl, hout, hch⟩ := CbcW.write_absorb P k s w hs
    rw [List.foldl_cons, ih _ hl, hout, hch, List.flatten_cons, ← List.append_assoc s.buf, hcat,
      List.append_assoc blocks.flatten, pkcs7Pad_flatten_append _ _ hall,
      toBlocks_flatten_append _ _ hall, cbcEncBlocks_append, List.append_assoc]

-- ---------------------------------------------------------------- main theorems

/-- **Partition independence of the CBC writer.**  Whatever way the caller slices the plaintext
    into `write` calls (empty writes, 1-byte writes, writes spanning many blocks …), the inner
    writes are exactly the CBC encryption of the PKCS#7-padded concatenation, one 16-byte
    block per inner write.  No assumption on the block cipher is needed. -/
theorem cbcWriterRun_eq (P : BlockPerm) (k iv : Bytes) (ws : List Bytes) :
    cbcWriterRun P k iv ws = cbcEncBlocks P k iv (toBlocks (pkcs7Pad ws.flatten)) := by
  have h := CbcW.run_out P k ws (CbcW.init iv) (by simp [CbcW.init])
  simpa [cbcWriterRun, CbcW.init] using h

/-- Corollary in terms of bytes. -/
theorem cbcWriterRun_flatten (P : BlockPerm) (k iv : Bytes) (ws : List Bytes) :
    (cbcWriterRun P k iv ws).flatten = cbcEncrypt P k iv ws.flatten := by
  rw [cbcWriterRun_eq, cbcEncrypt]

/-- Corollary: two partitions of the same plaintext give the same ciphertext. -/
theorem cbcWriterRun_partition_independent (P : BlockPerm) (k iv : Bytes) (ws₁ ws₂ : List Bytes)
    (h : ws₁.flatten = ws₂.flatten) : cbcWriterRun P k iv ws₁ = cbcWriterRun P k iv ws₂ := by
  rw [cbcWriterRun_eq, cbcWriterRun_eq, h]

end Pna
