import PnaVerif.Lemmas.Reser
import PnaVerif.Lemmas.ArchiveRt
import PnaVerif.Lemmas.Capstone2
/-!
  Helper lemmas for the entry-level size theorems (Props/C18Entry.lean) and the layout clauses of
  well-formedness (Props/C14Layout.lean).

  * `fdatTotal` / `sdatTotal`   total payload of the FDAT (SDAT) chunks of a chunk list
  * `nLoop_data_sum`            the parser loop adds exactly the FDAT payloads before the first FEND
  * `sum_length_flatMap_rustChunks`   re-cutting keeps the total length
  * `fdatTotal_serN`            the FDAT payload total of a serialised entry (no FDAT among `extra`)
  * `builtMd`                   the builder's bookkeeping of `raw_file_size`
  * `getElem_order_of_split`    "no B before the cut, no A after it" gives the index order
-/
namespace Pna
open ChunkType

-- ---------------------------------------------------------------- payload totals

/-- total payload length of the FDAT chunks of a chunk list -/
def fdatTotal (cs : List Chunk) : Nat :=
  ((cs.filter (fun c => c.ty = ChunkType.FDAT)).map (fun c => c.data.length)).sum

/-- total payload length of the SDAT chunks of a chunk list -/
def sdatTotal (cs : List Chunk) : Nat :=
  ((cs.filter (fun c => c.ty = ChunkType.SDAT)).map (fun c => c.data.length)).sum

theorem fdatTotal_nil : fdatTotal [] = 0 := rfl

theorem fdatTotal_append (a b : List Chunk) : fdatTotal (a ++ b) = fdatTotal a + fdatTotal b := by
  simp only [fdatTotal, List.filter_append, List.map_append, List.sum_append]

theorem fdatTotal_cons_pos {c : Chunk} (cs : List Chunk) (h : c.ty = FDAT) :
    fdatTotal (c :: cs) = c.data.length + fdatTotal cs := by
  simp only [fdatTotal, List.filter_cons, h, decide_true, ite_true, List.map_cons, List.sum_cons]

theorem fdatTotal_cons_neg {c : Chunk} (cs : List Chunk) (h : c.ty ≠ FDAT) :
    fdatTotal (c :: cs) = fdatTotal cs := by
  simp only [fdatTotal, List.filter_cons, h, decide_false, Bool.false_eq_true, ite_false]

theorem fdatTotal_of_none (cs : List Chunk) (h : ∀ c ∈ cs, c.ty ≠ FDAT) : fdatTotal cs = 0 := by
  induction cs with
  | nil => rfl
  | cons c cs ih =>
    rw [fdatTotal_cons_neg cs (h c (by simp)), ih (fun x hx => h x (by simp [hx]))]

theorem fdatTotal_optChunk (t : ChunkType) (o : Option Bytes) (h : t ≠ FDAT) :
    fdatTotal (optChunk t o) = 0 :=
  fdatTotal_of_none _ (fun _ hc => (mem_optChunk hc) ▸ h)

theorem fdatTotal_map_fdat (ds : List Bytes) :
    fdatTotal (ds.map fun u => (⟨FDAT, u⟩ : Chunk)) = (ds.map List.length).sum := by
  induction ds with
  | nil => rfl
  | cons d ds ih =>
    rw [List.map_cons, fdatTotal_cons_pos _ rfl, ih, List.map_cons, List.sum_cons]

theorem sdatTotal_append (a b : List Chunk) : sdatTotal (a ++ b) = sdatTotal a + sdatTotal b := by
  simp only [sdatTotal, List.filter_append, List.map_append, List.sum_append]

theorem sdatTotal_cons_pos {c : Chunk} (cs : List Chunk) (h : c.ty = SDAT) :
    sdatTotal (c :: cs) = c.data.length + sdatTotal cs := by
  simp only [sdatTotal, List.filter_cons, h, decide_true, ite_true, List.map_cons, List.sum_cons]

theorem sdatTotal_cons_neg {c : Chunk} (cs : List Chunk) (h : c.ty ≠ SDAT) :
    sdatTotal (c :: cs) = sdatTotal cs := by
  simp only [sdatTotal, List.filter_cons, h, decide_false, Bool.false_eq_true, ite_false]

theorem sdatTotal_of_none (cs : List Chunk) (h : ∀ c ∈ cs, c.ty ≠ SDAT) : sdatTotal cs = 0 := by
  induction cs with
  | nil => rfl
  | cons c cs ih =>
    rw [sdatTotal_cons_neg cs (h c (by simp)), ih (fun x hx => h x (by simp [hx]))]

theorem sdatTotal_map_sdat (ds : List Bytes) :
    sdatTotal (ds.map fun u => (⟨SDAT, u⟩ : Chunk)) = (ds.map List.length).sum := by
  induction ds with
  | nil => rfl
  | cons d ds ih =>
    rw [List.map_cons, sdatTotal_cons_pos _ rfl, ih, List.map_cons, List.sum_cons]

-- ---------------------------------------------------------------- the parser loop counts FDAT payloads

/-- the `data` accumulator grows by `c.data` exactly when `c` is an FDAT chunk -/
theorem nStep_data {a a' : NAcc} {c : Chunk} (h : nStep a c = .ok (some a')) :
    a'.data = if c.ty = FDAT then c.data :: a.data else a.data := by
  rcases (nStep_some h).2 with ⟨ht, hd, hdec, rfl⟩ | ⟨ht, hv, rfl⟩ | ⟨ht, rfl⟩ | ⟨ht, rfl⟩ | ⟨ht, t, hdec, rfl⟩ |
    ⟨ht, t, hdec, rfl⟩ | ⟨ht, t, hdec, rfl⟩ | ⟨ht, p, hdec, rfl⟩ | ⟨ht, x, hdec, rfl⟩ | ⟨hi, rfl⟩
  · rw [if_neg (by rw [ht]; decide)]
  · rw [if_neg (by rw [ht]; decide)]
  · rw [if_pos ht]
  · rw [if_neg (by rw [ht]; decide)]
  · rw [if_neg (by rw [ht]; decide)]
  · rw [if_neg (by rw [ht]; decide)]
  · rw [if_neg (by rw [ht]; decide)]
  · rw [if_neg (by rw [ht]; decide)]
  · rw [if_neg (by rw [ht]; decide)]
  · have hne : c.ty ≠ FDAT := by
      intro hc
      rw [interpretedN_of_eq (Or.inr (Or.inr (Or.inl hc)))] at hi
      cases hi
    rw [if_neg hne]

/-- **What the parser sums**: after the loop, the stored slices total what was there before plus the payloads
    of the FDAT chunks seen before the first FEND. -/
theorem nLoop_data_sum {cs : List Chunk} {a b : NAcc} (h : nLoop a cs = .ok b) :
    (b.data.map List.length).sum
      = (a.data.map List.length).sum + fdatTotal (cs.takeWhile (fun c => c.ty ≠ ChunkType.FEND)) := by
  induction cs generalizing a with
  | nil => simp only [nLoop, Outcome.ok.injEq] at h; subst h; simp [fdatTotal]
  | cons c cs ih =>
    rcases nLoop_cons_ok h with ⟨hs, rfl⟩ | ⟨a', hs, hl⟩
    · have := nStep_none hs
      simp [this, fdatTotal]
    · have hne := (nStep_some hs).1
      rw [ih hl, nStep_data hs, List.takeWhile_cons]
      simp only [hne, ne_eq, not_false_eq_true, decide_true, ite_true]
      by_cases hf : c.ty = FDAT
      · rw [if_pos hf, fdatTotal_cons_pos _ hf, List.map_cons, List.sum_cons]; omega
      · rw [if_neg hf, fdatTotal_cons_neg _ hf]

-- ---------------------------------------------------------------- re-cutting keeps the total

theorem sum_length_eq_flatten (ds : List Bytes) : (ds.map List.length).sum = ds.flatten.length := by
  rw [List.length_flatten]

theorem sum_length_flatMap_rustChunks (ds : List Bytes) :
    ((ds.flatMap (rustChunks maxChunkData)).map List.length).sum = (ds.map List.length).sum := by
  rw [sum_length_eq_flatten, sum_length_eq_flatten, flatten_flatMap_rustChunks]

/-- Re-cutting the data slices at `u32::MAX` does not change the compressed size. -/
theorem recut_compressedSize (e : NormalEntry) : e.recut.compressedSize = e.compressedSize :=
  sum_length_flatMap_rustChunks e.data

-- ---------------------------------------------------------------- FDAT total of a serialised entry

/-- the FDAT payload total of `serN e`, for arbitrary `extra` chunks -/
theorem fdatTotal_serN_gen (e : NormalEntry) :
    fdatTotal (serN e) = fdatTotal e.extra + e.compressedSize := by
  unfold serN
  rw [flatMap_map_fdat]
  simp only [fdatTotal_append]
  rw [fdatTotal_map_fdat, sum_length_flatMap_rustChunks,
    fdatTotal_optChunk _ _ (by decide), fdatTotal_optChunk _ _ (by decide),
    fdatTotal_optChunk _ _ (by decide), fdatTotal_optChunk _ _ (by decide),
    fdatTotal_optChunk _ _ (by decide), fdatTotal_optChunk _ _ (by decide),
    fdatTotal_cons_neg _ (show FHED ≠ FDAT by decide),
    fdatTotal_cons_neg _ (show FEND ≠ FDAT by decide), fdatTotal_nil,
    fdatTotal_of_none (e.xattrs.map fun x => (⟨xATR, encXATR x⟩ : Chunk))
      (by intro c hc; obtain ⟨x, _, rfl⟩ := List.mem_map.mp hc; exact (by decide : xATR ≠ FDAT))]
  show _ = _ + (e.data.map List.length).sum
  omega

/-- … which is the compressed size when no `extra` chunk is an FDAT chunk -/
theorem fdatTotal_serN (e : NormalEntry) (hx : ∀ c ∈ e.extra, c.ty ≠ FDAT) :
    fdatTotal (serN e) = e.compressedSize := by
  rw [fdatTotal_serN_gen, fdatTotal_of_none _ hx, Nat.zero_add]

theorem WF_extra_no_fdat {e : NormalEntry} (h : e.WF) : ∀ c ∈ e.extra, c.ty ≠ FDAT := by
  intro c hc hf
  have := h.2.2.2.2.2.2.2.2.1 c hc
  rw [interpretedN_of_eq (Or.inr (Or.inr (Or.inl hf)))] at this
  cases this

/-- the SDAT payload total of `serS s`, for arbitrary `extra` chunks -/
theorem sdatTotal_serS_gen (s : SolidEntry) :
    sdatTotal (serS s) = sdatTotal s.extra + (s.data.map List.length).sum := by
  unfold serS
  simp only [sdatTotal_append]
  rw [sdatTotal_map_sdat,
    sdatTotal_of_none (optChunk PHSF s.phsf) (fun _ hc => (mem_optChunk hc) ▸ (by decide)),
    sdatTotal_cons_neg _ (show SHED ≠ SDAT by decide),
    sdatTotal_cons_neg _ (show SEND ≠ SDAT by decide)]
  simp [sdatTotal]

-- ---------------------------------------------------------------- the builder's bookkeeping

/-- `EntryBuilder::build`: `raw_file_size = Some(bytes accepted by the write calls)` for `DataKind::File`
    (kind code 0) with `store_file_size` on, `None` otherwise. -/
def builtMd (storeSize : Bool) (kind : Nat) (md : Metadata) (writes : List Bytes) : Metadata :=
  { md with rawSize := if storeSize ∧ kind = 0 then some (writes.map List.length).sum else none }

theorem builtMd_rawSize_file (md : Metadata) (writes : List Bytes) :
    (builtMd true 0 md writes).rawSize = some writes.flatten.length := by
  simp [builtMd, List.length_flatten]

theorem builtMd_rawSize_none (storeSize : Bool) (kind : Nat) (md : Metadata) (writes : List Bytes)
    (h : storeSize = false ∨ kind ≠ 0) : (builtMd storeSize kind md writes).rawSize = none := by
  unfold builtMd
  rcases h with h | h
  · simp [h]
  · simp [h]

theorem builtMd_others (storeSize : Bool) (kind : Nat) (md : Metadata) (writes : List Bytes) :
    (builtMd storeSize kind md writes).created = md.created ∧
    (builtMd storeSize kind md writes).modified = md.modified ∧
    (builtMd storeSize kind md writes).accessed = md.accessed ∧
    (builtMd storeSize kind md writes).permission = md.permission := ⟨rfl, rfl, rfl, rfl⟩

-- ---------------------------------------------------------------- order from a split

/-- if a list splits into a part without `B` followed by a part without `A`, every `A` comes before every `B` -/
theorem getElem_order_of_split {α} (A B : α → Prop) (l pre post : List α) (hl : l = pre ++ post)
    (hpre : ∀ x ∈ pre, ¬ B x) (hpost : ∀ x ∈ post, ¬ A x)
    (i j : Nat) (hi : i < l.length) (hj : j < l.length) (ha : A l[i]) (hb : B l[j]) : i < j := by
  subst hl
  have h1 : i < pre.length := by
    false_or_by_contra
    rename_i hge
    have hge : pre.length ≤ i := by omega
    rw [List.getElem_append_right hge] at ha
    exact hpost _ (List.getElem_mem _) ha
  have h2 : pre.length ≤ j := by
    false_or_by_contra
    rename_i hlt
    have hlt : j < pre.length := by omega
    rw [List.getElem_append_left hlt] at hb
    exact hpre _ (List.getElem_mem _) hb
  omega

end Pna
