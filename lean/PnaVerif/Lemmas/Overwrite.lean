import PnaVerif.Model.Cli.Overwrite
/-!
# Output-path guards without `--overwrite` (`Model/Cli/Overwrite.lean`)

Running the guarded plans never replaces, truncates or modifies anything that existed before:
* `planCreate_safe`, `planSplit_parts_safe`, `planSplit_conflict`, `planSplit_multi_safe`, `planSplit_single_safe`,
  `planExtractFile_safe` and `planExtractFile_preserved` (the latter under the named hypothesis `h2`: the guard on
  `dest` still holds after `create_dir_all parent`);
* building blocks: `setNode_fresh_preserved`, `createDirAll_preserved`, `create_guarded_preserved`,
  `createNew_preserved`, `rename_lguarded_preserved`.

The unconditional preservation statement for `planExtractFile` is **false** of the model (and of
`extract_entry`: `path.exists()` is tested *before* `create_dir_all(parent)`): witness `planExtractFile_window`
(`dest = x/../f` with `x` missing and `f` an existing file), `planExtractFile_preserved_unconditional_is_false`.
-/
namespace Pna.Cli
open Pna.Fs

/-- inode numbers in use are below `nextIno` (fresh inodes are really fresh) -/
def _root_.Pna.Fs.Fs.InoOk (fs : Fs) : Prop := (∀ p n ino, (p, n) ∈ fs.nodes → n = .file ino → ino < fs.nextIno) ∧ (∀ i c, (i, c) ∈ fs.inodes → i < fs.nextIno)

/-- everything that existed in `a` exists unchanged in `b`: same node at the same path, and file contents unchanged -/
def Preserved (a b : Fs) : Prop :=
  (∀ p n, p ≠ [] → a.lookup p = some n → b.lookup p = some n) ∧
  (∀ p ino, a.lookup p = some (.file ino) → b.content ino = a.content ino)

theorem Preserved.refl (a : Fs) : Preserved a a := ⟨fun _ _ _ h => h, fun _ _ _ => rfl⟩

theorem Preserved.trans {a b c : Fs} (h1 : Preserved a b) (h2 : Preserved b c) : Preserved a c := by
  refine ⟨fun p n hp h => h2.1 p n hp (h1.1 p n hp h), fun p ino h => ?_⟩
  have hp : p ≠ [] := by
    intro hp; subst hp; simp [Fs.lookup] at h
  rw [h2.2 p ino (h1.1 p _ hp h), h1.2 p ino h]

/-! ### association-list facts -/

theorem find_filter_append_ne {α β : Type} [BEq α] [LawfulBEq α] (l : List (α × β)) (a b : α) (v : β) (h : b ≠ a) :
    ((l.filter (·.1 != a)) ++ [(a, v)]).find? (·.1 == b) = l.find? (·.1 == b) := by
  induction l with
  | nil =>
    have : (a == b) = false := by simp; exact Ne.symm h
    simp [this]
  | cons x xs ih =>
    by_cases hx : x.1 = a
    · have hxa : (x.1 != a) = false := by simp [hx]
      have hxb : (x.1 == b) = false := by simp [hx]; exact Ne.symm h
      rw [List.filter_cons]
      simp only [hxa, List.find?_cons, hxb]
      exact ih
    · have hxa : (x.1 != a) = true := by simp [hx]
      rw [List.filter_cons]
      simp only [hxa, if_true, List.cons_append, List.find?_cons]
      rw [ih]

theorem lookup_mem {fs : Fs} {p : Path} {n : Node} (hp : p ≠ []) (h : fs.lookup p = some n) : (p, n) ∈ fs.nodes := by
  unfold Fs.lookup at h
  simp only [hp, if_false] at h
  cases hf : fs.nodes.find? (·.1 == p) with
  | none => simp [hf] at h
  | some x =>
    simp [hf] at h
    have h1 := List.mem_of_find?_eq_some hf
    have h2 := List.find?_some hf
    simp at h2
    rw [← h2, ← h]; exact h1

theorem lookup_file_ne_nil {fs : Fs} {p : Path} {ino : Nat} (h : fs.lookup p = some (.file ino)) : p ≠ [] := by
  intro hp; subst hp; simp [Fs.lookup] at h

theorem lookup_none_ne_nil {fs : Fs} {p : Path} (h : fs.lookup p = none) : p ≠ [] := by
  intro hp; subst hp; simp [Fs.lookup] at h

theorem lookup_setNode_ne (fs : Fs) (p q : Path) (n : Node) (h : q ≠ p) : (fs.setNode p n).lookup q = fs.lookup q := by
  unfold Fs.lookup Fs.setNode
  by_cases hq : q = []
  · simp [hq]
  · simp only [hq, if_false]
    rw [find_filter_append_ne _ _ _ _ h]

theorem content_setContent_ne (fs : Fs) (i j : Nat) (c : Bytes) (h : i ≠ j) : (fs.setContent j c).content i = fs.content i := by
  unfold Fs.content Fs.setContent
  simp only
  rw [find_filter_append_ne _ _ _ _ h]

/-- setting a node at a path where nothing was preserves everything -/
theorem setNode_fresh_preserved (fs : Fs) (p : Path) (n : Node) (h : fs.lookup p = none) : Preserved fs (fs.setNode p n) := by
  refine ⟨fun q m _ hq => ?_, fun q ino _ => rfl⟩
  have : q ≠ p := by intro e; subst e; rw [h] at hq; cases hq
  rw [lookup_setNode_ne _ _ _ _ this]; exact hq

theorem setNode_dir_inoOk (fs : Fs) (p : Path) (h : fs.InoOk) : (fs.setNode p .dir).InoOk := by
  refine ⟨fun q n ino hm hn => ?_, h.2⟩
  simp [Fs.setNode] at hm
  rcases hm with hm | hm
  · exact h.1 q n ino hm.1 hn
  · rw [hm.2] at hn; cases hn

/-- creating a brand-new regular file (fresh inode) at a path where nothing was -/
theorem newFile_preserved (fs : Fs) (p : Path) (c : Bytes) (hok : fs.InoOk) (h : fs.lookup p = none) :
    Preserved fs { (fs.setNode p (.file fs.nextIno)).setContent fs.nextIno c with nextIno := fs.nextIno + 1 } ∧
    Fs.InoOk { (fs.setNode p (.file fs.nextIno)).setContent fs.nextIno c with nextIno := fs.nextIno + 1 } := by
  refine ⟨⟨fun q m hq hl => ?_, fun q ino hl => ?_⟩, ⟨fun q n ino hm hn => ?_, fun i d hm => ?_⟩⟩
  · have := (setNode_fresh_preserved fs p (.file fs.nextIno) h).1 q m hq hl
    simpa [Fs.lookup, Fs.setContent] using this
  · have hlt : ino < fs.nextIno := hok.1 q _ ino (lookup_mem (lookup_file_ne_nil hl) hl) rfl
    have hne : ino ≠ fs.nextIno := Nat.ne_of_lt hlt
    have := content_setContent_ne (fs.setNode p (.file fs.nextIno)) ino fs.nextIno c hne
    simpa [Fs.content, Fs.setContent, Fs.setNode] using this
  · simp [Fs.setNode, Fs.setContent] at hm
    rcases hm with hm | hm
    · exact Nat.lt_succ_of_lt (hok.1 q n ino hm.1 hn)
    · rw [hm.2] at hn; cases hn; exact Nat.lt_succ_self _
  · simp [Fs.setNode, Fs.setContent] at hm
    rcases hm with hm | hm
    · exact Nat.lt_succ_of_lt (hok.2 i d hm.1)
    · rw [hm.1]; exact Nat.lt_succ_self _

/-- `create_dir_all` worker: only ever adds directories where nothing was -/
theorem createDirAll_go_preserved (fuel : Nat) (fs : Fs) (cur : Path) (todo : List Bytes) (fs' : Fs)
    (h : Fs.createDirAll.go fs cur fuel todo = .ok fs') : Preserved fs fs' ∧ (fs.InoOk → fs'.InoOk) := by
  induction fuel generalizing fs cur todo with
  | zero => simp [Fs.createDirAll.go] at h
  | succ fuel ih =>
    cases todo with
    | nil =>
      simp [Fs.createDirAll.go] at h
      subst h; exact ⟨Preserved.refl _, id⟩
    | cons c rest =>
      simp only [Fs.createDirAll.go] at h
      split at h
      · exact ih _ _ _ h
      · split at h
        · rename_i hl
          have ⟨h1, h2⟩ := ih _ _ _ h
          exact ⟨(setNode_fresh_preserved fs _ .dir hl).trans h1, fun hok => h2 (setNode_dir_inoOk fs _ hok)⟩
        · exact ih _ _ _ h
        · cases h
        · split at h
          · cases h
          · split at h
            · exact ih _ _ _ h
            · cases h

/-- `create_dir_all` only ever adds directories where nothing was -/
theorem createDirAll_preserved (fs fs' : Fs) (cwd : Path) (s : Bytes) (h : fs.createDirAll cwd s = .ok fs') :
    Preserved fs fs' ∧ (fs.InoOk → fs'.InoOk) :=
  createDirAll_go_preserved _ fs _ _ fs' h

/-- `File::create` behind a passed `guard`: the path did not exist (following links), so a NEW file with a fresh inode is
    created (possibly at the target of a dangling link) and nothing that existed is touched -/
theorem create_guarded_preserved (fs fs' : Fs) (cwd : Path) (s c : Bytes) (hok : fs.InoOk)
    (hg : fs.existsP cwd s = false) (h : fs.createFile cwd s c = .ok fs') : Preserved fs fs' ∧ fs'.InoOk := by
  unfold Fs.existsP at hg
  unfold Fs.createFile at h
  split at h
  · cases h
  · rename_i p hr
    rw [hr] at hg
    simp only at hg
    cases hl : fs.lookup p with
    | some n => simp [hl] at hg
    | none =>
      simp only [hl] at h
      split at h
      · cases h; exact newFile_preserved fs p c hok hl
      · cases h

/-- `create_new` never touches anything that existed -/
theorem createNew_preserved (fs fs' : Fs) (cwd : Path) (s c : Bytes) (hok : fs.InoOk)
    (h : fs.createNewFile cwd s c = .ok fs') : Preserved fs fs' ∧ fs'.InoOk := by
  unfold Fs.createNewFile at h
  split at h
  · cases h
  · rename_i p _
    split at h
    · cases h
    · rename_i hl _
      cases h; exact newFile_preserved fs p c hok hl
    · cases h

/-- **create / concat without --overwrite**: whatever was there before is still there, unchanged; and if the archive
    path exists the command fails without doing anything. -/
theorem planCreate_safe (cwd : Path) (fs : Fs) (hok : fs.InoOk) (archive content : Bytes) :
    Preserved fs (runPlan cwd fs (planCreate archive content)).1 ∧
    (fs.existsP cwd archive = true → runPlan cwd fs (planCreate archive content) = (fs, some .exists)) := by
  constructor
  · cases hg : fs.existsP cwd archive with
    | true => simp [planCreate, runPlan, runEff, hg]; exact Preserved.refl _
    | false =>
      cases hc : fs.createFile cwd archive content with
      | error e => simp [planCreate, runPlan, runEff, hg, hc]; exact Preserved.refl _
      | ok fs' =>
        simp [planCreate, runPlan, runEff, hg, hc]
        exact (create_guarded_preserved fs fs' cwd archive content hok hg hc).1
  · intro hg
    simp [planCreate, runPlan, runEff, hg]

/-- **extraction of a file without --overwrite**: a conflict is an error and nothing is done. -/
theorem planExtractFile_safe (cwd : Path) (fs : Fs) (_hok : fs.InoOk) (dest parent content : Bytes) :
    fs.existsP cwd dest = true → runPlan cwd fs (planExtractFile dest parent content) = (fs, some .exists) := by
  intro hg
  simp [planExtractFile, runPlan, runEff, hg]

/-- a run of `create_new`s preserves everything that existed -/
theorem createNews_preserved (cwd : Path) (parts : List (Bytes × Bytes)) (fs : Fs) (hok : fs.InoOk) :
    Preserved fs (runPlan cwd fs (parts.map (fun (p, c) => Eff.createNew p c))).1 ∧
    (runPlan cwd fs (parts.map (fun (p, c) => Eff.createNew p c))).1.InoOk := by
  induction parts generalizing fs with
  | nil => simp [runPlan]; exact ⟨Preserved.refl _, hok⟩
  | cons pc rest ih =>
    obtain ⟨p, c⟩ := pc
    cases hc : fs.createNewFile cwd p c with
    | error e => simp [runPlan, runEff, hc]; exact ⟨Preserved.refl _, hok⟩
    | ok fs' =>
      simp only [List.map_cons, runPlan, runEff, hc]
      have ⟨h1, h2⟩ := createNew_preserved fs fs' cwd p c hok hc
      have ⟨h3, h4⟩ := ih fs' h2
      exact ⟨h1.trans h3, h4⟩

/-- **split / create --split without --overwrite**: part files are only ever created where nothing was;
    a pre-existing object at a part path makes the run fail and is left untouched. -/
theorem planSplit_parts_safe (cwd : Path) (fs : Fs) (hok : fs.InoOk) (first : Bytes) (parts : List (Bytes × Bytes)) :
    Preserved fs (runPlan cwd fs ([Eff.guard first] ++ parts.map (fun (p, c) => Eff.createNew p c))).1 := by
  cases hg : fs.existsP cwd first with
  | true => simp [runPlan, runEff, hg]; exact Preserved.refl _
  | false =>
    simp only [List.singleton_append, runPlan, runEff, hg]
    exact (createNews_preserved cwd parts fs hok).1

theorem planSplit_conflict (cwd : Path) (fs : Fs) (first : Bytes) (parts : List (Bytes × Bytes)) (base : Bytes)
    (h : fs.existsP cwd first = true) : runPlan cwd fs (planSplit first parts base) = (fs, some .exists) := by
  simp [planSplit, runPlan, runEff, h]

/-- **extraction of a file without --overwrite**, preservation: provided the guard on `dest` still holds after
    `create_dir_all parent` (hypothesis `h2`; see `planExtractFile_window` for why it cannot be dropped), nothing that
    existed is replaced, truncated or modified. -/
theorem planExtractFile_preserved (cwd : Path) (fs : Fs) (hok : fs.InoOk) (dest parent content : Bytes)
    (h2 : ∀ fs1, fs.createDirAll cwd parent = .ok fs1 → fs1.existsP cwd dest = false) :
    Preserved fs (runPlan cwd fs (planExtractFile dest parent content)).1 := by
  cases hg : fs.existsP cwd dest with
  | true => simp [planExtractFile, runPlan, runEff, hg]; exact Preserved.refl _
  | false =>
    cases hm : fs.createDirAll cwd parent with
    | error e => simp [planExtractFile, runPlan, runEff, hg, hm]; exact Preserved.refl _
    | ok fs1 =>
      have ⟨p1, ok1⟩ := createDirAll_preserved fs fs1 cwd parent hm
      cases hc : fs1.createFile cwd dest content with
      | error e => simp [planExtractFile, runPlan, runEff, hg, hm, hc]; exact p1
      | ok fs2 =>
        simp [planExtractFile, runPlan, runEff, hg, hm, hc]
        exact p1.trans (create_guarded_preserved fs1 fs2 cwd dest content (ok1 hok) (h2 fs1 hm) hc).1

/-! ### why `h2` is needed: the guard is evaluated *before* `create_dir_all`

`/s/f` is an existing file, `/s/x` does not exist.  `dest = x/../f`, `parent = x/..`: the guard `dest.exists()` is
false (ENOENT on `x`), `create_dir_all` makes `x`, and `File::create("x/../f")` then truncates `/s/f`. -/

def windowFs : Fs := ⟨[([[115]], .dir), ([[115], [102]], .file 1)], [(1, [1, 2, 3])], 2⟩
def windowDest : Bytes := [120, 47, 46, 46, 47, 102]      -- x/../f
def windowParent : Bytes := [120, 47, 46, 46]             -- x/..

theorem planExtractFile_window :
    let r := runPlan [[115]] windowFs (planExtractFile windowDest windowParent [9])
    windowFs.existsP [[115]] windowDest = false ∧ windowFs.lookup [[115], [102]] = some (.file 1) ∧
    windowFs.content 1 = [1, 2, 3] ∧ r.2 = none ∧ r.1.lookup [[115], [102]] = some (.file 1) ∧ r.1.content 1 = [9] := by
  decide +kernel

theorem windowFs_inoOk : windowFs.InoOk := by
  refine ⟨fun p n ino hm hn => ?_, fun i c hm => ?_⟩
  · simp [windowFs] at hm
    rcases hm with hm | hm
    · rw [hm.2] at hn; cases hn
    · rw [hm.2] at hn; cases hn; decide
  · simp [windowFs] at hm
    rw [hm.1]; decide

/-- Hence the unconditional preservation statement for `planExtractFile` is false. -/
theorem planExtractFile_preserved_unconditional_is_false :
    ¬ (∀ (cwd : Path) (fs : Fs) (dest parent content : Bytes), fs.InoOk →
        Preserved fs (runPlan cwd fs (planExtractFile dest parent content)).1) := by
  intro h
  have hp := (h [[115]] windowFs windowDest windowParent [9] windowFs_inoOk).2 [[115], [102]] 1 planExtractFile_window.2.1
  rw [planExtractFile_window.2.2.2.2.2, planExtractFile_window.2.2.1] at hp
  cases hp

/-! ### the single-part rename behind `lguard` -/

theorem find_filter_ne {α β : Type} [BEq α] [LawfulBEq α] (l : List (α × β)) (a b : α) (h : b ≠ a) :
    (l.filter (·.1 != a)).find? (·.1 == b) = l.find? (·.1 == b) := by
  induction l with
  | nil => rfl
  | cons x xs ih =>
    by_cases hx : x.1 = a
    · have hxa : (x.1 != a) = false := by simp [hx]
      have hxb : (x.1 == b) = false := by simp [hx]; exact Ne.symm h
      rw [List.filter_cons]
      simp only [hxa, List.find?_cons, hxb]
      exact ih
    · have hxa : (x.1 != a) = true := by simp [hx]
      rw [List.filter_cons]
      simp only [hxa, if_true, List.find?_cons]
      rw [ih]

/-- `rename` behind a passed `lguard`: the destination name was free, so the only directory entry that goes away is
    the source; file contents are never touched. -/
theorem rename_lguarded_preserved (fs fs' : Fs) (cwd : Path) (src dst : Bytes)
    (hg : fs.lexists cwd dst = false) (h : fs.renameP cwd src dst = .ok fs') :
    (∀ q n, q ≠ [] → entryPath fs cwd src ≠ some q → fs.lookup q = some n → fs'.lookup q = some n) ∧
    (∀ ino, fs'.content ino = fs.content ino) := by
  unfold Fs.renameP at h
  split at h
  · rename_i sp dp hs hd
    split at h
    · cases h
    · rename_i m hm
      cases h
      refine ⟨fun q n hq hne hl => ?_, fun ino => rfl⟩
      have hqs : q ≠ sp := by intro e; subst e; exact hne hs
      have hdn : fs.lookup dp = none := by
        unfold Fs.lexists at hg
        rw [hd] at hg
        cases hl' : fs.lookup dp with
        | none => rfl
        | some _ => simp [hl'] at hg
      have hqd : q ≠ dp := by intro e; subst e; rw [hdn] at hl; cases hl
      have := lookup_setNode_ne fs dp q m hqd
      rw [hl] at this
      unfold Fs.lookup at this ⊢
      simp only [hq, if_false] at this ⊢
      rw [find_filter_ne _ _ _ hqs]; exact this
  · cases h

/-- **split with more or fewer than one part**: the whole plan preserves everything that existed. -/
theorem planSplit_multi_safe (cwd : Path) (fs : Fs) (hok : fs.InoOk) (first : Bytes) (parts : List (Bytes × Bytes))
    (base : Bytes) (hp : parts.length ≠ 1) : Preserved fs (runPlan cwd fs (planSplit first parts base)).1 := by
  have : planSplit first parts base = [Eff.guard first] ++ parts.map (fun (p, c) => Eff.createNew p c) := by
    unfold planSplit
    match parts, hp with
    | [], _ => simp
    | [_], hp => simp at hp
    | _ :: _ :: _, _ => simp
  rw [this]; exact planSplit_parts_safe cwd fs hok first parts

/-- **split with a single part** (created, then renamed to the base path behind `lguard`): every object that existed
    before the run is still there unchanged, except possibly the directory entry at the part's own path (which the
    run itself created); no pre-existing file content changes. -/
theorem planSplit_single_safe (cwd : Path) (fs : Fs) (hok : fs.InoOk) (first p c base : Bytes) :
    let fs1 := (runPlan cwd fs [Eff.guard first, Eff.createNew p c]).1
    let r := (runPlan cwd fs (planSplit first [(p, c)] base)).1
    (∀ q n, q ≠ [] → entryPath fs1 cwd p ≠ some q → fs.lookup q = some n → r.lookup q = some n) ∧
    (∀ q ino, fs.lookup q = some (.file ino) → r.content ino = fs.content ino) := by
  have hplan : planSplit first [(p, c)] base = [Eff.guard first, Eff.createNew p c, Eff.lguard base, Eff.rename p base] := by
    simp [planSplit]
  rw [hplan]
  cases hg : fs.existsP cwd first with
  | true => simp [runPlan, runEff, hg]
  | false =>
    cases hc : fs.createNewFile cwd p c with
    | error e => simp [runPlan, runEff, hg, hc]
    | ok fs1 =>
      have ⟨p1, _⟩ := createNew_preserved fs fs1 cwd p c hok hc
      cases hl : fs1.lexists cwd base with
      | true => simp [runPlan, runEff, hg, hc, hl]; exact ⟨fun q n hq _ h => p1.1 q n hq h, p1.2⟩
      | false =>
        cases hr : fs1.renameP cwd p base with
        | error e => simp [runPlan, runEff, hg, hc, hl, hr]; exact ⟨fun q n hq _ h => p1.1 q n hq h, p1.2⟩
        | ok fs2 =>
          have ⟨r1, r2⟩ := rename_lguarded_preserved fs1 fs2 cwd p base hl hr
          simp [runPlan, runEff, hg, hc, hl, hr]
          exact ⟨fun q n hq hne h => r1 q n hq hne (p1.1 q n hq h), fun q ino h => by rw [r2, p1.2 q ino h]⟩

end Pna.Cli
