import PnaVerif.Model.Cli.Create
import PnaVerif.Lemmas.Confined6
/-!
# C02 at the model level: `create` then `extract` equals `expectedTree` — definitions

* `toX`, `entriesOf`      — the archive entries `create` writes for a source tree.
* `TreeOK t`              — well-formed source tree (a walk that does not follow links).
* `EmptyOut fs O`         — sane file system whose output directory `O` is empty.
* `objAt fs O x`          — the expected object `x` is found below `O`.
* `DepthOK fs t`          — the model's resolver fuel covers the depth of every node (see below).
-/
namespace Pna.Compose
open Pna Pna.Fs Pna.Cli Pna.Confined

/-- the archive entry written for a source node (name sanitised, directories carry no data) -/
def toX (n : TNode) : XEntry := ⟨sanitize n.path, n.kind, if n.kind = 1 then [] else n.content⟩

def entriesOf (o : CXOpts) (t : List TNode) : List XEntry := (archived o t).map toX

/-- walk order: every proper ancestor of a node is a directory node that occurs earlier -/
def ParentsFirst (t : List TNode) : Prop :=
  ∀ i (h : i < t.length), ∀ a ∈ ancestors (t[i]'h).path, ∃ m ∈ t.take i, m.kind = 1 ∧ m.path = a

instance (t : List TNode) : Decidable (ParentsFirst t) := by unfold ParentsFirst; infer_instance

/-- a well-formed source tree: known kinds, clean non-empty relative paths, pairwise distinct;
    every proper ancestor of a node's path is the path of a DIRECTORY node (nothing lies beneath
    a file or a symbolic link); parents before children -/
def TreeOK (t : List TNode) : Prop :=
  (∀ n ∈ t, n.kind ≤ 2 ∧ n.path ≠ [] ∧ sanitize n.path = n.path) ∧
  (t.map (·.path)).Nodup ∧
  (∀ n ∈ t, ∀ a ∈ ancestors n.path, ∃ m ∈ t, m.kind = 1 ∧ m.path = a) ∧
  ParentsFirst t

instance (t : List TNode) : Decidable (TreeOK t) := by unfold TreeOK; infer_instance

/-- the output directory is sane and empty -/
def EmptyOut (fs : Fs) (O : Path) : Prop := Sane fs O ∧ ∀ n ∈ fs.nodes, Inside O n.1 → n.1 = O

/-- Boolean form of `EmptyOut` for concrete file systems -/
def emptyOutB (fs : Fs) (O : Path) : Bool :=
  saneB fs O && fs.nodes.all (fun n => !(O.isPrefixOf n.1) || n.1 == O)

/-- the object of the given kind (and content / link target) is at `p` -/
def nodeIs (fs : Fs) (p : Path) (kind : Nat) (content : Bytes) : Prop :=
  match kind with
  | 0 => ∃ ino, fs.lookup p = some (.file ino) ∧ fs.content ino = content
  | 1 => fs.lookup p = some .dir
  | 2 => fs.lookup p = some (.link content)
  | _ => False

/-- the expected object `x` is found below the output directory `O` -/
def objAt (fs : Fs) (O : Path) (x : XNode) : Prop := nodeIs fs (O ++ splitSlash x.path) x.kind x.content

/-- **model limit.**  The model's path walks carry a fuel of `40 + 8·#nodes` (`fuelFor`, there to
    model ELOOP); a destination deeper than that makes the model's `create_dir_all` report `loop`.
    The composition theorem therefore assumes every node's depth is within the initial fuel. -/
def DepthOK (fs : Fs) (t : List TNode) : Prop := ∀ n ∈ t, (splitSlash n.path).length + 2 ≤ fuelFor fs

instance (fs : Fs) (t : List TNode) : Decidable (DepthOK fs t) := by unfold DepthOK; infer_instance

/-! ### clean paths (`sanitize p = p`, `p ≠ []`) as component lists -/

/-- a `Normal` path component -/
def NormC (c : Bytes) : Prop := c ≠ [] ∧ c ≠ [dot] ∧ c ≠ [dot, dot] ∧ slash ∉ c

structure Clean (p : Bytes) : Prop where
  ne : p ≠ []
  san : sanitize p = p

theorem Clean.norm {p : Bytes} (h : Clean p) : ∀ c ∈ splitSlash p, NormC c := by
  rcases sanitize_components p with he | ⟨_, hall⟩
  · rw [h.san] at he; exact absurd he h.ne
  · rw [h.san] at hall; exact hall

theorem Clean.filter {p : Bytes} (h : Clean p) : (splitSlash p).filter isNormalComp = splitSlash p := by
  apply List.filter_eq_self.2
  intro c hc
  have := h.norm c hc
  simp [isNormalComp, this.1, this.2.1, this.2.2.1]

theorem Clean.join {p : Bytes} (h : Clean p) : joinSlash (splitSlash p) = p := by
  have := h.san
  unfold sanitize at this
  rw [h.filter] at this
  exact this

theorem Clean.comps {p : Bytes} (h : Clean p) : comps p = splitSlash p := by
  unfold Pna.Fs.comps
  apply List.filter_eq_self.2
  intro c hc
  have := h.norm c hc
  simp [this.1, this.2.1]

theorem Clean.ncomps {p : Bytes} (h : Clean p) : ncomps p = splitSlash p := by
  unfold Pna.Confined.ncomps
  apply List.filter_eq_self.2
  intro c hc
  have := h.norm c hc
  simp [this.1]

theorem Clean.rel {p : Bytes} (h : Clean p) : isAbs p = false := by
  have := sanitize_no_root p
  rw [h.san] at this
  simpa [isAbs] using this

theorem Clean.nodd {p : Bytes} (h : Clean p) : [dot, dot] ∉ splitSlash p :=
  fun hm => (h.norm _ hm).2.2.1 rfl

theorem Clean.split_ne {p : Bytes} (_h : Clean p) : splitSlash p ≠ [] := splitSlash_ne_nil p

theorem NormC.goodC {c : Bytes} (h : NormC c) : GoodC c := ⟨h.1, h.2.1, h.2.2.2⟩

/-- a non-empty list of normal components is the split of its join -/
theorem split_join_norm (q : List Bytes) (hq : q ≠ []) (hn : ∀ c ∈ q, NormC c) :
    splitSlash (joinSlash q) = q := splitSlash_joinSlash q hq (fun c hc => (hn c hc).2.2.2)

/-! ### `ancestors` in terms of component prefixes -/

/-- `q` is a non-empty proper prefix of `cs` -/
def PProper (q cs : List Bytes) : Prop := q ≠ [] ∧ q <+: cs ∧ q ≠ cs

theorem PProper.length_lt {q cs : List Bytes} (h : PProper q cs) : q.length < cs.length := by
  have hle := h.2.1.length_le
  by_cases e : cs.length ≤ q.length
  · exact absurd (List.IsPrefix.eq_of_length_le h.2.1 e) h.2.2
  · omega

theorem mem_ancestors (p a : Bytes) :
    a ∈ ancestors p ↔ ∃ q, PProper q (splitSlash p) ∧ a = joinSlash q := by
  unfold ancestors
  simp only [List.mem_map, List.mem_range]
  constructor
  · rintro ⟨i, hi, rfl⟩
    refine ⟨(splitSlash p).take (i + 1), ⟨?_, List.take_prefix _ _, ?_⟩, rfl⟩
    · intro e
      have := congrArg List.length e
      rw [List.length_take, List.length_nil] at this; omega
    · intro e
      have := congrArg List.length e
      rw [List.length_take] at this; omega
  · rintro ⟨q, hq, rfl⟩
    have hlt := hq.length_lt
    have hpos : 0 < q.length := List.length_pos_iff.2 hq.1
    refine ⟨q.length - 1, by omega, ?_⟩
    have : q.length - 1 + 1 = q.length := by omega
    rw [this, ← List.prefix_iff_eq_take.1 hq.2.1]

/-! ### consequences of `TreeOK`, in terms of component lists -/

/-- the components of a node's path -/
abbrev pcs (n : TNode) : List Bytes := splitSlash n.path

theorem inj_of_nodup_map {α β : Type} (f : α → β) : ∀ (l : List α), (l.map f).Nodup →
    ∀ a ∈ l, ∀ b ∈ l, f a = f b → a = b := by
  intro l
  induction l with
  | nil => intro _ a ha; cases ha
  | cons x xs ih =>
    intro hnd a ha b hb e
    rw [List.map_cons, List.nodup_cons] at hnd
    rcases List.mem_cons.1 ha with ha1 | ha1 <;> rcases List.mem_cons.1 hb with hb1 | hb1
    · rw [ha1, hb1]
    · subst ha1; exact absurd (List.mem_map.2 ⟨b, hb1, e.symm⟩) hnd.1
    · subst hb1; exact absurd (List.mem_map.2 ⟨a, ha1, e⟩) hnd.1
    · exact ih hnd.2 a ha1 b hb1 e

theorem TreeOK.clean {t : List TNode} (h : TreeOK t) {n : TNode} (hn : n ∈ t) : Clean n.path :=
  ⟨(h.1 n hn).2.1, (h.1 n hn).2.2⟩

theorem TreeOK.kind {t : List TNode} (h : TreeOK t) {n : TNode} (hn : n ∈ t) : n.kind ≤ 2 := (h.1 n hn).1

theorem TreeOK.path_inj {t : List TNode} (h : TreeOK t) {n m : TNode} (hn : n ∈ t) (hm : m ∈ t)
    (e : n.path = m.path) : n = m := inj_of_nodup_map (·.path) t h.2.1 n hn m hm e

theorem TreeOK.pcs_inj {t : List TNode} (h : TreeOK t) {n m : TNode} (hn : n ∈ t) (hm : m ∈ t)
    (e : pcs n = pcs m) : n = m := by
  apply h.path_inj hn hm
  rw [← (h.clean hn).join, ← (h.clean hm).join]
  exact congrArg joinSlash e

theorem PProper.norm {q cs : List Bytes} (h : PProper q cs) (hn : ∀ c ∈ cs, NormC c) : ∀ c ∈ q, NormC c :=
  fun c hc => hn c (h.2.1.subset hc)

/-- every non-empty proper prefix of a node's components is (the components of) a directory node -/
theorem TreeOK.anc_dir {t : List TNode} (h : TreeOK t) {n : TNode} (hn : n ∈ t) {q : List Bytes}
    (hq : PProper q (pcs n)) : ∃ m ∈ t, m.kind = 1 ∧ pcs m = q := by
  obtain ⟨m, hm, hk, hp⟩ := h.2.2.1 n hn (joinSlash q) ((mem_ancestors _ _).2 ⟨q, hq, rfl⟩)
  refine ⟨m, hm, hk, ?_⟩
  show splitSlash m.path = q
  rw [hp]
  exact split_join_norm q hq.1 (hq.norm (h.clean hn).norm)

/-- walk order at a split point: nothing before `n` has its path, and its ancestors come before -/
theorem TreeOK.split {t pre post : List TNode} {n : TNode} (h : TreeOK t) (e : t = pre ++ n :: post) :
    (∀ m ∈ pre, m.path ≠ n.path) ∧
    (∀ q, PProper q (pcs n) → ∃ m ∈ pre, m.kind = 1 ∧ pcs m = q) := by
  subst e
  have hn : n ∈ pre ++ n :: post := by simp
  constructor
  · intro m hm e
    have hnd := h.2.1
    rw [List.map_append, List.map_cons, List.nodup_append] at hnd
    exact hnd.2.2 m.path (List.mem_map.2 ⟨m, hm, rfl⟩) n.path (by simp) e
  · intro q hq
    have hlen : pre.length < (pre ++ n :: post).length := by simp
    have hget : (pre ++ n :: post)[pre.length]'hlen = n := by simp
    have := h.2.2.2 pre.length hlen (joinSlash q) (by rw [hget]; exact (mem_ancestors _ _).2 ⟨q, hq, rfl⟩)
    rw [List.take_left'  rfl] at this
    obtain ⟨m, hm, hk, hp⟩ := this
    refine ⟨m, hm, hk, ?_⟩
    show splitSlash m.path = q
    rw [hp]
    exact split_join_norm q hq.1 (hq.norm (h.clean hn).norm)

theorem emptyOut_of_B {fs : Fs} {O : Path} (h : emptyOutB fs O = true) : EmptyOut fs O := by
  unfold emptyOutB at h
  rw [Bool.and_eq_true] at h
  refine ⟨(saneB_iff fs O).1 h.1, fun n hn hin => ?_⟩
  have := List.all_eq_true.1 h.2 n hn
  have hp : O.isPrefixOf n.1 = true := List.isPrefixOf_iff_prefix.2 hin
  simpa [hp] using this

end Pna.Compose
