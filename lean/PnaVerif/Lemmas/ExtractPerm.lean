import PnaVerif.Model.Cli.ExtractPerm
import PnaVerif.Lemmas.Confined6
/-!
# The permission step of `pna extract --keep-permission` (C09, C20): helper lemmas

* `Ext fs fs'` — `fs'` extends `fs`: every directory entry of `fs` is kept, a path that was free is
  free, a directory, or a regular file with an inode allocated since.  `create_dir_all` and
  `File::create` extend the file system, unconditionally.
* `Mono` (no new symbolic link) for `create_dir_all`, `File::create`, `remove`: unconditionally.
* what `permTarget` reaches when the destination walk is link-free and lexical.
-/
namespace Pna.ExtractPerm
open Pna Pna.Fs Pna.Cli Pna.Confined

/-! ### unpacking `extractEntryP` -/

theorem extractEntryP_ok {kp ow : Bool} {cwd : Path} {outDir : Bytes} {fs fs2 : Fs} {e : XEntry} {t : PermTarget}
    (h : extractEntryP kp ow cwd outDir fs e = (fs2, none, t)) :
    extractEntry ow cwd outDir fs e = (fs2, none) ∧ t = permStep kp e.kind fs2 cwd (joinP outDir e.name) := by
  unfold extractEntryP at h
  split at h
  · rename_i fs3 he
    simp only [Prod.mk.injEq, true_and] at h
    obtain ⟨rfl, rfl⟩ := h
    exact ⟨he, rfl⟩
  · simp at h

/-! ### `Ext`: the file system only grows, by directories and fresh files -/

structure Ext (fs fs' : Fs) : Prop where
  ino : fs.nextIno ≤ fs'.nextIno
  keep : ∀ q n, fs.lookup q = some n → fs'.lookup q = some n
  new : ∀ q, fs.lookup q = none → fs'.lookup q = none ∨ fs'.lookup q = some .dir ∨
    ∃ i, fs'.lookup q = some (.file i) ∧ fs.nextIno ≤ i

theorem Ext.refl (fs : Fs) : Ext fs fs := ⟨Nat.le_refl _, fun _ _ h => h, fun _ h => Or.inl h⟩

theorem Ext.trans {a b c : Fs} (h1 : Ext a b) (h2 : Ext b c) : Ext a c := by
  refine ⟨Nat.le_trans h1.ino h2.ino, fun q n h => h2.keep q n (h1.keep q n h), fun q h => ?_⟩
  rcases h1.new q h with h' | h' | ⟨i, h', hi⟩
  · rcases h2.new q h' with h'' | h'' | ⟨j, h'', hj⟩
    · exact Or.inl h''
    · exact Or.inr (Or.inl h'')
    · exact Or.inr (Or.inr ⟨j, h'', Nat.le_trans h1.ino hj⟩)
  · exact Or.inr (Or.inl (h2.keep q _ h'))
  · exact Or.inr (Or.inr ⟨i, h2.keep q _ h', hi⟩)

/-- an extension has no new symbolic link -/
theorem Ext.mono {a b : Fs} (h : Ext a b) : Mono a b := by
  intro q hq t ht
  cases hl : a.lookup q with
  | some n =>
    have := h.keep q n hl
    rw [ht] at this
    cases this
    exact hq t hl
  | none =>
    rcases h.new q hl with h' | h' | ⟨i, h', _⟩ <;> rw [ht] at h' <;> cases h'

theorem ext_mkdir {fs : Fs} {p : Path} (h : fs.lookup p = none) : Ext fs (fs.setNode p .dir) := by
  have hp : p ≠ [] := lookup_none_ne_nil h
  refine ⟨Nat.le_refl _, fun q n hq => ?_, fun q hq => ?_⟩
  · have : q ≠ p := by intro e; subst e; rw [h] at hq; cases hq
    rw [lookup_setNode_ne _ _ _ _ this]; exact hq
  · by_cases e : q = p
    · subst e; exact Or.inr (Or.inl (lookup_setNode_eq _ _ _ hp))
    · rw [lookup_setNode_ne _ _ _ _ e]; exact Or.inl hq

theorem go_ext : ∀ (fuel : Nat) (fs : Fs) (cur : Path) (cs : List Bytes) (fs' : Fs),
    Fs.createDirAll.go fs cur fuel cs = .ok fs' → Ext fs fs' := by
  intro fuel
  induction fuel with
  | zero => intro fs cur cs fs' h; simp [Fs.createDirAll.go] at h
  | succ fuel ih =>
    intro fs cur cs fs' h
    cases cs with
    | nil =>
      simp [Fs.createDirAll.go] at h
      subst h; exact Ext.refl _
    | cons c rest =>
      simp only [Fs.createDirAll.go] at h
      split at h
      · exact ih _ _ _ _ h
      · split at h
        · rename_i hnone
          exact (ext_mkdir hnone).trans (ih _ _ _ _ h)
        · exact ih _ _ _ _ h
        · cases h
        · split at h
          · cases h
          · split at h
            · exact ih _ _ _ _ h
            · cases h

theorem createDirAll_ext {fs fs' : Fs} {cwd : Path} {s : Bytes} (h : fs.createDirAll cwd s = .ok fs') :
    Ext fs fs' := go_ext _ _ _ _ _ h

theorem lookup_nodes_eq {a b : Fs} (h : a.nodes = b.nodes) (q : Path) : a.lookup q = b.lookup q := by
  unfold Fs.lookup; rw [h]

theorem createFile_ext {fs fs' : Fs} {cwd : Path} {s c : Bytes} (h : fs.createFile cwd s c = .ok fs') :
    Ext fs fs' := by
  unfold Fs.createFile at h
  split at h
  · cases h
  · rename_i p _
    split at h
    · cases h
    · cases h
      exact ⟨Nat.le_refl _, fun q n hq => hq, fun q hq => Or.inl hq⟩
    · cases h
    · rename_i hnone
      split at h
      · cases h
        have hp : p ≠ [] := lookup_none_ne_nil hnone
        have hl : ∀ q, ({ (fs.setNode p (.file fs.nextIno)).setContent fs.nextIno c with
            nextIno := fs.nextIno + 1 } : Fs).lookup q = (fs.setNode p (.file fs.nextIno)).lookup q :=
          fun q => lookup_nodes_eq rfl q
        refine ⟨Nat.le_succ _, fun q n hq => ?_, fun q hq => ?_⟩
        · have : q ≠ p := by intro e; subst e; rw [hnone] at hq; cases hq
          rw [hl, lookup_setNode_ne _ _ _ _ this]; exact hq
        · by_cases e : q = p
          · subst e
            exact Or.inr (Or.inr ⟨fs.nextIno, by rw [hl, lookup_setNode_eq _ _ _ hp], Nat.le_refl _⟩)
          · rw [hl, lookup_setNode_ne _ _ _ _ e]; exact Or.inl hq
      · cases h

/-! ### `Mono` for `remove`; chaining `step`s -/

theorem mono_filter (fs : Fs) (P : Path → Bool) : Mono fs { fs with nodes := fs.nodes.filter (fun n => P n.1) } := by
  intro q h t ht
  cases hq : P q with
  | true => rw [lookup_filter_true fs P q hq] at ht; exact h t ht
  | false =>
    by_cases hn : q = []
    · subst hn; simp [Fs.lookup] at ht
    · rw [lookup_filter_false fs P q hq hn] at ht; cases ht

theorem remove_mono {fs fs' : Fs} {cwd : Path} {s : Bytes} (h : fs.remove cwd s = .ok fs') : Mono fs fs' := by
  unfold Fs.remove at h
  split at h
  · cases h
  · rename_i p _
    split at h
    · cases h
    · cases h; exact mono_filter fs (fun q => !(p.isPrefixOf q))
    · cases h; exact mono_filter fs (fun q => q != p)

/-- a `step` whose effect (when performed) is related by a reflexive relation -/
theorem step_rel (R : Fs → Fs → Prop) (hrefl : ∀ a, R a a) (r : Fs × Option XErr) (f : Fs → Except FsErr Fs)
    (hf : ∀ b, f r.1 = .ok b → R r.1 b) : R r.1 (step r f).1 := by
  obtain ⟨a, x⟩ := r
  cases x with
  | some e => exact hrefl a
  | none =>
    cases h : f a with
    | error e => simp only [step, h]; exact hrefl a
    | ok b => simp only [step, h]; exact hf b h

/-- `if let Some(parent) = path.parent() { create_dir_all(parent)? }` -/
def mkParent (cwd : Path) (path : Bytes) (fs : Fs) : Fs × Option XErr :=
  match parentP path with
  | some p => step (fs, none) (fun fs => fs.createDirAll cwd p)
  | none => (fs, none)

theorem mkParent_ext (cwd : Path) (path : Bytes) (fs : Fs) : Ext fs (mkParent cwd path fs).1 := by
  unfold mkParent
  split
  · exact step_rel Ext Ext.refl (fs, none) _ (fun b hb => createDirAll_ext hb)
  · exact Ext.refl _

/-- regular-file and directory entries create no symbolic link (with or without `--overwrite`) -/
theorem extractEntry_mono01 (ow : Bool) (cwd : Path) (outDir : Bytes) (fs : Fs) (e : XEntry)
    (hk : e.kind = 0 ∨ e.kind = 1) : Mono fs (extractEntry ow cwd outDir fs e).1 := by
  unfold extractEntry
  dsimp only
  split
  · exact Mono.refl _
  · split
    · exact Mono.refl _
    · have h0 : Mono fs (mkParent cwd (joinP outDir e.name) fs).1 := (mkParent_ext _ _ _).mono
      have hrm : ∀ (r : Fs × Option XErr) (b : Bool),
          Mono r.1 (step r (fun fs => if b then fs.remove cwd (joinP outDir e.name) else .ok fs)).1 :=
        fun r b => step_rel Mono Mono.refl r _ (fun c hc => by
          cases b with
          | true => exact remove_mono hc
          | false => simp at hc; subst hc; exact Mono.refl _)
      unfold mkParent at h0
      rcases hk with hk | hk <;> rw [hk]
      · exact (h0.trans (hrm _ _)).trans
          (step_rel Mono Mono.refl _ _ (fun c hc => (createFile_ext hc).mono))
      · exact (h0.trans (hrm _ _)).trans
          (step_rel Mono Mono.refl _ _ (fun c hc => (createDirAll_ext hc).mono))

/-- without `--overwrite`, regular-file and directory entries only extend the file system -/
theorem extractEntry_ext01 (cwd : Path) (outDir : Bytes) (fs : Fs) (e : XEntry)
    (hk : e.kind = 0 ∨ e.kind = 1) : Ext fs (extractEntry false cwd outDir fs e).1 := by
  unfold extractEntry
  dsimp only
  split
  · exact Ext.refl _
  · split
    · exact Ext.refl _
    · rename_i hex
      have hl : isLinkAt fs cwd (joinP outDir e.name) = false := by
        cases h : isLinkAt fs cwd (joinP outDir e.name) with
        | false => rfl
        | true => simp [h] at hex
      rw [hl]
      have h0 : Ext fs (mkParent cwd (joinP outDir e.name) fs).1 := mkParent_ext _ _ _
      have hrm : ∀ (r : Fs × Option XErr),
          Ext r.1 (step r (fun fs => if false = true then fs.remove cwd (joinP outDir e.name) else .ok fs)).1 :=
        fun r => step_rel Ext Ext.refl r _ (fun c hc => by
          simp at hc; subst hc; exact Ext.refl _)
      unfold mkParent at h0
      rcases hk with hk | hk <;> rw [hk]
      · exact (h0.trans (hrm _)).trans (step_rel Ext Ext.refl _ _ (fun c hc => createFile_ext hc))
      · exact (h0.trans (hrm _)).trans (step_rel Ext Ext.refl _ _ (fun c hc => createDirAll_ext hc))

/-! ### resolving an existing object; what `permTarget` reaches -/

/-- an existing object that is not a symbolic link and whose path has no `..` is found by `resolve`
    following links, given enough fuel -/
theorem resolve_existing_follow {fs : Fs} (hc : Closed fs) : ∀ (cs : List Bytes) (cur : Path) (fuel : Nat),
    (fs.lookup (cur ++ cs)).isSome → NotLink fs (cur ++ cs) → [dot, dot] ∉ cs → cs.length < fuel →
    resolve fs true fuel cur cs = some (cur ++ cs) := by
  intro cs
  induction cs with
  | nil =>
    intro cur fuel _ _ _ hf
    cases fuel with
    | zero => simp at hf
    | succ f => simp [resolve]
  | cons c r ih =>
    intro cur fuel hs hnl hdd hf
    simp only [List.mem_cons, not_or] at hdd
    cases fuel with
    | zero => simp at hf
    | succ f =>
      simp only [resolve, if_neg (Ne.symm hdd.1)]
      by_cases hr : r = []
      · subst hr
        simp only [List.length_cons, List.length_nil] at hf
        have hf1 : ∃ g, f = g + 1 := ⟨f - 1, by omega⟩
        obtain ⟨g, rfl⟩ := hf1
        cases hl : fs.lookup (cur ++ [c]) with
        | none => simp
        | some n =>
          cases n with
          | file i => simp
          | dir => simp [resolve]
          | link t => exact absurd hl (hnl t)
      · have hpre : cur ++ [c] <+: cur ++ c :: r := ⟨r, by simp⟩
        have hne : cur ++ [c] ≠ cur ++ c :: r := by
          intro e
          have := List.append_cancel_left e
          simp at this; exact hr this
        rw [anc_dir hc hs hpre hne]
        have := ih (cur ++ [c]) f (by simpa using hs) (by simpa using hnl) hdd.2 (by simp at hf; omega)
        simpa using this

/-- `exists()` and the link test both negative: nothing is at the lexical path -/
theorem lookup_none_of_absent {fs : Fs} {cwd : Path} {d s : Bytes} {cs : List Bytes}
    (hd : d ≠ [dot, dot]) (habs : isAbs s = false) (hcomps : comps s = d :: cs)
    (hs : Sane fs (cwd ++ [d])) (hdd : [dot, dot] ∉ cs)
    (hex : fs.existsP cwd s = false) (hl : isLinkAt fs cwd s = false) :
    fs.lookup (cwd ++ [d] ++ cs) = none := by
  cases hlk : fs.lookup (cwd ++ [d] ++ cs) with
  | none => rfl
  | some n =>
    have hnl := isLinkAt_false hd habs hcomps hs hdd hl
    have hne : cwd ++ [d] ++ cs ≠ [] := by simp
    have hdep := depth_le hs.closed (lookup_mem hne hlk)
    have hres := resolve_existing_follow hs.closed cs (cwd ++ [d]) (39 + 8 * fs.nodes.length)
      (by rw [hlk]; rfl) hnl hdd (by simp at hdep; omega)
    unfold Fs.existsP at hex
    simp only [habs, hcomps, fuelFor_succ, Bool.false_eq_true, if_false] at hex
    rw [resolve_step_dir hd hs.odir, hres] at hex
    simp only [hlk, Option.isSome_some] at hex
    cases hex

theorem lexOk_nodd {fs : Fs} {O : Path} : ∀ (cs w : List Bytes), [dot, dot] ∉ cs →
    (∀ k, 0 < k → k ≤ cs.length → NotLink fs (O ++ (w ++ cs.take k))) → LexOk fs O w cs := by
  intro cs
  induction cs with
  | nil => intro w _ _; trivial
  | cons c r ih =>
    intro w hdd h
    simp only [List.mem_cons, not_or] at hdd
    unfold LexOk
    rw [if_neg (Ne.symm hdd.1)]
    refine ⟨by simpa using h 1 (by omega) (by simp), ih _ hdd.2 (fun k hk1 hk2 => ?_)⟩
    have := h (k + 1) (by omega) (by simp; omega)
    simpa using this

/-- if the object at `O/init/last` exists, the walk `init` below `O` is link-free -/
theorem lexOk_of_exists {fs : Fs} {O : Path} {init : List Bytes} {last : Bytes} (hc : Closed fs)
    (hs : (fs.lookup (O ++ (init ++ [last]))).isSome) (hdd : [dot, dot] ∉ init) : LexOk fs O [] init := by
  refine lexOk_nodd init [] hdd (fun k _ _ t ht => ?_)
  have hpre : O ++ ([] ++ init.take k) <+: O ++ (init ++ [last]) := by
    rw [List.nil_append]
    exact (List.prefix_append_right_inj O).2 ((List.take_prefix k init).trans (List.prefix_append _ _))
  have hne : O ++ ([] ++ init.take k) ≠ O ++ (init ++ [last]) := by
    intro e
    have := congrArg List.length e
    simp at this; omega
  rw [anc_dir hc hs hpre hne] at ht
  cases ht

/-- what `chown`/`chmod` reach through a destination whose walk is link-free and which is not a link:
    the object at the lexical path -/
theorem permTarget_lex {fs : Fs} {cwd : Path} {d path : Bytes} {init : List Bytes} {last : Bytes}
    (pc : PathCtx cwd d path init last) (hs : Sane fs (cwd ++ [d])) (hl : LexOk fs (cwd ++ [d]) [] init)
    (hlink : isLinkAt fs cwd path = false) :
    permTarget fs cwd path = .none ∨
    (permTarget fs cwd path = .dir (cwd ++ [d] ++ (init ++ [last])) ∧
      fs.lookup (cwd ++ [d] ++ (init ++ [last])) = some .dir) ∨
    ∃ i, permTarget fs cwd path = .file i ∧ fs.lookup (cwd ++ [d] ++ (init ++ [last])) = some (.file i) := by
  have hdd := nodd_snoc pc.hdd pc.hlast
  have hnl := isLinkAt_false pc.hd pc.abs pc.comps hs hdd hlink
  have hlex := lexOk_snoc hl pc.hdd pc.hlast hnl
  unfold permTarget
  split
  · rename_i p hr
    have hp := resolve_confined pc.hd pc.abs pc.comps hs hlex hr
    rw [lexEnd_init hdd] at hp
    subst hp
    split
    · rename_i hd; exact Or.inr (Or.inl ⟨rfl, hd⟩)
    · rename_i i hf; exact Or.inr (Or.inr ⟨i, rfl, hf⟩)
    · exact Or.inl rfl
  · exact Or.inl rfl

/-! ### facts about a successful `extract_entry` -/

theorem step_ok {r : Fs × Option XErr} {f : Fs → Except FsErr Fs} {fs2 : Fs} (h : step r f = (fs2, none)) :
    r.2 = none ∧ f r.1 = .ok fs2 := by
  obtain ⟨a, x⟩ := r
  cases x with
  | some e => simp [step] at h
  | none =>
    cases hf : f a with
    | error e => simp [step, hf] at h
    | ok b =>
      simp only [step, hf, Prod.mk.injEq, and_true] at h
      subst h; exact ⟨rfl, rfl⟩

/-- a successful `extract_entry` passed `ensure_confined(base, parent(name))` -/
theorem extractEntry_ok_confined {ow : Bool} {cwd : Path} {outDir : Bytes} {fs fs2 : Fs} {e : XEntry}
    (h : extractEntry ow cwd outDir fs e = (fs2, none)) :
    confined fs cwd outDir ((parentP e.name).getD []) = true := by
  unfold extractEntry at h
  dsimp only at h
  split at h
  · simp at h
  · rename_i hc; simpa using hc

/-- without `--overwrite`, a successful `extract_entry` found nothing at the destination -/
theorem extractEntry_ok_absent {cwd : Path} {outDir : Bytes} {fs fs2 : Fs} {e : XEntry}
    (h : extractEntry false cwd outDir fs e = (fs2, none)) :
    fs.existsP cwd (joinP outDir e.name) = false ∧ isLinkAt fs cwd (joinP outDir e.name) = false := by
  unfold extractEntry at h
  dsimp only at h
  split at h
  · simp at h
  · split at h
    · simp at h
    · rename_i hex
      simpa using hex

/-- without `--overwrite`, an entry whose name has no components is refused -/
theorem extractEntry_nocomps_err (cwd : Path) (outDir d : Bytes) (fs : Fs) (e : XEntry)
    (ho : OutDir outDir d) (hs : Sane fs (cwd ++ [d])) (hc : comps e.name = []) :
    (extractEntry false cwd outDir fs e).2 ≠ none := by
  intro h
  have hE : extractEntry false cwd outDir fs e = ((extractEntry false cwd outDir fs e).1, none) := by
    rw [← h]
  have := (extractEntry_ok_absent hE).1
  rw [existsP_nocomps ho hs hc] at this
  cases this

/-- a successful `hard_link` adds one directory entry, where `entryPath` says -/
theorem hardLink_ok {fs fs' : Fs} {cwd : Path} {src dst : Bytes} (h : fs.hardLink cwd src dst = .ok fs') :
    ∃ dp n, entryPath fs cwd dst = some dp ∧ fs' = fs.setNode dp n := by
  unfold Fs.hardLink at h
  split at h
  · rename_i sp dp hr he
    split at h
    · cases h; exact ⟨dp, _, he, rfl⟩
    · cases h; exact ⟨dp, _, he, rfl⟩
    · cases h
    · cases h
    · cases h
    · cases h
  · cases h

/-- an entry that is neither a regular file, a directory nor a symbolic link is extracted as a hard
    link: when that succeeds, the new name is at the lexical destination path -/
theorem extractEntry_hard_exists (ow : Bool) (cwd : Path) (outDir d : Bytes) (fs fs2 : Fs) (e : XEntry)
    (ho : OutDir outDir d) (hs : Sane fs (cwd ++ [d])) (hn : NameOk e.name)
    (h0 : e.kind ≠ 0) (h1 : e.kind ≠ 1) (h2 : e.kind ≠ 2)
    (hE : extractEntry ow cwd outDir fs e = (fs2, none)) :
    (fs2.lookup (cwd ++ [d] ++ comps e.name)).isSome := by
  have hconf := extractEntry_ok_confined hE
  obtain ⟨init, last, par, pcs, hcn, hlast, hdd, hrel, hja, hjc, hpar, hpa, hpc, hlp, hli⟩ :=
    name_shape ho hs hn hconf
  have pc : PathCtx cwd d (joinP outDir e.name) init last := ⟨ho.nodd, hlast, hdd, hja, hjc⟩
  unfold extractEntry at hE
  dsimp only at hE
  split at hE
  · simp at hE
  · split at hE
    · simp at hE
    · rw [hpar] at hE
      dsimp only at hE
      cases hcd : fs.createDirAll cwd par with
      | error err =>
        have hstep : step (fs, none) (fun fs => fs.createDirAll cwd par) = (fs, some (.fs err)) := by
          simp only [step, hcd]
        rw [hstep] at hE
        split at hE <;> simp [step] at hE
      | ok fs1 =>
        have hstep : step (fs, none) (fun fs => fs.createDirAll cwd par) = (fs1, none) := by
          simp only [step, hcd]
        rw [hstep] at hE
        have ⟨s1, t1, m1⟩ := createDirAll_confined ho.nodd hpa hpc hs hlp hcd
        have hli1 := hli.mono m1 _ _
        split at hE
        · rename_i hk; exact absurd hk h0
        · rename_i hk; exact absurd hk h1
        · rename_i hk; exact absurd hk h2
        · dsimp only at hE
          split at hE
          · simp at hE
          · split at hE
            · simp at hE
            · have ⟨r1, r2, r3, _⟩ := remove_step pc s1 hli1
                (fun f => ow && (f.existsP cwd (joinP outDir e.name) || isLinkAt fs cwd (joinP outDir e.name)))
              have ⟨_, hh⟩ := step_ok hE
              obtain ⟨dp, n, hdp, rfl⟩ := hardLink_ok hh
              have hp := entryPath_confined pc.hd pc.hlast pc.abs pc.comps r1 (hli1.mono r3 _ _) hdp
              rw [lexEnd_init hdd] at hp
              rw [hcn, ← hp, lookup_setNode_eq _ _ _ (by rw [hp]; simp)]
              rfl

/-! ### the permission step after a successful `extract_entry` -/

/-- **core**: after a successful `extract_entry` (acceptable name), the permission step — when it is
    not skipped — reaches exactly the object at the lexical destination path `O/name`, which is a
    directory or a regular file; and the entry is not a symbolic-link or hard-link entry. -/
theorem permStep_lex (kp ow : Bool) (cwd : Path) (outDir d : Bytes) (fs fs2 : Fs) (e : XEntry)
    (ho : OutDir outDir d) (hs : Sane fs (cwd ++ [d])) (hn : NameOk e.name)
    (hE : extractEntry ow cwd outDir fs e = (fs2, none)) :
    permStep kp e.kind fs2 cwd (joinP outDir e.name) = .none ∨
    ((e.kind ≠ 2 ∧ e.kind ≠ 3) ∧
      ((permStep kp e.kind fs2 cwd (joinP outDir e.name) = .dir (cwd ++ [d] ++ comps e.name) ∧
          fs2.lookup (cwd ++ [d] ++ comps e.name) = some .dir) ∨
        ∃ i, permStep kp e.kind fs2 cwd (joinP outDir e.name) = .file i ∧
          fs2.lookup (cwd ++ [d] ++ comps e.name) = some (.file i))) := by
  have s2 : Sane fs2 (cwd ++ [d]) := by
    have := (extractEntry_good ow cwd outDir d fs e ho hs hn).1
    rw [hE] at this; exact this
  unfold permStep
  split
  · exact Or.inl rfl
  · rename_i hcond
    simp only [Bool.or_eq_true, Bool.not_eq_eq_eq_not, Bool.not_true, beq_iff_eq, not_or,
      Bool.not_eq_true] at hcond
    obtain ⟨⟨⟨_, hk2⟩, hk3⟩, hlink⟩ := hcond
    have hconf := extractEntry_ok_confined hE
    obtain ⟨init, last, par, pcs, hcn, hlast, hdd, hrel, hja, hjc, hpar, hpa, hpc, hlp, hli⟩ :=
      name_shape ho hs hn hconf
    have pc : PathCtx cwd d (joinP outDir e.name) init last := ⟨ho.nodd, hlast, hdd, hja, hjc⟩
    have hlex2 : LexOk fs2 (cwd ++ [d]) [] init := by
      by_cases h01 : e.kind = 0 ∨ e.kind = 1
      · have m := extractEntry_mono01 ow cwd outDir fs e h01
        rw [hE] at m
        exact hli.mono m _ _
      · have := extractEntry_hard_exists ow cwd outDir d fs fs2 e ho hs hn
          (fun h => h01 (Or.inl h)) (fun h => h01 (Or.inr h)) hk2 hE
        rw [hcn] at this
        exact lexOk_of_exists s2.closed this hdd
    rw [hcn]
    rcases permTarget_lex pc s2 hlex2 hlink with h | h | h
    · exact Or.inl h
    · exact Or.inr ⟨⟨hk2, hk3⟩, Or.inl h⟩
    · exact Or.inr ⟨⟨hk2, hk3⟩, Or.inr h⟩

/-- without `--overwrite`, a successful `extract_entry` (acceptable name) found the lexical
    destination path free -/
theorem dest_absent (cwd : Path) (outDir d : Bytes) (fs fs2 : Fs) (e : XEntry)
    (ho : OutDir outDir d) (hs : Sane fs (cwd ++ [d])) (hn : NameOk e.name)
    (hE : extractEntry false cwd outDir fs e = (fs2, none)) :
    fs.lookup (cwd ++ [d] ++ comps e.name) = none := by
  have hconf := extractEntry_ok_confined hE
  obtain ⟨init, last, par, pcs, hcn, hlast, hdd, hrel, hja, hjc, hpar, hpa, hpc, hlp, hli⟩ :=
    name_shape ho hs hn hconf
  have ⟨hex, hl⟩ := extractEntry_ok_absent hE
  rw [hcn]
  exact lookup_none_of_absent ho.nodd hja hjc hs (nodd_snoc hdd hlast) hex hl

/-- the two acceptable-name cases of `NameOkW`: no component at all is refused without `--overwrite` -/
theorem nameOk_of_ok {ow : Bool} {cwd : Path} {outDir d : Bytes} {fs fs2 : Fs} {e : XEntry}
    (ho : OutDir outDir d) (hs : Sane fs (cwd ++ [d])) (hn : NameOkW ow e.name)
    (hE : extractEntry ow cwd outDir fs e = (fs2, none)) : NameOk e.name := by
  by_cases hc : comps e.name = []
  · rcases hn.2 with h | h
    · exact absurd hc h
    · subst h
      have := extractEntry_nocomps_err cwd outDir d fs e ho hs hc
      rw [hE] at this
      exact absurd rfl this
  · exact ⟨hc, hn.1⟩

end Pna.ExtractPerm
