import PnaVerif.Lemmas.Multipart
import PnaVerif.Lemmas.Recut
import PnaVerif.Model.Cli.Concat
/-!
  Helpers for composing the proved layers (Props/C04Read.lean, Props/C01Multipart.lean):

  * `Unmixed_of_svEq`          `Unmixed` only looks at the chunk TYPES of an item, and re-cutting keeps them
  * `groupItems_flatten_items` grouping the concatenation of complete items gives the items back, nothing open
  * `split_groups`             the items grouped out of the bodies of a split are the original items up to cutting
  * `groupItems_flatten_carry` grouping loses no chunk: items ++ open item = carry ++ input
  * `rawAcross_partFile`, `rawAcross_complete`, `rawAcross_missing`   `pna concat`'s walk along the ANXT chain
  * `serN_unmixed`, `serS_unmixed`   serialised entries are `Unmixed` when their `extra` chunks are
-/
namespace Pna
open ChunkType

-- ---------------------------------------------------------------- chunk types under re-cutting

theorem svStep_mem_ty (c : Chunk) (Z : List Chunk) (t : ChunkType) :
    (∃ x ∈ svStep c Z, x.ty = t) ↔ (c.ty = t ∨ ∃ x ∈ Z, x.ty = t) := by
  cases Z with
  | nil => simp [svStep]
  | cons d ds =>
    by_cases hm : c.isStream ∧ c.ty = d.ty
    · rw [svStep_cons_pos hm]
      simp only [List.mem_cons, exists_eq_or_imp, ← hm.2]
      constructor
      · rintro (h | h)
        · exact Or.inl h
        · exact Or.inr (Or.inr h)
      · rintro (h | h | h)
        · exact Or.inl h
        · exact Or.inl h
        · exact Or.inr h
    · rw [svStep_cons_neg hm]
      simp only [List.mem_cons, exists_eq_or_imp]

/-- merging data chunks does not change which chunk types occur -/
theorem streamView_mem_ty (cs : List Chunk) (t : ChunkType) :
    (∃ x ∈ streamView cs, x.ty = t) ↔ ∃ x ∈ cs, x.ty = t := by
  induction cs with
  | nil => simp
  | cons c cs ih =>
    rw [streamView_cons, svStep_mem_ty, ih]
    simp only [List.mem_cons, exists_eq_or_imp]

theorem mem_ty_of_svEq {a b : List Chunk} (h : streamView a = streamView b) (t : ChunkType) :
    (∃ x ∈ a, x.ty = t) ↔ ∃ x ∈ b, x.ty = t := by
  rw [← streamView_mem_ty a, ← streamView_mem_ty b, h]

/-- `Unmixed`, in terms of the type of the first chunk -/
theorem Unmixed_iff (it : List Chunk) :
    Unmixed it ↔
      ((it.head?.map (·.ty) = some FHED → ¬ ∃ x ∈ it, x.ty = SDAT) ∧
       (it.head?.map (·.ty) = some SHED → ¬ ∃ x ∈ it, x.ty = FDAT)) := by
  cases it with
  | nil =>
    constructor
    · intro _; exact ⟨fun h => by simp at h, fun h => by simp at h⟩
    · intro _ c0 h; cases h
  | cons c cs =>
    simp only [List.head?_cons, Option.map_some, Option.some.injEq]
    constructor
    · intro h
      obtain ⟨h1, h2⟩ := h c rfl
      exact ⟨fun hc ⟨x, hx, hxt⟩ => h1 hc x hx hxt, fun hc ⟨x, hx, hxt⟩ => h2 hc x hx hxt⟩
    · rintro ⟨h1, h2⟩ c0 hc0
      simp only [List.head?_cons, Option.some.injEq] at hc0
      subst hc0
      exact ⟨fun hc x hx hxt => h1 hc ⟨x, hx, hxt⟩, fun hc x hx hxt => h2 hc ⟨x, hx, hxt⟩⟩

/-- **`Unmixed` is invariant under re-cutting** -/
theorem Unmixed_of_svEq {a b : List Chunk} (h : streamView a = streamView b) (ha : Unmixed a) : Unmixed b := by
  have hh : a.head?.map (·.ty) = b.head?.map (·.ty) := by
    rw [← streamView_head_ty a, ← streamView_head_ty b, h]
  rw [Unmixed_iff] at ha ⊢
  rw [← hh, ← mem_ty_of_svEq h, ← mem_ty_of_svEq h]
  exact ha

theorem All2_unmixed {l m : List (List Chunk)} (h : All2 SvEq l m) (hm : ∀ it ∈ m, Unmixed it) :
    ∀ it ∈ l, Unmixed it := by
  induction h with
  | nil => intro it hit; cases hit
  | @cons a b as bs hab _ ih =>
    intro it hit
    rcases List.mem_cons.mp hit with rfl | hit
    · exact Unmixed_of_svEq (SvEq.symm hab) (hm b (by simp))
    · exact ih (fun x hx => hm x (by simp [hx])) it hit

theorem All2_flatten_svEq {l m : List (List Chunk)} (h : All2 SvEq l m) :
    streamView l.flatten = streamView m.flatten := by
  induction h with
  | nil => rfl
  | cons hab _ ih =>
    rw [List.flatten_cons, List.flatten_cons]
    exact SvEq.append hab ih

theorem streamView_eq_nil {cs : List Chunk} (h : streamView cs = []) : cs = [] := by
  cases cs with
  | nil => rfl
  | cons c cs =>
    have := streamView_head_ty (c :: cs)
    rw [h] at this
    simp at this

-- ---------------------------------------------------------------- grouping complete items

theorem ItemWF_flatten_noAEND {items : List (List Chunk)} (hw : ∀ it ∈ items, ItemWF it) :
    ∀ c ∈ items.flatten, c.ty ≠ AEND := by
  intro c hc
  obtain ⟨it, hit, hcit⟩ := List.mem_flatten.mp hc
  exact ItemWF_no_AEND (hw it hit) c hcit

/-- grouping the concatenation of complete items gives the items back; no open item, no ANXT seen -/
theorem groupItems_flatten_items (items : List (List Chunk)) (hw : ∀ it ∈ items, ItemWF it) :
    (groupItems [] false items.flatten).1 = items ∧ (groupItems [] false items.flatten).2.1 = [] ∧
      (groupItems [] false items.flatten).2.2.1 = false := by
  have h1 := groupItems_items items hw false []
  simp only [Bool.false_eq_true, if_false, List.append_nil] at h1
  have h2 := groupItems_append_aend items.flatten (ItemWF_flatten_noAEND hw) [] false
  rw [h1] at h2
  injection h2 with a b
  injection b with b c
  injection c with c d
  exact ⟨a.symm, b.symm, c.symm⟩

/-- **The items grouped out of the bodies of a split** are the original items up to the cutting of their data
    chunks, and no item is left open. -/
theorem split_groups (entries : List (List Chunk)) (maxFile : Nat) (bodies : List (List Chunk))
    (h : writeSplit entries maxFile = .ok bodies) (hw : ∀ e ∈ entries, ItemWF e) :
    All2 SvEq (groupItems [] false bodies.flatten).1 entries ∧ (groupItems [] false bodies.flatten).2.1 = [] := by
  have hs := writeSplit_lossless entries maxFile bodies h
  obtain ⟨g1, g2, _, _⟩ := groupItems_recut_aux [] [] false bodies.flatten entries.flatten rfl hs
  obtain ⟨e1, e2, _⟩ := groupItems_flatten_items entries hw
  rw [e1] at g1
  rw [e2] at g2
  exact ⟨g1, streamView_eq_nil g2⟩

/-- grouping loses no chunk: without ANXT/AEND in the input, the items and the open item together are the carry
    buffer followed by the input -/
theorem groupItems_flatten_carry (xs : List Chunk) (hx : NoPartMarkers xs) : ∀ (cur : List Chunk) (nx : Bool),
    (groupItems cur nx xs).1.flatten ++ (groupItems cur nx xs).2.1 = cur ++ xs := by
  induction xs with
  | nil => intro cur nx; simp [groupItems_nil]
  | cons c xs ih =>
    intro cur nx
    have hx2 : NoPartMarkers xs := fun d hd => hx d (List.mem_cons_of_mem _ hd)
    obtain ⟨c2, c3⟩ := hx c List.mem_cons_self
    by_cases h1 : c.ty = FEND ∨ c.ty = SEND
    · rw [groupItems_close _ _ _ _ h1]
      simp only [List.flatten_cons, List.append_assoc]
      rw [ih hx2 [] nx]
      simp
    · rw [groupItems_other _ _ _ _ h1 c2 c3, ih hx2]
      simp

-- ---------------------------------------------------------------- `pna concat`: the walk along the ANXT chain

theorem rawAcross_nil (first : Bool) (pn : Nat) (carry : List Chunk) :
    Cli.rawAcross first pn carry [] = ([], .error .notFound) := by
  rw [Cli.rawAcross]

/-- **One step of `run_across_archive`** on a well-formed part file `i` of `n` (read as first part, or as the part
    that is due): its raw items, and — exactly when it carries ANXT, i.e. when it is not the last of the `n` — the
    walk goes on with the part's number and open item. -/
theorem rawAcross_partFile (i n : Nat) (hi : i < 2 ^ 32) (body : List Chunk) (hfit : ChunksFit body)
    (hno : NoPartMarkers body) (first : Bool) (pn : Nat) (hpn : first = true ∨ pn + 1 = i)
    (carry : List Chunk) (ps : List Bytes) :
    Cli.rawAcross first pn carry (encodePartFile i n body :: ps)
      = if i + 1 < n then
          ((groupItems carry false body).1 ++ (Cli.rawAcross false i (carryAfter carry body) ps).1,
            (Cli.rawAcross false i (carryAfter carry body) ps).2)
        else ((groupItems carry false body).1, .ok ()) := by
  rw [Cli.rawAcross]
  simp only [readArchiveWith_partFile i n hi body hfit hno carry, chunksStream_partFile i n body hfit hno]
  have hc : ¬ ((!first) = true ∧ pn + 1 ≠ i) := by
    rintro ⟨h1, h2⟩
    rcases hpn with h | h
    · rw [h] at h1; cases h1
    · exact h2 h
  rw [if_neg hc]
  by_cases hn : i + 1 < n
  · simp only [hn, decide_true, if_true]
  · simp only [hn, decide_false, Bool.false_eq_true, if_false]

/-- **The complete chain**: parts `k … n-1` of an `n`-part sequence (at least one) — every part is visited, and
    the raw items are those of one archive holding the concatenated bodies (continuing `carry`). -/
theorem rawAcross_complete (n : Nat) (hn : n ≤ 2 ^ 32) : ∀ (bs : List (List Chunk)) (k : Nat), bs ≠ [] →
    k + bs.length = n → (∀ b ∈ bs, ChunksFit b) → (∀ b ∈ bs, NoPartMarkers b) →
    ∀ (first : Bool) (pn : Nat) (carry : List Chunk), (first = true ∨ pn + 1 = k) →
      Cli.rawAcross first pn carry (partsFrom k n bs) = ((groupItems carry false bs.flatten).1, .ok ()) := by
  intro bs
  induction bs with
  | nil => intro k h; exact absurd rfl h
  | cons b bs ih =>
    intro k _ hk hfit hno first pn carry hpn
    have hb1 := hfit b List.mem_cons_self
    have hb2 := hno b List.mem_cons_self
    rw [List.length_cons] at hk
    rw [partsFrom_cons, rawAcross_partFile k n (by omega) b hb1 hb2 first pn hpn]
    cases bs with
    | nil =>
      rw [if_neg (by simp at hk; omega)]
      simp
    | cons b2 bs2 =>
      rw [if_pos (by simp at hk; omega),
        ih (k + 1) (by simp) (by simp at hk ⊢; omega) (fun x hx => hfit x (List.mem_cons_of_mem _ hx))
          (fun x hx => hno x (List.mem_cons_of_mem _ hx)) false k _ (Or.inr rfl)]
      rw [List.flatten_cons (l := b), groupItems_append_proj b _ (fun c hc => (hb2 c hc).2),
        groupItems_next_eq b (fun c hc => (hb2 c hc).1)]
      rfl

/-- **A chain that breaks off**: parts `k … k+|bs|-1` of an `n`-part sequence with `k + |bs| < n` — the last
    part present carries ANXT, the next part is not there: `NotFound`. -/
theorem rawAcross_missing (n : Nat) (hn : n ≤ 2 ^ 32) : ∀ (bs : List (List Chunk)) (k : Nat),
    k + bs.length < n → (∀ b ∈ bs, ChunksFit b) → (∀ b ∈ bs, NoPartMarkers b) →
    ∀ (first : Bool) (pn : Nat) (carry : List Chunk), (first = true ∨ pn + 1 = k) →
      Cli.rawAcross first pn carry (partsFrom k n bs)
        = ((groupItems carry false bs.flatten).1, .error .notFound) := by
  intro bs
  induction bs with
  | nil => intro k _ _ _ first pn carry _; rw [partsFrom_nil, rawAcross_nil]; rfl
  | cons b bs ih =>
    intro k hk hfit hno first pn carry hpn
    have hb1 := hfit b List.mem_cons_self
    have hb2 := hno b List.mem_cons_self
    rw [List.length_cons] at hk
    rw [partsFrom_cons, rawAcross_partFile k n (by omega) b hb1 hb2 first pn hpn, if_pos (by omega),
      ih (k + 1) (by omega) (fun x hx => hfit x (List.mem_cons_of_mem _ hx))
        (fun x hx => hno x (List.mem_cons_of_mem _ hx)) false k _ (Or.inr rfl)]
    rw [List.flatten_cons, groupItems_append_proj b _ (fun c hc => (hb2 c hc).2),
      groupItems_next_eq b (fun c hc => (hb2 c hc).1)]
    rfl

-- ---------------------------------------------------------------- serialised entries are `Unmixed`

theorem ne_of_ty {c : Chunk} {t u : ChunkType} (h : c.ty = t) (htu : t ≠ u) : c.ty ≠ u := h ▸ htu

/-- a serialised normal entry carries no SDAT chunk as soon as its uninterpreted chunks do not
    (`NormalEntry.WF` does not exclude them: `interpretedN SDAT = false`) -/
theorem serN_noSDAT (e : NormalEntry) (hx : ∀ c ∈ e.extra, c.ty ≠ SDAT) : ∀ c ∈ serN e, c.ty ≠ SDAT := by
  intro c hc
  simp only [serN, List.mem_append, List.mem_singleton, List.mem_flatMap, List.mem_map] at hc
  rcases hc with (((((((((hc | hc) | hc) | hc) | hc) | hc) | hc) | hc) | hc) | hc) | hc
  · exact ne_of_ty (t := FHED) (by rw [hc]) (by decide)
  · exact hx c hc
  · exact ne_of_ty (mem_optChunk hc) (by decide)
  · exact ne_of_ty (mem_optChunk hc) (by decide)
  · obtain ⟨d, _, u, _, rfl⟩ := hc; exact ne_of_ty (t := FDAT) rfl (by decide)
  · exact ne_of_ty (mem_optChunk hc) (by decide)
  · exact ne_of_ty (mem_optChunk hc) (by decide)
  · exact ne_of_ty (mem_optChunk hc) (by decide)
  · exact ne_of_ty (mem_optChunk hc) (by decide)
  · obtain ⟨x, _, rfl⟩ := hc; exact ne_of_ty (t := xATR) rfl (by decide)
  · exact ne_of_ty (t := FEND) (by rw [hc]) (by decide)

theorem serN_unmixed (e : NormalEntry) (hx : ∀ c ∈ e.extra, c.ty ≠ SDAT) : Unmixed (serN e) := by
  intro c0 hc0
  have hh : (serN e).head? = some ⟨FHED, encFHED e.header⟩ := rfl
  rw [hh] at hc0
  cases hc0
  exact ⟨fun _ => serN_noSDAT e hx, fun h => by cases h⟩

theorem serS_noFDAT (s : SolidEntry) (hx : ∀ c ∈ s.extra, c.ty ≠ FDAT) : ∀ c ∈ serS s, c.ty ≠ FDAT := by
  intro c hc
  simp only [serS, List.mem_append, List.mem_singleton, List.mem_map] at hc
  rcases hc with (((hc | hc) | hc) | hc) | hc
  · exact ne_of_ty (t := SHED) (by rw [hc]) (by decide)
  · exact hx c hc
  · exact ne_of_ty (mem_optChunk hc) (by decide)
  · obtain ⟨d, _, rfl⟩ := hc; exact ne_of_ty (t := SDAT) rfl (by decide)
  · exact ne_of_ty (t := SEND) (by rw [hc]) (by decide)

theorem serS_unmixed (s : SolidEntry) (hx : ∀ c ∈ s.extra, c.ty ≠ FDAT) : Unmixed (serS s) := by
  intro c0 hc0
  have hh : (serS s).head? = some ⟨SHED, encSHED s.header⟩ := rfl
  rw [hh] at hc0
  cases hc0
  exact ⟨fun h => (by cases h), fun _ => serS_noFDAT s hx⟩

/-- the `Unmixed` hypothesis on a serialised entry, in terms of the entry: a normal entry keeps no SDAT chunk, a
    solid entry no FDAT chunk, among its uninterpreted `extra` chunks -/
def ReadEntry.ExtraUnmixed : ReadEntry → Prop
  | .normal e => ∀ c ∈ e.extra, c.ty ≠ SDAT
  | .solid s => ∀ c ∈ s.extra, c.ty ≠ FDAT

theorem serEntry_unmixed (e : ReadEntry) (h : e.ExtraUnmixed) : Unmixed (serEntry e) := by
  cases e with
  | normal e => exact serN_unmixed e h
  | solid s => exact serS_unmixed s h

/-- … and conversely: the hypothesis is exactly `Unmixed` of the serialised entry -/
theorem serEntry_unmixed_iff (e : ReadEntry) : Unmixed (serEntry e) ↔ e.ExtraUnmixed := by
  refine ⟨fun h => ?_, serEntry_unmixed e⟩
  cases e with
  | normal e =>
    intro c hc
    have hh : (serN e).head? = some ⟨FHED, encFHED e.header⟩ := rfl
    refine (h _ hh).1 rfl c ?_
    show c ∈ serN e
    simp only [serN, List.mem_append]
    exact Or.inl (Or.inl (Or.inl (Or.inl (Or.inl (Or.inl (Or.inl (Or.inl (Or.inl (Or.inr hc)))))))))
  | solid s =>
    intro c hc
    have hh : (serS s).head? = some ⟨SHED, encSHED s.header⟩ := rfl
    refine (h _ hh).2 rfl c ?_
    show c ∈ serS s
    simp only [serS, List.mem_append]
    exact Or.inl (Or.inl (Or.inl (Or.inr hc)))

/-- an entry is the same as its re-cut form up to the cutting of its data -/
theorem SameE_recut (e : ReadEntry) : SameE e.recut e := by
  cases e with
  | normal e => exact recut_meaning e
  | solid s => exact SameS.refl s

end Pna
