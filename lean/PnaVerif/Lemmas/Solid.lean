import PnaVerif.Model.Solid
import PnaVerif.Lemmas.Chunk
import PnaVerif.Lemmas.NoPanic
import PnaVerif.Lemmas.Reser
import PnaVerif.Lemmas.ArchiveRt
/-!
  The entry iterator inside a solid block (`Model/Solid.lean`: `decodeIn`, `collectEntry`, `solidIter`,
  `solidEntries`), after both `fix:` commits (stop after a stream error; a stream that ends inside an entry is an
  error, not a silent end).

  * `decodeIn_*`, `collectEntry_no_panic`, `collectEntry_ok_inv`   one `next()`: never panics with fuel above the
                              number of remaining bytes; a gathered entry consumes at least 12 bytes
  * `solidIter_no_panic`, `solidIter_length`   the iterator is total and yields at most `len / 12 + 1` items
  * `solidIter_ne_nil`        a non-empty inner stream never yields "nothing, no error"
  * `solidTrace`, `solidTrace_snd`, `solidTrace_stream_error_last`, `solidTrace_true`   the same iteration with
                              stream errors tagged: a stream error can only be the last item
  * `collectEntry_encode`, `solidIter_encode`   round trip over `encodeChunks (es.flatMap serN)` followed by the
                              terminal condition of the decoder stack (`streamEnd`)
  * `collectEntry_take_eof`, `solidIter_take`   a truncated inner stream yields the entries complete before the cut
                              and then an error, unless the cut falls exactly between two entries
-/
namespace Pna
open ChunkType

-- ---------------------------------------------------------------- decodeIn

theorem decodeIn_mk_ok (bs : Bytes) (t : Option Err) (c : Chunk) (r : Bytes)
    (h : decodeStream bs = .ok (c, r)) : decodeIn ⟨bs, t⟩ = .ok (c, ⟨r, t⟩) := by
  unfold decodeIn
  simp only [h]

theorem decodeIn_mk_eof (bs : Bytes) (t : Option Err) (h : decodeStream bs = .error .eof) :
    decodeIn ⟨bs, t⟩ = .error (t.getD .eof) := by
  unfold decodeIn
  simp only [h]

theorem decodeIn_ok_inv {s s' : InStream} {c : Chunk} (h : decodeIn s = .ok (c, s')) :
    decodeStream s.bytes = .ok (c, s'.bytes) ∧ s'.term = s.term := by
  unfold decodeIn at h
  split at h
  · rename_i c' r hd
    simp only [Outcome.ok.injEq, Prod.mk.injEq] at h
    obtain ⟨rfl, rfl⟩ := h
    exact ⟨hd, rfl⟩
  · cases h
  · cases h
  · cases h

/-- each chunk read from the inner stream consumes at least 12 bytes -/
theorem decodeIn_rest_lt {s s' : InStream} {c : Chunk} (h : decodeIn s = .ok (c, s')) :
    s'.bytes.length + 12 ≤ s.bytes.length :=
  decodeStream_rest_lt _ _ _ (decodeIn_ok_inv h).1

theorem decodeIn_no_panic (s : InStream) (p : String) : decodeIn s ≠ .panic p := by
  unfold decodeIn
  have hp := decodeStream_no_panic s.bytes
  split
  · simp
  · simp
  · simp
  · rename_i q hd
    rw [hd] at hp
    simp [Outcome.isPanic] at hp

-- ---------------------------------------------------------------- collectEntry: totality, consumption

/-- With fuel above the number of remaining bytes, gathering one entry never runs out of fuel and never panics. -/
theorem collectEntry_no_panic (fuel : Nat) (s : InStream) (acc : List Chunk) (hf : s.bytes.length < fuel)
    (p : String) : collectEntry fuel s acc ≠ .panic p := by
  induction fuel generalizing s acc with
  | zero => omega
  | succ fuel ih =>
    unfold collectEntry
    cases hd : decodeIn s with
    | error e => simp
    | panic q => exact absurd hd (decodeIn_no_panic s q)
    | ok x =>
      obtain ⟨c, s'⟩ := x
      simp only
      split
      · simp
      · have := decodeIn_rest_lt hd
        exact ih s' _ (by omega)

/-- A gathered entry consumed at least 12 bytes (it contains at least its FEND chunk), left the terminal
    condition alone, and extends the accumulator by a non-empty run of chunks whose encoding is exactly the
    consumed bytes, the last of which — and only the last — is FEND. -/
theorem collectEntry_ok_inv (fuel : Nat) (s s' : InStream) (acc cs : List Chunk)
    (h : collectEntry fuel s acc = .ok (cs, s')) :
    s'.bytes.length + 12 ≤ s.bytes.length ∧ s'.term = s.term ∧
      ∃ body last, cs = acc ++ body ++ [last] ∧ last.ty = FEND ∧ (∀ c ∈ body, c.ty ≠ FEND) ∧
        encodeChunks (body ++ [last]) ++ s'.bytes = s.bytes ∧ ChunksFit (body ++ [last]) := by
  induction fuel generalizing s acc with
  | zero => simp [collectEntry] at h
  | succ fuel ih =>
    unfold collectEntry at h
    cases hd : decodeIn s with
    | error e => rw [hd] at h; cases h
    | panic q => rw [hd] at h; cases h
    | ok x =>
      obtain ⟨c, s1⟩ := x
      rw [hd] at h
      simp only at h
      have hlt := decodeIn_rest_lt hd
      obtain ⟨hds, hterm⟩ := decodeIn_ok_inv hd
      obtain ⟨henc, hcfit⟩ := decodeStream_ok_inv _ _ _ hds
      split at h
      · rename_i hfend
        simp only [Outcome.ok.injEq, Prod.mk.injEq] at h
        obtain ⟨rfl, rfl⟩ := h
        refine ⟨hlt, hterm, [], c, by simp, hfend, by simp, ?_, ?_⟩
        · rw [List.nil_append, encodeChunks_singleton]; exact henc
        · intro d hd'; simp only [List.nil_append, List.mem_singleton] at hd'; subst hd'; exact hcfit
      · rename_i hnf
        obtain ⟨h1, h2, body, last, hcs, hl, hb, he, hfit⟩ := ih s1 (acc ++ [c]) h
        refine ⟨by omega, by rw [h2, hterm], c :: body, last, by rw [hcs]; simp, hl, ?_, ?_, ?_⟩
        · intro d hd'
          simp only [List.mem_cons] at hd'
          rcases hd' with rfl | hd'
          · exact hnf
          · exact hb d hd'
        · rw [List.cons_append, encodeChunks_cons, List.append_assoc, he]; exact henc
        · intro d hd'
          simp only [List.cons_append, List.mem_cons] at hd'
          rcases hd' with rfl | hd'
          · exact hcfit
          · exact hfit d hd'

theorem collectEntry_ok_lt {fuel : Nat} {s s' : InStream} {acc cs : List Chunk}
    (h : collectEntry fuel s acc = .ok (cs, s')) : s'.bytes.length + 12 ≤ s.bytes.length :=
  (collectEntry_ok_inv fuel s s' acc cs h).1

-- ---------------------------------------------------------------- solidIter: totality, bound

/-- With fuel above the number of remaining bytes the iterator never runs out of fuel and no item is a panic. -/
theorem solidIter_no_panic (fuel : Nat) (s : InStream) (hf : s.bytes.length < fuel) :
    ∀ o ∈ solidIter fuel s, ∀ p, o ≠ .panic p := by
  induction fuel generalizing s with
  | zero => omega
  | succ fuel ih =>
    unfold solidIter
    have hc := collectEntry_no_panic (s.bytes.length + 1) s [] (by omega)
    split
    · split <;> simp
    · split
      · simp
      · rename_i p hp; exact absurd hp (hc p)
      · rename_i cs s' hok
        intro o ho
        simp only [List.mem_cons] at ho
        rcases ho with rfl | ho
        · intro p hp
          have := parseN_no_panic cs
          rw [hp] at this
          simp [Outcome.isPanic] at this
        · have := collectEntry_ok_lt hok
          exact ih s' (by omega) o ho

/-- The number of items is bounded by the input: every yielded entry consumed at least 12 bytes, and at most one
    further item (a stream error) ends the iteration. -/
theorem solidIter_length (fuel : Nat) (s : InStream) (hf : s.bytes.length < fuel) :
    (solidIter fuel s).length ≤ s.bytes.length / 12 + 1 := by
  induction fuel generalizing s with
  | zero => omega
  | succ fuel ih =>
    unfold solidIter
    split
    · split <;> simp
    · split
      · simp
      · simp
      · rename_i cs s' hok
        have h12 := collectEntry_ok_lt hok
        have := ih s' (by omega)
        simp only [List.length_cons]
        omega

/-- A non-empty inner stream never iterates to "nothing, no error": the first `next()` yields an entry, a parse
    error or a stream error. -/
theorem solidIter_ne_nil (fuel : Nat) (s : InStream) (h : s.bytes ≠ []) : solidIter fuel s ≠ [] := by
  cases fuel with
  | zero => simp [solidIter]
  | succ fuel =>
    unfold solidIter
    rw [if_neg h]
    split <;> simp

-- ---------------------------------------------------------------- stream errors are last

/-- `solidIter` with every item tagged: `true` exactly for a stream error (the terminal error of the decoder stack
    when no byte is left, and any error while gathering the chunks of an entry). -/
def solidTrace : Nat → InStream → List (Bool × Outcome NormalEntry)
  | 0, _ => [(false, .panic "fuel")]
  | fuel+1, s =>
    if s.bytes = [] then
      match s.term with
      | none => []
      | some e => [(true, .error e)]
    else
      match collectEntry (s.bytes.length + 1) s [] with
      | .error e => [(true, .error e)]
      | .panic p => [(false, .panic p)]
      | .ok (cs, s') => (false, parseN cs) :: solidTrace fuel s'

theorem solidTrace_snd (fuel : Nat) (s : InStream) :
    (solidTrace fuel s).map Prod.snd = solidIter fuel s := by
  induction fuel generalizing s with
  | zero => rfl
  | succ fuel ih =>
    unfold solidTrace solidIter
    by_cases hb : s.bytes = []
    · rw [if_pos hb, if_pos hb]
      cases s.term <;> rfl
    · rw [if_neg hb, if_neg hb]
      generalize collectEntry (s.bytes.length + 1) s [] = x
      rcases x with ⟨cs, s'⟩ | e | p
      · simp only [List.map_cons, ih s']
      · rfl
      · rfl

/-- every item but the last is tagged `false` -/
def AllButLastFalse {α : Type} (l : List (Bool × α)) : Prop :=
  ∀ i, i + 1 < l.length → (l[i]?.map Prod.fst) = some false

theorem AllButLastFalse_nil {α : Type} : AllButLastFalse ([] : List (Bool × α)) := by
  intro i hi; simp at hi

theorem AllButLastFalse_singleton {α : Type} (x : Bool × α) : AllButLastFalse [x] := by
  intro i hi; simp at hi

theorem AllButLastFalse_cons {α : Type} (a : α) (l : List (Bool × α)) (h : AllButLastFalse l) :
    AllButLastFalse ((false, a) :: l) := by
  intro i hi
  cases i with
  | zero => rfl
  | succ i =>
    simp only [List.length_cons] at hi
    simp only [List.getElem?_cons_succ]
    exact h i (by omega)

/-- A stream error can only be the last item: it is reported at most once, and nothing follows it. -/
theorem solidTrace_stream_error_last (fuel : Nat) (s : InStream) : AllButLastFalse (solidTrace fuel s) := by
  induction fuel generalizing s with
  | zero => exact AllButLastFalse_singleton _
  | succ fuel ih =>
    unfold solidTrace
    split
    · split
      · exact AllButLastFalse_nil
      · exact AllButLastFalse_singleton _
    · split
      · exact AllButLastFalse_singleton _
      · exact AllButLastFalse_singleton _
      · exact AllButLastFalse_cons _ _ (ih _)

/-- the tag means what it says: a `true` item is an error item -/
theorem solidTrace_true (fuel : Nat) (s : InStream) :
    ∀ x ∈ solidTrace fuel s, x.1 = true → ∃ e, x.2 = .error e := by
  induction fuel generalizing s with
  | zero => intro x hx; simp [solidTrace] at hx; subst hx; simp
  | succ fuel ih =>
    unfold solidTrace
    split
    · split
      · simp
      · rename_i e _
        intro x hx _
        simp only [List.mem_singleton] at hx
        subst hx
        exact ⟨e, rfl⟩
    · split
      · rename_i e _
        intro x hx _
        simp only [List.mem_singleton] at hx
        subst hx
        exact ⟨e, rfl⟩
      · intro x hx; simp only [List.mem_singleton] at hx; subst hx; simp
      · intro x hx
        simp only [List.mem_cons] at hx
        rcases hx with rfl | hx
        · simp
        · exact ih _ x hx

-- ---------------------------------------------------------------- serialised entries as `body ++ [FEND]`

/-- everything `serN` writes before the closing FEND -/
def serNBody (e : NormalEntry) : List Chunk :=
  [⟨FHED, encFHED e.header⟩]
  ++ e.extra
  ++ optChunk fSIZ (e.md.rawSize.map encFSIZ)
  ++ optChunk PHSF e.phsf
  ++ (e.data.flatMap fun d => (rustChunks maxChunkData d).map fun u => ⟨FDAT, u⟩)
  ++ optChunk cTIM (e.md.created.map encTime)
  ++ optChunk mTIM (e.md.modified.map encTime)
  ++ optChunk aTIM (e.md.accessed.map encTime)
  ++ optChunk fPRM (e.md.permission.map encFPRM)
  ++ e.xattrs.map (fun x => ⟨xATR, encXATR x⟩)

theorem serN_eq_body (e : NormalEntry) : serN e = serNBody e ++ [⟨FEND, []⟩] := rfl

/-- the closing FEND is the first FEND `serN` writes, provided none of the uninterpreted chunks is one -/
theorem serNBody_no_FEND (e : NormalEntry) (hx : ∀ c ∈ e.extra, c.ty ≠ FEND) :
    ∀ c ∈ serNBody e, c.ty ≠ FEND := by
  intro c hc
  unfold serNBody at hc
  simp only [List.mem_append, List.mem_singleton, List.mem_flatMap, List.mem_map] at hc
  rcases hc with ((((((((hc | hc) | hc) | hc) | hc) | hc) | hc) | hc) | hc) | hc
  · rw [hc]; show FHED ≠ FEND; decide
  · exact hx c hc
  · rw [mem_optChunk hc]; decide
  · rw [mem_optChunk hc]; decide
  · obtain ⟨d, _, u, _, rfl⟩ := hc; show FDAT ≠ FEND; decide
  · rw [mem_optChunk hc]; decide
  · rw [mem_optChunk hc]; decide
  · rw [mem_optChunk hc]; decide
  · rw [mem_optChunk hc]; decide
  · obtain ⟨x, _, rfl⟩ := hc; show xATR ≠ FEND; decide

/-- `NormalEntry.WF` already excludes FEND among the `extra` chunks: FEND is an interpreted type. -/
theorem WF_extra_no_FEND (e : NormalEntry) (h : e.WF) : ∀ c ∈ e.extra, c.ty ≠ FEND := by
  obtain ⟨_, _, _, _, _, _, _, _, hx, _⟩ := h
  intro c hc hty
  have := hx c hc
  rw [hty] at this
  revert this
  decide

theorem encodeChunks_serN_pos (e : NormalEntry) : 12 ≤ (encodeChunks (serN e)).length := by
  rw [serN_eq_body, encodeChunks_append, encodeChunks_singleton, List.length_append, Chunk.encode_length]
  omega

-- ---------------------------------------------------------------- round trip

/-- Gathering over the encoding of `body ++ [last]` (FEND-closed, no earlier FEND) returns exactly these chunks and
    leaves exactly what followed. -/
theorem collectEntry_encode (body : List Chunk) (last : Chunk) (hlast : last.ty = FEND)
    (hbody : ∀ c ∈ body, c.ty ≠ FEND) (hfit : ChunksFit (body ++ [last])) (rest : Bytes) (t : Option Err)
    (acc : List Chunk) (fuel : Nat) (hf : (encodeChunks (body ++ [last]) ++ rest).length < fuel) :
    collectEntry fuel ⟨encodeChunks (body ++ [last]) ++ rest, t⟩ acc = .ok (acc ++ body ++ [last], ⟨rest, t⟩) := by
  induction body generalizing acc fuel with
  | nil =>
    match fuel, hf with
    | f + 1, _ =>
      rw [List.nil_append, encodeChunks_singleton, collectEntry,
        decodeIn_mk_ok _ _ _ _ (decodeStream_encode last rest (hfit last (by simp)))]
      simp [hlast]
  | cons c body ih =>
    match fuel, hf with
    | f + 1, hf =>
      rw [List.cons_append, encodeChunks_cons, List.append_assoc, collectEntry,
        decodeIn_mk_ok _ _ _ _ (decodeStream_encode c _ (hfit c (by simp)))]
      simp only
      rw [if_neg (hbody c (by simp)),
        ih (fun c hc => hbody c (by simp [hc])) (fun c hc => hfit c (by simp [hc])) (acc ++ [c]) f
          (by
            rw [List.cons_append, encodeChunks_cons, List.append_assoc, List.length_append,
              Chunk.encode_length] at hf
            omega)]
      simp

/-- What the iterator yields when no byte is left: nothing on a clean end of stream, the terminal error of the
    decoder stack once otherwise. -/
def streamEnd (t : Option Err) : List (Outcome NormalEntry) :=
  match t with
  | none => []
  | some e => [.error e]

theorem streamEnd_none : streamEnd none = [] := rfl
theorem streamEnd_some (e : Err) : streamEnd (some e) = [.error e] := rfl

theorem solidIter_empty (fuel : Nat) (t : Option Err) : solidIter (fuel + 1) ⟨[], t⟩ = streamEnd t := by
  unfold solidIter streamEnd
  rw [if_pos rfl]
  cases t <;> rfl

theorem solidIter_nonempty_step (fuel : Nat) (s : InStream) (h : s.bytes ≠ []) :
    solidIter (fuel + 1) s =
      match collectEntry (s.bytes.length + 1) s [] with
      | .error e => [.error e]
      | .panic p => [.panic p]
      | .ok (cs, s') => parseN cs :: solidIter fuel s' := by
  rw [solidIter, if_neg h]
  rfl

/-- **Round trip inside a solid block**, for any sufficient fuel and any terminal condition. -/
theorem solidIter_encode (es : List NormalEntry) (hwf : ∀ e ∈ es, e.WF)
    (hfit : ∀ e ∈ es, ChunksFit (serN e)) (t : Option Err) (fuel : Nat)
    (hf : (encodeChunks (es.flatMap serN)).length < fuel) :
    solidIter fuel ⟨encodeChunks (es.flatMap serN), t⟩ = es.map (fun e => .ok e.recut) ++ streamEnd t := by
  induction es generalizing fuel with
  | nil =>
    match fuel, hf with
    | f + 1, _ => exact solidIter_empty f t
  | cons e es ih =>
    match fuel, hf with
    | f + 1, hf =>
      rw [List.flatMap_cons, encodeChunks_append] at hf ⊢
      have hpos := encodeChunks_serN_pos e
      have hfe := hfit e (by simp)
      have hne : (InStream.mk (encodeChunks (serN e) ++ encodeChunks (es.flatMap serN)) t).bytes ≠ [] := by
        intro h0
        have := congrArg List.length h0
        simp only [List.length_append, List.length_nil] at this
        omega
      have hc := collectEntry_encode (serNBody e) ⟨FEND, []⟩ rfl
        (serNBody_no_FEND e (WF_extra_no_FEND e (hwf e (by simp)))) (by rw [← serN_eq_body]; exact hfe)
        (encodeChunks (es.flatMap serN)) t []
        ((encodeChunks (serN e) ++ encodeChunks (es.flatMap serN)).length + 1)
        (by rw [← serN_eq_body]; omega)
      rw [List.nil_append, ← serN_eq_body] at hc
      rw [solidIter_nonempty_step f _ hne]
      simp only [hc]
      rw [parseN_serN e (hwf e (by simp)),
        ih (fun e he => hwf e (by simp [he])) (fun e he => hfit e (by simp [he])) f
          (by rw [List.length_append] at hf; omega)]
      simp

-- ---------------------------------------------------------------- truncation

/-- Gathering over a proper prefix of the encoding of `body ++ [last]` (whatever would have followed) fails: with
    `UnexpectedEof` when the stream ends cleanly there, with the terminal error of the decoder stack otherwise. -/
theorem collectEntry_take_eof (body : List Chunk) (last : Chunk)
    (hbody : ∀ c ∈ body, c.ty ≠ FEND) (hfit : ChunksFit (body ++ [last])) (rest : Bytes) (t : Option Err)
    (k : Nat) (hk : k < (encodeChunks (body ++ [last])).length)
    (acc : List Chunk) (fuel : Nat) (hf : ((encodeChunks (body ++ [last]) ++ rest).take k).length < fuel) :
    collectEntry fuel ⟨(encodeChunks (body ++ [last]) ++ rest).take k, t⟩ acc = .error (t.getD .eof) := by
  induction body generalizing k acc fuel with
  | nil =>
    match fuel, hf with
    | f + 1, _ =>
      rw [List.nil_append, encodeChunks_singleton] at hk ⊢
      rw [collectEntry, decodeIn_mk_eof _ _ (decodeStream_prefix_eof last rest k (hfit last (by simp)) hk)]
  | cons c body ih =>
    match fuel, hf with
    | f + 1, hf =>
      rw [List.cons_append, encodeChunks_cons] at hk
      rw [List.cons_append, encodeChunks_cons, List.append_assoc] at hf ⊢
      by_cases hk1 : k < c.encode.length
      · rw [collectEntry, decodeIn_mk_eof _ _ (decodeStream_prefix_eof c _ k (hfit c (by simp)) hk1)]
      · rw [List.take_append, List.take_of_length_le (by omega)] at hf ⊢
        rw [collectEntry, decodeIn_mk_ok _ _ _ _ (decodeStream_encode c _ (hfit c (by simp)))]
        simp only
        rw [if_neg (hbody c (by simp))]
        apply ih (fun c hc => hbody c (by simp [hc])) (fun c hc => hfit c (by simp [hc]))
        · rw [List.length_append] at hk; omega
        · have := Chunk.encode_length c
          rw [List.length_append] at hf; omega

/-- **Truncation is detected unless the cut falls exactly between two entries.**  Cutting the inner stream after
    `k` bytes yields exactly the entries that are complete before the cut (`n` of them: the first `n` fit in `k`
    bytes, the first `n + 1` do not); then, if the cut is exactly at the end of entry `n`, what a stream that ends
    there yields (`streamEnd t`), and otherwise the error `read_exact` meets inside entry `n + 1`
    (`UnexpectedEof` for a clean end of stream). -/
theorem solidIter_take (es : List NormalEntry) (hwf : ∀ e ∈ es, e.WF)
    (hfit : ∀ e ∈ es, ChunksFit (serN e)) (t : Option Err) (k fuel : Nat)
    (hk : k ≤ (encodeChunks (es.flatMap serN)).length)
    (hf : ((encodeChunks (es.flatMap serN)).take k).length < fuel) :
    ∃ n, n ≤ es.length ∧
      (encodeChunks ((es.take n).flatMap serN)).length ≤ k ∧
      (n < es.length → k < (encodeChunks ((es.take (n + 1)).flatMap serN)).length) ∧
      solidIter fuel ⟨(encodeChunks (es.flatMap serN)).take k, t⟩
        = (es.take n).map (fun e => .ok e.recut)
          ++ (if k = (encodeChunks ((es.take n).flatMap serN)).length then streamEnd t
              else [.error (t.getD .eof)]) := by
  induction es generalizing k fuel with
  | nil =>
    match fuel, hf with
    | f + 1, _ =>
      have hk0 : k = 0 := by simpa [encodeChunks] using hk
      subst hk0
      refine ⟨0, Nat.le_refl _, by simp [encodeChunks], by simp, ?_⟩
      have : (encodeChunks (([] : List NormalEntry).flatMap serN)).take 0 = [] := rfl
      rw [this, solidIter_empty]
      simp [encodeChunks]
  | cons e es ih =>
    match fuel, hf with
    | f + 1, hf =>
      rw [List.flatMap_cons, encodeChunks_append] at hk hf ⊢
      have hpos := encodeChunks_serN_pos e
      have hfe := hfit e (by simp)
      have hnf := serNBody_no_FEND e (WF_extra_no_FEND e (hwf e (by simp)))
      by_cases hk1 : k < (encodeChunks (serN e)).length
      · refine ⟨0, Nat.zero_le _, by simp [encodeChunks], ?_, ?_⟩
        · intro _
          simp only [Nat.zero_add, List.take_succ_cons, List.take_zero, List.flatMap_cons, List.flatMap_nil,
            List.append_nil]
          exact hk1
        have hl0 : (encodeChunks (((e :: es).take 0).flatMap serN)).length = 0 := by simp [encodeChunks]
        rw [hl0]
        by_cases hk0 : k = 0
        · subst hk0
          rw [List.take_zero, solidIter_empty]
          simp
        · have hne : (InStream.mk ((encodeChunks (serN e) ++ encodeChunks (es.flatMap serN)).take k) t).bytes ≠ [] := by
            intro h0
            have := congrArg List.length h0
            simp only [List.length_take, List.length_append, List.length_nil] at this
            omega
          have hc := collectEntry_take_eof (serNBody e) ⟨FEND, []⟩ hnf (by rw [← serN_eq_body]; exact hfe)
            (encodeChunks (es.flatMap serN)) t k (by rw [← serN_eq_body]; exact hk1) []
            (((encodeChunks (serN e) ++ encodeChunks (es.flatMap serN)).take k).length + 1)
            (by rw [← serN_eq_body]; omega)
          rw [← serN_eq_body] at hc
          rw [solidIter_nonempty_step f _ hne]
          simp only [hc]
          rw [if_neg hk0]
          rfl
      · rw [List.take_append, List.take_of_length_le (by omega)] at hf ⊢
        have hne : (InStream.mk (encodeChunks (serN e) ++
            (encodeChunks (es.flatMap serN)).take (k - (encodeChunks (serN e)).length)) t).bytes ≠ [] := by
          intro h0
          have := congrArg List.length h0
          simp only [List.length_append, List.length_nil] at this
          omega
        have hc := collectEntry_encode (serNBody e) ⟨FEND, []⟩ rfl hnf (by rw [← serN_eq_body]; exact hfe)
          ((encodeChunks (es.flatMap serN)).take (k - (encodeChunks (serN e)).length)) t []
          ((encodeChunks (serN e) ++
            (encodeChunks (es.flatMap serN)).take (k - (encodeChunks (serN e)).length)).length + 1)
          (by rw [← serN_eq_body]; omega)
        rw [List.nil_append, ← serN_eq_body] at hc
        obtain ⟨n, hn, hlo, hhi, hiter⟩ := ih (fun e he => hwf e (by simp [he])) (fun e he => hfit e (by simp [he]))
          (k - (encodeChunks (serN e)).length) f (by rw [List.length_append] at hk; omega)
          (by rw [List.length_append] at hf; omega)
        have hlen : (encodeChunks (((e :: es).take (n + 1)).flatMap serN)).length
            = (encodeChunks (serN e)).length + (encodeChunks ((es.take n).flatMap serN)).length := by
          simp only [List.take_succ_cons, List.flatMap_cons, encodeChunks_append, List.length_append]
        refine ⟨n + 1, by simp only [List.length_cons]; omega, by omega, ?_, ?_⟩
        · intro hlt
          simp only [List.length_cons] at hlt
          have := hhi (by omega)
          simp only [List.take_succ_cons, List.flatMap_cons, encodeChunks_append, List.length_append] at this ⊢
          omega
        · rw [solidIter_nonempty_step f _ hne]
          simp only [hc]
          rw [parseN_serN e (hwf e (by simp)), hiter, hlen]
          by_cases hcut : k - (encodeChunks (serN e)).length = (encodeChunks ((es.take n).flatMap serN)).length
          · rw [if_pos hcut, if_pos (by omega)]
            simp
          · rw [if_neg hcut, if_neg (by omega)]
            simp

end Pna
