import PnaVerif.Lemmas.Acl
/-!
# Helpers for C10 — `acl set` (`aclSetE`)
* `ArgOk`, `toAce_WF_iff` — the argument's entry is well formed iff its owner is;
* `aclUpd` — the edit of the General list (`-m` then `-x`) as a named function; `aclSetE_eq` — `aclSetE` in terms of it;
* `isMatch_*`, `modifyFirst_*` — `is_match` looks at the DEFAULT flag and the owner only, which `modifyFirst` never changes;
* `aclUpd_idem` — the edit of the list is idempotent; `aclUpd_WF` — it keeps the entries well formed;
* `aclMerge_nodup`, `aclOf_aclChunks_filter` — read-back of a map that may hold EMPTY groups (they disappear);
* `aclset_readback_map` — the map read back from what `acl set` wrote.
-/
namespace Pna.Cli
open Text

-- ---------------------------------------------------------------- the argument

/-- the owner named by an `-m` / `-x` argument is well formed: a non-empty identifier without `:` for a named user or
    group.  (The argument parser cannot produce an empty name: it yields `.owner` / `.ownerGroup` then.) -/
def ArgOk (x : AclArg) : Prop := x.owner.WF

instance (x : AclArg) : Decidable (ArgOk x) := by unfold ArgOk; infer_instance

theorem toAce_flags_length (x : AclArg) : x.toAce.flags.length = 6 := by
  simp only [AclArg.toAce, List.length_map]; rfl

theorem toAce_perms_length (x : AclArg) : x.toAce.perms.length = 16 := by
  simp only [AclArg.toAce, parseSet_length]; rfl

theorem toAce_WF_iff (x : AclArg) : x.toAce.WF ↔ ArgOk x := by
  unfold Ace.WF ArgOk
  constructor
  · intro h; exact h.2.2
  · intro h; exact ⟨toAce_flags_length x, toAce_perms_length x, h⟩

-- ---------------------------------------------------------------- the edit as a named function

/-- `-m x`: the first matching entry gets the permission, or the argument's entry is appended -/
def modifyOrAdd (x : AclArg) (acl : List Ace) : List Ace :=
  if acl.any x.isMatch then modifyFirst x acl else acl ++ [x.toAce]

/-- the edit of the General platform's list: `-m` first, then `-x` -/
def aclUpd (modify remove : Option AclArg) (acl : List Ace) : List Ace :=
  let acl := match modify with
    | some x => modifyOrAdd x acl
    | none => acl
  match remove with
  | some x => acl.filter (fun a => !x.isMatch a)
  | none => acl

/-- apply `f` to the list(s) of the General platform -/
def editG (f : List Ace → List Ace) (p : Str × List Ace) : Str × List Ace := if p.1 == [] then (p.1, f p.2) else p

theorem aclSetE_eq (modify remove : Option AclArg) (e : LEntry) :
    aclSetE modify remove e =
      if !(((aclOf [] [] e.extras).getD []).any (·.1 == [])) then e
      else { e with extras := aclChunks (((aclOf [] [] e.extras).getD []).map (editG (aclUpd modify remove))) ++
                                e.extras.filter (fun x => !isAclChunk x) } := rfl

theorem editG_fst (f : List Ace → List Ace) (p : Str × List Ace) : (editG f p).1 = p.1 := by
  unfold editG; split <;> rfl

theorem editG_keys (f : List Ace → List Ace) (m : AclMap) : (m.map (editG f)).map (·.1) = m.map (·.1) := by
  rw [List.map_map]
  apply List.map_congr_left
  intro p _
  exact editG_fst f p

theorem editG_comp (f g : List Ace → List Ace) (m : AclMap) :
    (m.map (editG f)).map (editG g) = m.map (editG (fun l => g (f l))) := by
  rw [List.map_map]
  apply List.map_congr_left
  intro p _
  simp only [Function.comp, editG]
  split
  · rfl
  · rfl

-- ---------------------------------------------------------------- is_match

theorem isMatch_setPerms (x : AclArg) (a : Ace) (p : Bits) : x.isMatch { a with perms := p } = x.isMatch a := rfl

theorem isMatch_toAce (x : AclArg) : x.isMatch x.toAce = true := by
  simp only [AclArg.isMatch, AclArg.toAce, flagTable, List.map_cons, List.headD_cons]
  simp

/-- two arguments either match the same entries or no common entry -/
theorem isMatch_dichotomy (x y : AclArg) :
    (∀ a, x.isMatch a = y.isMatch a) ∨ (∀ a, x.isMatch a = true → y.isMatch a = false) := by
  by_cases h : x.dflt = y.dflt ∧ x.owner = y.owner
  · left; intro a; simp only [AclArg.isMatch, h.1, h.2]
  · right
    intro a ha
    simp only [AclArg.isMatch, Bool.and_eq_true, beq_iff_eq] at ha
    cases hy : y.isMatch a with
    | false => rfl
    | true =>
      simp only [AclArg.isMatch, Bool.and_eq_true, beq_iff_eq] at hy
      exact absurd ⟨ha.1.trans hy.1.symm, ha.2.trans hy.2.symm⟩ h

-- ---------------------------------------------------------------- modifyFirst

theorem modifyFirst_any (x y : AclArg) (l : List Ace) : (modifyFirst x l).any y.isMatch = l.any y.isMatch := by
  induction l with
  | nil => rfl
  | cons a l ih =>
    simp only [modifyFirst]
    split
    · simp only [List.any_cons, isMatch_setPerms]
    · simp only [List.any_cons, ih]

theorem modifyFirst_idem (x : AclArg) (l : List Ace) : modifyFirst x (modifyFirst x l) = modifyFirst x l := by
  induction l with
  | nil => rfl
  | cons a l ih =>
    simp only [modifyFirst]
    split
    · rename_i h
      simp only [modifyFirst, isMatch_setPerms, h, if_true]
    · rename_i h
      simp only [modifyFirst, h, ih]
      rfl

theorem modifyFirst_append_of_none (x : AclArg) (l r : List Ace) (h : l.any x.isMatch = false) :
    modifyFirst x (l ++ r) = l ++ modifyFirst x r := by
  induction l with
  | nil => rfl
  | cons a l ih =>
    simp only [List.any_cons, Bool.or_eq_false_iff] at h
    simp only [List.cons_append, modifyFirst, h.1, ih h.2]
    rfl

/-- an `-x` argument that matches exactly what `-m` matches removes the modified entry like the original one -/
theorem modifyFirst_filter_same (x y : AclArg) (l : List Ace) (hxy : ∀ a, x.isMatch a = y.isMatch a) :
    (modifyFirst x l).filter (fun a => !y.isMatch a) = l.filter (fun a => !y.isMatch a) := by
  induction l with
  | nil => rfl
  | cons a l ih =>
    simp only [modifyFirst]
    split
    · rename_i h
      have hy : y.isMatch a = true := (hxy a) ▸ h
      have hy2 : y.isMatch { a with perms := x.toAce.perms } = true := hy
      simp only [List.filter_cons, hy, hy2, Bool.not_true]
      rfl
    · simp only [List.filter_cons, ih]

/-- an `-x` argument that matches nothing `-m` matches: removing commutes with modifying -/
theorem modifyFirst_filter_disj (x y : AclArg) (l : List Ace) (hxy : ∀ a, x.isMatch a = true → y.isMatch a = false) :
    (modifyFirst x l).filter (fun a => !y.isMatch a) = modifyFirst x (l.filter (fun a => !y.isMatch a)) := by
  induction l with
  | nil => rfl
  | cons a l ih =>
    simp only [modifyFirst]
    split
    · rename_i h
      have hy : y.isMatch a = false := hxy a h
      have hy2 : y.isMatch { a with perms := x.toAce.perms } = false := hy
      simp only [List.filter_cons, hy, hy2, Bool.not_false, if_true, modifyFirst, h]
    · rename_i h
      cases hy : y.isMatch a with
      | true => simp only [List.filter_cons, hy, Bool.not_true, ih]; rfl
      | false => simp only [List.filter_cons, hy, Bool.not_false, if_true, modifyFirst, h, ih]; rfl

theorem modifyFirst_eq_of_none (x : AclArg) (l : List Ace) (h : l.any x.isMatch = false) : modifyFirst x l = l := by
  have := modifyFirst_append_of_none x l [] h
  simpa [modifyFirst] using this

-- ---------------------------------------------------------------- modifyOrAdd

theorem modifyOrAdd_any (x : AclArg) (l : List Ace) : (modifyOrAdd x l).any x.isMatch = true := by
  unfold modifyOrAdd
  split
  · rename_i h; rw [modifyFirst_any]; exact h
  · simp only [List.any_append, List.any_cons, isMatch_toAce, List.any_nil, Bool.or_false, Bool.or_true]

theorem modifyOrAdd_of_any (x : AclArg) (l : List Ace) (h : l.any x.isMatch = true) :
    modifyOrAdd x l = modifyFirst x l := by
  unfold modifyOrAdd; rw [if_pos h]

theorem modifyOrAdd_idem (x : AclArg) (l : List Ace) : modifyOrAdd x (modifyOrAdd x l) = modifyOrAdd x l := by
  rw [modifyOrAdd_of_any x _ (modifyOrAdd_any x l)]
  unfold modifyOrAdd
  split
  · exact modifyFirst_idem x l
  · rename_i h
    rw [modifyFirst_append_of_none x l _ (by simpa using h)]
    simp only [modifyFirst, isMatch_toAce, if_true]

-- ---------------------------------------------------------------- the edit is idempotent

theorem filter_not_idem (y : AclArg) (l : List Ace) :
    (l.filter (fun a => !y.isMatch a)).filter (fun a => !y.isMatch a) = l.filter (fun a => !y.isMatch a) := by
  rw [List.filter_filter]
  congr 1
  funext a
  simp

theorem filter_not_any (y : AclArg) (l : List Ace) : (l.filter (fun a => !y.isMatch a)).any y.isMatch = false := by
  rw [List.any_filter]
  simp

/-- after `-m x -x y` with `y` matching what `x` matches, nothing matching is left -/
theorem modifyOrAdd_filter_same (x y : AclArg) (l : List Ace) (hxy : ∀ a, x.isMatch a = y.isMatch a) :
    (modifyOrAdd x l).filter (fun a => !y.isMatch a) = l.filter (fun a => !y.isMatch a) := by
  unfold modifyOrAdd
  split
  · exact modifyFirst_filter_same x y l hxy
  · have : y.isMatch x.toAce = true := (hxy _) ▸ isMatch_toAce x
    simp only [List.filter_append, List.filter_cons, this, Bool.not_true, List.filter_nil]
    simp

theorem filter_any_disj (x y : AclArg) (l : List Ace) (hxy : ∀ a, x.isMatch a = true → y.isMatch a = false) :
    (l.filter (fun a => !y.isMatch a)).any x.isMatch = l.any x.isMatch := by
  rw [List.any_filter]
  congr 1
  funext a
  cases hx : x.isMatch a with
  | false => simp
  | true => simp [hxy a hx]

/-- The edit of the General list is idempotent — for ALL arguments (no well-formedness needed at this level). -/
theorem aclUpd_idem (modify remove : Option AclArg) (l : List Ace) :
    aclUpd modify remove (aclUpd modify remove l) = aclUpd modify remove l := by
  cases modify with
  | none =>
    cases remove with
    | none => rfl
    | some y => exact filter_not_idem y l
  | some x =>
    cases remove with
    | none => exact modifyOrAdd_idem x l
    | some y =>
      show (modifyOrAdd x ((modifyOrAdd x l).filter _)).filter _ = (modifyOrAdd x l).filter _
      rcases isMatch_dichotomy x y with hxy | hxy
      · rw [modifyOrAdd_filter_same x y _ hxy, filter_not_idem]
      · have h1 : ((modifyOrAdd x l).filter (fun a => !y.isMatch a)).any x.isMatch = true := by
          rw [filter_any_disj x y _ hxy]; exact modifyOrAdd_any x l
        rw [modifyOrAdd_of_any x _ h1, ← modifyFirst_filter_disj x y _ hxy,
          ← modifyOrAdd_of_any x _ (modifyOrAdd_any x l), modifyOrAdd_idem, filter_not_idem]

-- ---------------------------------------------------------------- the edit keeps entries well formed

theorem modifyFirst_WF (x : AclArg) (l : List Ace) (h : ∀ a ∈ l, a.WF) : ∀ a ∈ modifyFirst x l, a.WF := by
  induction l with
  | nil => intro a ha; cases ha
  | cons b l ih =>
    intro a ha
    simp only [modifyFirst] at ha
    split at ha
    · rcases List.mem_cons.mp ha with rfl | ha
      · have hb := h b (by simp)
        exact ⟨hb.1, toAce_perms_length x, hb.2.2⟩
      · exact h a (by simp [ha])
    · rcases List.mem_cons.mp ha with rfl | ha
      · exact h _ (by simp)
      · exact ih (fun c hc => h c (by simp [hc])) a ha

theorem modifyOrAdd_WF (x : AclArg) (hx : ArgOk x) (l : List Ace) (h : ∀ a ∈ l, a.WF) :
    ∀ a ∈ modifyOrAdd x l, a.WF := by
  unfold modifyOrAdd
  split
  · exact modifyFirst_WF x l h
  · intro a ha
    rcases List.mem_append.mp ha with ha | ha
    · exact h a ha
    · rw [List.mem_singleton] at ha
      exact ha ▸ (toAce_WF_iff x).mpr hx

theorem aclUpd_WF (modify remove : Option AclArg) (hx : ∀ x, modify = some x → ArgOk x) (l : List Ace)
    (h : ∀ a ∈ l, a.WF) : ∀ a ∈ aclUpd modify remove l, a.WF := by
  have h1 : ∀ a ∈ (match modify with | some x => modifyOrAdd x l | none => l), a.WF := by
    cases modify with
    | none => exact h
    | some x => exact modifyOrAdd_WF x (hx x rfl) l h
  cases remove with
  | none => exact h1
  | some y => exact fun a ha => h1 a (List.mem_filter.mp ha).1

-- ---------------------------------------------------------------- read-back of a map with (possibly) empty groups

/-- the groups that survive a write/read cycle: those with at least one entry -/
def dropEmpty (m : AclMap) : AclMap := m.filter (fun p => !p.2.isEmpty)

/-- groups with fresh, pairwise distinct platforms are appended as they are — except the EMPTY ones, which vanish
    (`aclChunks` writes a lone `faCl` chunk for them, and `acl()` creates a list only when it meets an entry) -/
theorem aclMerge_nodup (acc m : AclMap) (hk : ((acc ++ m).map (·.1)).Nodup) :
    aclMerge acc m = acc ++ dropEmpty m := by
  induction m generalizing acc with
  | nil => simp [aclMerge, dropEmpty]
  | cons p m ih =>
    have h2 : aclMerge acc (p :: m) = aclMerge (aclInsertAll acc p.1 p.2) m := rfl
    rw [h2]
    by_cases hp2 : p.2 = []
    · have h3 : aclInsertAll acc p.1 p.2 = acc := by rw [hp2]; rfl
      have hsub : ((acc ++ m).map (·.1)).Sublist ((acc ++ p :: m).map (·.1)) := by
        apply List.Sublist.map
        exact List.Sublist.append (List.Sublist.refl acc) (List.sublist_cons_self p m)
      rw [h3, ih acc (hsub.nodup hk)]
      simp [dropEmpty, hp2]
    · have hp : p.1 ∉ acc.map (·.1) := by
        intro hmem
        rw [List.map_append, List.map_cons] at hk
        exact (List.nodup_append.mp hk).2.2 _ hmem p.1 (by simp) rfl
      rw [aclInsertAll_new acc p.1 p.2 hp hp2, ih (acc ++ [p]) (by simpa using hk)]
      have : (p.2.isEmpty) = false := by simpa using hp2
      simp [dropEmpty, this]

/-- Reading back the chunks written for a map with pairwise distinct platforms and well-formed entries: the same map
    without its empty groups. -/
theorem aclOf_aclChunks_filter (m : AclMap) (hk : (m.map (·.1)).Nodup) (hwf : ∀ p ∈ m, ∀ a ∈ p.2, a.WF)
    (rest : List (Bytes × Bytes)) (hrest : ∀ x ∈ rest, isAclChunk x = false) :
    aclOf [] [] (aclChunks m ++ rest) = some (dropEmpty m) := by
  rw [aclOf_aclChunks_gen m hwf, aclMerge_nodup [] m (by simpa using hk), aclOf_skip _ _ _ hrest]
  rfl

theorem dropEmpty_of_ok (m : AclMap) (h : ∀ p ∈ m, p.2 ≠ []) : dropEmpty m = m := by
  unfold dropEmpty
  apply List.filter_eq_self.mpr
  intro p hp
  simpa using h p hp

/-- distinct platforms: a platform names one group -/
theorem eq_of_key_eq {m : AclMap} (hk : (m.map (·.1)).Nodup) {p q : Str × List Ace} (hp : p ∈ m) (hq : q ∈ m)
    (h : p.1 = q.1) : p = q := by
  induction m with
  | nil => cases hp
  | cons r m ih =>
    rw [List.map_cons, List.nodup_cons] at hk
    rcases List.mem_cons.mp hp with hp2 | hp2 <;> rcases List.mem_cons.mp hq with hq2 | hq2
    · rw [hp2, hq2]
    · exact absurd (show r.1 ∈ m.map (·.1) from List.mem_map.mpr ⟨q, hq2, by rw [← h, hp2]⟩) hk.1
    · exact absurd (show r.1 ∈ m.map (·.1) from List.mem_map.mpr ⟨p, hp2, by rw [h, hq2]⟩) hk.1
    · exact ih hk.2 hp2 hq2

-- ---------------------------------------------------------------- the map `acl set` leaves behind

theorem editG_WF (f : List Ace → List Ace) (m : AclMap) (hm : ∀ p ∈ m, ∀ a ∈ p.2, a.WF)
    (hf : ∀ l, (∀ a ∈ l, a.WF) → ∀ a ∈ f l, a.WF) : ∀ p ∈ m.map (editG f), ∀ a ∈ p.2, a.WF := by
  intro p hp
  obtain ⟨q, hq, rfl⟩ := List.mem_map.mp hp
  unfold editG
  split
  · exact hf q.2 (hm q hq)
  · exact hm q hq

/-- if the General list survived the write/read cycle, nothing was dropped -/
theorem dropEmpty_editG_of_general (f : List Ace → List Ace) (m : AclMap) (hm : AclMapOk m)
    (hg : (dropEmpty (m.map (editG f))).any (·.1 == []) = true) : dropEmpty (m.map (editG f)) = m.map (editG f) := by
  obtain ⟨p, hp, hp1⟩ := List.any_eq_true.mp hg
  have hp1 : p.1 = [] := by simpa using hp1
  obtain ⟨hpm, hpne⟩ := List.mem_filter.mp hp
  have hpne : p.2 ≠ [] := by simpa using hpne
  have hk : ((m.map (editG f)).map (·.1)).Nodup := by rw [editG_keys]; exact hm.1
  apply dropEmpty_of_ok
  intro q hq
  obtain ⟨q0, hq0, hqe⟩ := List.mem_map.mp hq
  by_cases hq1 : q0.1 = []
  · have : q = p := eq_of_key_eq hk hq hpm (by rw [← hqe, editG_fst, hq1, hp1])
    exact this ▸ hpne
  · have : editG f q0 = q0 := by unfold editG; rw [if_neg (by simpa using hq1)]
    rw [← hqe, this]
    exact (hm.2 q0 hq0).1

-- ---------------------------------------------------------------- `aclSetE`: shape, read-back, idempotence

theorem aclOf_of_general {cs : List (Bytes × Bytes)} (hg : ((aclOf [] [] cs).getD []).any (·.1 == []) = true) :
    ∃ m, aclOf [] [] cs = some m ∧ m.any (·.1 == []) = true := by
  cases h : aclOf [] [] cs with
  | none => rw [h] at hg; cases hg
  | some m => rw [h] at hg; exact ⟨m, rfl, hg⟩

theorem aclSetE_of_no_general (modify remove : Option AclArg) (e : LEntry)
    (h : ((aclOf [] [] e.extras).getD []).any (·.1 == []) = false) : aclSetE modify remove e = e := by
  rw [aclSetE_eq, h]
  rfl

/-- the shape of the result on an entry with a General list -/
theorem aclSetE_of_general (modify remove : Option AclArg) (e : LEntry) (m : AclMap)
    (hm : aclOf [] [] e.extras = some m) (hg : m.any (·.1 == []) = true) :
    aclSetE modify remove e =
      { e with extras := aclChunks (m.map (editG (aclUpd modify remove))) ++ e.extras.filter (fun x => !isAclChunk x) } := by
  rw [aclSetE_eq, hm, Option.getD_some, hg]
  rfl

/-- The map read back from what `acl set` wrote: the collected map with the General list edited — and DROPPED when
    the edit emptied it. -/
theorem aclSetE_readback (modify remove : Option AclArg) (hx : ∀ x, modify = some x → ArgOk x) (e : LEntry) (m : AclMap)
    (hm : aclOf [] [] e.extras = some m) (hg : m.any (·.1 == []) = true) :
    aclOf [] [] (aclSetE modify remove e).extras = some (dropEmpty (m.map (editG (aclUpd modify remove)))) := by
  have hok := aclOf_ok [] [] _ m aclMapOk_nil hm
  rw [aclSetE_of_general modify remove e m hm hg]
  exact aclOf_aclChunks_filter _ (by rw [editG_keys]; exact hok.1)
    (editG_WF _ m (fun p hp => (hok.2 p hp).2) (aclUpd_WF modify remove hx)) _ (filter_not_acl e.extras)

/-- Idempotence of `acl set` on one entry, for every entry, whatever `-x` names; `-m` must name a well-formed owner. -/
theorem aclSetE_idem (modify remove : Option AclArg) (hx : ∀ x, modify = some x → ArgOk x) (e : LEntry) :
    aclSetE modify remove (aclSetE modify remove e) = aclSetE modify remove e := by
  cases hg0 : ((aclOf [] [] e.extras).getD []).any (·.1 == []) with
  | false => rw [aclSetE_of_no_general modify remove e hg0, aclSetE_of_no_general modify remove e hg0]
  | true =>
    obtain ⟨m, hm, hg⟩ := aclOf_of_general hg0
    have hok := aclOf_ok [] [] _ m aclMapOk_nil hm
    have hback := aclSetE_readback modify remove hx e m hm hg
    cases hg1 : (dropEmpty (m.map (editG (aclUpd modify remove)))).any (·.1 == []) with
    | false =>
      apply aclSetE_of_no_general
      rw [hback, Option.getD_some]
      exact hg1
    | true =>
      have hd := dropEmpty_editG_of_general _ m hok hg1
      rw [hd] at hback hg1
      rw [aclSetE_of_general modify remove _ _ hback hg1, editG_comp]
      have hf : (fun l => aclUpd modify remove (aclUpd modify remove l)) = aclUpd modify remove := by
        funext l; exact aclUpd_idem modify remove l
      rw [hf]
      rw [aclSetE_of_general modify remove e m hm hg]
      simp only [filter_aclChunks_append _ _ (filter_not_acl e.extras)]

-- ---------------------------------------------------------------- the list of one platform

theorem lookup_cons_eq (k : Str) (p : Str × List Ace) (m : AclMap) :
    List.lookup k (p :: m) = if k = p.1 then some p.2 else List.lookup k m := by
  obtain ⟨a, b⟩ := p
  rw [List.lookup_cons]
  by_cases h : k = a
  · simp [h]
  · have : (k == a) = false := by simpa using h
    simp [this, h]

theorem any_key_eq_isSome (m : AclMap) (k : Str) : m.any (·.1 == k) = (List.lookup k m).isSome := by
  induction m with
  | nil => rfl
  | cons p m ih =>
    rw [lookup_cons_eq, List.any_cons, ih]
    by_cases h : k = p.1
    · simp [h]
    · have : (p.1 == k) = false := by simpa using fun he => h he.symm
      simp [this, h]

theorem lookup_none_of_not_mem (m : AclMap) (k : Str) (h : k ∉ m.map (·.1)) : List.lookup k m = none := by
  induction m with
  | nil => rfl
  | cons p m ih =>
    rw [List.map_cons, List.mem_cons, not_or] at h
    rw [lookup_cons_eq, if_neg h.1, ih h.2]

theorem aclLookup_mem {m : AclMap} {k : Str} {l : List Ace} (h : List.lookup k m = some l) : (k, l) ∈ m := by
  induction m with
  | nil => cases h
  | cons p m ih =>
    rw [lookup_cons_eq] at h
    split at h
    · rename_i hk
      cases h
      rw [hk]
      exact List.mem_cons_self
    · exact List.mem_cons_of_mem _ (ih h)

/-- the lists of the other platforms come back as they were (no group of the collected map is empty) -/
theorem lookup_dropEmpty_editG_other (f : List Ace → List Ace) (m : AclMap) (k : Str) (hk : k ≠ [])
    (hne : ∀ p ∈ m, p.2 ≠ []) : List.lookup k (dropEmpty (m.map (editG f))) = List.lookup k m := by
  induction m with
  | nil => rfl
  | cons p m ih =>
    have ih := ih (fun q hq => hne q (by simp [hq]))
    unfold dropEmpty at ih ⊢
    rw [List.map_cons, List.filter_cons]
    by_cases hp : p.1 = []
    · have he : editG f p = (p.1, f p.2) := by unfold editG; rw [if_pos (by simpa using hp)]
      have hkp : ¬ k = p.1 := fun h => hk (h.trans hp)
      rw [he, lookup_cons_eq k p m, if_neg hkp]
      split
      · rw [lookup_cons_eq, if_neg hkp, ih]
      · exact ih
    · have he : editG f p = p := by unfold editG; rw [if_neg (by simpa using hp)]
      have : (!p.2.isEmpty) = true := by simpa using hne p (by simp)
      rw [he, if_pos this, lookup_cons_eq, lookup_cons_eq, ih]

/-- the General list comes back edited — or not at all, when the edit emptied it -/
theorem lookup_dropEmpty_editG_general (f : List Ace → List Ace) (m : AclMap) (l : List Ace)
    (hk : (m.map (·.1)).Nodup) (hne : ∀ p ∈ m, p.2 ≠ []) (hl : List.lookup [] m = some l) :
    List.lookup [] (dropEmpty (m.map (editG f))) = if f l = [] then none else some (f l) := by
  induction m with
  | nil => cases hl
  | cons p m ih =>
    rw [List.map_cons, List.nodup_cons] at hk
    unfold dropEmpty at ih ⊢
    rw [List.map_cons, List.filter_cons]
    rw [lookup_cons_eq] at hl
    by_cases hp : p.1 = []
    · have he : editG f p = (p.1, f p.2) := by unfold editG; rw [if_pos (by simpa using hp)]
      rw [if_pos hp.symm] at hl
      cases hl
      rw [he]
      by_cases hfl : f p.2 = []
      · have : (!(p.1, f p.2).2.isEmpty) = false := by simp [hfl]
        rw [if_neg (by simp [this]), if_pos hfl]
        apply lookup_none_of_not_mem
        intro hmem
        apply hk.1
        have hsub : ((m.map (editG f)).filter (fun p => !p.2.isEmpty)).map (·.1) ⊆ (m.map (editG f)).map (·.1) :=
          (List.filter_sublist.map _).subset
        have := hsub hmem
        rw [editG_keys] at this
        rw [hp]; exact this
      · have : (!(p.1, f p.2).2.isEmpty) = true := by simpa using hfl
        rw [if_pos this, if_neg hfl, lookup_cons_eq, if_pos hp.symm]
    · have he : editG f p = p := by unfold editG; rw [if_neg (by simpa using hp)]
      have hp2 : ¬ ([] : Str) = p.1 := fun h => hp h.symm
      rw [if_neg hp2] at hl
      have : (!p.2.isEmpty) = true := by simpa using hne p (by simp)
      rw [he, if_pos this, lookup_cons_eq, if_neg hp2]
      exact ih hk.2 (fun q hq => hne q (by simp [hq])) hl

/-- an edit that leaves the General list as it is leaves the map as it is -/
theorem map_editG_of_fix (f : List Ace → List Ace) (m : AclMap) (l : List Ace) (hk : (m.map (·.1)).Nodup)
    (hl : List.lookup [] m = some l) (hf : f l = l) : m.map (editG f) = m := by
  conv => rhs; rw [← List.map_id m]
  apply List.map_congr_left
  intro p hp
  unfold editG
  split
  · rename_i h
    have h1 : p.1 = [] := by simpa using h
    have : p = ([], l) := eq_of_key_eq hk hp (aclLookup_mem hl) h1
    rw [this]
    simp only [hf, id]
  · rfl

/-- If the edit leaves the General list as it is, `acl set` still rewrites the chunks: exactly as `migrate` does. -/
theorem aclSetE_eq_migrate (modify remove : Option AclArg) (e : LEntry) (m : AclMap) (l : List Ace)
    (hm : aclOf [] [] e.extras = some m) (hl : List.lookup [] m = some l) (hf : aclUpd modify remove l = l) :
    migrateE e = some (aclSetE modify remove e) := by
  have hok := aclOf_ok [] [] _ m aclMapOk_nil hm
  have hg : m.any (·.1 == []) = true := by rw [any_key_eq_isSome, hl]; rfl
  rw [aclSetE_of_general modify remove e m hm hg, map_editG_of_fix _ m l hok.1 hl hf]
  unfold migrateE
  rw [hm]
  rfl

-- ---------------------------------------------------------------- pointwise characterisation of `modifyFirst`

/-- `modifyFirst` changes exactly the FIRST matching entry, and only its permission set. -/
theorem modifyFirst_spec (x : AclArg) (l : List Ace) (h : l.any x.isMatch = true) :
    ∃ i, ∃ hi : i < l.length, x.isMatch l[i] = true ∧ (∀ j (hj : j < i), x.isMatch (l[j]'(Nat.lt_trans hj hi)) = false) ∧
      modifyFirst x l = l.set i { l[i] with perms := x.toAce.perms } := by
  induction l with
  | nil => cases h
  | cons a l ih =>
    by_cases ha : x.isMatch a = true
    · refine ⟨0, Nat.zero_lt_succ _, ha, fun j hj => absurd hj (Nat.not_lt_zero j), ?_⟩
      simp only [modifyFirst, ha, if_true, List.getElem_cons_zero, List.set_cons_zero]
    · have hl : l.any x.isMatch = true := by
        rw [List.any_cons] at h
        simpa [ha] using h
      obtain ⟨i, hi, h1, h2, h3⟩ := ih hl
      refine ⟨i + 1, Nat.succ_lt_succ hi, by simpa using h1, ?_, ?_⟩
      · intro j hj
        cases j with
        | zero => simpa using ha
        | succ j => simpa using h2 j (Nat.lt_of_succ_lt_succ hj)
      · simp only [modifyFirst, ha, List.getElem_cons_succ, List.set_cons_succ, h3]
        rfl

/-- no matching entry: nothing changes -/
theorem modifyFirst_none (x : AclArg) (l : List Ace) (h : l.any x.isMatch = false) : modifyFirst x l = l :=
  modifyFirst_eq_of_none x l h

theorem aclUpd_modify (x : AclArg) (l : List Ace) :
    aclUpd (some x) none l = if l.any x.isMatch then modifyFirst x l else l ++ [x.toAce] := rfl

theorem aclUpd_remove (x : AclArg) (l : List Ace) : aclUpd none (some x) l = l.filter (fun a => !x.isMatch a) := rfl

theorem aclUpd_both (x y : AclArg) (l : List Ace) :
    aclUpd (some x) (some y) l = (aclUpd (some x) none l).filter (fun a => !y.isMatch a) := rfl

theorem aclUpd_modify_ne_nil (x : AclArg) (l : List Ace) : aclUpd (some x) none l ≠ [] := by
  intro h
  have := modifyOrAdd_any x l
  have h2 : modifyOrAdd x l = [] := h
  rw [h2] at this
  cases this

theorem filter_eq_self_of_none (x : AclArg) (l : List Ace) (h : l.any x.isMatch = false) :
    l.filter (fun a => !x.isMatch a) = l := by
  apply List.filter_eq_self.mpr
  intro a ha
  cases hm : x.isMatch a with
  | false => rfl
  | true =>
    have : l.any x.isMatch = true := List.any_eq_true.mpr ⟨a, ha, hm⟩
    rw [h] at this
    cases this

end Pna.Cli
