import PnaVerif.Model.Crc32
/-! Kernel-only facts about the CRC-32 register: each step is injective in the state and in
    the byte, hence two inputs that differ in exactly one byte have different CRCs. -/
namespace Pna.Crc32

theorem poly_msb : poly.getLsbD 31 = true := by decide

theorem shr_msb (c : BitVec 32) : (c >>> 1).getLsbD 31 = false := by simp

theorem shr_shl_or (c : BitVec 32) (h : c.getLsbD 0 = true) : ((c >>> 1) <<< 1) ||| 1#32 = c := by
  ext i hi
  simp [BitVec.getElem_or, BitVec.getElem_shiftLeft, BitVec.getElem_ushiftRight]
  by_cases h0 : i = 0
  · subst h0; simpa using h
  · simp [h0]
    have : 1 + (i - 1) = i := by omega
    rw [this, BitVec.getLsbD_eq_getElem hi]

theorem shr_shl (c : BitVec 32) (h : ¬ c.getLsbD 0 = true) : (c >>> 1) <<< 1 = c := by
  ext i hi
  simp [BitVec.getElem_shiftLeft, BitVec.getElem_ushiftRight]
  by_cases h0 : i = 0
  · subst h0; simpa using h
  · simp [h0]
    have : 1 + (i - 1) = i := by omega
    rw [this, BitVec.getLsbD_eq_getElem hi]

theorem bitUnstep_bitStep (c : BitVec 32) : bitUnstep (bitStep c) = c := by
  unfold bitUnstep bitStep
  by_cases h : c.getLsbD 0 = true
  · have hm : ((c >>> 1) ^^^ poly).getLsbD 31 = true := by
      rw [BitVec.getLsbD_xor, shr_msb, poly_msb]; rfl
    simp only [h, ite_true, hm]
    rw [BitVec.xor_assoc, BitVec.xor_self, BitVec.xor_zero]
    exact shr_shl_or c h
  · have hf : (c.getLsbD 0) = false := by simpa using h
    simp only [hf, Bool.false_eq_true, ite_false, shr_msb]
    exact shr_shl c h

theorem bitStep_injective : Function.Injective bitStep := by
  intro a b h
  have := congrArg bitUnstep h
  simpa [bitUnstep_bitStep] using this

theorem xor_left_cancel (c x y : BitVec 32) (h : c ^^^ x = c ^^^ y) : x = y := by
  have := congrArg (fun z => c ^^^ z) h
  simpa [← BitVec.xor_assoc] using this

theorem ofNat_byte_injective (b b' : UInt8)
    (h : BitVec.ofNat 32 b.toNat = BitVec.ofNat 32 b'.toNat) : b = b' := by
  have hb := b.toNat_lt
  have hb' := b'.toNat_lt
  have := congrArg BitVec.toNat h
  simp [BitVec.toNat_ofNat] at this
  exact UInt8.toNat_inj.mp (by omega)

/-- The byte step is injective in the byte (same state). -/
theorem byteStep_inj_byte (c : BitVec 32) (b b' : UInt8) (h : byteStep c b = byteStep c b') : b = b' := by
  unfold byteStep at h
  have h := bitStep_injective (bitStep_injective (bitStep_injective (bitStep_injective
    (bitStep_injective (bitStep_injective (bitStep_injective (bitStep_injective h)))))))
  exact ofNat_byte_injective b b' (xor_left_cancel c _ _ h)

/-- The byte step is injective in the state (same byte). -/
theorem byteStep_inj_state (c c' : BitVec 32) (b : UInt8) (h : byteStep c b = byteStep c' b) : c = c' := by
  unfold byteStep at h
  have h := bitStep_injective (bitStep_injective (bitStep_injective (bitStep_injective
    (bitStep_injective (bitStep_injective (bitStep_injective (bitStep_injective h)))))))
  have := congrArg (fun z => z ^^^ BitVec.ofNat 32 b.toNat) h
  simpa [BitVec.xor_assoc] using this

theorem update_inj_state (c c' : BitVec 32) (bs : Bytes) (h : update c bs = update c' bs) : c = c' := by
  induction bs generalizing c c' with
  | nil => simpa [update] using h
  | cons b bs ih =>
    simp only [update, List.foldl_cons] at h
    exact byteStep_inj_state _ _ _ (ih _ _ h)

theorem finalize_injective : Function.Injective finalize := by
  intro a b h
  have := congrArg (fun z => ~~~ z) h
  simpa [finalize] using this

/-- **Single-byte alteration is always detected by CRC-32.** -/
theorem crc32_byte_change (a c : Bytes) (b b' : UInt8) (h : b ≠ b') :
    crc32 (a ++ b :: c) ≠ crc32 (a ++ b' :: c) := by
  intro heq
  unfold crc32 at heq
  have h1 := BitVec.eq_of_toNat_eq heq
  have h2 := finalize_injective h1
  rw [update_append, update_append] at h2
  simp only [update, List.foldl_cons] at h2
  have h3 := update_inj_state _ _ c h2
  exact h (byteStep_inj_byte _ _ _ h3)

/-- CRCs of equal-length inputs that share a prefix and suffix and differ in one byte differ;
    restated for "same bytes except position `i`". -/
theorem crc32_set_ne (bs : Bytes) (i : Nat) (hi : i < bs.length) (v : UInt8) (hv : v ≠ bs[i]) :
    crc32 (bs.set i v) ≠ crc32 bs := by
  have hsplit : bs = bs.take i ++ bs[i] :: bs.drop (i+1) := by
    rw [← List.drop_eq_getElem_cons hi, List.take_append_drop]
  have hset : bs.set i v = bs.take i ++ v :: bs.drop (i+1) := by
    rw [List.set_eq_take_append_cons_drop]
    simp [hi]
  rw [hset]
  conv => rhs; rw [hsplit]
  exact crc32_byte_change _ _ _ _ hv

end Pna.Crc32
