import PnaVerif.Model.Split
import PnaVerif.Lemmas.Chunk
/-! Splitting an archive into part files: size limit, losslessness (up to the cutting of data
    chunks), termination / rejection. -/
namespace Pna

/-- Chunk list up to the cutting of data chunks: consecutive stream chunks of the same type are
    merged into one (their payloads concatenated). Two chunk lists with the same `streamView`
    decode to the same thing. -/
def streamView : List Chunk → List Chunk
  | [] => []
  | c :: cs =>
    match streamView cs with
    | d :: ds => if c.isStream ∧ c.ty = d.ty then ⟨c.ty, c.data ++ d.data⟩ :: ds else c :: d :: ds
    | [] => [c]

/-- "the maximum can hold every indivisible chunk": room for at least one payload byte of a
    stream chunk, and every non-stream chunk fits. -/
def MinOk (max : Nat) (cs : List Chunk) : Prop :=
  13 ≤ max ∧ ∀ c ∈ cs, c.isStream = false → c.bytesLen ≤ max

/-! ### `partLen` -/

@[simp] theorem partLen_nil : partLen [] = 0 := rfl

@[simp] theorem partLen_cons (c : Chunk) (cs : List Chunk) :
    partLen (c :: cs) = c.bytesLen + partLen cs := by
  simp [partLen]

@[simp] theorem partLen_append (a b : List Chunk) : partLen (a ++ b) = partLen a + partLen b := by
  simp [partLen, List.sum_append]

theorem Chunk.bytesLen_def (c : Chunk) : c.bytesLen = 12 + c.data.length := rfl

/-! ### `streamView` -/

/-- One step of `streamView`: put `c` in front of an already merged list. -/
def svStep (c : Chunk) : List Chunk → List Chunk
  | d :: ds => if c.isStream ∧ c.ty = d.ty then ⟨c.ty, c.data ++ d.data⟩ :: ds else c :: d :: ds
  | [] => [c]

@[simp] theorem streamView_nil : streamView [] = [] := rfl

theorem svStep_nil (c : Chunk) : svStep c [] = [c] := rfl

theorem svStep_cons_pos {c d : Chunk} {ds : List Chunk} (h : c.isStream ∧ c.ty = d.ty) :
    svStep c (d :: ds) = ⟨c.ty, c.data ++ d.data⟩ :: ds := by
  simp [svStep, h]

theorem svStep_cons_neg {c d : Chunk} {ds : List Chunk} (h : ¬ (c.isStream ∧ c.ty = d.ty)) :
    svStep c (d :: ds) = c :: d :: ds := by
  simp only [svStep, h, if_false]

theorem streamView_cons (c : Chunk) (cs : List Chunk) :
    streamView (c :: cs) = svStep c (streamView cs) := by
  rw [streamView]
  cases streamView cs <;> rfl

/-- Cutting a stream chunk in two does not change the view. -/
theorem svStep_merge (t : ChunkType) (a b : Bytes) (Z : List Chunk) (ht : t.isStream = true) :
    svStep ⟨t, a⟩ (svStep ⟨t, b⟩ Z) = svStep ⟨t, a ++ b⟩ Z := by
  cases Z with
  | nil => simp [svStep, Chunk.isStream, ht]
  | cons d ds =>
    by_cases h : t = d.ty
    · simp [svStep, Chunk.isStream, ht, ← h]
    · simp [svStep, Chunk.isStream, ht, h]

theorem svStep_merge' (c d : Chunk) (Z : List Chunk) (hc : c.isStream = true) (hd : c.ty = d.ty) :
    svStep c (svStep d Z) = svStep ⟨c.ty, c.data ++ d.data⟩ Z := by
  cases c with
  | mk t a =>
    cases d with
    | mk t' b =>
      simp only at hd
      subst hd
      exact svStep_merge t a b Z hc

theorem streamView_congr_right (xs : List Chunk) {ys ys' : List Chunk}
    (h : streamView ys = streamView ys') : streamView (xs ++ ys) = streamView (xs ++ ys') := by
  induction xs with
  | nil => simpa using h
  | cons c xs ih => simp only [List.cons_append, streamView_cons, ih]

theorem streamView_append_left (xs ys : List Chunk) :
    streamView (xs ++ ys) = streamView (streamView xs ++ ys) := by
  induction xs with
  | nil => simp
  | cons c xs ih =>
    simp only [List.cons_append, streamView_cons]
    rw [ih]
    cases hx : streamView xs with
    | nil => simp [svStep, streamView_cons]
    | cons d ds =>
      by_cases hm : c.isStream ∧ c.ty = d.ty
      · rw [svStep_cons_pos hm]
        simp only [List.cons_append, streamView_cons]
        exact svStep_merge' c d _ hm.1 hm.2
      · rw [svStep_cons_neg hm]
        simp only [List.cons_append, streamView_cons]

theorem streamView_congr_left {xs xs' : List Chunk} (ys : List Chunk)
    (h : streamView xs = streamView xs') : streamView (xs ++ ys) = streamView (xs' ++ ys) := by
  rw [streamView_append_left xs, h, ← streamView_append_left]

theorem streamView_idem (xs : List Chunk) : streamView (streamView xs) = streamView xs := by
  have := streamView_append_left xs []
  simpa using this.symm

theorem streamView_append (xs ys : List Chunk) :
    streamView (xs ++ ys) = streamView (streamView xs ++ streamView ys) := by
  rw [streamView_append_left xs ys]
  exact streamView_congr_right _ (streamView_idem ys).symm

/-! ### `splitGo` / `splitPart` -/

/-- Everything the later proofs need about the loop of `EntryPart::split`. -/
theorem splitGo_spec (max : Nat) (cs : List Chunk) : ∀ (total : Nat) (first : List Chunk),
    ∃ w', (splitGo max total first cs).1 = first ++ w' ∧
      (total ≤ max → total + partLen w' ≤ max) ∧
      streamView (w' ++ (splitGo max total first cs).2) = streamView cs ∧
      (partLen w' + partLen (splitGo max total first cs).2 = partLen cs ∨
        (partLen w' + partLen (splitGo max total first cs).2 = partLen cs + 12 ∧
          total + partLen w' = max ∧ 12 < max)) ∧
      (∀ c ∈ (splitGo max total first cs).2, c.isStream = false → c ∈ cs) := by
  induction cs with
  | nil =>
    intro total first
    exact ⟨[], by simp [splitGo]⟩
  | cons c rest ih =>
    intro total first
    by_cases h1 : max < total + c.bytesLen
    · by_cases h2 : c.isStream ∧ total + Chunk.minBytes < max
      · -- the chunk is cut
        have hs : splitGo max total first (c :: rest) =
            (first ++ [⟨c.ty, c.data.take (max - total - Chunk.minBytes)⟩],
              ⟨c.ty, c.data.drop (max - total - Chunk.minBytes)⟩ :: rest) := by
          simp only [splitGo, h1, h2, and_self, if_true]
        rw [hs]
        have hmb : Chunk.minBytes = 12 := rfl
        rw [hmb] at h2 ⊢
        have hb := Chunk.bytesLen_def c
        refine ⟨[⟨c.ty, c.data.take (max - total - 12)⟩], rfl, ?_, ?_, ?_, ?_⟩
        · intro _
          simp [Chunk.bytesLen_def, List.length_take]
          omega
        · simp only [List.cons_append, List.nil_append, streamView_cons]
          rw [svStep_merge _ _ _ _ h2.1, List.take_append_drop]
        · right
          simp [Chunk.bytesLen_def, List.length_take, List.length_drop]
          omega
        · intro x hx hxs
          simp only [List.mem_cons] at hx
          rcases hx with rfl | hx
          · have : c.isStream = false := hxs
            rw [h2.1] at this
            cases this
          · exact List.mem_cons_of_mem _ hx
      · have hs : splitGo max total first (c :: rest) = (first, c :: rest) := by
          simp only [splitGo, h1, h2, if_true, if_false]
        rw [hs]
        exact ⟨[], by simp, by simp, by simp, by simp, fun x hx _ => hx⟩
    · have hs : splitGo max total first (c :: rest) =
          splitGo max (total + c.bytesLen) (first ++ [c]) rest := by
        simp only [splitGo, h1, if_false]
      rw [hs]
      obtain ⟨w'', e1, e2, e3, e4, e5⟩ := ih (total + c.bytesLen) (first ++ [c])
      refine ⟨c :: w'', by simp [e1], ?_, ?_, ?_, ?_⟩
      · intro _
        have := e2 (by omega)
        simp only [partLen_cons]
        omega
      · simp only [List.cons_append, streamView_cons, e3]
      · simp only [partLen_cons]
        omega
      · intro x hx hxs
        exact List.mem_cons_of_mem _ (e5 x hx hxs)

theorem splitPart_of_le {cs : List Chunk} {max : Nat} (h : partLen cs ≤ max) :
    splitPart cs max = (cs, none) := by
  simp [splitPart, h]

theorem splitPart_of_gt {cs : List Chunk} {max : Nat} (h : max < partLen cs) :
    splitPart cs max = ((splitGo max 0 [] cs).1, some (splitGo max 0 [] cs).2) := by
  have h' : ¬ partLen cs ≤ max := by omega
  simp [splitPart, h']

/-- What a split that leaves a remainder looks like. -/
theorem splitPart_some_spec {cs : List Chunk} {max : Nat} {w rem : List Chunk}
    (h : splitPart cs max = (w, some rem)) :
    max < partLen cs ∧ (w, rem) = splitGo max 0 [] cs ∧ partLen w ≤ max ∧
      streamView (w ++ rem) = streamView cs ∧
      (partLen w + partLen rem = partLen cs ∨
        (partLen w + partLen rem = partLen cs + 12 ∧ partLen w = max ∧ 12 < max)) ∧
      (∀ c ∈ rem, c.isStream = false → c ∈ cs) := by
  by_cases hle : partLen cs ≤ max
  · rw [splitPart_of_le hle] at h
    simp at h
  · have hgt : max < partLen cs := by omega
    rw [splitPart_of_gt hgt] at h
    simp only [Prod.mk.injEq, Option.some.injEq] at h
    obtain ⟨hw, hr⟩ := h
    obtain ⟨w', e1, e2, e3, e4, e5⟩ := splitGo_spec max cs 0 []
    rw [hr] at e3 e4 e5
    rw [hw] at e1
    simp only [List.nil_append] at e1
    subst e1
    refine ⟨hgt, ?_, ?_, e3, ?_, e5⟩
    · rw [← hw, ← hr]
    · have := e2 (Nat.zero_le _); omega
    · simpa using e4

/-- The first part never exceeds the limit. -/
theorem splitPart_first_le (cs : List Chunk) (max : Nat) : partLen (splitPart cs max).1 ≤ max := by
  by_cases hle : partLen cs ≤ max
  · rw [splitPart_of_le hle]; exact hle
  · have hgt : max < partLen cs := by omega
    have h := splitPart_of_gt hgt
    have := (splitPart_some_spec h).2.2.1
    rw [h]; exact this

/-- Nothing is lost or reordered: first part followed by the rest is the original up to the cutting of data chunks. -/
theorem splitPart_lossless (cs : List Chunk) (max : Nat) :
    streamView ((splitPart cs max).1 ++ ((splitPart cs max).2.getD [])) = streamView cs := by
  by_cases hle : partLen cs ≤ max
  · rw [splitPart_of_le hle]; simp
  · have hgt : max < partLen cs := by omega
    have h := splitPart_of_gt hgt
    rw [h]
    exact (splitPart_some_spec h).2.2.2.1

theorem splitPart_none_iff (cs : List Chunk) (max : Nat) : (splitPart cs max).2 = none ↔ partLen cs ≤ max := by
  by_cases hle : partLen cs ≤ max
  · rw [splitPart_of_le hle]; simp [hle]
  · have hgt : max < partLen cs := by omega
    rw [splitPart_of_gt hgt]; simp [hle]

/-- A non-empty first part means progress: the rest is strictly smaller. -/
theorem splitPart_progress (cs : List Chunk) (max : Nat) (w rem : List Chunk)
    (h : splitPart cs max = (w, some rem)) (hw : 0 < partLen w) : partLen rem < partLen cs := by
  obtain ⟨_, _, _, _, h4, _⟩ := splitPart_some_spec h
  omega

theorem MinOk.of_rem {max : Nat} {cs rem : List Chunk} (hm : MinOk max cs)
    (h : ∀ c ∈ rem, c.isStream = false → c ∈ cs) : MinOk max rem :=
  ⟨hm.1, fun c hc hs => hm.2 c (h c hc hs) hs⟩

/-- Under MinOk the first part of an over-long list is never empty, and the rest still satisfies MinOk. -/
theorem splitPart_minok (cs : List Chunk) (max : Nat) (hm : MinOk max cs) (w rem : List Chunk)
    (h : splitPart cs max = (w, some rem)) : 0 < partLen w ∧ MinOk max rem := by
  obtain ⟨hgt, hgo, _, _, _, h5⟩ := splitPart_some_spec h
  refine ⟨?_, hm.of_rem h5⟩
  cases cs with
  | nil => simp at hgt
  | cons c rest =>
    have hmb : Chunk.minBytes = 12 := rfl
    have hb := Chunk.bytesLen_def c
    by_cases h1 : max < 0 + c.bytesLen
    · by_cases hs : c.isStream = true
      · have h2 : c.isStream ∧ 0 + Chunk.minBytes < max := ⟨hs, by have := hm.1; omega⟩
        have hs' : splitGo max 0 [] (c :: rest) =
            ([] ++ [⟨c.ty, c.data.take (max - 0 - Chunk.minBytes)⟩],
              ⟨c.ty, c.data.drop (max - 0 - Chunk.minBytes)⟩ :: rest) := by
          simp only [splitGo, h1, h2, and_self, if_true]
        rw [hs'] at hgo
        simp only [Prod.mk.injEq] at hgo
        rw [hgo.1]
        simp [Chunk.bytesLen_def]
        omega
      · have hs0 : c.isStream = false := by simpa using hs
        have := hm.2 c (List.mem_cons_self) hs0
        omega
    · have hs' : splitGo max 0 [] (c :: rest) =
          splitGo max (0 + c.bytesLen) ([] ++ [c]) rest := by
        simp only [splitGo, h1, if_false]
      obtain ⟨w'', e1, _⟩ := splitGo_spec max rest (0 + c.bytesLen) ([] ++ [c])
      rw [hs'] at hgo
      rw [← hgo] at e1
      simp only at e1
      rw [e1]
      simp [Chunk.bytesLen_def]
      omega

/-! ### `splitRest` -/

theorem splitRest_succ (max fuel : Nat) (cs : List Chunk) :
    splitRest max (fuel + 1) cs =
      match splitPart cs max with
      | (w, none) => .ok [w]
      | (w, some rem) =>
        if partLen w = 0 then .error .invalidInput
        else match splitRest max fuel rem with
          | .ok ps => .ok (w :: ps)
          | o => o := by
  rw [splitRest]
  rcases splitPart cs max with ⟨w, _ | rem⟩
  · rfl
  · simp only
    split
    · rfl
    · cases splitRest max fuel rem <;> rfl

/-- Whatever `splitRest` returns respects the limit and loses nothing. -/
theorem splitRest_ok_spec (max : Nat) : ∀ (fuel : Nat) (cs : List Chunk) (ps : List (List Chunk)),
    splitRest max fuel cs = .ok ps →
      (∀ p ∈ ps, partLen p ≤ max) ∧ streamView ps.flatten = streamView cs := by
  intro fuel
  induction fuel with
  | zero => intro cs ps h; simp [splitRest] at h
  | succ fuel ih =>
    intro cs ps h
    rw [splitRest_succ] at h
    rcases hsp : splitPart cs max with ⟨w, _ | rem⟩
    · rw [hsp] at h
      simp only [Outcome.ok.injEq] at h
      subst h
      have h1 := splitPart_first_le cs max
      have h2 := splitPart_lossless cs max
      rw [hsp] at h1 h2
      simp only [Option.getD_none, List.append_nil] at h1 h2
      constructor
      · intro p hp
        simp only [List.mem_singleton] at hp
        subst hp; exact h1
      · simpa using h2
    · rw [hsp] at h
      simp only at h
      by_cases hw : partLen w = 0
      · simp [hw] at h
      · simp only [hw, if_false] at h
        cases hr : splitRest max fuel rem with
        | ok qs =>
          rw [hr] at h
          simp only [Outcome.ok.injEq] at h
          subst h
          obtain ⟨i1, i2⟩ := ih rem qs hr
          obtain ⟨_, _, s3, s4, _, _⟩ := splitPart_some_spec hsp
          constructor
          · intro p hp
            simp only [List.mem_cons] at hp
            rcases hp with rfl | hp
            · exact s3
            · exact i1 p hp
          · rw [List.flatten_cons, streamView_congr_right w i2, s4]
        | error e => rw [hr] at h; simp at h
        | panic s => rw [hr] at h; simp at h

theorem splitRest_fuel (max : Nat) : ∀ (fuel : Nat) (cs : List Chunk), partLen cs < fuel →
    ∀ s, splitRest max fuel cs ≠ .panic s := by
  intro fuel
  induction fuel with
  | zero => intro cs h; omega
  | succ fuel ih =>
    intro cs hf s h
    rw [splitRest_succ] at h
    rcases hsp : splitPart cs max with ⟨w, _ | rem⟩
    · rw [hsp] at h; simp at h
    · rw [hsp] at h
      simp only at h
      by_cases hw : partLen w = 0
      · simp [hw] at h
      · simp only [hw, if_false] at h
        have hp := splitPart_progress cs max w rem hsp (by omega)
        cases hr : splitRest max fuel rem with
        | ok qs => rw [hr] at h; simp at h
        | error e => rw [hr] at h; simp at h
        | panic s' =>
          exact ih rem (by omega) s' hr

theorem splitRest_error_kind (max : Nat) : ∀ (fuel : Nat) (cs : List Chunk) (e : Err),
    splitRest max fuel cs = .error e → e = .invalidInput := by
  intro fuel
  induction fuel with
  | zero => intro cs e h; simp [splitRest] at h
  | succ fuel ih =>
    intro cs e h
    rw [splitRest_succ] at h
    rcases hsp : splitPart cs max with ⟨w, _ | rem⟩
    · rw [hsp] at h; simp at h
    · rw [hsp] at h
      simp only at h
      by_cases hw : partLen w = 0
      · simp only [hw, if_true, Outcome.error.injEq] at h
        exact h.symm
      · simp only [hw, if_false] at h
        cases hr : splitRest max fuel rem with
        | ok qs => rw [hr] at h; simp at h
        | error e' =>
          rw [hr] at h
          simp only [Outcome.error.injEq] at h
          subst h
          exact ih rem e' hr
        | panic s' => rw [hr] at h; simp at h

theorem splitRest_minok_ne_error (max : Nat) : ∀ (fuel : Nat) (cs : List Chunk), MinOk max cs →
    ∀ e, splitRest max fuel cs ≠ .error e := by
  intro fuel
  induction fuel with
  | zero => intro cs _ e h; simp [splitRest] at h
  | succ fuel ih =>
    intro cs hm e h
    rw [splitRest_succ] at h
    rcases hsp : splitPart cs max with ⟨w, _ | rem⟩
    · rw [hsp] at h; simp at h
    · rw [hsp] at h
      simp only at h
      obtain ⟨hpos, hm'⟩ := splitPart_minok cs max hm w rem hsp
      have hw : ¬ partLen w = 0 := by omega
      simp only [hw, if_false] at h
      cases hr : splitRest max fuel rem with
      | ok qs => rw [hr] at h; simp at h
      | error e' => exact ih rem hm' e' hr
      | panic s' => rw [hr] at h; simp at h

/-- `split_to_parts` (from the 2nd iteration on): with enough fuel it never panics … -/
theorem splitRest_no_panic (max : Nat) (cs : List Chunk) (s : String) : splitRest max (partLen cs + 1) cs ≠ .panic s :=
  splitRest_fuel max _ cs (by omega) s

/-- … under MinOk it succeeds, every piece respects the limit, and nothing is lost; -/
theorem splitRest_ok (max : Nat) (cs : List Chunk) (hm : MinOk max cs) :
    ∃ ps, splitRest max (partLen cs + 1) cs = .ok ps ∧ (∀ p ∈ ps, partLen p ≤ max) ∧ streamView ps.flatten = streamView cs := by
  cases hr : splitRest max (partLen cs + 1) cs with
  | ok ps => exact ⟨ps, rfl, splitRest_ok_spec max _ cs ps hr⟩
  | error e => exact absurd hr (splitRest_minok_ne_error max _ cs hm e)
  | panic s => exact absurd hr (splitRest_no_panic max cs s)

/-- … and it fails (InvalidInput, never a loop) only when MinOk does not hold. -/
theorem splitRest_error (max : Nat) (cs : List Chunk) (e : Err) (h : splitRest max (partLen cs + 1) cs = .error e) :
    e = .invalidInput ∧ ¬ MinOk max cs :=
  ⟨splitRest_error_kind max _ cs e h, fun hm => splitRest_minok_ne_error max _ cs hm e h⟩

/-! ### `splitToParts` -/

theorem splitToParts_eq (cs : List Chunk) (first max : Nat) :
    splitToParts cs first max =
      match splitPart cs first with
      | (w, none) => .ok [w]
      | (w, some rem) =>
        if max ≤ first ∧ partLen w = 0 then .error .invalidInput
        else match splitRest max (partLen rem + 1) rem with
          | .ok ps => .ok (w :: ps)
          | o => o := rfl

/-- Whatever `splitToParts` returns: first piece ≤ first, others ≤ max, lossless
    (no hypothesis on the sizes). -/
theorem splitToParts_ok_spec (cs : List Chunk) (first max : Nat) (parts : List (List Chunk))
    (h : splitToParts cs first max = .ok parts) :
    ∃ p ps, parts = p :: ps ∧ partLen p ≤ first ∧ (∀ q ∈ ps, partLen q ≤ max) ∧
      streamView parts.flatten = streamView cs := by
  rw [splitToParts_eq] at h
  rcases hsp : splitPart cs first with ⟨w, _ | rem⟩
  · rw [hsp] at h
    simp only [Outcome.ok.injEq] at h
    subst h
    have h1 := splitPart_first_le cs first
    have h2 := splitPart_lossless cs first
    rw [hsp] at h1 h2
    simp only [Option.getD_none, List.append_nil] at h1 h2
    exact ⟨w, [], rfl, h1, by simp, by simpa using h2⟩
  · rw [hsp] at h
    simp only at h
    by_cases hc : max ≤ first ∧ partLen w = 0
    · simp [hc] at h
    · simp only [hc, if_false] at h
      cases hr : splitRest max (partLen rem + 1) rem with
      | ok qs =>
        rw [hr] at h
        simp only [Outcome.ok.injEq] at h
        subst h
        obtain ⟨i1, i2⟩ := splitRest_ok_spec max _ rem qs hr
        obtain ⟨_, _, s3, s4, _, _⟩ := splitPart_some_spec hsp
        refine ⟨w, qs, rfl, s3, i1, ?_⟩
        rw [List.flatten_cons, streamView_congr_right w i2, s4]
      | error e => rw [hr] at h; simp at h
      | panic s => rw [hr] at h; simp at h

theorem splitToParts_no_panic (cs : List Chunk) (first max : Nat) (s : String) : splitToParts cs first max ≠ .panic s := by
  intro h
  rw [splitToParts_eq] at h
  rcases hsp : splitPart cs first with ⟨w, _ | rem⟩
  · rw [hsp] at h; simp at h
  · rw [hsp] at h
    simp only at h
    by_cases hc : max ≤ first ∧ partLen w = 0
    · simp [hc] at h
    · simp only [hc, if_false] at h
      cases hr : splitRest max (partLen rem + 1) rem with
      | ok qs => rw [hr] at h; simp at h
      | error e => rw [hr] at h; simp at h
      | panic s' => exact splitRest_no_panic max rem s' hr

theorem splitToParts_error_kind (cs : List Chunk) (first max : Nat) (e : Err)
    (h : splitToParts cs first max = .error e) : e = .invalidInput := by
  rw [splitToParts_eq] at h
  rcases hsp : splitPart cs first with ⟨w, _ | rem⟩
  · rw [hsp] at h; simp at h
  · rw [hsp] at h
    simp only at h
    by_cases hc : max ≤ first ∧ partLen w = 0
    · simp only [hc, and_self, if_true, Outcome.error.injEq] at h
      exact h.symm
    · simp only [hc, if_false] at h
      cases hr : splitRest max (partLen rem + 1) rem with
      | ok qs => rw [hr] at h; simp at h
      | error e' =>
        rw [hr] at h
        simp only [Outcome.error.injEq] at h
        subst h
        exact splitRest_error_kind max _ rem e' hr
      | panic s' => rw [hr] at h; simp at h

theorem splitToParts_minok_ne_error (cs : List Chunk) (first max : Nat) (hf : first ≤ max)
    (hm : MinOk max cs) (e : Err) : splitToParts cs first max ≠ .error e := by
  intro h
  rw [splitToParts_eq] at h
  rcases hsp : splitPart cs first with ⟨w, _ | rem⟩
  · rw [hsp] at h; simp at h
  · rw [hsp] at h
    simp only at h
    obtain ⟨_, _, _, _, _, s6⟩ := splitPart_some_spec hsp
    have hm' : MinOk max rem := hm.of_rem s6
    by_cases hc : max ≤ first ∧ partLen w = 0
    · have hfm : first = max := by omega
      subst hfm
      have := (splitPart_minok cs first hm w rem hsp).1
      omega
    · simp only [hc, if_false] at h
      cases hr : splitRest max (partLen rem + 1) rem with
      | ok qs => rw [hr] at h; simp at h
      | error e' => exact splitRest_minok_ne_error max _ rem hm' e' hr
      | panic s' => rw [hr] at h; simp at h

/-- `split_to_parts(entry, first, max)` with `first ≤ max`: first piece ≤ first, others ≤ max, lossless. -/
theorem splitToParts_ok (cs : List Chunk) (first max : Nat) (hf : first ≤ max) (hm : MinOk max cs) :
    ∃ p ps, splitToParts cs first max = .ok (p :: ps) ∧ partLen p ≤ first ∧ (∀ q ∈ ps, partLen q ≤ max) ∧
      streamView (p :: ps).flatten = streamView cs := by
  cases hr : splitToParts cs first max with
  | ok parts =>
    obtain ⟨p, ps, rfl, h1, h2, h3⟩ := splitToParts_ok_spec cs first max parts hr
    exact ⟨p, ps, rfl, h1, h2, h3⟩
  | error e => exact absurd hr (splitToParts_minok_ne_error cs first max hf hm e)
  | panic s => exact absurd hr (splitToParts_no_panic cs first max s)

theorem splitToParts_error (cs : List Chunk) (first max : Nat) (hf : first ≤ max) (e : Err)
    (h : splitToParts cs first max = .error e) : e = .invalidInput ∧ ¬ MinOk max cs :=
  ⟨splitToParts_error_kind cs first max e h,
    fun hm => splitToParts_minok_ne_error cs first max hf hm e h⟩

/-! ### `placeParts` / `splitEntries` / `writeSplit` -/

/-- All chunks written so far, in order. -/
def SplitAcc.flat (a : SplitAcc) : List Chunk := a.closed.flatten ++ a.cur

/-- Invariant of the accumulator: `written` is the size of the open body, which respects the
    limit, as do all closed bodies. -/
structure AccInv (M : Nat) (a : SplitAcc) : Prop where
  written_eq : a.written = partLen a.cur
  written_le : a.written ≤ M
  closed_le : ∀ b ∈ a.closed, partLen b ≤ M

theorem placeParts_cons (M : Nat) (a : SplitAcc) (p : List Chunk) (ps : List (List Chunk)) :
    placeParts M a (p :: ps) =
      if a.written + partLen p > M then
        placeParts M { closed := a.closed ++ [a.cur], cur := [] ++ p, written := 0 + partLen p } ps
      else placeParts M { closed := a.closed, cur := a.cur ++ p, written := a.written + partLen p } ps := by
  rw [placeParts]
  split <;> rfl

theorem placeParts_inv (M : Nat) : ∀ (parts : List (List Chunk)) (a : SplitAcc), AccInv M a →
    (∀ p ∈ parts, partLen p ≤ M) → AccInv M (placeParts M a parts) := by
  intro parts
  induction parts with
  | nil => intro a ha _; exact ha
  | cons p ps ih =>
    intro a ha hp
    have hpM : partLen p ≤ M := hp p List.mem_cons_self
    have hps : ∀ q ∈ ps, partLen q ≤ M := fun q hq => hp q (List.mem_cons_of_mem _ hq)
    rw [placeParts_cons]
    split
    · apply ih _ _ hps
      refine ⟨by simp, by simpa using hpM, ?_⟩
      intro b hb
      simp only [List.mem_append, List.mem_singleton] at hb
      rcases hb with hb | rfl
      · exact ha.closed_le b hb
      · have := ha.written_eq; have := ha.written_le; omega
    · rename_i hfit
      apply ih _ _ hps
      refine ⟨by simp [ha.written_eq], by simp only; omega, ha.closed_le⟩

theorem placeParts_flat (M : Nat) : ∀ (parts : List (List Chunk)) (a : SplitAcc),
    (placeParts M a parts).flat = a.flat ++ parts.flatten := by
  intro parts
  induction parts with
  | nil => intro a; simp [placeParts]
  | cons p ps ih =>
    intro a
    rw [placeParts_cons]
    split
    · rw [ih]; simp [SplitAcc.flat]
    · rw [ih]; simp [SplitAcc.flat]

theorem splitEntries_cons (M : Nat) (a : SplitAcc) (e : List Chunk) (es : List (List Chunk)) :
    splitEntries M a (e :: es) =
      match splitToParts e (M - a.written) M with
      | .ok parts => splitEntries M (placeParts M a parts) es
      | .error err => .error err
      | .panic s => .panic s := by
  rw [splitEntries]
  cases splitToParts e (M - a.written) M <;> rfl

theorem splitEntries_ok_spec (M : Nat) : ∀ (es : List (List Chunk)) (a a' : SplitAcc), AccInv M a →
    splitEntries M a es = .ok a' →
      AccInv M a' ∧ streamView a'.flat = streamView (a.flat ++ es.flatten) := by
  intro es
  induction es with
  | nil =>
    intro a a' ha h
    simp only [splitEntries, Outcome.ok.injEq] at h
    subst h
    exact ⟨ha, by simp⟩
  | cons e es ih =>
    intro a a' ha h
    rw [splitEntries_cons] at h
    cases hr : splitToParts e (M - a.written) M with
    | ok parts =>
      rw [hr] at h
      simp only at h
      obtain ⟨p, ps, hpp, h1, h2, h3⟩ := splitToParts_ok_spec e (M - a.written) M parts hr
      have hall : ∀ q ∈ parts, partLen q ≤ M := by
        intro q hq
        rw [hpp] at hq
        simp only [List.mem_cons] at hq
        rcases hq with rfl | hq
        · omega
        · exact h2 q hq
      obtain ⟨i1, i2⟩ := ih _ a' (placeParts_inv M parts a ha hall) h
      refine ⟨i1, ?_⟩
      rw [i2, placeParts_flat, List.flatten_cons, List.append_assoc]
      exact streamView_congr_right _ (streamView_congr_left _ h3)
    | error err => rw [hr] at h; simp at h
    | panic s => rw [hr] at h; simp at h

theorem splitEntries_no_panic (M : Nat) : ∀ (es : List (List Chunk)) (a : SplitAcc) (s : String),
    splitEntries M a es ≠ .panic s := by
  intro es
  induction es with
  | nil => intro a s h; simp [splitEntries] at h
  | cons e es ih =>
    intro a s h
    rw [splitEntries_cons] at h
    cases hr : splitToParts e (M - a.written) M with
    | ok parts => rw [hr] at h; exact ih _ s h
    | error err => rw [hr] at h; simp at h
    | panic s' => exact splitToParts_no_panic _ _ _ s' hr

theorem splitEntries_error (M : Nat) : ∀ (es : List (List Chunk)) (a : SplitAcc) (err : Err),
    splitEntries M a es = .error err → err = .invalidInput ∧ ∃ e ∈ es, ¬ MinOk M e := by
  intro es
  induction es with
  | nil => intro a err h; simp [splitEntries] at h
  | cons e es ih =>
    intro a err h
    rw [splitEntries_cons] at h
    cases hr : splitToParts e (M - a.written) M with
    | ok parts =>
      rw [hr] at h
      obtain ⟨h1, x, hx, hx'⟩ := ih _ err h
      exact ⟨h1, x, List.mem_cons_of_mem _ hx, hx'⟩
    | error err' =>
      rw [hr] at h
      simp only [Outcome.error.injEq] at h
      subst h
      obtain ⟨h1, h2⟩ := splitToParts_error e (M - a.written) M (Nat.sub_le _ _) err' hr
      exact ⟨h1, e, List.mem_cons_self, h2⟩
    | panic s' => rw [hr] at h; simp at h

theorem MinOk.of_flatten {M : Nat} {es : List (List Chunk)} (hm : MinOk M es.flatten) :
    ∀ e ∈ es, MinOk M e :=
  fun e he => ⟨hm.1, fun c hc hs => hm.2 c (List.mem_flatten.mpr ⟨e, he, hc⟩) hs⟩

theorem writeSplit_eq (entries : List (List Chunk)) (maxFile : Nat) :
    writeSplit entries maxFile =
      if maxFile < splitOverhead then .error .invalidInput
      else
        match splitEntries (maxFile - splitOverhead) {} entries with
        | .ok a => .ok (a.closed ++ [a.cur])
        | .error e => .error e
        | .panic s => .panic s := rfl

theorem accInv_empty (M : Nat) : AccInv M {} := ⟨rfl, Nat.zero_le _, by simp⟩

/-- What a successful `writeSplit` looks like. -/
theorem writeSplit_ok_spec (entries : List (List Chunk)) (maxFile : Nat) (bodies : List (List Chunk))
    (h : writeSplit entries maxFile = .ok bodies) :
    splitOverhead ≤ maxFile ∧ ∃ a, AccInv (maxFile - splitOverhead) a ∧ bodies = a.closed ++ [a.cur] ∧
      streamView a.flat = streamView entries.flatten := by
  rw [writeSplit_eq] at h
  by_cases hlt : maxFile < splitOverhead
  · simp [hlt] at h
  · simp only [hlt, if_false] at h
    cases hr : splitEntries (maxFile - splitOverhead) {} entries with
    | ok a =>
      rw [hr] at h
      simp only [Outcome.ok.injEq] at h
      obtain ⟨i1, i2⟩ := splitEntries_ok_spec _ entries {} a (accInv_empty _) hr
      refine ⟨by omega, a, i1, h.symm, ?_⟩
      simpa [SplitAcc.flat] using i2
    | error e => rw [hr] at h; simp at h
    | panic s => rw [hr] at h; simp at h

/-- **Size limit.** Every part file produced is at most `maxFile` bytes long. -/
theorem writeSplit_sizes (entries : List (List Chunk)) (maxFile : Nat) (bodies : List (List Chunk))
    (h : writeSplit entries maxFile = .ok bodies) :
    ∀ b ∈ bodies, partLen b + splitOverhead ≤ maxFile := by
  obtain ⟨h1, a, ha, rfl, _⟩ := writeSplit_ok_spec entries maxFile bodies h
  intro b hb
  simp only [List.mem_append, List.mem_singleton] at hb
  rcases hb with hb | rfl
  · have := ha.closed_le b hb; omega
  · have := ha.written_eq; have := ha.written_le; omega

theorem flatMap_encode_length (body : List Chunk) :
    (body.flatMap Chunk.encode).length = partLen body := by
  induction body with
  | nil => rfl
  | cons c cs ih =>
    simp only [List.flatMap_cons, List.length_append, ih, partLen_cons, Chunk.encode_length,
      Chunk.bytesLen_def]

theorem encodePartFile_length (i n : Nat) (body : List Chunk) :
    (encodePartFile i n body).length = partLen body + (if i + 1 < n then splitOverhead else splitOverhead - 12) := by
  have hsig : signature.length = 8 := rfl
  have hah : (encAHED ⟨0, 0, i⟩).length = 8 := by simp [encAHED]
  have hov : splitOverhead = 52 := rfl
  unfold encodePartFile
  simp only [List.length_append, Chunk.encode_length, flatMap_encode_length, hsig, hah, hov]
  split
  · simp [Chunk.encode_length]; omega
  · simp; omega

/-- **Nothing lost.** The concatenated part bodies are the original chunk sequence up to the cutting of data chunks. -/
theorem writeSplit_lossless (entries : List (List Chunk)) (maxFile : Nat) (bodies : List (List Chunk))
    (h : writeSplit entries maxFile = .ok bodies) : streamView bodies.flatten = streamView entries.flatten := by
  obtain ⟨_, a, _, rfl, hl⟩ := writeSplit_ok_spec entries maxFile bodies h
  simpa [SplitAcc.flat] using hl

/-- **Termination / rejection.** Never a panic (no underflow, fuel suffices); success whenever the
    maximum can hold the overhead and every indivisible chunk; an error is InvalidInput and means it cannot. -/
theorem writeSplit_no_panic (entries : List (List Chunk)) (maxFile : Nat) (s : String) : writeSplit entries maxFile ≠ .panic s := by
  intro h
  rw [writeSplit_eq] at h
  by_cases hlt : maxFile < splitOverhead
  · simp [hlt] at h
  · simp only [hlt, if_false] at h
    cases hr : splitEntries (maxFile - splitOverhead) {} entries with
    | ok a => rw [hr] at h; simp at h
    | error e => rw [hr] at h; simp at h
    | panic s' => exact splitEntries_no_panic _ _ _ s' hr

theorem writeSplit_error (entries : List (List Chunk)) (maxFile : Nat) (e : Err) (h : writeSplit entries maxFile = .error e) :
    e = .invalidInput ∧ (maxFile < splitOverhead ∨ ¬ MinOk (maxFile - splitOverhead) entries.flatten) := by
  rw [writeSplit_eq] at h
  by_cases hlt : maxFile < splitOverhead
  · simp only [hlt, if_true, Outcome.error.injEq] at h
    exact ⟨h.symm, Or.inl hlt⟩
  · simp only [hlt, if_false] at h
    cases hr : splitEntries (maxFile - splitOverhead) {} entries with
    | ok a => rw [hr] at h; simp at h
    | error e' =>
      rw [hr] at h
      simp only [Outcome.error.injEq] at h
      subst h
      obtain ⟨h1, x, hx, hx'⟩ := splitEntries_error _ _ _ e' hr
      exact ⟨h1, Or.inr (fun hm => hx' (hm.of_flatten x hx))⟩
    | panic s' => rw [hr] at h; simp at h

theorem writeSplit_ok (entries : List (List Chunk)) (maxFile : Nat) (h1 : splitOverhead ≤ maxFile)
    (hm : MinOk (maxFile - splitOverhead) entries.flatten) : ∃ bodies, writeSplit entries maxFile = .ok bodies := by
  cases hr : writeSplit entries maxFile with
  | ok bodies => exact ⟨bodies, rfl⟩
  | error e =>
    rcases (writeSplit_error entries maxFile e hr).2 with hlt | hn
    · omega
    · exact absurd hm hn
  | panic s => exact absurd hr (writeSplit_no_panic entries maxFile s)

end Pna
