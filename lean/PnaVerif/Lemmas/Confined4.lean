import PnaVerif.Lemmas.Confined3
import PnaVerif.Lemmas.ConfinedStr
/-!
# Confinement (4): what `isLinkAt` / `ensure_confined` establish
-/
namespace Pna.Confined
open Pna Pna.Fs Pna.Cli

/-- `isLinkAt s = false` for a `..`-free path below `O`: there is no link at the lexical path
    (if an ancestor is missing the object does not exist; fuel suffices by the depth bound) -/
theorem isLinkAt_false {fs : Fs} {cwd : Path} {d s : Bytes} {cs : List Bytes}
    (hd : d ≠ [dot, dot]) (habs : isAbs s = false) (hcomps : comps s = d :: cs)
    (hs : Sane fs (cwd ++ [d])) (hdd : [dot, dot] ∉ cs) (h : isLinkAt fs cwd s = false) :
    NotLink fs (cwd ++ [d] ++ cs) := by
  intro t ht
  have hne : cwd ++ [d] ++ cs ≠ [] := by simp
  have hm := lookup_mem hne ht
  have hdep := depth_le hs.closed hm
  have hres := resolve_existing hs.closed cs (cwd ++ [d]) (39 + 8 * fs.nodes.length) (by rw [ht]; rfl) hdd
    (by simp at hdep; omega)
  unfold isLinkAt at h
  simp only [habs, hcomps, fuelFor_succ, Bool.false_eq_true, if_false] at h
  rw [resolve_step_dir hd hs.odir, hres] at h
  simp only [ht] at h
  cases h

/-- `isLinkAt s = true`: there is a link at the lexical path, the parent walk being link-free -/
theorem isLinkAt_true {fs : Fs} {cwd : Path} {d s : Bytes} {cs : List Bytes} {c : Bytes}
    (hd : d ≠ [dot, dot]) (hc : c ≠ [dot, dot]) (habs : isAbs s = false) (hcomps : comps s = d :: (cs ++ [c]))
    (hs : Sane fs (cwd ++ [d])) (hl : LexOk fs (cwd ++ [d]) [] cs) (h : isLinkAt fs cwd s = true) :
    ∃ t, fs.lookup (cwd ++ [d] ++ lexEnd [] cs ++ [c]) = some (.link t) := by
  unfold isLinkAt at h
  split at h
  · rename_i p hr
    have hp := resolve_confined_last hd hc habs hcomps hs hl hr
    split at h
    · rename_i t ht; exact ⟨t, by rw [← hp]; exact ht⟩
    · cases h
  · cases h

/-- the loop of `ensure_confined` establishes `LexOk` -/
theorem confinedGo_lexOk {fs : Fs} {cwd : Path} {outDir d : Bytes} (ho : OutDir outDir d)
    (hs : Sane fs (cwd ++ [d])) : ∀ (cs w : List Bytes), (∀ c ∈ w, GoodC c) → (∀ c ∈ cs, GoodC c) →
    [dot, dot] ∉ w → confinedGo fs cwd outDir w cs = true → LexOk fs (cwd ++ [d]) w cs := by
  intro cs
  induction cs with
  | nil => intro w _ _ _ _; trivial
  | cons c r ih =>
    intro w hw hcs hdd h
    have hr : ∀ x ∈ r, GoodC x := fun x hx => hcs x (by simp [hx])
    unfold confinedGo at h
    unfold LexOk
    split at h
    · rename_i hc
      rw [if_pos hc]
      split at h
      · cases h
      · rename_i hwn
        exact ⟨hwn, ih _ (fun x hx => hw x ((List.dropLast_subset _) hx)) hr
          (fun hx => hdd ((List.dropLast_subset _) hx)) h⟩
    · rename_i hc
      rw [if_neg hc]
      have hw' : ∀ x ∈ w ++ [c], GoodC x := by
        intro x hx
        rcases List.mem_append.1 hx with hx | hx
        · exact hw x hx
        · simp at hx; subst hx; exact hcs x (by simp)
      have hdd' : [dot, dot] ∉ w ++ [c] := by
        intro hx
        rcases List.mem_append.1 hx with hx | hx
        · exact hdd hx
        · simp at hx; exact hc hx.symm
      dsimp only at h
      split at h
      · cases h
      · rename_i hlink
        have hx1 : isAbs (joinSlash (w ++ [c])) = false :=
          isAbs_joinSlash _ (fun x hx => ⟨(hw' x hx).1, (hw' x hx).2.2⟩)
        have ⟨ha, hc2⟩ := ho.comps_join (joinSlash (w ++ [c])) hx1
        rw [comps_joinSlash _ hw'] at hc2
        have hnl := isLinkAt_false ho.nodd ha hc2 hs hdd' (by simpa using hlink)
        exact ⟨hnl, ih _ hw' hr hdd' h⟩

/-- `ensure_confined(outDir, rel) = true`: `rel` is relative and its lexical walk below `O` is link-free -/
theorem confined_lexOk {fs : Fs} {cwd : Path} {outDir d rel : Bytes} (ho : OutDir outDir d)
    (hs : Sane fs (cwd ++ [d])) (h : confined fs cwd outDir rel = true) :
    isAbs rel = false ∧ LexOk fs (cwd ++ [d]) [] (comps rel) := by
  unfold confined at h
  split at h
  · cases h
  · rename_i ha
    exact ⟨by simpa using ha, confinedGo_lexOk ho hs _ [] (by simp) (comps_good rel) (by simp) h⟩

end Pna.Confined
