import PnaVerif.Lemmas.Compose4
/-!
# C02 composition (5): from the loop invariant to `expectedTree`
-/
namespace Pna.Compose
open Pna Pna.Fs Pna.Cli Pna.Confined

theorem restored_path {o : CXOpts} {n : TNode} (hc : Clean n.path) : (restoredNode o n).path = n.path := hc.san

/-- members of `impliedDirs xs`: directories named by a proper ancestor of some `x ∈ xs`, not in `xs` -/
theorem mem_impliedDirs (xs : List XNode) (x : XNode) :
    x ∈ impliedDirs xs ↔ x = ⟨x.path, 1, [], none, none⟩ ∧ (∃ y ∈ xs, x.path ∈ ancestors y.path) ∧
      ∀ y ∈ xs, y.path ≠ x.path := by
  unfold impliedDirs
  simp only [List.mem_map, List.mem_filter, List.mem_eraseDups, List.mem_flatMap, Bool.not_eq_true',
    List.any_eq_false, beq_iff_eq]
  constructor
  · rintro ⟨a, ⟨hy, hno⟩, rfl⟩
    exact ⟨rfl, hy, hno⟩
  · rintro ⟨hx, hy, hno⟩
    exact ⟨x.path, ⟨hy, hno⟩, hx.symm⟩

section
variable {O : Path} {F : Nat} {fs : Fs} {o : CXOpts} {t : List TNode}

theorem archived_mem {n : TNode} (h : n ∈ archived o t) : n ∈ t := (List.mem_filter.1 h).1

/-- every expected object is there -/
theorem inv_complete (hT : TreeOK t) (hinv : Inv O F fs (archived o t)) :
    ∀ x ∈ expectedTree o t, objAt fs O x := by
  intro x hx
  unfold expectedTree at hx
  rcases List.mem_append.1 hx with hx | hx
  · obtain ⟨n, hn, rfl⟩ := List.mem_map.1 hx
    have hc := hT.clean (archived_mem hn)
    have hp := hinv.pres n hn
    unfold objAt
    rw [restored_path hc]
    show nodeIs fs (O ++ pcs n) n.kind (if n.kind = 1 then [] else n.content)
    by_cases h : n.kind = 1
    · rw [h] at hp ⊢; exact hp
    · rw [if_neg h]; exact hp
  · obtain ⟨hx1, ⟨y, hy, hanc⟩, _⟩ := (mem_impliedDirs _ x).1 hx
    obtain ⟨n, hn, rfl⟩ := List.mem_map.1 hy
    have hc := hT.clean (archived_mem hn)
    rw [restored_path hc] at hanc
    obtain ⟨q, hq, hqa⟩ := (mem_ancestors _ _).1 hanc
    have hsp : splitSlash x.path = q := by rw [hqa]; exact split_join_norm q hq.1 (hq.norm hc.norm)
    unfold objAt
    rw [hsp, hx1]
    show fs.lookup (O ++ q) = some .dir
    exact anc_dir hinv.sane.closed (nodeIs_isSome (hinv.pres n hn)) ((List.prefix_append_right_inj O).2 hq.2.1)
      (fun e => hq.2.2 (List.append_cancel_left e))
/-- nothing else is there -/
theorem inv_nothing_else (hT : TreeOK t) (hinv : Inv O F fs (archived o t)) :
    ∀ p, Inside O p → p ≠ O → fs.lookup p ≠ none → ∃ x ∈ expectedTree o t, p = O ++ splitSlash x.path := by
  intro p hin hne hl
  obtain ⟨w, rfl⟩ := hin
  have hw : w ≠ [] := by intro e; rw [e, List.append_nil] at hne; exact hne rfl
  obtain ⟨n, hn, hwn⟩ := hinv.only w hw hl
  have hc := hT.clean (archived_mem hn)
  have hmem : restoredNode o n ∈ (archived o t).map (restoredNode o) := List.mem_map.2 ⟨n, hn, rfl⟩
  by_cases e : w = pcs n
  · refine ⟨restoredNode o n, ?_, by rw [restored_path hc, e]⟩
    unfold expectedTree
    exact List.mem_append_left _ hmem
  · have hq : PProper w (pcs n) := ⟨hw, hwn, e⟩
    have hsp : splitSlash (joinSlash w) = w := split_join_norm w hw (hq.norm hc.norm)
    have hanc : joinSlash w ∈ ancestors (restoredNode o n).path := by
      rw [restored_path hc]; exact (mem_ancestors _ _).2 ⟨w, hq, rfl⟩
    by_cases hx : ∃ y ∈ (archived o t).map (restoredNode o), y.path = joinSlash w
    · obtain ⟨y, hy, hyp⟩ := hx
      refine ⟨y, ?_, by rw [hyp, hsp]⟩
      unfold expectedTree
      exact List.mem_append_left _ hy
    · refine ⟨⟨joinSlash w, 1, [], none, none⟩, ?_, by rw [hsp]⟩
      unfold expectedTree
      apply List.mem_append_right
      exact (mem_impliedDirs _ _).2 ⟨rfl, ⟨_, hmem, hanc⟩, fun y hy hyp => hx ⟨y, hy, hyp⟩⟩

/-- distinct regular files of the result have distinct inodes (no accidental sharing of content) -/
theorem inv_files_distinct (hT : TreeOK t) (hinv : Inv O F fs (archived o t)) :
    ∀ x ∈ expectedTree o t, ∀ y ∈ expectedTree o t, x.kind = 0 → y.kind = 0 → x.path ≠ y.path →
    ∀ i j, fs.lookup (O ++ splitSlash x.path) = some (.file i) → fs.lookup (O ++ splitSlash y.path) = some (.file j) →
      i ≠ j := by
  have hclean : ∀ x ∈ expectedTree o t, x.kind = 0 → Clean x.path := by
    intro x hx hk
    unfold expectedTree at hx
    rcases List.mem_append.1 hx with hx | hx
    · obtain ⟨n, hn, rfl⟩ := List.mem_map.1 hx
      have hc := hT.clean (archived_mem hn)
      rw [restored_path hc]; exact hc
    · have := ((mem_impliedDirs _ x).1 hx).1
      rw [this] at hk; cases hk
  intro x hx y hy hkx hky hne i j hi hj e
  subst e
  have := hinv.uniq _ _ i hi hj
  apply hne
  rw [← (hclean x hx hkx).join, ← (hclean y hy hky).join, this]

end

/-- walk order already implies that ancestors are directory nodes (a cheaper way to check `TreeOK`) -/
theorem treeOK_of_parentsFirst {t : List TNode}
    (h1 : ∀ n ∈ t, n.kind ≤ 2 ∧ n.path ≠ [] ∧ sanitize n.path = n.path)
    (h2 : (t.map (·.path)).Nodup) (h4 : ParentsFirst t) : TreeOK t := by
  refine ⟨h1, h2, fun n hn a ha => ?_, h4⟩
  obtain ⟨i, hi, rfl⟩ := List.getElem_of_mem hn
  obtain ⟨m, hm, hk⟩ := h4 i hi a ha
  exact ⟨m, List.mem_of_mem_take hm, hk⟩

end Pna.Compose
