import PnaVerif.Model.Cipher
import PnaVerif.Lemmas.Chunk
/-! CTR stream cipher layer: the keystream is applied position-wise, so the writer is insensitive
    to the partition into `write` calls and the reader to buffer sizes and short reads. -/
namespace Pna

/-- the indexed map only depends on `pos + start index` -/
theorem ctrApply_aux_shift (P : BlockPerm) (k iv : Bytes) (d : Bytes) (pos i pos' i' : Nat)
    (h : pos + i = pos' + i') :
    (d.zipIdx i).map (fun (b, j) => b ^^^ ctrKeystream P k iv (pos + j))
      = (d.zipIdx i').map (fun (b, j) => b ^^^ ctrKeystream P k iv (pos' + j)) := by
  induction d generalizing i i' with
  | nil => simp only [List.zipIdx_nil, List.map_nil]
  | cons b d ih =>
    rw [List.zipIdx_cons, List.zipIdx_cons, List.map_cons, List.map_cons]
    have ht := ih (i + 1) (i' + 1) (by omega)
    rw [ht]
    show (b ^^^ ctrKeystream P k iv (pos + i)) :: _ = (b ^^^ ctrKeystream P k iv (pos' + i')) :: _
    rw [h]

theorem ctrApply_nil (P : BlockPerm) (k iv : Bytes) (pos : Nat) : ctrApply P k iv pos [] = [] := rfl

/-- characterisation: head byte uses the keystream byte at `pos`, the tail continues at `pos + 1` -/
theorem ctrApply_cons (P : BlockPerm) (k iv : Bytes) (pos : Nat) (b : UInt8) (d : Bytes) :
    ctrApply P k iv pos (b :: d)
      = (b ^^^ ctrKeystream P k iv pos) :: ctrApply P k iv (pos + 1) d := by
  unfold ctrApply
  rw [List.zipIdx_cons, List.map_cons]
  rw [ctrApply_aux_shift P k iv d pos (0 + 1) (pos + 1) 0 (by omega)]
  show (b ^^^ ctrKeystream P k iv (pos + 0)) :: _ = _
  rw [Nat.add_zero]

theorem ctrApply_length (P : BlockPerm) (k iv : Bytes) (pos : Nat) (d : Bytes) :
    (ctrApply P k iv pos d).length = d.length := by
  induction d generalizing pos with
  | nil => rfl
  | cons b d ih => rw [ctrApply_cons, List.length_cons, List.length_cons, ih]

/-- applying the keystream at consecutive positions = applying it once to the concatenation -/
theorem ctrApply_append (P : BlockPerm) (k iv : Bytes) (pos : Nat) (a b : Bytes) :
    ctrApply P k iv pos (a ++ b) = ctrApply P k iv pos a ++ ctrApply P k iv (pos + a.length) b := by
  induction a generalizing pos with
  | nil => rfl
  | cons x a ih =>
    rw [List.cons_append, ctrApply_cons, ctrApply_cons, ih, List.cons_append, List.length_cons]
    have : pos + 1 + a.length = pos + (a.length + 1) := by omega
    rw [this]

theorem UInt8.xor_xor_cancel_right' (b c : UInt8) : b ^^^ c ^^^ c = b := by
  rw [UInt8.xor_assoc, UInt8.xor_self, UInt8.xor_zero]

/-- XOR with the keystream is an involution -/
theorem ctrApply_involutive (P : BlockPerm) (k iv : Bytes) (pos : Nat) (d : Bytes) :
    ctrApply P k iv pos (ctrApply P k iv pos d) = d := by
  induction d generalizing pos with
  | nil => rfl
  | cons b d ih => rw [ctrApply_cons, ctrApply_cons, ih, UInt8.xor_xor_cancel_right']

/-- the keystream application commutes with taking a prefix -/
theorem ctrApply_take (P : BlockPerm) (k iv : Bytes) (pos : Nat) (d : Bytes) (m : Nat) :
    (ctrApply P k iv pos d).take m = ctrApply P k iv pos (d.take m) := by
  induction d generalizing pos m with
  | nil => rw [List.take_nil, ctrApply_nil, List.take_nil]
  | cons b d ih =>
    cases m with
    | zero => rfl
    | succ m => rw [ctrApply_cons, List.take_succ_cons, List.take_succ_cons, ctrApply_cons, ih]

theorem ctrWriterRun_nil (P : BlockPerm) (k iv : Bytes) (pos : Nat) :
    ctrWriterRun P k iv pos [] = [] := rfl

theorem ctrWriterRun_cons (P : BlockPerm) (k iv : Bytes) (pos : Nat) (w : Bytes) (ws : List Bytes) :
    ctrWriterRun P k iv pos (w :: ws)
      = ctrApply P k iv pos w :: ctrWriterRun P k iv (pos + w.length) ws := rfl

/-- the writer's output does not depend on how the plaintext was sliced into write calls -/
theorem ctrWriterRun_flatten (P : BlockPerm) (k iv : Bytes) (pos : Nat) (ws : List Bytes) :
    (ctrWriterRun P k iv pos ws).flatten = ctrApply P k iv pos ws.flatten := by
  induction ws generalizing pos with
  | nil => rfl
  | cons w ws ih =>
    rw [ctrWriterRun_cons, List.flatten_cons, List.flatten_cons, ih, ctrApply_append]

/-- the writer performs exactly one inner write per write call, of the same length -/
theorem ctrWriterRun_lengths (P : BlockPerm) (k iv : Bytes) (pos : Nat) (ws : List Bytes) :
    (ctrWriterRun P k iv pos ws).map List.length = ws.map List.length := by
  induction ws generalizing pos with
  | nil => rfl
  | cons w ws ih =>
    rw [ctrWriterRun_cons, List.map_cons, List.map_cons, ih, ctrApply_length]

/-- the per-call limit of the reader model -/
def CtrR.lim (n : Nat) (cuts : List Nat) : Nat :=
  match cuts with | [] => n | c :: _ => min n (max c 1)

theorem CtrR.run_nil (P : BlockPerm) (k iv : Bytes) (s : CtrR) (cuts : List Nat) :
    CtrR.run P k iv s [] cuts = [] := by
  unfold CtrR.run; rfl

theorem CtrR.run_cons (P : BlockPerm) (k iv : Bytes) (s : CtrR) (n : Nat) (ns cuts : List Nat) :
    CtrR.run P k iv s (n :: ns) cuts
      = ctrApply P k iv s.pos (s.inner.take (CtrR.lim n cuts))
        :: CtrR.run P k iv ⟨s.inner.drop (CtrR.lim n cuts),
             s.pos + (s.inner.take (CtrR.lim n cuts)).length⟩ ns cuts.tail := by
  rw [CtrR.run.eq_def]; rfl

/-- the reader's output, for any buffer-size schedule and any short-read pattern of the inner reader,
    is the keystream applied to a prefix of the ciphertext -/
theorem CtrR.run_prefix (P : BlockPerm) (k iv : Bytes) (s : CtrR) (sched cuts : List Nat) :
    ∃ m, (CtrR.run P k iv s sched cuts).flatten = ctrApply P k iv s.pos (s.inner.take m) := by
  induction sched generalizing s cuts with
  | nil => exact ⟨0, by rw [CtrR.run_nil]; rfl⟩
  | cons n ns ih =>
    obtain ⟨m, hm⟩ := ih ⟨s.inner.drop (CtrR.lim n cuts),
      s.pos + (s.inner.take (CtrR.lim n cuts)).length⟩ cuts.tail
    refine ⟨CtrR.lim n cuts + m, ?_⟩
    rw [CtrR.run_cons, List.flatten_cons, hm, List.take_add, ctrApply_append]

/-- round trip: reading what the writer wrote gives a prefix of the plaintext, for all partitions, schedules and cuts -/
theorem ctr_roundtrip_prefix (P : BlockPerm) (k iv : Bytes) (ws : List Bytes) (sched cuts : List Nat) :
    ∃ m, (CtrR.run P k iv ⟨(ctrWriterRun P k iv 0 ws).flatten, 0⟩ sched cuts).flatten
      = ws.flatten.take m := by
  obtain ⟨m, hm⟩ := CtrR.run_prefix P k iv ⟨(ctrWriterRun P k iv 0 ws).flatten, 0⟩ sched cuts
  refine ⟨m, ?_⟩
  rw [hm]
  show ctrApply P k iv 0 ((ctrWriterRun P k iv 0 ws).flatten.take m) = _
  rw [ctrWriterRun_flatten, ctrApply_take, ctrApply_involutive]

end Pna
