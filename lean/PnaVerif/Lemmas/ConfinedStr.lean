import PnaVerif.Model.Cli.Extract
import PnaVerif.Lemmas.Name
/-!
# Confinement (strings): `comps`, `joinP`, `parentP` on byte strings, in terms of component lists
-/
namespace Pna.Confined
open Pna Pna.Fs Pna.Cli

/-- the non-empty components (`.` kept) -/
def ncomps (s : Bytes) : List Bytes := (splitSlash s).filter (· ≠ [])

theorem comps_eq (s : Bytes) : comps s = (ncomps s).filter (fun c => decide (c ≠ [dot])) := by
  unfold comps ncomps
  rw [List.filter_filter]
  apply List.filter_congr
  intro x _
  exact Bool.and_comm _ _

theorem splitSlash_append (a b : Bytes) : splitSlash (a ++ slash :: b) = splitSlash a ++ splitSlash b := by
  induction a with
  | nil => simp [splitSlash]
  | cons h t ih =>
    by_cases hh : h = slash
    · subst hh
      simp only [List.cons_append, splitSlash, if_true]
      rw [ih]
    · obtain ⟨c0, cs0, e0, e1⟩ := splitSlash_cons_ne h t hh
      obtain ⟨c1, cs1, f0, f1⟩ := splitSlash_cons_ne h (t ++ slash :: b) hh
      rw [List.cons_append, f1, e1]
      rw [ih, e0] at f0
      simp only [List.cons_append, List.cons.injEq] at f0
      obtain ⟨rfl, rfl⟩ := f0
      rfl

theorem ncomps_append (a b : Bytes) : ncomps (a ++ slash :: b) = ncomps a ++ ncomps b := by
  unfold ncomps; rw [splitSlash_append, List.filter_append]

theorem ncomps_nil : ncomps [] = [] := by decide

/-- components are non-empty and slash-free -/
def GoodN (c : Bytes) : Prop := c ≠ [] ∧ slash ∉ c

theorem ncomps_good (s : Bytes) : ∀ c ∈ ncomps s, GoodN c := by
  intro c hc
  have := List.mem_filter.1 hc
  exact ⟨by simpa using this.2, splitSlash_no_slash s c this.1⟩

theorem ncomps_joinSlash (cs : List Bytes) (h : ∀ c ∈ cs, GoodN c) : ncomps (joinSlash cs) = cs := by
  by_cases hn : cs = []
  · subst hn; exact ncomps_nil
  · unfold ncomps
    rw [splitSlash_joinSlash cs hn (fun c hc => (h c hc).2)]
    apply List.filter_eq_self.2
    intro c hc
    simpa using (h c hc).1

theorem isAbs_append (a b : Bytes) (ha : a ≠ []) : isAbs (a ++ b) = isAbs a := by
  cases a with
  | nil => exact absurd rfl ha
  | cons x xs => simp [isAbs]

theorem isAbs_joinSlash (cs : List Bytes) (h : ∀ c ∈ cs, GoodN c) : isAbs (joinSlash cs) = false := by
  cases cs with
  | nil => simp [joinSlash, isAbs]
  | cons c cs =>
    have hc := h c (by simp)
    cases hcc : c with
    | nil => exact absurd hcc hc.1
    | cons b rest =>
      have := joinSlash_head c cs b rest hcc
      rw [← hcc]
      unfold isAbs
      rw [this]
      have hb : b ≠ slash := by
        intro e; apply hc.2; rw [hcc, e]; simp
      simpa using hb

theorem isAbs_nil : isAbs [] = false := by simp [isAbs]

/-- `joinP a b` for a relative `b` -/
theorem ncomps_joinP (a b : Bytes) (hb : isAbs b = false) : ncomps (joinP a b) = ncomps a ++ ncomps b := by
  unfold joinP
  simp only [hb, Bool.false_eq_true, if_false]
  split
  · rename_i e; subst e; simp [ncomps_nil]
  · split
    · rename_i e; subst e; simp [ncomps_nil]
    · rw [List.append_assoc]; exact ncomps_append a b

theorem isAbs_joinP (a b : Bytes) (ha : isAbs a = false) (hb : isAbs b = false) : isAbs (joinP a b) = false := by
  unfold joinP
  simp only [hb, Bool.false_eq_true, if_false]
  split
  · exact ha
  · split
    · exact hb
    · rename_i _ hne
      rw [List.append_assoc, isAbs_append a _ hne]; exact ha

theorem joinP_abs (a b : Bytes) (hb : isAbs b = true) : joinP a b = b := by
  unfold joinP; simp [hb]

theorem comps_joinP (a b : Bytes) (hb : isAbs b = false) : comps (joinP a b) = comps a ++ comps b := by
  rw [comps_eq, comps_eq, comps_eq, ncomps_joinP a b hb, List.filter_append]

theorem parentP_eq (s : Bytes) : parentP s =
    (match ncomps s with
      | [] => none
      | cs => some ((if isAbs s then [slash] else []) ++ joinSlash cs.dropLast)) := rfl

/-- `parentP` of a relative string -/
theorem parentP_rel (s : Bytes) (hs : isAbs s = false) :
    isAbs ((parentP s).getD []) = false ∧ ncomps ((parentP s).getD []) = (ncomps s).dropLast := by
  have hgood := ncomps_good s
  rw [parentP_eq]
  generalize ncomps s = N at hgood
  cases N with
  | nil => simp [isAbs_nil, ncomps_nil]
  | cons c cs =>
    have hg : ∀ x ∈ (c :: cs).dropLast, GoodN x := fun x hx => hgood x ((List.dropLast_subset _) hx)
    simp only [hs, Bool.false_eq_true, if_false, List.nil_append, Option.getD_some]
    exact ⟨isAbs_joinSlash _ hg, ncomps_joinSlash _ hg⟩

theorem parentP_abs (s : Bytes) (hs : isAbs s = true) (hn : ncomps s ≠ []) :
    ∃ q, parentP s = some q ∧ isAbs q = true := by
  rw [parentP_eq]
  generalize ncomps s = N at hn
  cases N with
  | nil => exact absurd rfl hn
  | cons c cs => exact ⟨_, rfl, by rw [if_pos hs]; simp [isAbs]⟩

theorem parentP_some_rel (s : Bytes) (hs : isAbs s = false) (hn : ncomps s ≠ []) :
    ∃ q, parentP s = some q ∧ isAbs q = false ∧ ncomps q = (ncomps s).dropLast := by
  have h := parentP_rel s hs
  have : ∃ q, parentP s = some q := by
    rw [parentP_eq]
    generalize ncomps s = N at hn
    cases N with
    | nil => exact absurd rfl hn
    | cons c cs => exact ⟨_, rfl⟩
  obtain ⟨q, hq⟩ := this
  rw [hq] at h
  exact ⟨q, hq, h⟩

/-- the components of a relative string are those of its lexical parent plus at most one -/
theorem comps_parent_tail (x : Bytes) (hx : isAbs x = false) :
    ∃ tl : List Bytes, (tl = [] ∨ ∃ l, tl = [l]) ∧ comps x = comps ((parentP x).getD []) ++ tl := by
  have h := (parentP_rel x hx).2
  rw [comps_eq, comps_eq, h]
  generalize ncomps x = N
  by_cases hN : N = []
  · subst hN; exact ⟨[], Or.inl rfl, by simp⟩
  · refine ⟨[N.getLast hN].filter (fun c => decide (c ≠ [dot])), ?_, ?_⟩
    · by_cases e : N.getLast hN = [dot]
      · left; simp [e]
      · right; exact ⟨N.getLast hN, by simp [e]⟩
    · rw [← List.filter_append, List.dropLast_concat_getLast]

/-- a `comps` component: non-empty, not `.`, slash-free -/
def GoodC (c : Bytes) : Prop := c ≠ [] ∧ c ≠ [dot] ∧ slash ∉ c

theorem comps_good (s : Bytes) : ∀ c ∈ comps s, GoodC c := by
  intro c hc
  rw [comps_eq] at hc
  have h := List.mem_filter.1 hc
  have g := ncomps_good s c h.1
  exact ⟨g.1, by simpa using h.2, g.2⟩

theorem comps_joinSlash (w : List Bytes) (h : ∀ c ∈ w, GoodC c) : comps (joinSlash w) = w := by
  rw [comps_eq, ncomps_joinSlash w (fun c hc => ⟨(h c hc).1, (h c hc).2.2⟩)]
  apply List.filter_eq_self.2
  intro c hc
  simpa using (h c hc).2.1

/-- the output directory is a plain relative name: one component `d`, not `..` -/
structure OutDir (outDir : Bytes) (d : Bytes) : Prop where
  comps : comps outDir = [d]
  nodd : d ≠ [dot, dot]
  rel : isAbs outDir = false

theorem OutDir.comps_join {outDir d : Bytes} (ho : OutDir outDir d) (x : Bytes) (hx : isAbs x = false) :
    isAbs (joinP outDir x) = false ∧ Pna.Fs.comps (joinP outDir x) = d :: Pna.Fs.comps x := by
  refine ⟨isAbs_joinP _ _ ho.rel hx, ?_⟩
  rw [comps_joinP _ _ hx, ho.comps]; rfl

/-- `parentP (outDir/x)` is `outDir/(parentP x)` on components -/
theorem OutDir.parent_join {outDir d : Bytes} (ho : OutDir outDir d) (x : Bytes) (hx : isAbs x = false)
    (hn : ncomps x ≠ []) :
    ∃ q, parentP (joinP outDir x) = some q ∧ isAbs q = false ∧
      Pna.Fs.comps q = d :: Pna.Fs.comps ((parentP x).getD []) := by
  have hj := ncomps_joinP outDir x hx
  have hne : ncomps (joinP outDir x) ≠ [] := by rw [hj]; simp [hn]
  obtain ⟨q, hq, hqa, hqn⟩ := parentP_some_rel _ (isAbs_joinP _ _ ho.rel hx) hne
  refine ⟨q, hq, hqa, ?_⟩
  rw [comps_eq q, hqn, hj, List.dropLast_append_of_ne_nil hn, List.filter_append, ← comps_eq, ho.comps,
    comps_eq ((parentP x).getD []), (parentP_rel x hx).2]
  rfl

theorem ncomps_ne_nil_of_comps {x : Bytes} (h : Pna.Fs.comps x ≠ []) : ncomps x ≠ [] := by
  intro e; rw [comps_eq, e] at h; exact h rfl

end Pna.Confined
