import PnaVerif.Model.Cli.PartName
/-! Lemmas about multipart file names (`Model/Cli/PartName.lean`): `lastDot`/`splitExt` on
    appended lists, `withExtension`, decimal digits, the shape of `withExt` output, the `Good`
    predicate (exactly the names on which renumbering a part is consistent), `splitPath`. -/
namespace Pna.Cli.PartName

-- ---------------------------------------------------------------- lastDot

theorem lastDot_eq_none_iff (s : Str) : lastDot s = none ↔ '.' ∉ s := by
  induction s with
  | nil => simp [lastDot]
  | cons c cs ih =>
    simp only [lastDot]
    cases h : lastDot cs with
    | some i =>
      have : '.' ∈ cs := by
        apply Classical.byContradiction
        intro hn
        rw [ih.mpr hn] at h
        cases h
      simp [this]
    | none =>
      have : '.' ∉ cs := ih.mp h
      by_cases hc : c = '.'
      · simp [hc]
      · simp [hc, this, Ne.symm hc]

theorem lastDot_append_dot (a b : Str) (hb : '.' ∉ b) : lastDot (a ++ '.' :: b) = some a.length := by
  induction a with
  | nil => simp [lastDot, (lastDot_eq_none_iff b).mpr hb]
  | cons c cs ih => simp [lastDot, ih]

theorem lastDot_some {s : Str} {i : Nat} (h : lastDot s = some i) :
    s = s.take i ++ '.' :: s.drop (i + 1) ∧ '.' ∉ s.drop (i + 1) ∧ i < s.length := by
  induction s generalizing i with
  | nil => simp [lastDot] at h
  | cons c cs ih =>
    simp only [lastDot] at h
    cases hl : lastDot cs with
    | some j =>
      rw [hl] at h
      cases h
      have := ih hl
      refine ⟨?_, ?_, ?_⟩
      · simp only [List.take_succ_cons, List.drop_succ_cons, List.cons_append]
        rw [← this.1]
      · simpa using this.2.1
      · simp; exact this.2.2
    | none =>
      simp only [hl] at h
      have hn := (lastDot_eq_none_iff cs).mp hl
      by_cases hc : c = '.'
      · simp only [hc, if_true] at h
        cases h
        simp [hc, hn]
      · simp [hc] at h

end Pna.Cli.PartName
