import PnaVerif.Model.Cli.PartName
/-! Lemmas about multipart file names (`Model/Cli/PartName.lean`): `lastDot`/`splitExt` on
    appended lists, `withExtension`, decimal digits, the predicates `Numbered`/`NotMarked`/`PnaExt`
    (`Good` is trivial since foreign extensions are appended to), the shape of `withExt` output,
    `removeExt` on part names, `splitPath`. -/
namespace Pna.Cli.PartName

-- ---------------------------------------------------------------- lastDot

theorem lastDot_eq_none_iff (s : Str) : lastDot s = none ↔ '.' ∉ s := by
  induction s with
  | nil => simp [lastDot]
  | cons c cs ih =>
    simp only [lastDot]
    cases h : lastDot cs with
    | some i =>
      have : '.' ∈ cs := by
        apply Classical.byContradiction
        intro hn
        rw [ih.mpr hn] at h
        cases h
      simp [this]
    | none =>
      have : '.' ∉ cs := ih.mp h
      by_cases hc : c = '.'
      · simp [hc]
      · simp [hc, this, Ne.symm hc]

theorem lastDot_append_dot (a b : Str) (hb : '.' ∉ b) : lastDot (a ++ '.' :: b) = some a.length := by
  induction a with
  | nil => simp [lastDot, (lastDot_eq_none_iff b).mpr hb]
  | cons c cs ih => simp [lastDot, ih]

theorem lastDot_some {s : Str} {i : Nat} (h : lastDot s = some i) :
    s = s.take i ++ '.' :: s.drop (i + 1) ∧ '.' ∉ s.drop (i + 1) ∧ i < s.length := by
  induction s generalizing i with
  | nil => simp [lastDot] at h
  | cons c cs ih =>
    simp only [lastDot] at h
    cases hl : lastDot cs with
    | some j =>
      rw [hl] at h
      cases h
      have := ih hl
      refine ⟨?_, ?_, ?_⟩
      · simp only [List.take_succ_cons, List.drop_succ_cons, List.cons_append]
        rw [← this.1]
      · simpa using this.2.1
      · simp; exact this.2.2
    | none =>
      simp only [hl] at h
      have hn := (lastDot_eq_none_iff cs).mp hl
      by_cases hc : c = '.'
      · simp only [hc, if_true] at h
        cases h
        simp [hc, hn]
      · simp [hc] at h

-- ---------------------------------------------------------------- splitExt

theorem splitExt_eq_none_iff (name : Str) :
    splitExt name = none ↔ name = [] ∨ name = ['.', '.'] := by
  unfold splitExt
  split
  · simp [*]
  · rename_i h
    simp only [h, iff_false]
    split <;> simp

theorem splitExt_of_lastDot {name : Str} {i : Nat} (hne : name ≠ []) (hdd : name ≠ ['.', '.'])
    (h : lastDot name = some (i + 1)) :
    splitExt name = some (name.take (i + 1), some (name.drop (i + 2))) := by
  simp [splitExt, hne, hdd, h]

/-- the forward computation: a non-empty stem, a dot, a dot-free extension (`".."` excepted) -/
theorem splitExt_append_dot (a b : Str) (ha : a ≠ []) (hb : '.' ∉ b) (h : a ≠ ['.'] ∨ b ≠ []) :
    splitExt (a ++ '.' :: b) = some (a, some b) := by
  have hdd : a ++ '.' :: b ≠ ['.', '.'] := by
    intro hh
    cases a with
    | nil => exact ha rfl
    | cons x xs =>
      cases xs with
      | nil =>
        simp at hh
        rcases h with h | h
        · exact h (by simp [hh.1])
        · exact h hh.2
      | cons y ys => simp at hh
  obtain ⟨k, hk⟩ : ∃ k, a.length = k + 1 := by
    cases a with
    | nil => exact absurd rfl ha
    | cons x xs => exact ⟨xs.length, rfl⟩
  have hl : lastDot (a ++ '.' :: b) = some (k + 1) := by rw [lastDot_append_dot a b hb, hk]
  rw [splitExt_of_lastDot (by simp) hdd hl, show k + 2 = a.length + 1 by omega, ← hk]
  simp

theorem splitExt_some_ext {name stem e : Str} (h : splitExt name = some (stem, some e)) :
    name = stem ++ '.' :: e ∧ stem ≠ [] ∧ '.' ∉ e := by
  unfold splitExt at h
  split at h
  · cases h
  · split at h
    · cases h
    · cases h
    · rename_i i hi h0
      cases h
      have := lastDot_some h0
      refine ⟨this.1, ?_, this.2.1⟩
      intro ht
      have hlen := congrArg List.length ht
      simp at hlen
      rcases hlen with hlen | hlen
      · exact hi hlen
      · rw [hlen] at this; simp at this

theorem splitExt_some_none {name stem : Str} (h : splitExt name = some (stem, none)) :
    stem = name := by
  unfold splitExt at h
  split at h
  · cases h
  · split at h
    · cases h; rfl
    · cases h; rfl
    · cases h

/-- names with a file name and no extension: non-empty, not `..`, no dot after the first
    character -/
theorem plain_iff (s : Str) :
    splitExt s = some (s, none) ↔ s ≠ [] ∧ s ≠ ['.', '.'] ∧ '.' ∉ s.tail := by
  cases s with
  | nil => simp [splitExt]
  | cons c cs =>
    by_cases hd : '.' ∈ cs
    · simp only [List.tail_cons, hd, not_true_eq_false, and_false, iff_false]
      intro h
      have := splitExt_some_none h
      cases hl : lastDot cs with
      | none => exact ((lastDot_eq_none_iff cs).mp hl) hd
      | some i =>
        have hl' : lastDot (c :: cs) = some (i + 1) := by simp [lastDot, hl]
        simp [splitExt, hl'] at h
    · have hl : lastDot cs = none := (lastDot_eq_none_iff cs).mpr hd
      by_cases hdd : c :: cs = ['.', '.']
      · simp [hdd, splitExt]
      · by_cases hc : c = '.' <;> simp [splitExt, lastDot, hl, hc, hd, hdd]

theorem plain_of_dotless (s : Str) (hne : s ≠ []) (hd : '.' ∉ s) : splitExt s = some (s, none) := by
  rw [plain_iff]
  refine ⟨hne, ?_, fun h => hd (List.mem_of_mem_tail h)⟩
  intro h
  rw [h] at hd
  simp at hd

theorem mem_of_splitExt_stem {name stem : Str} {x : Option Str} (h : splitExt name = some (stem, x))
    {c : Char} (hc : c ∈ stem) : c ∈ name := by
  cases x with
  | none => rw [← splitExt_some_none h]; exact hc
  | some e => rw [(splitExt_some_ext h).1]; simp [hc]

-- ---------------------------------------------------------------- withExtension

theorem take_length_sub (a b : Str) :
    (a ++ '.' :: b).take ((a ++ '.' :: b).length - b.length) = a ++ ['.'] := by
  have : (a ++ '.' :: b).length - b.length = (a ++ ['.']).length := by simp; omega
  rw [this, show a ++ '.' :: b = (a ++ ['.']) ++ b by simp, List.take_left']
  rfl

/-- replacing an extension: the stem must not be `.` (then the copy `..` has no file stem) -/
theorem withExtension_ext (a b ext : Str) (ha : a ≠ []) (ha' : a ≠ ['.']) (hb : '.' ∉ b) :
    withExtension (a ++ '.' :: b) ext = a ++ '.' :: ext := by
  have h1 := splitExt_append_dot a b ha hb (Or.inl ha')
  have h2 := splitExt_append_dot a [] ha (by simp) (Or.inl ha')
  simp only [withExtension, h1, take_length_sub, h2]

-- ---------------------------------------------------------------- decimal, part markers

theorem isDigit_eq (c : Char) : isDigit c = c.isDigit := by
  simp [isDigit, Char.isDigit, Char.le_def]

theorem decimal_ne_nil (n : Nat) : decimal n ≠ [] := Nat.toDigits_ne_nil

theorem isDigit_of_mem_decimal {n : Nat} {c : Char} (h : c ∈ decimal n) : isDigit c = true := by
  rw [isDigit_eq]
  exact Nat.isDigit_of_mem_toDigits (by decide) (by decide) h

/-- a left inverse of `decimal` -/
def fromDecimal (s : Str) : Nat := Nat.ofDigitChars 10 s 0

theorem fromDecimal_decimal (n : Nat) : fromDecimal (decimal n) = n :=
  Nat.ofDigitChars_ten_toDigits

theorem decimal_inj {n m : Nat} (h : decimal n = decimal m) : n = m := by
  rw [← fromDecimal_decimal n, ← fromDecimal_decimal m, h]

theorem not_mem_decimal_of_not_digit {n : Nat} {c : Char} (hc : isDigit c = false) :
    c ∉ decimal n := by
  intro h
  rw [isDigit_of_mem_decimal h] at hc
  cases hc

/-- the extension `partN` -/
abbrev partExt (n : Nat) : Str := partPrefix ++ decimal n

theorem partExt_ne_nil (n : Nat) : partExt n ≠ [] := by simp [partExt, partPrefix]

theorem dot_not_mem_partExt (n : Nat) : '.' ∉ partExt n := by
  have : '.' ∉ decimal n := not_mem_decimal_of_not_digit (by decide)
  simp [partExt, partPrefix, this]

theorem slash_not_mem_partExt (n : Nat) : '/' ∉ partExt n := by
  have : '/' ∉ decimal n := not_mem_decimal_of_not_digit (by decide)
  simp [partExt, partPrefix, this]

theorem partPrefix_isPrefixOf_partExt (n : Nat) : partPrefix.isPrefixOf (partExt n) = true := by
  simp [partExt, partPrefix, List.isPrefixOf]

theorem isPartMarker_partExt (n : Nat) : isPartMarker (partExt n) = true := by
  have h1 : (partExt n).drop 4 = decimal n := by simp [partExt, partPrefix]
  simp only [isPartMarker, partPrefix_isPrefixOf_partExt, h1, Bool.true_and, Bool.and_eq_true,
    Bool.not_eq_true', List.all_eq_true]
  refine ⟨?_, fun c hc => isDigit_of_mem_decimal hc⟩
  cases h : decimal n with
  | nil => exact absurd h (decimal_ne_nil n)
  | cons _ _ => rfl

theorem partExt_inj {n m : Nat} (h : partExt n = partExt m) : n = m :=
  decimal_inj (List.append_cancel_left h)

theorem partExt_not_pna (n : Nat) : (partExt n).map lower ≠ ['p', 'n', 'a'] := by
  intro h
  have := congrArg List.length h
  have hd : 0 < (decimal n).length := List.length_pos_iff.mpr (decimal_ne_nil n)
  simp [partExt, partPrefix] at this

theorem isPartMarker_prefix {e : Str} (h : isPartMarker e = true) :
    partPrefix.isPrefixOf e = true := by
  simp only [isPartMarker, Bool.and_eq_true] at h
  exact h.1.1

theorem dot_not_mem_of_pna {e : Str} (h : e.map lower = ['p', 'n', 'a']) : '.' ∉ e := by
  intro hd
  have : lower '.' ∈ e.map lower := List.mem_map_of_mem hd
  rw [h] at this
  revert this
  decide

theorem pna_ne_nil {e : Str} (h : e.map lower = ['p', 'n', 'a']) : e ≠ [] := by
  intro he
  rw [he] at h
  cases h

theorem partPrefix_not_prefix_of_pna {e : Str} (h : e.map lower = ['p', 'n', 'a']) :
    partPrefix.isPrefixOf e = false := by
  have hl : e.length = 3 := by simpa using congrArg List.length h
  match e, hl with
  | [x, y, z], _ => simp [partPrefix, List.isPrefixOf]

-- ---------------------------------------------------------------- predicates

/-- the name (or stem) already carries a part marker: its extension is `part` + digits -/
def Numbered (stem : Str) : Prop :=
  match splitExt stem with
  | some (_, some e2) => isPartMarker e2 = true
  | _ => False

/-- the name (or stem) does not end in an extension beginning with `part` -/
def NotMarked (stem : Str) : Prop :=
  match splitExt stem with
  | some (_, some e2) => ¬ partPrefix.isPrefixOf e2
  | _ => True

/-- the name has an extension that is `pna` up to ASCII case -/
def PnaExt (name : Str) : Prop :=
  match splitExt name with
  | some (_, some e) => e.map lower = ['p', 'n', 'a']
  | _ => False

/-- The names on which renumbering is consistent.  Since `withExt` appends to foreign extensions
    instead of replacing them this is every name (`withExt_renumber_all`); the predicate is kept
    so that `good_iff_renumber` records that nothing weaker is needed. -/
def Good (_name : Str) : Prop := True

instance : DecidablePred Numbered := fun stem => by
  unfold Numbered
  split <;> infer_instance

instance : DecidablePred NotMarked := fun stem => by
  unfold NotMarked
  split <;> infer_instance

instance : DecidablePred PnaExt := fun name => by
  unfold PnaExt
  split <;> infer_instance

instance : DecidablePred Good := fun _ => inferInstanceAs (Decidable True)

theorem not_numbered_of_notMarked {stem : Str} (h : NotMarked stem) : ¬ Numbered stem := by
  unfold NotMarked at h
  unfold Numbered
  split
  · rename_i e2 hs
    simp only [hs] at h
    exact fun hm => h (isPartMarker_prefix hm)
  · exact id

-- ---------------------------------------------------------------- withExt: computation

theorem withExt_no_ext {name stem : Str} (n : Nat) (h : splitExt name = some (stem, none)) :
    withExt name n = some (name ++ '.' :: partExt n) := by
  simp only [withExt, h]
  simp

/-- an extension `partK` (no `pna` after it) is replaced -/
theorem withExt_marker {name stem e : Str} (n : Nat) (h : splitExt name = some (stem, some e))
    (he : e.map lower ≠ ['p', 'n', 'a']) (hm : isPartMarker e = true) :
    withExt name n = some (stem ++ '.' :: partExt n) := by
  simp only [withExt, h, if_neg he, hm, if_true]
  simp

/-- any other extension is kept and `.partN` is appended -/
theorem withExt_foreign {name stem e : Str} (n : Nat) (h : splitExt name = some (stem, some e))
    (he : e.map lower ≠ ['p', 'n', 'a']) (hm : isPartMarker e = false) :
    withExt name n = some (name ++ '.' :: partExt n) := by
  simp only [withExt, h, if_neg he, hm, Bool.false_eq_true, if_false]
  simp

theorem withExt_pna_numbered {name stem e base e2 : Str} (n : Nat)
    (h : splitExt name = some (stem, some e)) (he : e.map lower = ['p', 'n', 'a'])
    (hs : splitExt stem = some (base, some e2)) (hm : isPartMarker e2 = true) :
    withExt name n = some (base ++ '.' :: (partExt n ++ '.' :: e)) := by
  simp only [withExt, h, he, if_true, hs, hm]
  simp

theorem withExt_pna_unnumbered {name stem e : Str} (n : Nat)
    (h : splitExt name = some (stem, some e)) (he : e.map lower = ['p', 'n', 'a'])
    (hm : ¬ Numbered stem) :
    withExt name n = some (stem ++ '.' :: (partExt n ++ '.' :: e)) := by
  unfold Numbered at hm
  simp only [withExt, h, he, if_true]
  cases hs : splitExt stem with
  | none => simp
  | some p =>
    obtain ⟨b, x⟩ := p
    cases x with
    | none => simp
    | some e2 =>
      simp only [hs] at hm
      simp [hm]

theorem splitExt_marked_pna (b e : Str) (he : e.map lower = ['p', 'n', 'a'])
    (n : Nat) :
    splitExt (b ++ '.' :: (partExt n ++ '.' :: e)) = some (b ++ '.' :: partExt n, some e) := by
  rw [show b ++ '.' :: (partExt n ++ '.' :: e) = (b ++ '.' :: partExt n) ++ '.' :: e by simp]
  exact splitExt_append_dot (b ++ '.' :: partExt n) e (by simp) (dot_not_mem_of_pna he)
    (Or.inr (pna_ne_nil he))

theorem splitExt_marked (b : Str) (hb : b ≠ []) (n : Nat) :
    splitExt (b ++ '.' :: partExt n) = some (b, some (partExt n)) :=
  splitExt_append_dot b (partExt n) hb (dot_not_mem_partExt n) (Or.inr (partExt_ne_nil n))

/-- a part name without archive extension: `b.partN` -/
theorem withExt_marked_plain (b : Str) (hb : b ≠ []) (n m : Nat) :
    withExt (b ++ '.' :: partExt n) m = some (b ++ '.' :: partExt m) :=
  withExt_marker m (splitExt_marked b hb n) (partExt_not_pna n) (isPartMarker_partExt n)

/-- a part name of an archive: `b.partN.pna` -/
theorem withExt_marked_pna (b e : Str) (hb : b ≠ []) (he : e.map lower = ['p', 'n', 'a'])
    (n m : Nat) :
    withExt (b ++ '.' :: (partExt n ++ '.' :: e)) m
      = some (b ++ '.' :: (partExt m ++ '.' :: e)) :=
  withExt_pna_numbered m (splitExt_marked_pna b e he n) he (splitExt_marked b hb n)
    (isPartMarker_partExt n)

-- ---------------------------------------------------------------- the shape of `withExt` output

/-- The output is `b.partN` with `b` non-empty, or `b.partN.e` with `b` non-empty and `e` a `pna`
    extension; `b` and `e` do not depend on `n`. -/
theorem withExt_shape {name : Str} (hs : splitExt name ≠ none) :
    (∃ b, b ≠ [] ∧ ∀ n, withExt name n = some (b ++ '.' :: partExt n)) ∨
    (∃ b e, b ≠ [] ∧ e.map lower = ['p', 'n', 'a'] ∧
      ∀ n, withExt name n = some (b ++ '.' :: (partExt n ++ '.' :: e))) := by
  have hne : name ≠ [] := fun h0 => hs ((splitExt_eq_none_iff name).mpr (Or.inl h0))
  cases h : splitExt name with
  | none => exact absurd h hs
  | some p =>
    obtain ⟨stem, x⟩ := p
    cases x with
    | none => exact Or.inl ⟨name, hne, fun n => withExt_no_ext n h⟩
    | some e =>
      obtain ⟨_, hstem, _⟩ := splitExt_some_ext h
      by_cases he : e.map lower = ['p', 'n', 'a']
      · right
        by_cases hm : Numbered stem
        · unfold Numbered at hm
          split at hm
          · rename_i base e2 hs2
            exact ⟨base, e, (splitExt_some_ext hs2).2.1, he,
              fun n => withExt_pna_numbered n h he hs2 hm⟩
          · exact hm.elim
        · exact ⟨stem, e, hstem, he, fun n => withExt_pna_unnumbered n h he hm⟩
      · left
        cases hm : isPartMarker e with
        | true => exact ⟨stem, hstem, fun n => withExt_marker n h he hm⟩
        | false => exact ⟨name, hne, fun n => withExt_foreign n h he hm⟩

theorem splitExt_ne_none_of_withExt {name w : Str} {n : Nat} (h : withExt name n = some w) :
    splitExt name ≠ none := by
  intro hs
  simp [withExt, hs] at h

/-- neither `pna` nor already numbered: `.partN` is appended to the whole name -/
theorem withExt_append {name : Str} (n : Nat) (hs : splitExt name ≠ none) (hn : ¬ PnaExt name)
    (hm : ¬ Numbered name) : withExt name n = some (name ++ '.' :: partExt n) := by
  cases h : splitExt name with
  | none => exact absurd h hs
  | some p =>
    obtain ⟨stem, x⟩ := p
    cases x with
    | none => exact withExt_no_ext n h
    | some e =>
      have he : e.map lower ≠ ['p', 'n', 'a'] := fun he => hn (by simp only [PnaExt, h, he])
      have hm' : isPartMarker e = false := by
        cases hb : isPartMarker e with
        | true => exact absurd (by simp only [Numbered, h, hb]) hm
        | false => rfl
      exact withExt_foreign n h he hm'

/-- already numbered, no `pna` after the marker: the marker is replaced -/
theorem withExt_replace {name stem e : Str} (n : Nat) (h : splitExt name = some (stem, some e))
    (hm : isPartMarker e = true) : withExt name n = some (stem ++ '.' :: partExt n) := by
  refine withExt_marker n h (fun he => ?_) hm
  have := partPrefix_not_prefix_of_pna he
  rw [isPartMarker_prefix hm] at this
  cases this

-- ---------------------------------------------------------------- removeExt

theorem removeExt_marked_plain (b : Str) (hb : b ≠ []) (n : Nat) :
    removeExt (b ++ '.' :: partExt n) = some b := by
  have hs := splitExt_append_dot b (partExt n) hb (dot_not_mem_partExt n)
    (Or.inr (partExt_ne_nil n))
  simp only [removeExt, hs, isPartMarker_partExt, if_true]

/-- `b.partN.pna` gives back `b.pna`, unless `b` is `.` -/
theorem removeExt_marked_pna (b e : Str) (hb : b ≠ []) (hb' : b ≠ ['.'])
    (he : e.map lower = ['p', 'n', 'a']) (n : Nat) :
    removeExt (b ++ '.' :: (partExt n ++ '.' :: e)) = some (b ++ '.' :: e) := by
  have hs1 := splitExt_marked b hb n
  have hs := splitExt_marked_pna b e he n
  have hw := withExtension_ext b (partExt n) e hb hb' (dot_not_mem_partExt n)
  have hp0 := partPrefix_not_prefix_of_pna he
  have hp : isPartMarker e = false := by simp [isPartMarker, hp0]
  have hq := isPartMarker_partExt n
  unfold removeExt
  rw [hs]
  simp only [hp, hs1, hq, if_true, hw]
  simp

-- ---------------------------------------------------------------- no '/' is introduced

theorem mem_withExt {name w : Str} {n : Nat} {c : Char} (h : withExt name n = some w)
    (hc : c ∈ w) : c ∈ name ∨ c = '.' ∨ c ∈ partExt n := by
  cases hs : splitExt name with
  | none => exact absurd hs (splitExt_ne_none_of_withExt h)
  | some p =>
    obtain ⟨stem, x⟩ := p
    cases x with
    | none =>
      rw [withExt_no_ext n hs] at h
      cases h
      simpa using hc
    | some e =>
      have hname := (splitExt_some_ext hs).1
      have hstem : ∀ c ∈ stem, c ∈ name := fun c hc => mem_of_splitExt_stem hs hc
      have he : ∀ c ∈ e, c ∈ name := fun c hc => by rw [hname]; simp [hc]
      by_cases hp : e.map lower = ['p', 'n', 'a']
      · by_cases hm : Numbered stem
        · unfold Numbered at hm
          split at hm
          · rename_i base e2 hs2
            rw [withExt_pna_numbered n hs hp hs2 hm] at h
            cases h
            simp only [List.mem_append, List.mem_cons] at hc
            rcases hc with hc | hc | hc | hc | hc
            · exact Or.inl (hstem _ (mem_of_splitExt_stem hs2 hc))
            · exact Or.inr (Or.inl hc)
            · exact Or.inr (Or.inr (List.mem_append.mpr hc))
            · exact Or.inr (Or.inl hc)
            · exact Or.inl (he _ hc)
          · exact hm.elim
        · rw [withExt_pna_unnumbered n hs hp hm] at h
          cases h
          simp only [List.mem_append, List.mem_cons] at hc
          rcases hc with hc | hc | hc | hc | hc
          · exact Or.inl (hstem _ hc)
          · exact Or.inr (Or.inl hc)
          · exact Or.inr (Or.inr (List.mem_append.mpr hc))
          · exact Or.inr (Or.inl hc)
          · exact Or.inl (he _ hc)
      · cases hm : isPartMarker e with
        | true =>
          rw [withExt_marker n hs hp hm] at h
          cases h
          simp only [List.mem_append, List.mem_cons] at hc
          rcases hc with hc | hc | hc
          · exact Or.inl (hstem _ hc)
          · exact Or.inr (Or.inl hc)
          · exact Or.inr (Or.inr (List.mem_append.mpr hc))
        | false =>
          rw [withExt_foreign n hs hp hm] at h
          cases h
          simpa using hc

theorem slash_not_mem_withExt {name w : Str} {n : Nat} (hn : '/' ∉ name)
    (h : withExt name n = some w) : '/' ∉ w := by
  intro hc
  rcases mem_withExt h hc with h1 | h1 | h1
  · exact hn h1
  · revert h1; decide
  · exact slash_not_mem_partExt n h1

-- ---------------------------------------------------------------- splitPath

/-- a directory prefix of a simple path: empty, or ending with the separator -/
def DirPrefix (dir : Str) : Prop := dir = [] ∨ dir.getLast? = some '/'

instance : DecidablePred DirPrefix := fun _ => inferInstanceAs (Decidable (_ ∨ _))

theorem splitPath_append (dir name : Str) (hd : DirPrefix dir) (hn : '/' ∉ name) :
    splitPath (dir ++ name) = (dir, name) := by
  have h1 : (dir.reverse).takeWhile (· ≠ '/') = [] := by
    rcases hd with hd | hd
    · subst hd; rfl
    · obtain ⟨ys, hys⟩ := List.getLast?_eq_some_iff.mp hd
      subst hys
      simp
  have h2 : ((dir ++ name).reverse.takeWhile (· ≠ '/')).reverse = name := by
    rw [List.reverse_append, List.takeWhile_append_of_pos, h1]
    · simp
    · intro a ha
      have : a ≠ '/' := fun h => hn (by rw [← h]; simpa using ha)
      simpa using this
  unfold splitPath
  simp only [h2]
  rw [List.take_left' (by simp)]

theorem withPart_append (dir name : Str) (n : Nat) (hd : DirPrefix dir) (hn : '/' ∉ name) :
    withPart (dir ++ name) n = (withExt name n).map (dir ++ ·) := by
  simp only [withPart, splitPath_append dir name hd hn]

theorem removePart_append (dir name : Str) (hd : DirPrefix dir) (hn : '/' ∉ name) :
    removePart (dir ++ name) = (removeExt name).map (dir ++ ·) := by
  simp only [removePart, splitPath_append dir name hd hn]

end Pna.Cli.PartName
