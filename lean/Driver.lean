import PnaVerif.Model.Bytes
import PnaVerif.Model.Crc32
import PnaVerif.Model.Chunk
import PnaVerif.Model.Canon
import PnaVerif.Model.Toy
import PnaVerif.Model.Pipeline
import PnaVerif.Model.Split
import PnaVerif.Model.Solid
import PnaVerif.Model.Cli.Text
import PnaVerif.Model.Cli.Fault
import PnaVerif.Model.Cli.Sched
import PnaVerif.Model.Cli.PartName
import PnaVerif.Model.Cli.ModeText
import PnaVerif.Model.Cli.Wire
import PnaVerif.Model.Cli.ChunkList
import PnaVerif.Model.Cli.Concat
import PnaVerif.Model.Append
/-
  Line-protocol driver: one request per line on stdin, one canonical answer per line on stdout.
  Imports model files only (no Mathlib) so that it links as a native executable.
-/
open Pna

def errS (e : Err) : String := "err " ++ e.toString

def outcomeS {α} (f : α → String) : Outcome α → String
  | .ok a => "ok " ++ f a
  | .error e => errS e
  | .panic s => "panic " ++ s

def tyHex (t : ChunkType) : String := toHex t.toBytes

def chunkS (c : Chunk) : String := tyHex c.ty ++ ":" ++ toHexW c.data

def chunksDigest (cs : List Chunk) : String :=
  let all := cs.flatMap Chunk.encode
  s!"n={cs.length} len={all.length} crc={Crc32.crc32 all}"

def endS : Outcome Unit → String
  | .ok _ => "end"
  | .error e => errS e
  | .panic s => "panic " ++ s

def parseTy (s : String) : Option ChunkType := do
  let b ← ofHex s
  ChunkType.ofBytes? b

def parseChunk (s : String) : Option Chunk :=
  match s.splitOn ":" with
  | [t, d] => do
    let ty ← parseTy t
    let data ← ofHex d
    pure ⟨ty, data⟩
  | _ => none

/-- chunk list on the wire: `ty:data,ty:data,…` or `-` for the empty list -/
def parseChunks (s : String) : Option (List Chunk) :=
  if s == "-" then some [] else (s.splitOn ",").mapM parseChunk

def chunkListS (cs : List Chunk) : String := s!"{cs.length}/{Canon.digest (cs.flatMap Chunk.encode)}"

def permLine (p : Permission) : String := s!"{p.uid},{toHexW p.uname},{p.gid},{toHexW p.gname},{p.mode}"

def withHex (h : String) (f : Bytes → String) : String :=
  match ofHex h with
  | some b => f b
  | none => "bad-op"

/-- list of byte strings on the wire: `h1,h2,…` (each `-` if empty), or `.` for the empty list -/
def parseBytesList (s : String) : Option (List Bytes) :=
  if s == "." then some [] else (s.splitOn ",").mapM ofHex

def parseNatList (s : String) : Option (List Nat) :=
  if s == "." then some [] else (s.splitOn ",").mapM String.toNat?

def bytesListS (l : List Bytes) : String :=
  if l.isEmpty then "." else ",".intercalate (l.map toHexW)

def shapeOf : String → Option Cli.Sched.Shape
  | "scopePerItem" => some .scopePerItem | "scopeAroundLoop" => some .scopeAroundLoop | "detached" => some .detached
  | "single" => some .single | "parIterCollect" => some .parIterCollect | "parIterUnordered" => some .parIterUnordered
  | "unknown" => some .unknown | _ => none

/-- one pseudo-random schedule of the transition system: at each step the enabled events are
    enumerated and one is chosen by an LCG; runs until nothing is enabled -/
def schedRun (sh : Cli.Sched.Shape) (n : Nat) : Nat → Nat → Cli.Sched.St → Cli.Sched.St
  | 0, _, s => s
  | fuel+1, seed, s =>
    let evs : List Cli.Sched.Ev := (if s.next < n && Cli.Sched.canSpawn sh s then [Cli.Sched.Ev.spawn] else []) ++ s.running.map Cli.Sched.Ev.finish
    if evs.isEmpty then s
    else
      let seed' := (seed * 6364136223846793005 + 1442695040888963407) % 18446744073709551616
      let e := evs.getD ((seed' / 65536) % evs.length) Cli.Sched.Ev.spawn
      match Cli.Sched.step sh n s e with
      | some s' => schedRun sh n fuel seed' s'
      | none => s

def faultS (w w' : Cli.Fault.World) (ok : Bool) : String :=
  if ok then s!"ok n={w'.archive.items.length} terminated={w'.archive.terminated}"
  else if w'.archive == w.archive then "fail unchanged" else s!"fail changed terminated={w'.archive.terminated} n={w'.archive.items.length}"

def strOfBytes (b : Bytes) : Option (List Char) :=
  (String.fromUTF8? (ByteArray.mk b.toArray)).map String.toList

def ownerOf (k : Nat) (n : List Char) : Cli.Text.Owner :=
  match k with
  | 0 => .owner | 1 => .user n | 2 => .ownerGroup | 3 => .group n | 4 => .mask | _ => .other

def aceS (a : Cli.Text.Ace) : String :=
  let (k, n) : Nat × List Char := match a.owner with
    | .owner => (0, []) | .user n => (1, n) | .ownerGroup => (2, []) | .group n => (3, n) | .mask => (4, []) | .other => (5, [])
  s!"{Cli.Text.bitsToNat Cli.Text.flagTable a.flags} {k} {toHexW (Cli.Text.utf8 n)} {if a.allow then 1 else 0} {Cli.Text.bitsToNat Cli.Text.permTable a.perms}"

def aceErrS : Cli.Text.AceErr → String
  | .notEnough => "notEnough" | .tooMany => "tooMany" | .badAccess => "badAccess" | .badOwner => "badOwner"

def parseErr (s : String) : Option Err :=
  match s with
  | "eof" => some .eof | "invalidData" => some .invalidData | "invalidInput" => some .invalidInput
  | "unsupported" => some .unsupported | "alreadyExists" => some .alreadyExists
  | "notFound" => some .notFound | "other" => some .other | _ => none

/-- oracle answer on the wire: `ok:<hex>` | `err:<kind>` | `na` (never consulted) -/
def parseOracle (s : String) : Option (Outcome Bytes) :=
  if s == "na" then some (.panic "oracle not supplied")
  else match s.splitOn ":" with
    | ["ok", h] => (ofHex h).map .ok
    | ["err", k] => (parseErr k).map .error
    | _ => none

def parsePhc (s : String) : Option PhcOracle :=
  match s.splitOn "," with
  | [p, a, po, hs, ho, k] =>
    let alg := if a == "argon2" then PhcAlg.argon2 else if a == "pbkdf2" then PhcAlg.pbkdf2 else PhcAlg.other
    let key := if k == "none" then some none else (ofHex k).map some
    key.map fun key => ⟨p == "1", alg, po == "1", hs == "1", ho == "1", key⟩
  | _ => none

def handle (line : String) : String :=
  match line.trimAscii.toString.splitOn " " with
  | ["crc", h] =>
    match ofHex h with
    | some b => s!"ok {Crc32.crc32 b}"
    | none => "bad-op"
  | ["chunk.enc", t, d] =>
    match parseTy t, ofHex d with
    | some ty, some data => "ok " ++ toHex (Chunk.encode ⟨ty, data⟩)
    | _, _ => "bad-op"
  | ["chunk.dec.stream", h] =>
    match ofHex h with
    | some b => outcomeS (fun (c, r) => chunkS c ++ s!" rest={r.length}") (decodeStream b)
    | none => "bad-op"
  | ["chunk.dec.slice", h] =>
    match ofHex h with
    | some b => outcomeS (fun (c, r) => chunkS c ++ s!" rest={r.length}") (decodeSlice b)
    | none => "bad-op"
  | ["chunks.stream", h] =>
    match ofHex h with
    | some b => let (cs, o) := chunksStream b; chunksDigest cs ++ " " ++ endS o
    | none => "bad-op"
  | ["chunks.slice", h] =>
    match ofHex h with
    | some b => let (cs, o) := chunksSlice b; chunksDigest cs ++ " " ++ endS o
    | none => "bad-op"
  | ["ahed.dec", h] => withHex h fun b => outcomeS (fun a => s!"{a.major}.{a.minor}.{a.number}") (decAHED b)
  | ["ahed.enc", a, b, c] =>
    match a.toNat?, b.toNat?, c.toNat? with
    | some a, some b, some c => "ok " ++ toHex (encAHED ⟨a, b, c⟩)
    | _, _, _ => "bad-op"
  | ["fhed.dec", h] => withHex h fun b =>
      outcomeS (fun a => s!"{a.major}.{a.minor}.{a.kind}.{a.compression}.{a.encryption}.{a.cipherMode}:{toHexW a.name}") (decFHED b)
  | ["fhed.reenc", h] => withHex h fun b => outcomeS (fun a => toHex (encFHED a)) (decFHED b)
  | ["shed.dec", h] => withHex h fun b =>
      outcomeS (fun a => s!"{a.major}.{a.minor}.{a.compression}.{a.encryption}.{a.cipherMode}") (decSHED b)
  | ["shed.reenc", h] => withHex h fun b => outcomeS (fun a => toHex (encSHED a)) (decSHED b)
  | ["fprm.dec", h] => withHex h fun b => outcomeS permLine (decFPRM b)
  | ["fprm.enc", uid, un, gid, gn, mode] =>
    match uid.toNat?, ofHex un, gid.toNat?, ofHex gn, mode.toNat? with
    | some uid, some un, some gid, some gn, some mode => "ok " ++ toHex (encFPRM ⟨uid, un, gid, gn, mode⟩)
    | _, _, _, _, _ => "bad-op"
  | ["xatr.dec", h] => withHex h fun b => outcomeS (fun x => s!"{toHexW x.name}:{toHexW x.value}") (decXATR b)
  | ["xatr.enc", n, v] =>
    match ofHex n, ofHex v with
    | some n, some v => "ok " ++ toHex (encXATR ⟨n, v⟩)
    | _, _ => "bad-op"
  | ["name.sanitize", h] => withHex h fun b => "ok " ++ toHexW (sanitize b)
  | ["ref.normalize", h] => withHex h fun b => "ok " ++ toHexW (normalizeRef b)
  | ["utf8", h] => withHex h fun b => if validUtf8 b then "ok 1" else "ok 0"
  | ["entry.parse", cs] =>
    match parseChunks cs with
    | some cs => outcomeS Canon.entryS (parseEntry cs)
    | none => "bad-op"
  | ["entry.reser", cs] =>
    match parseChunks cs with
    | some cs => outcomeS (fun e => chunkListS (serEntry e)) (parseEntry cs)
    | none => "bad-op"
  | ["entry.reser2", cs] =>
    match parseChunks cs with
    | some cs => outcomeS (fun e => chunkListS (serEntry e)) ((parseEntry cs).bind fun e => parseEntry (serEntry e))
    | none => "bad-op"
  | ["ace.show", flags, kind, name, allow, perms] =>
    match flags.toNat?, kind.toNat?, ofHex name >>= strOfBytes, perms.toNat? with
    | some f, some k, some n, some p =>
      let a : Cli.Text.Ace := { flags := Cli.Text.natToBits Cli.Text.flagTable f, owner := ownerOf k n, allow := allow == "1", perms := Cli.Text.natToBits Cli.Text.permTable p }
      "ok " ++ toHexW (Cli.Text.utf8 (Cli.Text.showAce a))
    | _, _, _, _ => "bad-op"
  | ["acep.show", plat, flags, kind, name, allow, perms] =>
    match flags.toNat?, kind.toNat?, ofHex name >>= strOfBytes, perms.toNat?, (if plat == "none" then some none else (ofHex plat >>= strOfBytes).map some) with
    | some f, some k, some n, some p, some pl =>
      let a : Cli.Text.Ace := { flags := Cli.Text.natToBits Cli.Text.flagTable f, owner := ownerOf k n, allow := allow == "1", perms := Cli.Text.natToBits Cli.Text.permTable p }
      "ok " ++ toHexW (Cli.Text.utf8 (Cli.Text.showAceP pl a))
    | _, _, _, _, _ => "bad-op"
  | ["ace.parse", h] =>
    match ofHex h >>= strOfBytes with
    | some s => (match Cli.Text.parseAce s with | .ok a => "ok " ++ aceS a | .error e => "err " ++ aceErrS e)
    | none => "bad-op"
  | ["acep.parse", h] =>
    match ofHex h >>= strOfBytes with
    | some s => (match Cli.Text.parseAceP s with
      | .ok (p, a) => "ok " ++ (match p with | none => "none" | some q => toHexW (Cli.Text.utf8 q)) ++ " " ++ aceS a
      | .error e => "err " ++ aceErrS e)
    | none => "bad-op"
  | ["xval.parse", h] =>
    match ofHex h >>= strOfBytes with
    | some s => (match Cli.Text.parseValue s with | some b => "ok " ++ toHexW b | none => "err")
    | none => "bad-op"
  | ["xval.show", enc, h] =>
    match ofHex h with
    | some b => "ok " ++ toHexW (Cli.Text.utf8 (if enc == "2" then Cli.Text.showHex b else Cli.Text.showB64 b))
    | none => "bad-op"
  | ["fault", "append", n, pat] =>
    match n.toNat? with
    | some n =>
      let w : Cli.Fault.World := { archive := ⟨List.range n, true⟩ }
      let inputs := pat.toList.mapIdx fun i c => if c == '1' then some (1000 + i) else none
      let (w', ok) := Cli.Fault.appendCmd w (if pat == "-" then [] else inputs)
      faultS w w' ok
    | none => "bad-op"
  | ["fault", "rewrite", n, epat, xpat] =>
    match n.toNat? with
    | some n =>
      let w : Cli.Fault.World := { archive := ⟨List.range n, true⟩ }
      let ep := (if epat == "-" then [] else epat.toList).toArray
      let f : Nat → Option (List Nat) := fun x => match ep[x]? with
        | some 'x' => none | some 'd' => some [] | _ => some [x]
      let extra := (if xpat == "-" then [] else xpat.toList).mapIdx fun i c => if c == '1' then some (1000 + i) else none
      let (w', ok) := Cli.Fault.rewriteCmd w f extra
      faultS w w' ok
    | none => "bad-op"
  | ["sched", shape, n, seed] =>
    match shapeOf shape, n.toNat?, seed.toNat? with
    | some sh, some n, some seed =>
      let s := schedRun sh n (4 * n + 8) seed {}
      s!"ok final={s.next == n && s.running.isEmpty} order=" ++ ",".intercalate (s.chan.map toString)
    | _, _, _ => "bad-op"
  | ["chmod.apply", h, x] =>
    match ofHex h >>= strOfBytes, x.toNat? with
    | some s, some x => (match Cli.parseMode s with | some m => s!"ok {m.applyTo x}" | none => "err")
    | _, _ => "bad-op"
  | ["part.with", h, n] =>
    match ofHex h >>= strOfBytes, n.toNat? with
    | some p, some n => (match Cli.PartName.withPart p n with | some w => "ok " ++ toHexW (Cli.Text.utf8 w) | none => "none")
    | _, _ => "bad-op"
  | ["part.remove", h] =>
    match ofHex h >>= strOfBytes with
    | some p => (match Cli.PartName.removePart p with | some w => "ok " ++ toHexW (Cli.Text.utf8 w) | none => "none")
    | none => "bad-op"
  | ["solid.iter", h, term] =>
    match ofHex h, (if term == "none" then some none else (parseErr term).map some) with
    | some b, some t =>
      let items := solidEntries { bytes := b, term := t }
      s!"n={items.length}" ++ String.join (items.map fun i => " | " ++ outcomeS Canon.normalS i)
    | _, _ => "bad-op"
  | ["flatw", n, ws] =>
    match n.toNat?, parseBytesList ws with
    | some n, some ws => "ok " ++ bytesListS (flattenWriter n ws)
    | _, _ => "bad-op"
  | ["flatr", sl, sched] =>
    match parseBytesList sl, parseNatList sched with
    | some sl, some sched => "ok " ++ bytesListS (FlatR.run ⟨sl⟩ sched)
    | _, _ => "bad-op"
  | ["cbcw", k, iv, ws] =>
    match ofHex k, ofHex iv, parseBytesList ws with
    | some k, some iv, some ws => "ok " ++ bytesListS (cbcWriterRun Toy.perm k iv ws)
    | _, _, _ => "bad-op"
  | ["cbcr", k, iv, ct, sched] =>
    match ofHex k, ofHex iv, ofHex ct, parseNatList sched with
    | some k, some iv, some ct, some sched =>
      match CbcR.new iv ct with
      | .error e => "ok . " ++ errS e
      | .panic s => "panic " ++ s
      | .ok r =>
        let (outs, e) := CbcR.run Toy.perm k r sched
        "ok " ++ bytesListS outs ++ (match e with | none => "" | some e => " " ++ errS e)
    | _, _, _, _ => "bad-op"
  | ["ctrw", k, iv, ws] =>
    match ofHex k, ofHex iv, parseBytesList ws with
    | some k, some iv, some ws => "ok " ++ bytesListS (ctrWriterRun Toy.perm k iv 0 ws)
    | _, _, _ => "bad-op"
  | ["ctrr", k, iv, ct, cuts, sched] =>
    match ofHex k, ofHex iv, ofHex ct, parseNatList cuts, parseNatList sched with
    | some k, some iv, some ct, some cuts, some sched =>
      "ok " ++ bytesListS (CtrR.run Toy.perm k iv ⟨ct, 0⟩ sched cuts)
    | _, _, _, _, _ => "bad-op"
  | ["entry.open", enc, mode, hasPhsf, hasPw, phc, sl, dec, decomp] =>
    match enc.toNat?, mode.toNat?, parsePhc phc, parseBytesList sl, parseOracle dec, parseOracle decomp with
    | some enc, some mode, some phc, some sl, some dec, some decomp =>
      outcomeS toHexW (openEntryData enc mode (if hasPhsf == "1" then some [] else none)
        (if hasPw == "1" then some [] else none) phc sl (fun _ _ _ => dec) (fun _ => decomp))
    | _, _, _, _, _, _ => "bad-op"
  | ["split.part", cs, max] =>
    match parseChunks cs, max.toNat? with
    | some cs, some max =>
      let (a, b) := splitPart cs max
      s!"ok {chunkListS a} {partLen a} " ++ (match b with | none => "none" | some b => s!"{chunkListS b} {partLen b}")
    | _, _ => "bad-op"
  | ["split.archive", h, max] =>
    match ofHex h, max.toNat? with
    | some b, some max =>
      let (items, st) := rawEntriesWith chunksStream b
      match st with
      | .ok _ =>
        match writeSplit items max with
        | .ok bodies => "ok " ++ " ".intercalate ((encodeParts bodies).map Canon.digest)
        | .error e => errS e
        | .panic s => "panic " ++ s
      | .error e => errS e
      | .panic s => "panic " ++ s
    | _, _ => "bad-op"
  | "transform" :: rest => Cli.Wire.handleTransform rest
  | "history" :: rest => Cli.Wire.handleHistory rest
  | "list" :: rest => Cli.Wire.handleList rest
  | "extract" :: rest => Cli.Wire.handleExtract rest
  | "tree.expected" :: rest => Cli.Wire.handleTree rest
  | "tree.composed" :: rest => Cli.Wire.handleTreeComposed rest
  | ["archive.read.stream", h] =>
    match ofHex h with
    | some b => Canon.readS (readArchiveStream b)
    | none => "bad-op"
  | ["archive.read.slice", h] =>
    match ofHex h with
    | some b => Canon.readS (readArchiveSlice b)
    | none => "bad-op"
  | ["archive.raw.stream", h] =>
    match ofHex h with
    | some b => let (its, o) := rawEntriesWith chunksStream b
                " ".intercalate (its.map Canon.rawItemS ++ [Canon.endS o])
    | none => "bad-op"
  | ["archive.raw.slice", h] =>
    match ofHex h with
    | some b => let (its, o) := rawEntriesWith chunksSlice b
                " ".intercalate (its.map Canon.rawItemS ++ [Canon.endS o])
    | none => "bad-op"
  | "concat" :: inputs =>
    match inputs.mapM (fun inp => (inp.splitOn ",").mapM ofHex) with
    | some ins =>
      match Cli.concat ins with
      | .ok out => "ok " ++ Canon.digest out
      | .error _ => "err"
      | .panic s => "panic " ++ s
    | none => "bad-op"
  | ["append.bytes", h, raw] =>
    -- the chunks of the appended entry arrive serialised; they are well-formed (written by the library)
    let rec chunksOf (fuel : Nat) (b : Bytes) (acc : List Chunk) : Option (List Chunk) :=
      match fuel with
      | 0 => none
      | fuel + 1 =>
        if b.isEmpty then some acc.reverse else
          match decodeStream b with
          | .ok (c, r) => chunksOf fuel r (c :: acc)
          | _ => none
    match ofHex h, ofHex raw with
    | some bs, some rb =>
      match chunksOf (rb.length + 1) rb [] with
      | some cs => outcomeS Canon.digest (appendBytes bs cs)
      | none => "bad-op"
    | _, _ => "bad-op"
  | ["chunklist", h] => withHex h fun b =>
      match Cli.chunkList b with
      | .ok rows => "ok " ++ ",".intercalate (rows.map fun r => s!"{r.idx}:{tyHex r.ty}:{r.len}:{String.ofList (Cli.hexOffset r.off)}")
      | .error _ => "err"
      | .panic s => "panic " ++ s
  | "multipart.read" :: kind :: parts =>
    match parts.mapM ofHex with
    | some ps =>
      let chunks := if kind == "slice" then chunksSlice else chunksStream
      let (es, o) := readMultipartWith chunks true 0 [] ps
      " ".intercalate (es.map Canon.entryS ++ [Canon.endS o])
    | none => "bad-op"
  | _ => "bad-op"

partial def loop (h : IO.FS.Stream) (out : IO.FS.Stream) : IO Unit := do
  let line ← h.getLine
  if line.isEmpty then return ()
  out.putStrLn (handle line)
  loop h out

def main : IO Unit := do
  let stdin ← IO.getStdin
  let stdout ← IO.getStdout
  loop stdin stdout
