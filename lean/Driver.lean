import PnaVerif.Model.Bytes
import PnaVerif.Model.Crc32
import PnaVerif.Model.Chunk
import PnaVerif.Model.Canon
/-
  Line-protocol driver: one request per line on stdin, one canonical answer per line on stdout.
  Imports model files only (no Mathlib) so that it links as a native executable.
-/
open Pna

def errS (e : Err) : String := "err " ++ e.toString

def outcomeS {α} (f : α → String) : Outcome α → String
  | .ok a => "ok " ++ f a
  | .error e => errS e
  | .panic s => "panic " ++ s

def tyHex (t : ChunkType) : String := toHex t.toBytes

def chunkS (c : Chunk) : String := tyHex c.ty ++ ":" ++ toHexW c.data

def chunksDigest (cs : List Chunk) : String :=
  let all := cs.flatMap Chunk.encode
  s!"n={cs.length} len={all.length} crc={Crc32.crc32 all}"

def endS : Outcome Unit → String
  | .ok _ => "end"
  | .error e => errS e
  | .panic s => "panic " ++ s

def parseTy (s : String) : Option ChunkType := do
  let b ← ofHex s
  ChunkType.ofBytes? b

def handle (line : String) : String :=
  match line.trimAscii.toString.splitOn " " with
  | ["crc", h] =>
    match ofHex h with
    | some b => s!"ok {Crc32.crc32 b}"
    | none => "bad-op"
  | ["chunk.enc", t, d] =>
    match parseTy t, ofHex d with
    | some ty, some data => "ok " ++ toHex (Chunk.encode ⟨ty, data⟩)
    | _, _ => "bad-op"
  | ["chunk.dec.stream", h] =>
    match ofHex h with
    | some b => outcomeS (fun (c, r) => chunkS c ++ s!" rest={r.length}") (decodeStream b)
    | none => "bad-op"
  | ["chunk.dec.slice", h] =>
    match ofHex h with
    | some b => outcomeS (fun (c, r) => chunkS c ++ s!" rest={r.length}") (decodeSlice b)
    | none => "bad-op"
  | ["chunks.stream", h] =>
    match ofHex h with
    | some b => let (cs, o) := chunksStream b; chunksDigest cs ++ " " ++ endS o
    | none => "bad-op"
  | ["chunks.slice", h] =>
    match ofHex h with
    | some b => let (cs, o) := chunksSlice b; chunksDigest cs ++ " " ++ endS o
    | none => "bad-op"
  | ["archive.read.stream", h] =>
    match ofHex h with
    | some b => Canon.readS (readArchiveStream b)
    | none => "bad-op"
  | ["archive.read.slice", h] =>
    match ofHex h with
    | some b => Canon.readS (readArchiveSlice b)
    | none => "bad-op"
  | ["archive.raw.stream", h] =>
    match ofHex h with
    | some b => let (its, o) := rawEntriesWith chunksStream b
                " ".intercalate (its.map Canon.rawItemS ++ [Canon.endS o])
    | none => "bad-op"
  | ["archive.raw.slice", h] =>
    match ofHex h with
    | some b => let (its, o) := rawEntriesWith chunksSlice b
                " ".intercalate (its.map Canon.rawItemS ++ [Canon.endS o])
    | none => "bad-op"
  | "multipart.read" :: kind :: parts =>
    match parts.mapM ofHex with
    | some ps =>
      let chunks := if kind == "slice" then chunksSlice else chunksStream
      let (es, o) := readMultipartWith chunks true 0 [] ps
      " ".intercalate (es.map Canon.entryS ++ [Canon.endS o])
    | none => "bad-op"
  | _ => "bad-op"

partial def loop (h : IO.FS.Stream) (out : IO.FS.Stream) : IO Unit := do
  let line ← h.getLine
  if line.isEmpty then return ()
  out.putStrLn (handle line)
  loop h out

def main : IO Unit := do
  let stdin ← IO.getStdin
  let stdout ← IO.getStdout
  loop stdin stdout
