//! Editing commands (C10, C13): real `pna` runs on generated archives, compared with the model's
//! transform and with an implementation-level frame/target/idempotence oracle.
use crate::cli::{self, flat, items_wire, read_logical, run_pna, LEntry, LItem, Sbx};
use crate::ctx::Ctx;
use crate::gen::{self, Cfg, Kind};
use crate::util::{bytes, hexw, rng_for};
use libpna::*;
use rand::Rng;
use serde_json::json;

const NAMES: [&str; 12] = ["a.txt", "b.txt", "dir/a.txt", "dir/c.bin", "dir/sub/d.txt", "e", "x y.txt", "ünï.dat", "dir/sub/e", "z.bin", "dir/{x}", "src/{a,b}.txt"];
const PATTERNS: [&str; 19] = ["*.txt", "dir/*", "**/*.txt", "a.txt", "dir/sub/*", "nomatch*", "*", "**", "e", "dir/c.bin", "?.txt", "[ab].txt",
    "{a.txt,e}", "dir/{a.txt,c.bin}", "dir/sub/{d.txt,e}", "{z.bin,b.txt}", "dir/\\{x\\}", "src/{a,b}.txt", "x\\ y.txt"];

fn gen_specs(rng: &mut impl Rng, force_acl: bool) -> Vec<gen::EntrySpec> {
    let n = rng.gen_range(1..6);
    let mut names: Vec<&str> = NAMES.to_vec();
    (0..n)
        .map(|_| {
            let mut e = gen::gen_entry(rng, 60);
            let k = rng.gen_range(0..names.len());
            e.name = names.remove(k).to_string();
            if e.kind == Kind::Hardlink || e.kind == Kind::Symlink { e.link = "a.txt".into(); }
            if (force_acl || rng.gen_bool(0.6)) && e.perm.is_none() {
                e.perm = Some((rng.gen_range(0..3000), ["root", "nobody", "someone"][rng.gen_range(0..3)].into(), rng.gen_range(0..3000), ["root", "nogroup"][rng.gen_range(0..2)].into(), rng.gen::<u16>() & 0o7777));
            }
            if rng.gen_bool(0.3) { e.xattrs.push(("user.k0".into(), b"old".to_vec())); }
            // access-control chunks as the CLI stores them (`--keep-acl`), next to other private chunks
            if force_acl || rng.gen_bool(0.3) {
                e.extras.push((*b"faCl", b"linux".to_vec()));
                e.extras.push((*b"faCe", b"linux:d:u:alice:allow:r,w".to_vec()));
                if rng.gen_bool(0.5) { e.extras.push((*b"faCe", b"linux::g::deny:x".to_vec())); }
                if rng.gen_bool(0.5) { e.extras.push((*b"myTy", b"keep-me".to_vec())); }
                // several platforms in one entry (an archive that travelled): the order in which they are written back matters
                if rng.gen_bool(0.5) {
                    for (pl, ace) in [("", ":u:bob:allow:r"), ("macos", "macos::u:carol:allow:r,w"), ("windows", "windows::g:staff:deny:w"), ("freebsd", "freebsd::u:dave:allow:x")] {
                        e.extras.push((*b"faCl", pl.as_bytes().to_vec()));
                        e.extras.push((*b"faCe", ace.as_bytes().to_vec()));
                    }
                    e.extras.push((*b"zzTy", b"after-the-acls".to_vec()));
                }
            }
            e
        })
        .collect()
}

/// archive with a mix of normal entries and solid blocks (blocks carry their own private chunk)
fn build_archive(rng: &mut impl Rng, cfg: &Cfg, one_big_block: bool, force_acl: bool, force_links: bool) -> (Vec<u8>, serde_json::Value) {
    let mut specs = gen_specs(rng, force_acl);
    if force_links {
        for (i, e) in specs.iter_mut().enumerate() {
            if i % 2 == 0 {
                e.kind = Kind::Symlink; e.link = "a.txt".into(); e.content = vec![]; e.writes = vec![];
                e.xattrs = vec![("user.k0".into(), b"on a link".to_vec()), ("user.k1".into(), vec![])];
                e.extras = vec![(*b"myTy", b"link-private".to_vec()), (*b"faCl", b"linux".to_vec()), (*b"faCe", b"linux:d:u:alice:allow:r,w".to_vec())];
            }
        }
    }
    if one_big_block {
        // a solid block of at least four entries, so that an edit can hit its first, middle and last entry
        while specs.len() < 4 {
            let mut more = gen_specs(rng, force_acl);
            more.retain(|e| !specs.iter().any(|s| s.name == e.name));
            specs.extend(more);
        }
    }
    let mut a = Archive::write_header(Vec::new()).unwrap();
    let mut i = 0;
    let mut layout = vec![];
    while i < specs.len() {
        if one_big_block || rng.gen_bool(0.35) {
            let k = if one_big_block { specs.len() - i } else { rng.gen_range(1..=(specs.len() - i).min(3)) };
            let mut sb = SolidEntryBuilder::new(cfg.options()).unwrap();
            // block-level unknown chunks: every combination of the ancillary / safe-to-copy letter cases
            for _ in 0..[0usize, 1, 1, 2][rng.gen_range(0..4)] {
                let t = [*b"soLd", *b"soLD", *b"SoLd", *b"SoLD", gen::gen_private_type(rng)][rng.gen_range(0..5)];
                let n = rng.gen_range(0..6);
                sb.add_extra_chunk(libpna::verif::raw_chunk(t, &bytes(rng, n)));
            }
            for e in &specs[i..i + k] { sb.add_entry(e.build(&Cfg::plain()).unwrap()).unwrap(); }
            a.add_entry(sb.build().unwrap()).unwrap();
            layout.push(format!("solid{k}"));
            i += k;
        } else {
            a.add_entry(specs[i].build(cfg).unwrap()).unwrap();
            layout.push("normal".into());
            i += 1;
        }
    }
    let mut bytes = a.finalize().unwrap();
    // a foreign writer may record a size with links and directories too (`fSIZ` is legal on every kind): such chunks must
    // survive the edits like everything else
    if rng.gen_bool(0.5) {
        if let Ok((cs, _)) = crate::refdec::chunks(&bytes) {
            let mut out: Vec<([u8; 4], Vec<u8>)> = vec![];
            for (i, (t, d)) in cs.iter().enumerate() {
                out.push((*t, d.clone()));
                let has_size = cs[i + 1..].iter().take_while(|(t2, _)| t2 != b"FEND").any(|(t2, _)| t2 == b"fSIZ");
                if t == b"FHED" && d.len() > 2 && d[2] != 0 && !has_size { out.push((*b"fSIZ", vec![0x10, i as u8])); }
            }
            let mut v = gen::SIG.to_vec();
            for (t, d) in out { v.extend(gen::frame(&t, &d)); }
            bytes = v;
        }
    }
    (bytes, json!({"layout": layout, "cfg": cfg.describe(), "entries": specs.iter().map(|e| e.to_json()).collect::<Vec<_>>()}))
}

fn glob_sel(patterns: &[&str], names: &[String]) -> Vec<String> {
    let mut b = globset::GlobSet::builder();
    for p in patterns { b.add(globset::Glob::new(p).unwrap()); }
    let gs = b.build().unwrap();
    names.iter().filter(|n| gs.is_match(std::path::Path::new(n.as_str()))).cloned().collect()
}

fn names_wire(n: &[String]) -> String {
    if n.is_empty() { ".".into() } else { n.iter().map(|s| hexw(s.as_bytes())).collect::<Vec<_>>().join(",") }
}

fn lookup_user(name: &str) -> Option<(u64, String)> {
    let c = std::ffi::CString::new(name).ok()?;
    let p = unsafe { libc::getpwnam(c.as_ptr()) };
    if p.is_null() { None } else { Some((unsafe { (*p).pw_uid } as u64, name.to_string())) }
}
fn lookup_group(name: &str) -> Option<(u64, String)> {
    let c = std::ffi::CString::new(name).ok()?;
    let p = unsafe { libc::getgrnam(c.as_ptr()) };
    if p.is_null() { None } else { Some((unsafe { (*p).gr_gid } as u64, name.to_string())) }
}

fn read_archive_file(path: &std::path::Path, pw: Option<&str>) -> Result<Vec<LItem>, String> {
    let b = std::fs::read(path).map_err(|e| format!("cannot read output archive: {e}"))?;
    read_logical(&[b], pw).map_err(|e| format!("output archive unreadable: {e}"))
}

/// everything but the attribute a command targets
fn frame_eq(a: &LEntry, b: &LEntry, cmd: &str) -> Vec<&'static str> {
    let mut d = vec![];
    if a.name != b.name { d.push("name"); }
    if a.kind != b.kind { d.push("kind"); }
    if a.data != b.data { d.push("data"); }
    if a.content != b.content { d.push("content"); }
    if a.raw_size != b.raw_size { d.push("raw size"); }
    if cmd != "chmod" && cmd != "strip" && a.mode != b.mode { d.push("mode"); }
    if cmd != "chown" && cmd != "strip" && a.owner != b.owner { d.push("owner"); }
    if cmd != "strip" && (a.c != b.c || a.m != b.m || a.a != b.a) { d.push("timestamps"); }
    if cmd != "xattr" && cmd != "strip" && a.xattrs != b.xattrs { d.push("xattrs"); }
    let acl_cmd = cmd == "acl" || cmd == "migrate";
    if cmd != "strip" && !acl_cmd && a.extras != b.extras { d.push("private chunks"); }
    if acl_cmd {
        let other = |e: &LEntry| -> Vec<([u8; 4], Vec<u8>)> { e.extras.iter().filter(|x| &x.0 != b"faCl" && &x.0 != b"faCe").cloned().collect() };
        if other(a) != other(b) { d.push("private chunks other than the access-control chunks"); }
    }
    d
}

pub fn edit(ctx: &mut Ctx) {
    let mut rng = rng_for(ctx.seed, "edit");
    ctx.rule = "archives with 1-5 entries from a fixed name pool, random mix of normal entries and solid blocks (blocks carry a private chunk), metadata/xattrs/private chunks, \
                plain or encrypted (password given); one editing command per case — delete/chmod/chown/xattr set/xattr remove/strip with generated arguments (glob patterns matching none/some/all, \
                numeric and symbolic modes, known/unknown users, flags) x {--unsolid,--keep-solid}; real `pna` run twice (idempotence), output read with the library and compared with the model's transform \
                and a frame/target oracle; non-trivial = at least one entry; distinct by request line".into();
    // deterministic witness of the known finding C10-acl-set-without-general-list: an entry that carries no access-control list of
    // the General platform (here: none at all — what `pna create` writes without --keep-acl; with --keep-acl on Linux the list is
    // a `linux` one) is named to `acl set -m`: the command exits 0 and changes nothing
    {
        use std::io::Write;
        let sbx = Sbx::new("edit-w", 0);
        let mut a = Archive::write_header(Vec::new()).unwrap();
        let mut b = EntryBuilder::new_file(EntryName::from("f.txt"), WriteOptions::store()).unwrap();
        b.write_all(b"x").unwrap();
        a.add_entry(b.build().unwrap()).unwrap();
        let bytes0 = a.finalize().unwrap();
        std::fs::write(sbx.path("a.pna"), &bytes0).unwrap();
        let r = run_pna(&sbx, &sbx.root, &["experimental", "acl", "set", "--unstable", "a.pna", "-m", "u:alice:r,w", "f.txt"], None, 60, &[]);
        ctx.oracle_eval();
        if r.ok() {
            let after = std::fs::read(sbx.path("a.pna")).unwrap_or_default();
            let has_ace = crate::refdec::chunks(&after).map(|(cs, _)| cs.iter().any(|(t, d)| t == b"faCe" && String::from_utf8_lossy(d).contains("alice"))).unwrap_or(false);
            if !has_ace {
                ctx.violation("C10", "`acl set -m` exits 0 without setting the entry it names", json!({"witness":"acl-set-without-general-list","argv":["experimental","acl","set","a.pna","-m","u:alice:r,w","f.txt"],"archive_unchanged": after == bytes0}));
            }
        }
        ctx.case_free();
    }
    let n = if ctx.thorough { 900 } else { 70 };
    for case in 0..n {
        let mut cfg = gen::gen_cfg(&mut rng, false);
        if case % 4 != 0 { cfg.enc = 0; }
        // … and four runs on an ENCRYPTED solid block that holds symbolic links carrying attributes and private chunks, rewritten
        // with --unsolid (the block's entries are re-encoded under the block's cipher: everything else of them must survive)
        let forced_link = (28..32).contains(&case);
        if forced_link { cfg.enc = 1 + (case % 2) as u8; cfg.mode = (case / 2 % 2) as u8; }
        let pw = if cfg.enc != 0 { Some(cfg.password.clone()) } else { None };
        // the first cases of every run: one solid block of >= 4 entries, `delete` of a single entry (first, middle,
        // last in turn) and of a pattern, under both strategies
        let forced = case < 12;
        // … then eight `strip` runs over entries that carry access-control chunks and other private chunks, with every
        // combination of --keep-acl and the three forms of --keep-private
        let forced_strip = (12..20).contains(&case);
        // … then eight `chown` runs (user only, group only, both, unknown names) over all entries, every entry carrying an
        // owner whose uid and gid differ
        let forced_chown = (20..28).contains(&case);
        let (bytes0, desc) = build_archive(&mut rng, &cfg, forced || forced_link, forced_strip || forced_chown, forced_link);
        let sbx = Sbx::new("edit", case);
        let apath = sbx.path("a.pna");
        std::fs::write(&apath, &bytes0).unwrap();
        let before = match read_logical(&[bytes0.clone()], pw.as_deref()) { Ok(v) => v, Err(e) => { ctx.notes.push(format!("generated archive unreadable: {e}")); continue; } };
        let names: Vec<String> = flat(&before).iter().map(|e| e.name.clone()).collect();
        let strategy = if forced_link { "unsolid" } else if forced { if case % 2 == 0 { "keep-solid" } else { "unsolid" } } else if rng.gen_bool(0.5) { "unsolid" } else { "keep-solid" };
        let npat = rng.gen_range(1..3);
        let single: String = if names.is_empty() { "a.txt".into() } else { globset::escape(&names[[0, names.len() / 2, names.len() - 1][(case / 2) % 3].min(names.len() - 1)]) };
        let pats: Vec<&str> = if forced && case < 6 { vec![single.as_str()] } else if forced_chown { vec!["**"] } else { (0..npat).map(|_| PATTERNS[rng.gen_range(0..PATTERNS.len())]).collect() };
        let sel = glob_sel(&pats, &names);
        let mut args: Vec<String> = vec![];
        let mut chown_expect: Option<(Option<(u64, String)>, Option<(u64, String)>)> = None;
        let mut strip_named = false;
        let mut strip_keep: Option<(bool, Vec<[u8; 4]>, bool, bool, bool)> = None; // (keep all private, kept types, timestamps, permission, xattrs)
        let cmd: &str;
        let model_req: String;
        match if forced { 0 } else if forced_strip { 5 } else if forced_chown { 2 } else if forced_link { [1, 0, 3, 6][case - 28] } else { rng.gen_range(0..8) } {
            6 => {
                // `acl set -m`: the entry's access-control chunks are rewritten; nothing else of the entry, and nothing of any other entry
                cmd = "acl";
                // (argument text, default?, owner kind 0 owner / 1 user / 2 owning group / 3 group / 4 mask / 5 other, owner name, text after the owner)
                let pool: [(&str, bool, u8, &str, Option<&str>); 10] = [
                    ("u:alice:r,w", false, 1, "alice", Some("r,w")), ("u:bob:x", false, 1, "bob", Some("x")), ("g:staff:r", false, 3, "staff", Some("r")),
                    ("d:u:alice:r", true, 1, "alice", Some("r")), ("u::r,w,x", false, 0, "", Some("r,w,x")), ("g::w", false, 2, "", Some("w")),
                    ("o::r", false, 5, "", Some("r")), ("m::r,x", false, 4, "", Some("r,x")), ("u:carol", false, 1, "carol", None), ("u:alice:allow:r", false, 1, "alice", Some("allow:r")),
                ];
                let wire = |a: &(&str, bool, u8, &str, Option<&str>)| format!("{}:{}:{}:{}", a.1 as u8, a.2, hexw(a.3.as_bytes()), match a.4 { None => "-".to_string(), Some(t) => hexw(t.as_bytes()) });
                let m = if rng.gen_bool(0.8) { Some(pool[rng.gen_range(0..pool.len())]) } else { None };
                let x = if m.is_none() || rng.gen_bool(0.3) { Some(pool[rng.gen_range(0..pool.len())]) } else { None };
                args.extend(["experimental", "acl", "set", "--unstable", "a.pna"].map(String::from));
                if let Some(m) = &m { args.push("-m".into()); args.push(m.0.into()); }
                if let Some(x) = &x { args.push("-x".into()); args.push(x.0.into()); }
                for p in &pats { args.push(p.to_string()); }
                model_req = format!("transform {strategy} aclset {} {} {} ", m.as_ref().map(wire).unwrap_or("-".into()), x.as_ref().map(wire).unwrap_or("-".into()), names_wire(&sel));
            }
            7 => {
                // `migrate`: regroups the access-control chunks of every entry; everything else stays
                cmd = "migrate";
                args.extend(["experimental", "migrate", "--unstable", "a.pna", "--output", "a.pna"].map(String::from));
                model_req = format!("transform {strategy} migrate ");
            }
            0 => {
                cmd = "delete";
                let excl: Vec<&str> = if rng.gen_bool(0.3) { vec![PATTERNS[rng.gen_range(0..PATTERNS.len())]] } else { vec![] };
                let ex = glob_sel(&excl, &names);
                args.extend(["experimental", "delete", "--unstable"].map(String::from));
                args.push("a.pna".into());
                for p in &pats { args.push(p.to_string()); }
                for e in &excl { args.push("--exclude".into()); args.push(e.to_string()); }
                model_req = format!("transform {strategy} delete {} {} ", names_wire(&sel), names_wire(&ex));
            }
            1 => {
                cmd = "chmod";
                let (text, clause) = match rng.gen_range(0..4) {
                    0 => { let m: u16 = rng.gen::<u16>() & 0o777; (format!("{:03o}", m), format!("num:{}", m)) }
                    k => {
                        let t: u8 = rng.gen_range(0..8);
                        let p: u8 = rng.gen_range(0..8);
                        let ts: String = [(1u8, 'u'), (2, 'g'), (4, 'o')].iter().filter(|(b, _)| t & b != 0).map(|(_, c)| *c).collect();
                        let ps: String = [(4u8, 'r'), (2, 'w'), (1, 'x')].iter().filter(|(b, _)| p & b != 0).map(|(_, c)| *c).collect();
                        let op = ['=', '+', '-'][k - 1];
                        let teff = if ts.is_empty() { 7 } else { t };
                        (format!("{ts}{op}{ps}"), format!("{}:{}:{}", ["eq", "plus", "minus"][k - 1], teff, p))
                    }
                };
                args.extend(["experimental", "chmod", "a.pna", "--"].map(String::from));
                args.push(text);
                for p in &pats { args.push(p.to_string()); }
                model_req = format!("transform {strategy} chmod {clause} {} ", names_wire(&sel));
            }
            2 => {
                cmd = "chown";
                let (u, g) = if forced_chown {
                    [("root", ""), ("nobody", ""), ("", "nogroup"), ("", "root"), ("root", "nogroup"), ("nobody", "root"), ("no-such-user-xyz", ""), ("", "no-such-group-xyz")][case - 20]
                } else {
                    (["root", "nobody", "no-such-user-xyz", ""][rng.gen_range(0..4)], ["root", "nogroup", "no-such-group-xyz", ""][rng.gen_range(0..4)])
                };
                let spec = if g.is_empty() { if u.is_empty() { "root".to_string() } else { u.to_string() } } else { format!("{u}:{g}") };
                let (uu, gg): (Option<&str>, Option<&str>) = if let Some((a, b)) = spec.split_once(':') { ((!a.is_empty()).then_some(a), (!b.is_empty()).then_some(b)) } else { (Some(spec.as_str()), None) };
                let uo = uu.and_then(lookup_user).map(|(i, n)| format!("{i}/{}", hexw(n.as_bytes()))).unwrap_or("-".into());
                let go = gg.and_then(lookup_group).map(|(i, n)| format!("{i}/{}", hexw(n.as_bytes()))).unwrap_or("-".into());
                chown_expect = Some((uu.and_then(lookup_user), gg.and_then(lookup_group)));
                args.extend(["experimental", "chown", "a.pna"].map(String::from));
                args.push(spec.clone());
                for p in &pats { args.push(p.to_string()); }
                model_req = format!("transform {strategy} chown {uo} {go} {} ", names_wire(&sel));
            }
            3 => {
                cmd = "xattr";
                let k = ["user.k0", "user.new", "user.k1"][rng.gen_range(0..3)];
                let v = ["new", "", "0x0a0b", "0sQUJD"][rng.gen_range(0..4)];
                let vb: Vec<u8> = match v { "0x0a0b" => vec![0x0a, 0x0b], "0sQUJD" => b"ABC".to_vec(), t => t.as_bytes().to_vec() };
                args.extend(["experimental", "xattr", "set", "a.pna", "--name", k, "--value", v].map(String::from));
                for p in &pats { args.push(p.to_string()); }
                model_req = format!("transform {strategy} xattr {}={} - {} ", hexw(k.as_bytes()), hexw(&vb), names_wire(&sel));
            }
            4 => {
                cmd = "xattr";
                let k = ["user.k0", "user.k1", "user.none"][rng.gen_range(0..3)];
                args.extend(["experimental", "xattr", "set", "a.pna", "--remove", k].map(String::from));
                for p in &pats { args.push(p.to_string()); }
                model_req = format!("transform {strategy} xattr - {} {} ", hexw(k.as_bytes()), names_wire(&sel));
            }
            _ => {
                cmd = "strip";
                let (kt, kp, kx) = (rng.gen_bool(0.5), rng.gen_bool(0.5), rng.gen_bool(0.5));
                let ka = if forced_strip { case % 4 != 3 } else { rng.gen_bool(0.5) };
                let kpriv = if forced_strip { case % 3 } else { rng.gen_range(0..3) };
                args.extend(["strip", "a.pna"].map(String::from));
                // every second strip names entries: only those are stripped (the FILES arguments were ignored before the fix)
                strip_named = case % 2 == 0 && !pats.is_empty();
                if strip_named { for p in &pats { args.push(p.to_string()); } }
                if kt { args.push("--keep-timestamp".into()); }
                if kp { args.push("--keep-permission".into()); }
                if kx { args.push("--keep-xattr".into()); }
                if ka { args.push("--keep-acl".into()); }
                let kpw = match kpriv { 0 => "-".to_string(), 1 => { args.push("--keep-private".into()); ".".to_string() } _ => { args.push("--keep-private".into()); args.push("myTy".into()); hexw(b"myTy") } };
                model_req = format!("transform {strategy} strip {}{}{}{} {kpw} {} ", kt as u8, kp as u8, kx as u8, ka as u8, if strip_named { names_wire(&sel) } else { "*".to_string() });
                let mut tys: Vec<[u8; 4]> = vec![];
                if ka { tys.push(*b"faCl"); tys.push(*b"faCe"); }
                if kpriv == 2 { tys.push(*b"myTy"); }
                strip_keep = Some((kpriv == 1, tys, kt, kp, kx));
            }
        }
        // options go right after the sub-command words (before any `--`)
        let pos = args.iter().position(|a| a == "a.pna").unwrap();
        let mut opts = vec![format!("--{strategy}")];
        if let Some(p) = &pw { opts.push(format!("--password={p}")); }
        for (i, o) in opts.into_iter().enumerate() { args.insert(pos + i, o); }
        ctx.count(&format!("cmd:{cmd}"));
        ctx.count(&format!("strategy:{strategy}"));
        ctx.count(if sel.is_empty() { "sel:none" } else if sel.len() == names.len() { "sel:all" } else { "sel:some" });
        let argv: Vec<&str> = args.iter().map(|s| s.as_str()).collect();
        let attrs = json!({"archive": desc, "argv": args, "strategy": strategy, "encrypted": pw.is_some()});
        let r = run_pna(&sbx, &sbx.root, &argv, None, 60, &[]);
        ctx.oracle_eval();
        if r.crashed() || r.hung() {
            ctx.violation("C07", "editing command crashed or hung", json!({"case":attrs,"run":r.brief()}));
            continue;
        }
        if !r.ok() {
            ctx.violation("C10", "editing command failed on a valid archive", json!({"case":attrs,"run":r.brief()}));
            continue;
        }
        let after_for_sizes = read_archive_file(&apath, pw.as_deref());
        if let Ok(items) = &after_for_sizes {
            // C18 after an edit: the size an entry reports is still the size of what it decodes to
            for e in flat(items) {
                if let (0, Some(rs), Some(c)) = (e.kind, e.raw_size, e.content.as_ref()) {
                    ctx.oracle_eval();
                    if rs != c.len() as u128 {
                        ctx.violation("C18", "after an editing command an entry records a raw size different from its decoded length", json!({"entry":e.name,"raw_size":rs.to_string(),"decoded":c.len()}));
                    }
                }
            }
        }
        let after = match read_archive_file(&apath, pw.as_deref()) { Ok(v) => v, Err(e) => { ctx.violation("C10", "archive unreadable after an editing command", json!({"case":attrs,"why":e})); ctx.violation("C14", "editing command wrote an unreadable archive", json!({"case":attrs,"why":e})); continue; } };
        // ---- model correspondence
        if model_req.is_empty() { ctx.case_free(); } else {
            ctx.case(json!({"cmd":cmd,"strategy":strategy,"n":names.len()}), format!("{model_req}{}", items_wire(&before)), format!("ok {}", items_wire(&after)), true);
        }
        // ---- independent well-formedness of what was written (C14)
        if let Err(why) = crate::refdec::strict_archive(&std::fs::read(&apath).unwrap(), vec![], false) {
            ctx.violation("C14", "editing command wrote an archive that is not well-formed", json!({"case":attrs,"why":why}));
        }
        // ---- frame / target oracle (C10, C13)
        // what the strategy hands on: `--unsolid` writes a file entry of an *encrypted* block under the block's codec,
        // cipher and mode (inside the block it is stored in the clear); everything else is the entry as it was
        let fb: Vec<LEntry> = before
            .iter()
            .flat_map(|i| match i {
                LItem::Normal(e) => vec![e.clone()],
                LItem::Solid { hdr, entries, .. } => entries
                    .iter()
                    .map(|e| {
                        let mut e = e.clone();
                        if strategy == "unsolid" && hdr.len() == 5 && hdr[3] != 0 && (e.kind == 0 || e.kind == 2) {
                            e.data = format!("{}{}{}{}", hdr[2], hdr[3], hdr[4], &e.data[3..]);
                        }
                        e
                    })
                    .collect(),
            })
            .collect();
        let fa = flat(&after);
        let kept: Vec<&LEntry> = if cmd == "delete" { fb.iter().filter(|e| !args.iter().any(|_| false) && !(sel.contains(&e.name))).collect() } else { fb.iter().collect() };
        if cmd == "delete" {
            // excluded entries are kept as well; recompute with the exclusion
            let excl_pats: Vec<&str> = args.iter().enumerate().filter(|(i, _)| *i > 0 && args[i - 1] == "--exclude").map(|(_, s)| s.as_str()).collect();
            let ex = glob_sel(&excl_pats, &names);
            let kept: Vec<&LEntry> = fb.iter().filter(|e| !(sel.contains(&e.name) && !ex.contains(&e.name))).collect();
            if kept.len() != fa.len() || kept.iter().zip(fa.iter()).any(|(a, b)| *a != b) {
                ctx.violation("C10", "delete changed something other than removing the selected entries", json!({"case":attrs,"kept":kept.iter().map(|e| &e.name).collect::<Vec<_>>(),"after":fa.iter().map(|e| &e.name).collect::<Vec<_>>()}));
            }
        } else if kept.len() != fa.len() {
            ctx.violation("C10", "an editing command changed the number of entries", json!({"case":attrs,"before":fb.len(),"after":fa.len()}));
        } else {
            for (b, a) in kept.iter().zip(fa.iter()) {
                let selected = (cmd == "strip" && !strip_named) || cmd == "migrate" || sel.contains(&b.name);
                let mut diffs = if selected { frame_eq(b, a, cmd) } else { if *b == a { vec![] } else { vec!["unselected entry changed"] } };
                if selected && cmd == "chown" {
                    // target: the named half is set (when the name resolves), the other half is untouched
                    if let (Some((eu, eg)), Some(ob)) = (&chown_expect, &b.owner) {
                        let want = (eu.as_ref().map(|x| x.0).unwrap_or(ob.0), eu.as_ref().map(|x| x.1.clone()).unwrap_or(ob.1.clone()), eg.as_ref().map(|x| x.0).unwrap_or(ob.2), eg.as_ref().map(|x| x.1.clone()).unwrap_or(ob.3.clone()));
                        if a.owner.as_ref() != Some(&want) { diffs.push("owner differs from the requested change (ids/names of the half that was not named, or wrong ids)"); }
                    } else if b.owner.is_none() && a.owner.is_some() { diffs.push("owner invented"); }
                }
                if let (true, Some((all, tys, kt, kp, kx))) = (selected, &strip_keep) {
                    // strip's target, from its options alone: which private chunks and which metadata survive
                    let want: Vec<([u8; 4], Vec<u8>)> = b.extras.iter().filter(|(t, _)| *all || tys.contains(t)).cloned().collect();
                    if a.extras != want { diffs.push("private chunks kept or removed against the --keep-acl / --keep-private options"); }
                    if (*kt && (a.c != b.c || a.m != b.m || a.a != b.a)) || (!*kt && (a.c.is_some() || a.m.is_some() || a.a.is_some())) { diffs.push("timestamps against --keep-timestamp"); }
                    if (*kp && (a.mode != b.mode || a.owner != b.owner)) || (!*kp && (a.mode.is_some() || a.owner.is_some())) { diffs.push("permission against --keep-permission"); }
                    if (*kx && a.xattrs != b.xattrs) || (!*kx && !a.xattrs.is_empty()) { diffs.push("xattrs against --keep-xattr"); }
                }
                if !diffs.is_empty() {
                    ctx.violation("C10", "an editing command changed more than the attribute it names", json!({"case":attrs,"entry":b.name,"selected":selected,"changed":diffs}));
                    if diffs.contains(&"private chunks") || diffs.contains(&"private chunks other than the access-control chunks") { ctx.violation("C13", "an editing command dropped unknown chunks of an entry", json!({"case":attrs,"entry":b.name})); }
                    // strip is allowed to drop what its options name — not the chunks it was told to keep
                    if diffs.contains(&"private chunks kept or removed against the --keep-acl / --keep-private options") && b.extras.len() > a.extras.len() { ctx.violation("C13", "strip dropped private chunks that its options say to keep", json!({"case":attrs,"entry":b.name,"kept":a.extras.len(),"before":b.extras.len()})); }
                    if diffs.contains(&"raw size") { ctx.violation("C13", "an editing command dropped or changed the size chunk (fSIZ) of an entry it only passes through", json!({"case":attrs,"entry":b.name,"before":format!("{:?}", b.raw_size),"after":format!("{:?}", a.raw_size)})); }
                }
            }
        }
        if strategy == "keep-solid" && cmd != "strip" {
            let blocks = |v: &[LItem]| -> Vec<(Vec<u8>, Vec<([u8; 4], Vec<u8>)>)> { v.iter().filter_map(|i| if let LItem::Solid { hdr, extras, .. } = i { Some((hdr.clone(), extras.clone())) } else { None }).collect() };
            if blocks(&before) != blocks(&after) {
                ctx.violation("C10", "--keep-solid changed the solid blocks (count, header options or their own chunks)", json!({"case":attrs}));
                ctx.violation("C13", "--keep-solid rewrite dropped unknown chunks of a solid block", json!({"case":attrs}));
            }
        }
        // ---- idempotence: the same edit again changes nothing further
        let r2 = run_pna(&sbx, &sbx.root, &argv, None, 60, &[]);
        if r2.ok() {
            if let Ok(again) = read_archive_file(&apath, pw.as_deref()) {
                let strip_solid = |v: &[LItem]| -> Vec<LItem> { v.to_vec() };
                if strip_solid(&again) != strip_solid(&after) {
                    ctx.violation("C10", "repeating the same edit changed the archive further", json!({"case":attrs}));
                }
            }
        } else {
            ctx.violation("C10", "repeating an editing command failed", json!({"case":attrs,"run":r2.brief()}));
        }
    }
}
