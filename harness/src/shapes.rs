//! `pnah shapes`: the worker-pool pipeline shapes of the CLI sources, extracted syntactically (syn) and
//! emitted as Lean (Generated/Shapes.lean) on every run, so that the C19 theorems are re-checked
//! against what the code says now.
use syn::visit::{self, Visit};

#[derive(Clone, Copy, PartialEq, Debug)]
enum Ctx {
    Loop,
    Scope,
}

struct V {
    stack: Vec<Ctx>,
    fn_name: String,
    found: Vec<(String, usize, &'static str)>,
}

fn is_scope(name: &str) -> bool {
    matches!(name, "scope" | "scope_fifo" | "in_place_scope" | "in_place_scope_fifo")
}
fn is_spawn(name: &str) -> bool {
    matches!(name, "spawn" | "spawn_fifo" | "spawn_broadcast")
}
fn is_par(name: &str) -> bool {
    matches!(name, "par_iter" | "into_par_iter" | "par_iter_mut" | "par_bridge" | "par_chunks" | "par_drain" | "par_extend")
}

impl V {
    fn classify_spawn(&self) -> &'static str {
        // innermost-first view of the enclosing loops and scopes
        let inner: Vec<Ctx> = self.stack.iter().rev().copied().collect();
        match inner.iter().position(|c| *c == Ctx::Scope) {
            None => {
                if inner.contains(&Ctx::Loop) { "detached" } else { "detached" }
            }
            Some(si) => {
                let loop_inside_scope = inner[..si].contains(&Ctx::Loop);
                let loop_outside_scope = inner[si + 1..].contains(&Ctx::Loop);
                if loop_inside_scope {
                    "scopeAroundLoop"
                } else if loop_outside_scope {
                    "scopePerItem"
                } else {
                    "single"
                }
            }
        }
    }
}

impl V {
    /// arguments of a scope/spawn call: the closure body runs once, in the context of the call
    fn visit_direct_args<'ast>(&mut self, args: impl Iterator<Item = &'ast syn::Expr>) {
        for a in args {
            if let syn::Expr::Closure(c) = a {
                self.visit_expr(&c.body);
            } else {
                self.visit_expr(a);
            }
        }
    }
}

impl<'ast> Visit<'ast> for V {
    /// any other closure may be called once per item by its callee (`run_process_archive(.., |entry| ..)`,
    /// iterator adaptors): it counts as a loop body
    fn visit_expr_closure(&mut self, i: &'ast syn::ExprClosure) {
        self.stack.push(Ctx::Loop);
        self.visit_expr(&i.body);
        self.stack.pop();
    }
    fn visit_item_fn(&mut self, i: &'ast syn::ItemFn) {
        let old = std::mem::replace(&mut self.fn_name, i.sig.ident.to_string());
        let st = std::mem::take(&mut self.stack);
        visit::visit_item_fn(self, i);
        self.stack = st;
        self.fn_name = old;
    }
    fn visit_impl_item_fn(&mut self, i: &'ast syn::ImplItemFn) {
        let old = std::mem::replace(&mut self.fn_name, i.sig.ident.to_string());
        let st = std::mem::take(&mut self.stack);
        visit::visit_impl_item_fn(self, i);
        self.stack = st;
        self.fn_name = old;
    }
    fn visit_expr_for_loop(&mut self, i: &'ast syn::ExprForLoop) {
        self.visit_expr(&i.expr);
        self.stack.push(Ctx::Loop);
        self.visit_block(&i.body);
        self.stack.pop();
    }
    fn visit_expr_while(&mut self, i: &'ast syn::ExprWhile) {
        self.stack.push(Ctx::Loop);
        visit::visit_expr_while(self, i);
        self.stack.pop();
    }
    fn visit_expr_loop(&mut self, i: &'ast syn::ExprLoop) {
        self.stack.push(Ctx::Loop);
        visit::visit_expr_loop(self, i);
        self.stack.pop();
    }
    fn visit_expr_method_call(&mut self, i: &'ast syn::ExprMethodCall) {
        let name = i.method.to_string();
        let line = i.method.span().start().line;
        if is_scope(&name) {
            self.visit_expr(&i.receiver);
            self.stack.push(Ctx::Scope);
            self.visit_direct_args(i.args.iter());
            self.stack.pop();
            return;
        }
        if is_spawn(&name) {
            let shape = self.classify_spawn();
            self.found.push((self.fn_name.clone(), line, shape));
            self.visit_expr(&i.receiver);
            self.visit_direct_args(i.args.iter());
            return;
        }
        if is_par(&name) {
            // order-preserving only when the chain is collected by index; decided from the whole statement text
            self.found.push((self.fn_name.clone(), line, "par"));
        }
        visit::visit_expr_method_call(self, i);
    }
    fn visit_expr_call(&mut self, i: &'ast syn::ExprCall) {
        if let syn::Expr::Path(p) = &*i.func {
            let segs: Vec<String> = p.path.segments.iter().map(|s| s.ident.to_string()).collect();
            if let Some(last) = segs.last() {
                let line = p.path.segments.last().unwrap().ident.span().start().line;
                if segs.len() >= 2 && (segs[segs.len() - 2] == "rayon" || segs[segs.len() - 2] == "thread") {
                    if is_scope(last) {
                        self.stack.push(Ctx::Scope);
                        self.visit_direct_args(i.args.iter());
                        self.stack.pop();
                        return;
                    }
                    if is_spawn(last) {
                        let shape = self.classify_spawn();
                        self.found.push((self.fn_name.clone(), line, shape));
                        self.visit_direct_args(i.args.iter());
                        return;
                    }
                }
            }
        }
        visit::visit_expr_call(self, i);
    }
}

fn cmd_of(file: &str) -> &'static str {
    match file {
        "create.rs" => "Cmd.create",
        "append.rs" => "Cmd.append",
        "update.rs" => "Cmd.update",
        "extract.rs" => "Cmd.extract",
        _ => "Cmd.other",
    }
}

pub fn shapes() -> String {
    let dir = "/repo/cli/src/command";
    let mut files: Vec<String> = std::fs::read_dir(dir).unwrap().filter_map(|e| e.ok()).map(|e| e.file_name().to_string_lossy().to_string()).filter(|n| n.ends_with(".rs")).collect();
    files.sort();
    let mut rows: Vec<String> = vec![];
    for f in files {
        let src = std::fs::read_to_string(format!("{dir}/{f}")).unwrap();
        let ast = match syn::parse_file(&src) {
            Ok(a) => a,
            Err(e) => {
                rows.push(format!("  ⟨{}, \"{f}\", \"<parse error: {}>\", 0, Shape.unknown⟩", cmd_of(&f), e.to_string().replace('"', "'")));
                continue;
            }
        };
        let mut v = V { stack: vec![], fn_name: String::new(), found: vec![] };
        v.visit_file(&ast);
        let lines: Vec<&str> = src.lines().collect();
        for (func, line, shape) in v.found {
            let shape = if shape == "par" {
                // look at the statement that follows: `.collect` keeps index order (rayon indexed collect); `for_each`/sends do not
                let tail: String = lines[line.saturating_sub(1)..(line + 12).min(lines.len())].join(" ");
                let stmt = tail.split(';').next().unwrap_or("");
                if stmt.contains(".collect") && !stmt.contains("par_bridge") && !stmt.contains("for_each") { "parIterCollect" } else { "parIterUnordered" }
            } else {
                shape
            };
            rows.push(format!("  ⟨{}, \"{f}\", \"{func}\", {line}, Shape.{shape}⟩", cmd_of(&f)));
        }
    }
    let mut out = String::new();
    out.push_str("import PnaVerif.Model.Cli.Sched\n/-! Generated by `pnah shapes` from /repo/cli/src/command/*.rs on every run. Do not edit. -/\nnamespace Pna.Generated\nopen Pna.Cli.Sched\n\n");
    out.push_str("/-- every place in cli/src/command that hands work to the thread pool -/\ndef shapes : List Site := [\n");
    out.push_str(&rows.join(",\n"));
    out.push_str("\n]\n\nend Pna.Generated\n");
    out
}
