//! `cli-truncate` family (C06 at the CLI): proper prefixes of single archives and of multipart
//! sequences (a part cut at any byte, the following parts missing, a part boundary with the next part
//! absent or empty) given to `pna list` and `pna extract`: the command must end with an error status,
//! must not crash, and whatever it extracted before the error must be complete original entries.
use crate::cli::{run_pna, snapshot, Node, Sbx};
use crate::ctx::Ctx;
use crate::util::{bytes, rng_for};
use rand::Rng;
use serde_json::json;

pub fn cli_truncate(ctx: &mut Ctx) {
    let mut rng = rng_for(ctx.seed, "cli-truncate");
    ctx.rule = "archives written by `pna create` (store/zstd, plain/solid, 3-6 files of 0..3000 bytes) as a single file and as a part set (--split 900): prefixes = {cut at a random byte, at every chunk-like boundary sample, \
                exactly at the end of part k with part k+1 absent, with part k+1 empty, with part k+1 cut}; `pna list`, `pna list --solid`, `pna extract` on the first part: exit status must be an error, never a crash or a hang; \
                files extracted before the error are byte-identical to source files".into();
    // an archive with hard-link entries (written with the library: `pna create` stores hard-linked files as files), cut inside the
    // last chunks: every entry that lies wholly before the cut is extracted — the hard links, which the extractor defers, as well
    {
        use libpna::{Archive, EntryBuilder, EntryName, EntryReference, WriteOptions};
        use std::io::Write;
        let sbx = Sbx::new("ctrunc-hl", 0);
        let mut a = Archive::write_header(Vec::new()).unwrap();
        for (n, c) in [("o1.txt", &b"origin one"[..]), ("d/o2.txt", &b"origin two"[..])] {
            let mut b = EntryBuilder::new_file(EntryName::from(n), WriteOptions::store()).unwrap();
            b.write_all(c).unwrap();
            a.add_entry(b.build().unwrap()).unwrap();
        }
        a.add_entry(EntryBuilder::new_hard_link(EntryName::from("h1.txt"), EntryReference::from("o1.txt")).unwrap().build().unwrap()).unwrap();
        a.add_entry(EntryBuilder::new_hard_link(EntryName::from("d/h2.txt"), EntryReference::from("o2.txt")).unwrap().build().unwrap()).unwrap();
        let mut b = EntryBuilder::new_file(EntryName::from("last.txt"), WriteOptions::store()).unwrap();
        b.write_all(b"the last entry").unwrap();
        a.add_entry(b.build().unwrap()).unwrap();
        let full = a.finalize().unwrap();
        let ends = crate::fam_frame::item_ends(&full);
        for cut in [full.len() - 6, full.len() - 1, ends[ends.len() - 1] - 3, ends[3] + 5] {
            let _ = std::fs::remove_dir_all(sbx.path("o"));
            std::fs::write(sbx.path("h.pna"), &full[..cut]).unwrap();
            let r = run_pna(&sbx, &sbx.root, &["--quiet", "extract", "h.pna", "--out-dir", "o"], None, 30, &[]);
            ctx.oracle_eval();
            ctx.count("prefix:archive-with-hard-links");
            let attrs = json!({"archive":"o1.txt, d/o2.txt, hard links h1.txt -> o1.txt and d/h2.txt -> o2.txt, last.txt","len":full.len(),"cut":cut,"run":r.brief()});
            if r.crashed() || r.hung() { ctx.violation("C06", "a command crashed or hung on a proper prefix of an archive", attrs.clone()); ctx.violation("C07", "a command crashed or hung on a truncated archive", attrs); continue; }
            if r.ok() { ctx.violation("C06", "a proper prefix of an archive (or of a multipart sequence) was read with exit status 0", attrs.clone()); }
            let complete = ends.iter().filter(|e| **e <= cut).count();
            let names = ["o1.txt", "d/o2.txt", "h1.txt", "d/h2.txt", "last.txt"];
            let missing: Vec<&str> = names.iter().take(complete).filter(|n| !sbx.path("o").join(n).exists()).copied().collect();
            let extra: Vec<&str> = names.iter().skip(complete).filter(|n| std::fs::metadata(sbx.path("o").join(n)).map(|m| m.len() > 0).unwrap_or(false) && **n != "last.txt").copied().collect();
            if !missing.is_empty() || !extra.is_empty() {
                ctx.violation("C06", "extraction of a truncated archive did not produce exactly the entries that lie wholly before the cut", json!({"case":attrs,"complete_entries":complete,"missing":missing,"unexpected":extra}));
            }
        }
        ctx.case_free();
    }
    let n = if ctx.thorough { 60 } else { 8 };
    let mut append_hung = false;
    for case in 0..n {
        let sbx = Sbx::new("ctrunc", case);
        std::fs::create_dir_all(sbx.path("t")).unwrap();
        let nfiles = rng.gen_range(3..7);
        let mut files: Vec<(String, Vec<u8>)> = vec![];
        for i in 0..nfiles {
            let name = format!("t/f{i}.bin");
            let k = if i == 0 { 3000 } else { [0usize, 10, 500, 3000, 1200][rng.gen_range(0..5)] };
            let c = bytes(&mut rng, k);
            std::fs::write(sbx.path(&name), &c).unwrap();
            files.push((name, c));
        }
        let solid = case % 4 == 3;
        let split = case % 2 == 0;
        let mut cargs: Vec<&str> = vec!["--quiet", "create", "a.pna", "-r", "t", if case % 3 == 0 { "--zstd" } else { "--store" }];
        if solid {
            cargs.push("--solid");
        }
        if split {
            cargs.extend(["--split", "900"]);
        }
        let cr = run_pna(&sbx, &sbx.root, &cargs, None, 60, &[]);
        if !cr.ok() {
            ctx.notes.push(format!("create failed: {}", cr.stderr.chars().take(200).collect::<String>()));
            continue;
        }
        // the complete set, in order
        let mut parts: Vec<(String, Vec<u8>)> = vec![];
        if let Ok(b) = std::fs::read(sbx.path("a.pna")) {
            parts.push(("a.pna".into(), b));
        } else {
            for i in 1.. {
                let n = format!("a.part{i}.pna");
                match std::fs::read(sbx.path(&n)) {
                    Ok(b) => parts.push((n, b)),
                    Err(_) => break,
                }
            }
        }
        if parts.is_empty() {
            continue;
        }
        ctx.count(if parts.len() > 1 { "multipart" } else { "single" });
        // prefixes: (number of complete parts kept, Some(bytes kept of the next part) | None = next part absent)
        let mut prefixes: Vec<(usize, Option<usize>)> = vec![];
        for k in 0..parts.len() {
            let len = parts[k].1.len();
            for _ in 0..(if ctx.thorough { 6 } else { 2 }) {
                prefixes.push((k, Some(rng.gen_range(0..len))));
            }
            prefixes.push((k, Some(0)));
            prefixes.push((k, Some(len - 1)));
            prefixes.push((k, Some(len.saturating_sub(12))));
            if k > 0 {
                prefixes.push((k, None));
            }
        }
        for (keep, next) in prefixes {
            // rebuild the sandbox's archive files for this prefix
            for (n, _) in &parts {
                let _ = std::fs::remove_file(sbx.path(n));
            }
            for (n, b) in parts.iter().take(keep) {
                std::fs::write(sbx.path(n), b).unwrap();
            }
            if let Some(cut) = next {
                std::fs::write(sbx.path(&parts[keep].0), &parts[keep].1[..cut]).unwrap();
            }
            let first = &parts[0].0;
            if !sbx.path(first).exists() {
                continue;
            }
            let desc = json!({"case":case,"solid":solid,"parts":parts.len(),"complete_parts_kept":keep,"next_part": match next { None => "absent".to_string(), Some(c) => format!("cut at {c} of {}", parts[keep].1.len()) }});
            ctx.count(match next { None => "prefix:next-part-absent", Some(0) => "prefix:next-part-empty", Some(_) => "prefix:cut-inside-a-part" });
            for cmd in 0..4 {
                // one hang of `append` is the finding; do not wait for it again on every further prefix
                if cmd == 3 && append_hung { continue; }
                let _ = std::fs::remove_dir_all(sbx.path("o"));
                let args: Vec<&str> = match cmd {
                    0 => vec!["list", first.as_str()],
                    1 => vec!["list", "-l", "--solid", first.as_str()],
                    2 => vec!["--quiet", "extract", first.as_str(), "--out-dir", "o", "--overwrite"],
                    // last (it may write to the archive): `append` looks for the end marker by skipping chunks — it must come back
                    _ => vec!["--quiet", "append", first.as_str(), "t/f1.bin"],
                };
                let r = run_pna(&sbx, &sbx.root, &args, None, if cmd == 3 { 15 } else { 30 }, &[]);
                ctx.oracle_eval();
                let attrs = json!({"prefix":desc,"argv":args,"run":r.brief()});
                if r.crashed() || r.hung() {
                    if cmd == 3 && r.hung() { append_hung = true; }
                    ctx.violation("C06", "a command crashed or hung on a proper prefix of an archive", attrs.clone());
                    ctx.violation("C07", "a command crashed or hung on a truncated archive", attrs);
                    continue;
                }
                if cmd == 3 { continue; }
                if r.ok() {
                    ctx.violation("C06", "a proper prefix of an archive (or of a multipart sequence) was read with exit status 0", attrs.clone());
                }
                if cmd == 2 {
                    // whatever was extracted is a complete original file
                    let snap = snapshot(&sbx.path("o"));
                    for (p, node) in &snap {
                        if let Node::File { content, .. } = node {
                            match files.iter().find(|(n, _)| n == p) {
                                Some((_, c)) if c == content => {}
                                Some(_) => ctx.violation("C06", "a file extracted from a truncated archive differs from the file that was archived", json!({"prefix":desc,"file":p,"run":r.brief()})),
                                None => ctx.violation("C06", "a file was extracted from a truncated archive that is not in the source", json!({"prefix":desc,"file":p})),
                            }
                        }
                    }
                }
            }
            ctx.case_free();
        }
    }
}
