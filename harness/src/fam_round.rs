//! Public-API families: roundtrip (C01, C14, C16, C18, C08) — archives written by the five
//! writer kinds with real codecs and ciphers, read back by the library, by the independent
//! reference reader, and (decision logic + structure) by the Lean model with oracle answers.
use crate::canon;
use crate::ctx::Ctx;
use crate::gen::{self, Cfg, EntrySpec, Kind, WriterKind, WRITER_KINDS};
use crate::refdec;
use crate::util::{catch, err_kind, hex, hexw, rng_for};
use libpna::*;
use rand::Rng;
use serde_json::json;
use std::io::Read;

fn read_with_schedule<R: Read>(mut r: R, sched: &[usize]) -> std::io::Result<Vec<u8>> {
    let mut out = vec![];
    let mut i = 0;
    loop {
        let n = if sched.is_empty() { 8192 } else { sched[i % sched.len()].max(1) };
        i += 1;
        let mut buf = vec![0u8; n];
        let k = r.read(&mut buf)?;
        if k == 0 {
            return Ok(out);
        }
        out.extend_from_slice(&buf[..k]);
        if i > 10_000_000 {
            return Err(std::io::Error::other("reader never reached end of stream"));
        }
    }
}

fn gen_read_sched(rng: &mut impl Rng) -> Vec<usize> {
    match rng.gen_range(0..6) {
        0 => vec![],
        1 => vec![1],
        2 => vec![16],
        3 => vec![15, 17],
        4 => vec![7, 20, 100],
        _ => (0..5).map(|_| rng.gen_range(1..64)).collect(),
    }
}

/// PHC oracle record for the model, computed with the password-hash/argon2/pbkdf2 crates.
fn phc_oracle(phsf: &str, password: &[u8]) -> String {
    use password_hash::{PasswordHash, PasswordHasher};
    let ph = match PasswordHash::new(phsf) {
        Ok(p) => p,
        Err(_) => return "0,other,0,0,0,none".into(),
    };
    let alg = ph.algorithm.as_str();
    let (cls, params_ok) = if alg.starts_with("argon2") {
        ("argon2", argon2::Params::try_from(&ph).is_ok())
    } else if alg == "pbkdf2-sha256" || alg == "pbkdf2-sha512" {
        ("pbkdf2", pbkdf2::Params::try_from(&ph).is_ok())
    } else {
        ("other", false)
    };
    let has_salt = ph.salt.is_some();
    let mut hash_ok = false;
    let mut key = "none".to_string();
    if params_ok && has_salt {
        let r = if cls == "argon2" {
            argon2::Argon2::default().hash_password_customized(password, Some(ph.algorithm), ph.version, argon2::Params::try_from(&ph).unwrap(), ph.salt.unwrap())
        } else {
            pbkdf2::Pbkdf2.hash_password_customized(password, Some(ph.algorithm), ph.version, pbkdf2::Params::try_from(&ph).unwrap(), ph.salt.unwrap())
        };
        if let Ok(h) = r {
            hash_ok = true;
            if let Some(o) = h.hash {
                key = hexw(o.as_bytes());
            }
        }
    }
    format!("1,{cls},{},{},{},{}", params_ok as u8, has_salt as u8, hash_ok as u8, key)
}

fn outcome_s(r: Result<Vec<u8>, String>) -> String {
    match r {
        Ok(b) => format!("ok:{}", hexw(&b)),
        Err(k) => format!("err:{k}"),
    }
}

/// Build the `entry.open` request for given header codes, PHSF, data slices and password, with
/// oracle answers computed from primitives; returns (request, Some(reference content)).
pub fn open_request(enc: u8, mode: u8, comp: u8, phsf: Option<&str>, slices: &[Vec<u8>], password: Option<&str>) -> String {
    let all: Vec<u8> = slices.iter().flatten().copied().collect();
    let phc = match (phsf, password) {
        (Some(p), Some(pw)) if enc != 0 => phc_oracle(p, pw.as_bytes()),
        _ => "0,other,0,0,0,none".into(),
    };
    // cipher-layer oracle for the (key, iv, ct) the model will ask about
    let key: Option<Vec<u8>> = phc.rsplit(',').next().and_then(|k| if k == "none" { None } else { crate::util::unhex(k) });
    let (dec, plain): (String, Option<Vec<u8>>) = if enc == 0 {
        ("na".into(), Some(all.clone()))
    } else if let (Some(k), true) = (key.as_ref(), all.len() >= 16) {
        match refdec::decrypt(enc, mode, k, &all[..16], &all[16..]) {
            Ok(p) => (format!("ok:{}", hexw(&p)), Some(p)),
            Err(kind) => (format!("err:{kind}"), None),
        }
    } else {
        ("na".into(), None)
    };
    let decomp = match &plain {
        Some(p) => outcome_s(refdec::decompress(comp, p).map_err(|e| err_kind(&e).to_string())),
        None => "na".into(),
    };
    let sl = if slices.is_empty() { ".".to_string() } else { slices.iter().map(|s| hexw(s)).collect::<Vec<_>>().join(",") };
    format!("entry.open {enc} {mode} {} {} {phc} {sl} {dec} {decomp}", phsf.is_some() as u8, password.is_some() as u8)
}

fn lib_open(e: &NormalEntry, password: Option<&str>, sched: &[usize]) -> String {
    let e = e.clone();
    let pw = password.map(|s| s.to_string());
    let sched = sched.to_vec();
    match catch(move || -> std::io::Result<Vec<u8>> {
        let r = e.reader(ReadOptions::with_password(pw))?;
        read_with_schedule(r, &sched)
    }) {
        Err(p) => format!("panic {p}"),
        Ok(Err(e)) => format!("err {}", err_kind(&e)),
        Ok(Ok(b)) => format!("ok {}", hexw(&b)),
    }
}

fn contains(hay: &[u8], needle: &[u8]) -> bool {
    !needle.is_empty() && hay.windows(needle.len()).any(|w| w == needle)
}

pub fn roundtrip(ctx: &mut Ctx) {
    let mut rng = rng_for(ctx.seed, "roundtrip");
    ctx.rule = "entry lists (files/dirs/symlinks/hardlinks; contents 0..N bytes biased to 0,1,15,16,17,block multiples; compressible and incompressible; metadata, xattrs, private chunks) \
                x {store,deflate,zstd,xz} x levels x {none,AES,Camellia} x {CBC,CTR} x {pbkdf2 r, argon2id t,m,p} x the five writer kinds x random write partitions x read-buffer schedules; \
                read back by the library (right / wrong / no password), by the independent primitive-crate reader, and by the model (structure + open-entry decision logic with oracle answers); \
                non-trivial = at least one entry written; distinct by request line".into();
    // key-derivation parameters well away from the defaults (C16: "whatever values the writer chose"): time costs beyond 256,
    // lanes beyond 16, memory beyond the default, PBKDF2 round counts over five orders of magnitude — each cheap to compute
    {
        use std::io::Read;
        let kdfs = [gen::Kdf::Argon2(Some(300), Some(8), Some(1)), gen::Kdf::Argon2(Some(257), Some(8), Some(1)), gen::Kdf::Argon2(Some(1), Some(136), Some(17)),
                    gen::Kdf::Argon2(Some(1), Some(512), Some(64)), gen::Kdf::Argon2(Some(2), Some(70_000), Some(2)), gen::Kdf::Pbkdf2(Some(1)), gen::Kdf::Pbkdf2(Some(1000)), gen::Kdf::Pbkdf2(Some(200_000))];
        for (i, kdf) in kdfs.iter().enumerate() {
            let cfg = gen::Cfg { compression: if i % 2 == 0 { 0 } else { 2 }, level: None, enc: 1 + (i % 2) as u8, mode: (i / 2 % 2) as u8, kdf: kdf.clone(), password: "kdf-sweep pässword".into() };
            let mut e = gen::gen_entry(&mut rng, 40);
            e.kind = gen::Kind::File; e.content = crate::util::bytes(&mut rng, 33); e.writes = vec![]; e.link = String::new();
            let kind = [WriterKind::Builder, WriterKind::SolidBuilder][i % 2];
            let (c2, e2) = (cfg.clone(), vec![e.clone()]);
            let r = catch(move || -> std::io::Result<Vec<u8>> {
                let (bytes, _) = gen::write_archive(kind, &c2, &e2)?;
                let mut a = Archive::read_header(&bytes[..])?;
                let es: Vec<NormalEntry> = a.entries_with_password(Some(&c2.password)).collect::<std::io::Result<_>>()?;
                let mut v = vec![];
                es[0].reader(ReadOptions::with_password(Some(c2.password.clone())))?.read_to_end(&mut v)?;
                Ok(v)
            });
            ctx.oracle_eval();
            ctx.count("kdf-parameter-sweep");
            let attrs = json!({"cfg": cfg.to_json(), "writer": format!("{kind:?}")});
            match r {
                Ok(Ok(v)) if v == e.content => {}
                Ok(Ok(v)) => { ctx.violation("C16", "the right password does not read back what was written with these key-derivation parameters", json!({"case":attrs,"read_len":v.len()})); ctx.violation("C01", "round trip fails for a supported key-derivation parameter set", json!({"case":attrs})); }
                Ok(Err(err)) => { ctx.violation("C16", "the right password does not read back what was written with these key-derivation parameters", json!({"case":attrs,"error":err.to_string()})); ctx.violation("C01", "round trip fails for a supported key-derivation parameter set", json!({"case":attrs,"error":err.to_string()})); }
                Err(p) => ctx.violation("C07", "reader panicked", json!({"case":attrs,"panic":p})),
            }
            ctx.case_free();
        }
    }
    let n = if ctx.thorough { 1500 } else { 110 };
    let mut salts: Vec<String> = vec![];
    let mut ivs: Vec<Vec<u8>> = vec![];
    // after the random cases: a systematic sweep of the "large single write" corner — 5 writer kinds x {store,deflate,zstd} x {none,CTR,CBC}
    // … then 20 cases whose CBC/CTR cipher text ends on or next to a multiple of 64 KiB (internal read-ahead and staging buffers
    // have such sizes), and 8 cases at the extreme compression levels of each codec
    let n_sys = 45 + 20 + 8;
    for case in 0..n + n_sys {
        let sys = if case >= n { Some(case - n) } else { None };
        let mut cfg = gen::gen_cfg(&mut rng, case % 9 == 0);
        if case % 3 == 0 && cfg.enc == 0 { cfg.enc = 1 + (case as u8 / 3) % 2; }
        let kind = match sys { Some(k) => WRITER_KINDS[k % 5], None => WRITER_KINDS[case % 5] };
        // corpus (runs first): witness of known finding C16-empty-ctr-store
        let corpus_empty_ctr = case == 0;
        if corpus_empty_ctr {
            cfg = gen::Cfg { compression: 0, level: None, enc: 1, mode: 1, kdf: gen::Kdf::Pbkdf2(Some(1)), password: "corpus-password".into() };
        }
        // "large" slice of the quantifier: payloads of 40 KiB .. 2.5 MiB written in ONE write call (or a few), incompressible or
        // compressible — codec staging buffers (32 KiB) and chunk-size limits only come into play there
        let big = sys.is_some() || case % 11 == 7 || (ctx.thorough && case % 97 == 0);
        if let Some(k) = sys.filter(|k| *k >= 65) {
            let j = k - 65;
            cfg.compression = [2u8, 2, 2, 1, 1, 4, 4, 2][j];
            cfg.level = Some([22i64, 20, 1, 9, 0, 9, 0, 21][j]);
            cfg.enc = if j % 2 == 0 { 0 } else { 1 };
            cfg.mode = (j / 2 % 2) as u8;
            cfg.kdf = gen::Kdf::Pbkdf2(Some(1));
        } else if let Some(_k) = sys.filter(|k| *k >= 45) {
            cfg.compression = 0;
            cfg.level = None;
            cfg.enc = 1 + (case % 2) as u8;
            cfg.mode = if (case / 2) % 5 == 4 { 1 } else { 0 };
            cfg.kdf = gen::Kdf::Pbkdf2(Some(1));
        } else if let Some(k) = sys {
            cfg.compression = [0u8, 1, 2][(k / 5) % 3];
            cfg.level = None;
            let c = (k / 15) % 3;
            cfg.enc = if c == 0 { 0 } else { 1 + (k % 2) as u8 };
            cfg.mode = if c == 1 { 1 } else { 0 };
            cfg.kdf = gen::Kdf::Pbkdf2(Some(1));
        } else if big {
            cfg.compression = [0u8, 0, 1, 2, 4][(case / 11) % 5];
            cfg.level = None;
            if (case / 11) % 2 == 0 { cfg.enc = 1 + ((case / 22) % 2) as u8; cfg.mode = ((case / 11) % 4 / 2) as u8; }
        }
        let ne = if sys.is_some() { 0 } else { rng.gen_range(0..4) };
        let mut entries: Vec<EntrySpec> = (0..ne).map(|_| gen::gen_entry(&mut rng, 300)).collect();
        if big {
            let mut e = gen::gen_entry(&mut rng, 0);
            e.kind = Kind::File;
            e.name = "big/payload.bin".into();
            let n = match sys { Some(k) if k >= 65 => 50_000 + k, Some(k) if k >= 45 => [65_519usize, 65_520, 65_527, 65_535, 65_536, 65_537, 131_055, 131_056, 131_071, 131_072][(k - 45) % 10], Some(k) => [70_001usize, 1_200_003][(k / 5) % 2 ^ (k % 2)], None => [40_000usize, 70_000, 1_200_000, 2_500_000][rng.gen_range(0..4)] };
            e.content = if sys.is_some_and(|k| k >= 65) { (0..n).map(|i| (i % 251) as u8 ^ (i / 977) as u8).collect() } else if sys.is_some() || rng.gen_bool(0.7) { crate::util::bytes(&mut rng, n) } else { (0..n).map(|i| (i % 251) as u8).collect() };
            e.writes = if sys.is_some() || rng.gen_bool(0.6) { vec![n] } else { vec![n / 3, 1, n / 2] };
            e.link = String::new();
            e.xattrs.clear();
            entries.push(e);
        }
        if corpus_empty_ctr {
            let mut e = gen::gen_entry(&mut rng, 0);
            e.kind = Kind::File;
            e.name = "empty.bin".into();
            e.content = vec![];
            e.writes = vec![];
            e.link = String::new();
            entries = vec![e];
        }
        // canary entry: incompressible 64 bytes, so that leakage would be verbatim
        let canary: Vec<u8> = crate::util::bytes(&mut rng, 64);
        if cfg.enc != 0 {
            let mut e = gen::gen_entry(&mut rng, 0);
            e.kind = Kind::File;
            e.name = "secret-dir/secret-name.bin".into();
            e.content = canary.clone();
            e.writes = gen::gen_partition(&mut rng, 64);
            e.link = String::new();
            entries.push(e);
        }
        ctx.count(&format!("writer:{:?}", kind));
        ctx.count(&format!("cfg:c{}e{}m{}", cfg.compression, cfg.enc, if cfg.enc == 0 { 9 } else { cfg.mode }));
        let attrs = json!({"writer": format!("{:?}", kind), "cfg": cfg.to_json(), "entries": entries.iter().map(|e| e.to_json()).collect::<Vec<_>>()});
        // ---------- C18 on freshly built entries (before anything is written or read back): the sizes an entry
        // reports about itself are those of the chunks it holds
        if entries.len() <= 8 {
            for spec in &entries {
                if spec.content.len() > 300_000 { continue; }
                let (s2, c3) = (spec.clone(), cfg.clone());
                if let Ok(Ok(e)) = catch(move || s2.build(&c3)) {
                    ctx.oracle_eval();
                    let total: usize = libpna::verif::normal_entry_data(&e).iter().map(|d| d.len()).sum();
                    if e.metadata().compressed_size() != total {
                        ctx.violation("C18", "a built entry reports a compressed_size different from the total of its data-chunk payloads", json!({"case":attrs,"entry":spec.to_json(),"compressed_size":e.metadata().compressed_size(),"payload_total":total}));
                    }
                    if let (Some(rs), true) = (e.metadata().raw_file_size(), spec.kind == Kind::File) {
                        if rs != spec.content.len() as u128 {
                            ctx.violation("C18", "a built entry records a raw size different from the bytes written into it", json!({"case":attrs,"entry":spec.to_json(),"raw":rs.to_string(),"written":spec.content.len()}));
                        }
                    }
                    // … and survive a write / read cycle unchanged
                    if let Ok((wbytes, count)) = libpna::verif::entry_write_in(&e) {
                        if count != wbytes.len() { ctx.violation("C18", "write_in returned a count different from the bytes written", json!({"case":attrs,"entry":spec.to_json(),"count":count,"written":wbytes.len()})); }
                        let arch = [&gen::SIG[..], &gen::frame(b"AHED", &[0; 8]), &wbytes[..], &gen::frame(b"AEND", &[])].concat();
                        if let Ok(mut a) = Archive::read_header(&arch[..]) {
                            if let Some(Ok(ReadEntry::Normal(r))) = a.entries().next() {
                                if r.metadata().compressed_size() != e.metadata().compressed_size() || r.metadata().raw_file_size() != e.metadata().raw_file_size() {
                                    ctx.violation("C18", "the sizes an entry reports change when it is written and read back", json!({"case":attrs,"entry":spec.to_json(),"built":[e.metadata().compressed_size().to_string(), format!("{:?}", e.metadata().raw_file_size())],"read_back":[r.metadata().compressed_size().to_string(), format!("{:?}", r.metadata().raw_file_size())]}));
                                }
                            }
                        }
                    }
                }
            }
        }
        let (c2, e2) = (cfg.clone(), entries.clone());
        let (bytes, written) = match catch(move || gen::write_archive(kind, &c2, &e2)) {
            Ok(Ok(x)) => x,
            Ok(Err(e)) => { ctx.violation("C01", "writer returned an error on valid input", json!({"case":attrs,"error":e.to_string()})); continue; }
            Err(p) => { ctx.violation("C01", "writer panicked on valid input", json!({"case":attrs,"panic":p})); continue; }
        };
        // ---------- the same archive through a sink that accepts only part of every write / gathered write (legal `Write` behaviour):
        // without encryption and timestamps of "now" the bytes are a function of the input, so they must be the same
        if cfg.enc == 0 {
            let (c3, e3) = (cfg.clone(), entries.clone());
            let seed = bytes.len() as u64 * 2654435761 + written.len() as u64;
            ctx.oracle_eval();
            match catch(move || gen::write_archive_to(kind, &c3, &e3, gen::ChaoticSink::new(seed)).map(|(s, _)| s.out)) {
                Ok(Ok(out)) => {
                    if out != bytes {
                        let at = out.iter().zip(bytes.iter()).position(|(a, b)| a != b).unwrap_or(out.len().min(bytes.len()));
                        ctx.violation("C14", "the archive written through a sink that makes short writes differs from the one written to memory", json!({"case":attrs,"len_short_writes":out.len(),"len_memory":bytes.len(),"first_difference_at":at}));
                        ctx.violation("C01", "the archive written through a sink that makes short writes differs from the one written to memory", json!({"case":attrs,"len_short_writes":out.len(),"len_memory":bytes.len(),"first_difference_at":at}));
                    }
                }
                Ok(Err(e)) => ctx.violation("C01", "writer failed on a sink that makes short writes", json!({"case":attrs,"error":e.to_string()})),
                Err(p) => { ctx.violation("C01", "writer panicked on a sink that makes short writes", json!({"case":attrs,"panic":p.clone()})); ctx.violation("C14", "writer panicked on a sink that makes short writes", json!({"case":attrs,"panic":p})); }
            }
        }
        let pw = cfg.password.clone();
        let pw_opt: Option<&str> = if cfg.enc != 0 { Some(&pw) } else { None };
        let solid = !matches!(kind, WriterKind::Builder | WriterKind::WriteFile);
        let write_file = matches!(kind, WriterKind::WriteFile | WriterKind::SolidArchiveWriteFile);
        // ---------- model: structure
        if bytes.len() < 20000 {
            ctx.case(json!({"op":"structure","writer":format!("{:?}",kind)}), format!("archive.read.stream {}", hexw(&bytes)), canon::read_stream(&bytes), !written.is_empty());
        }
        // ---------- library read-back (C01)
        let sched = gen_read_sched(&mut rng);
        let b2 = bytes.clone();
        let pw2 = pw_opt.map(|s| s.to_string());
        let lib: Result<std::io::Result<Vec<NormalEntry>>, String> = catch(move || {
            let mut a = Archive::read_header(&b2[..])?;
            a.entries_with_password(pw2.as_deref()).collect()
        });
        let lib = match lib {
            Ok(Ok(v)) => v,
            Ok(Err(e)) => { ctx.violation("C01", "library cannot read back what it wrote", json!({"case":attrs,"error":e.to_string(),"archive":hex(&bytes[..bytes.len().min(4000)])})); continue; }
            Err(p) => { ctx.violation("C01", "library panicked reading back what it wrote", json!({"case":attrs,"panic":p})); continue; }
        };
        ctx.oracle_eval();
        if lib.len() != written.len() {
            ctx.violation("C01", "number of entries read back differs from entries written", json!({"case":attrs,"read":lib.len(),"written":written.len()}));
            continue;
        }
        for (le, wi) in lib.iter().zip(written.iter()) {
            let spec = &entries[*wi];
            let mut problems: Vec<String> = vec![];
            let want_name = EntryName::from(spec.name.as_str());
            if le.header().path() != &want_name { problems.push(format!("name {} != {}", le.header().path(), want_name)); }
            let want_kind = match spec.kind { Kind::File => DataKind::File, Kind::Dir => DataKind::Directory, Kind::Symlink => DataKind::SymbolicLink, Kind::Hardlink => DataKind::HardLink };
            if le.header().data_kind() != want_kind { problems.push("kind".into()); }
            let want_content: Vec<u8> = match spec.kind { Kind::File => spec.content.clone(), Kind::Dir => vec![], _ => EntryReference::from(spec.link.as_str()).as_str().as_bytes().to_vec() };
            let entry_pw = if solid { None } else { pw_opt };
            let got = lib_open(le, entry_pw, &sched);
            if got != format!("ok {}", hexw(&want_content)) {
                problems.push(format!("content differs (read schedule {:?}): got {} bytes-desc {}", sched, got.len(), &got[..got.len().min(80)]));
            }
            let m = le.metadata();
            if m.created().map(|d| d.as_secs()) != spec.created || m.modified().map(|d| d.as_secs()) != spec.modified || m.accessed().map(|d| d.as_secs()) != spec.accessed { problems.push("timestamps".into()); }
            let want_perm = spec.perm.clone().map(|(u, un, g, gn, p)| Permission::new(u, un, g, gn, p));
            if m.permission() != want_perm.as_ref() { problems.push("permission".into()); }
            if !write_file {
                let want_x: Vec<ExtendedAttribute> = spec.xattrs.iter().map(|(n, v)| ExtendedAttribute::new(n.clone(), v.clone())).collect();
                if le.xattrs() != &want_x[..] { problems.push("xattrs".into()); }
                let got_extra: Vec<([u8; 4], Vec<u8>)> = le.extra_chunks().iter().map(|c| (canon::chunk_ty(c), libpna::prelude::Chunk::data(c).to_vec())).collect();
                if got_extra != spec.extras { problems.push("extra chunks".into()); }
                let want_size = if spec.kind == Kind::File && spec.store_size { Some(spec.content.len() as u128) } else { None };
                if m.raw_file_size() != want_size { problems.push(format!("raw size {:?} != {:?}", m.raw_file_size(), want_size)); }
            }
            // C18: compressed size = total data payload; raw size = decoded length
            let data = libpna::verif::normal_entry_data(le);
            let total: usize = data.iter().map(|d| d.len()).sum();
            if m.compressed_size() != total {
                ctx.violation("C18", "compressed_size differs from the total of the data-chunk payloads", json!({"case":attrs,"entry":spec.to_json(),"compressed_size":m.compressed_size(),"payload_total":total}));
            }
            if let Some(rs) = m.raw_file_size() {
                if rs != want_content.len() as u128 {
                    ctx.violation("C18", "recorded raw size differs from the decoded length", json!({"case":attrs,"entry":spec.to_json(),"raw":rs.to_string(),"decoded":want_content.len()}));
                }
            }
            if !problems.is_empty() {
                ctx.violation("C01", "entry read back differs from entry written", json!({"case":attrs,"entry":spec.to_json(),"problems":problems,"read_schedule":sched}));
            }
            // ---------- model: open-entry decision logic with oracles (top-level normal entries)
            if !solid && data.iter().map(|d| d.len()).sum::<usize>() < 6000 {
                let h = le.header();
                let phsf = libpna::verif::normal_entry_phsf(le);
                let (enc, mode, comp) = (h.encryption() as u8, h.cipher_mode() as u8, h.compression() as u8);
                for (label, p) in [("right", entry_pw), ("none", None), ("wrong", Some("definitely-wrong-password"))] {
                    if label != "right" && enc == 0 { continue; }
                    let req = open_request(enc, mode, comp, phsf.as_deref(), &data, p);
                    let imp = lib_open(le, p, &sched);
                    ctx.oracle_eval();
                    if imp.starts_with("panic") {
                        ctx.violation("C16", "reading an encrypted entry panicked", json!({"case":attrs,"password":label,"answer":imp}));
                        ctx.violation("C07", "entry data reader panicked", json!({"case":attrs,"password":label,"answer":imp}));
                    }
                    if label == "none" && imp != "err invalidInput" {
                        ctx.violation("C16", "reading an encrypted entry without a password did not fail with InvalidInput", json!({"case":attrs,"answer":imp}));
                    }
                    if label == "wrong" && want_content.len() >= 16 && imp == format!("ok {}", hexw(&want_content)) {
                        ctx.violation("C16", "a wrong password yielded the original plaintext", json!({"case":attrs}));
                    }
                    if label == "wrong" && want_content.is_empty() && imp == "ok -" {
                        ctx.violation("C16", "a wrong password yielded the original (empty) plaintext", json!({"case":attrs,"plaintext_len":0,"cipher_mode":mode,"compression":comp,"answer":imp}));
                    }
                    if label == "right" && imp != format!("ok {}", hexw(&want_content)) {
                        ctx.violation("C16", "the right password did not read the entry", json!({"case":attrs,"answer":imp[..imp.len().min(100)].to_string()}));
                    }
                    ctx.case(json!({"op":"open","password":label,"enc":enc,"mode":mode,"comp":comp}), req, imp, true);
                }
            }
        }
        // ---------- C03: re-cut every run of data chunks at arbitrary byte positions (inside the IV, inside a cipher block,
        // inside a compressed frame, 1-byte chunks, empty chunks) and decode again: nothing may change
        if bytes.len() < 400_000 {
            if let Ok((chunks, _)) = refdec::chunks(&bytes) {
                for round in 0..2 {
                    let mut out = gen::SIG.to_vec();
                    let mut i = 0;
                    while i < chunks.len() {
                        let (t, _) = &chunks[i];
                        if t == b"FDAT" || t == b"SDAT" {
                            let mut run: Vec<u8> = vec![];
                            let ty = *t;
                            while i < chunks.len() && chunks[i].0 == ty { run.extend_from_slice(&chunks[i].1); i += 1; }
                            // cut points
                            let mut pos = 0;
                            let style = if round == 0 { 0 } else { rng.gen_range(1..4) };
                            if rng.gen_bool(0.3) { out.extend(gen::frame(&ty, &[])); }
                            while pos < run.len() {
                                let n = match style { 0 => [1usize, 4, 11, 5, 16, 3][(pos / 3) % 6], 1 => 1, 2 => rng.gen_range(1..40), _ => rng.gen_range(1..=run.len() - pos) };
                                let n = n.min(run.len() - pos);
                                out.extend(gen::frame(&ty, &run[pos..pos + n]));
                                if rng.gen_bool(0.05) { out.extend(gen::frame(&ty, &[])); }
                                pos += n;
                                if style == 1 && pos > 64 { out.extend(gen::frame(&ty, &run[pos..])); pos = run.len(); }
                            }
                        } else {
                            out.extend(gen::frame(t, &chunks[i].1));
                            i += 1;
                        }
                    }
                    let pw2 = pw_opt.map(|s| s.to_string());
                    let o2 = out.clone();
                    let sched2 = sched.clone();
                    let solid2 = solid;
                    let re: Result<std::io::Result<Vec<(String, Vec<u8>)>>, String> = catch(move || {
                        let mut a = Archive::read_header(&o2[..])?;
                        let es: Vec<NormalEntry> = a.entries_with_password(pw2.as_deref()).collect::<std::io::Result<_>>()?;
                        let mut v = vec![];
                        for e in es {
                            let r = e.reader(ReadOptions::with_password(if solid2 { None } else { pw2.clone() }))?;
                            v.push((e.header().path().as_str().to_string(), read_with_schedule(r, &sched2)?));
                        }
                        Ok(v)
                    });
                    ctx.oracle_eval();
                    let want: Vec<(String, Vec<u8>)> = lib.iter().zip(written.iter()).map(|(le, wi)| {
                        let spec = &entries[*wi];
                        let c: Vec<u8> = match spec.kind { Kind::File => spec.content.clone(), Kind::Dir => vec![], _ => EntryReference::from(spec.link.as_str()).as_str().as_bytes().to_vec() };
                        (le.header().path().as_str().to_string(), c)
                    }).collect();
                    match re {
                        Ok(Ok(v)) if v == want => {}
                        other => {
                            let why = match other { Ok(Ok(_)) => "different contents".to_string(), Ok(Err(e)) => format!("error: {e}"), Err(p) => format!("panic: {p}") };
                            ctx.violation("C03", "decoding depends on where the data chunks are cut (re-cut archive decodes differently)", json!({"case":attrs,"round":round,"why":why,"recut_archive":hex(&out[..out.len().min(3000)])}));
                            if why.starts_with("panic") { ctx.violation("C07", "reader panicked on a re-cut archive", json!({"case":attrs,"why":why})); }
                        }
                    }
                    // the model reads the re-cut archive structurally to the same entries (data slicing aside)
                    if out.len() < 6000 {
                        ctx.case(json!({"op":"recut","writer":format!("{:?}",kind)}), format!("archive.read.stream {}", hexw(&out)), canon::read_stream(&out), true);
                    }
                }
            }
        }
        // ---------- independent reference reader (C14)
        ctx.oracle_eval();
        match refdec::strict_archive(&bytes, vec![], false) {
            Err(why) => ctx.violation("C14", "library output is not well-formed PNA", json!({"case":attrs,"why":why,"archive":hex(&bytes[..bytes.len().min(3000)])})),
            Ok(ra) => {
                if ra.number != 0 { ctx.violation("C14", "archive number of a single archive is not 0", json!({"case":attrs})); }
                let mut flat: Vec<refdec::RefEntry> = vec![];
                let mut bad = None;
                for it in &ra.items {
                    if it.solid {
                        match refdec::solid_entries(it, pw_opt) { Ok(v) => flat.extend(v), Err(e) => { bad = Some(e); break; } }
                    } else { flat.push(it.clone()); }
                }
                if let Some(e) = bad {
                    ctx.violation("C14", "independent reader cannot decode a solid block the library wrote", json!({"case":attrs,"why":e}));
                } else if flat.len() != written.len() {
                    ctx.violation("C14", "independent reader sees a different number of entries", json!({"case":attrs,"ref":flat.len(),"written":written.len()}));
                } else {
                    for (re, wi) in flat.iter().zip(written.iter()) {
                        let spec = &entries[*wi];
                        let want_content: Vec<u8> = match spec.kind { Kind::File => spec.content.clone(), Kind::Dir => vec![], _ => EntryReference::from(spec.link.as_str()).as_str().as_bytes().to_vec() };
                        let want_name = EntryName::from(spec.name.as_str());
                        let got = refdec::content(re, if solid { None } else { pw_opt });
                        let mut probs = vec![];
                        if got.as_ref().ok() != Some(&want_content) { probs.push(format!("content: {:?}", got.as_ref().map(|v| v.len()).map_err(|e| e.clone()))); }
                        if re.name != want_name.as_str().as_bytes() { probs.push("name".into()); }
                        if re.c != spec.created || re.m != spec.modified || re.a != spec.accessed { probs.push("timestamps".into()); }
                        let want_perm = spec.perm.clone().map(|(u, un, g, gn, p)| (u, un.into_bytes(), g, gn.into_bytes(), p));
                        if re.perm != want_perm { probs.push("permission".into()); }
                        if !write_file {
                            let wx: Vec<(Vec<u8>, Vec<u8>)> = spec.xattrs.iter().map(|(n, v)| (n.clone().into_bytes(), v.clone())).collect();
                            if re.xattrs != wx { probs.push("xattrs".into()); }
                            if re.extras != spec.extras { probs.push("extras".into()); }
                        }
                        if re.enc != 0 && !solid {
                            // IV leads the data stream; salt/IV freshness bookkeeping (C08)
                            ivs.push(re.data[..16].to_vec());
                        }
                        if !probs.is_empty() {
                            ctx.violation("C14", "independent reader decodes different contents than were written", json!({"case":attrs,"entry":spec.to_json(),"problems":probs}));
                        }
                    }
                }
                // ---------- C08: leakage and freshness
                if cfg.enc != 0 {
                    ctx.oracle_eval();
                    let mut phsfs: Vec<String> = vec![];
                    for it in &ra.items { if let Some(p) = &it.phsf { phsfs.push(String::from_utf8_lossy(p).to_string()); } }
                    for it in &ra.items { if it.solid && it.enc != 0 { ivs.push(it.data[..16].to_vec()); } }
                    for p in &phsfs {
                        let phc = refdec::parse_phc(p);
                        match phc {
                            None => ctx.violation("C08", "PHSF chunk is not a PHC string", json!({"case":attrs,"phsf":p})),
                            Some(phc) => {
                                if phc.hash.is_some() { ctx.violation("C08", "PHSF chunk contains the derived key (hash field present)", json!({"case":attrs,"phsf":p})); }
                                if let Some(s) = phc.salt { salts.push(s); } else { ctx.violation("C08", "PHSF chunk has no salt", json!({"case":attrs,"phsf":p})); }
                                if let Ok(key) = refdec::derive_key(p, pw.as_bytes()) {
                                    use base64::Engine;
                                    let encs: Vec<(String, Vec<u8>)> = vec![
                                        ("raw key".into(), key.clone()),
                                        ("hex key".into(), hex(&key).into_bytes()),
                                        ("base64 key".into(), base64::engine::general_purpose::STANDARD_NO_PAD.encode(&key).into_bytes()),
                                    ];
                                    for (what, needle) in encs {
                                        if contains(&bytes, &needle) { ctx.violation("C08", "archive contains the derived key", json!({"case":attrs,"encoding":what})); }
                                    }
                                }
                            }
                        }
                    }
                    if pw.len() >= 6 && contains(&bytes, pw.as_bytes()) { ctx.violation("C08", "archive contains the password", json!({"case":attrs})); }
                    if cfg.compression == 0 || true {
                        for w in canary.windows(8) {
                            if contains(&bytes, w) { ctx.violation("C08", "archive contains a run of the plaintext", json!({"case":attrs})); break; }
                        }
                    }
                    if solid && contains(&bytes, b"secret-name") { ctx.violation("C08", "solid encrypted archive exposes an entry name", json!({"case":attrs})); }
                }
            }
        }
    }
    // ---------- C08 freshness under concurrency: encrypted streams produced on several threads of
    // this process (as the CLI's worker pool does) must not share salts or IVs either
    {
        let nthreads = 6;
        let per = if ctx.thorough { 60 } else { 16 };
        let handles: Vec<_> = (0..nthreads).map(|t| std::thread::spawn(move || -> Vec<(String, Vec<u8>)> {
            let mut out = vec![];
            for i in 0..per {
                let cfg = Cfg { compression: 0, level: None, enc: 1 + ((t + i) % 2) as u8, mode: (i % 2) as u8, kdf: gen::Kdf::Pbkdf2(Some(1)), password: "pw".into() };
                if i % 4 == 3 {
                    let mut b = SolidEntryBuilder::new(cfg.options()).unwrap();
                    let mut e = EntryBuilder::new_file("x".into(), WriteOptions::store()).unwrap();
                    std::io::Write::write_all(&mut e, b"data").unwrap();
                    b.add_entry(e.build().unwrap()).unwrap();
                    let s = b.build().unwrap();
                    let cs = libpna::verif::entry_into_chunks(s);
                    let phsf = cs.iter().find(|(t, _)| t == b"PHSF").map(|(_, d)| String::from_utf8_lossy(d).to_string()).unwrap_or_default();
                    let data: Vec<u8> = cs.iter().filter(|(t, _)| t == b"SDAT").flat_map(|(_, d)| d.clone()).collect();
                    out.push((phsf, data[..16].to_vec()));
                } else {
                    let mut e = EntryBuilder::new_file("x".into(), cfg.options()).unwrap();
                    std::io::Write::write_all(&mut e, b"data").unwrap();
                    let e = e.build().unwrap();
                    out.push((libpna::verif::normal_entry_phsf(&e).unwrap_or_default(), libpna::verif::normal_entry_data(&e).concat()[..16].to_vec()));
                }
            }
            out
        })).collect();
        let mut n = 0;
        for h in handles {
            if let Ok(v) = h.join() {
                for (phsf, iv) in v {
                    n += 1;
                    if let Some(s) = refdec::parse_phc(&phsf).and_then(|p| p.salt) { salts.push(s); }
                    ivs.push(iv);
                }
            }
        }
        ctx.notes.push(format!("freshness under concurrency: {n} encrypted streams built on {nthreads} threads"));
    }
    // freshness across the whole run
    ctx.oracle_eval();
    let mut s2 = salts.clone(); s2.sort(); s2.dedup();
    if s2.len() != salts.len() { ctx.violation("C08", "two encrypted contexts share a salt", json!({"contexts":salts.len(),"distinct":s2.len()})); }
    let mut i2 = ivs.clone(); i2.sort(); i2.dedup();
    if i2.len() != ivs.len() { ctx.violation("C08", "two encrypted contexts share an IV", json!({"contexts":ivs.len(),"distinct":i2.len()})); }
    ctx.notes.push(format!("freshness: {} salts, {} IVs observed, all distinct = {}", salts.len(), ivs.len(), s2.len() == salts.len() && i2.len() == ivs.len()));
}
