//! Reader written independently from the format description, using only primitive crypto and
//! compression crates (aes/camellia block ciphers + own CBC/CTR/PKCS#7, pbkdf2/argon2 raw,
//! zstd/flate2/liblzma one-shot).  Used as the C14 reference and as the cipher-layer oracle.
use aes::Aes256;
use camellia::Camellia256;
use cipher::{BlockDecrypt, BlockEncrypt, KeyInit};
use std::io::Read;

#[derive(Clone, Debug, Default, PartialEq)]
pub struct RefEntry {
    pub solid: bool,
    pub kind: u8,
    pub comp: u8,
    pub enc: u8,
    pub mode: u8,
    pub name: Vec<u8>,
    pub phsf: Option<Vec<u8>>,
    pub data: Vec<u8>,
    pub n_data: usize,
    pub size: Option<u128>,
    pub c: Option<u64>,
    pub m: Option<u64>,
    pub a: Option<u64>,
    pub perm: Option<(u64, Vec<u8>, u64, Vec<u8>, u16)>,
    pub xattrs: Vec<(Vec<u8>, Vec<u8>)>,
    pub extras: Vec<([u8; 4], Vec<u8>)>,
}

pub type Chunks = Vec<([u8; 4], Vec<u8>)>;

fn crc(ty: &[u8], d: &[u8]) -> u32 {
    let mut h = crc32fast::Hasher::new();
    h.update(ty);
    h.update(d);
    h.finalize()
}

/// Strict chunk walk: every chunk must be complete, typed with ASCII letters and CRC-correct.
pub fn chunks(bytes: &[u8]) -> Result<(Chunks, usize), String> {
    if bytes.len() < 8 || &bytes[..8] != b"\x89PNA\r\n\x1a\n" {
        return Err("bad signature".into());
    }
    let mut p = 8;
    let mut out = vec![];
    loop {
        if p + 12 > bytes.len() {
            return Err(format!("truncated chunk header at {p}"));
        }
        let l = u32::from_be_bytes(bytes[p..p + 4].try_into().unwrap()) as usize;
        let ty: [u8; 4] = bytes[p + 4..p + 8].try_into().unwrap();
        if !ty.iter().all(|c| c.is_ascii_alphabetic()) {
            return Err(format!("chunk type {:?} is not four ASCII letters", ty));
        }
        if p + 12 + l > bytes.len() {
            return Err(format!("chunk at {p} declares {l} bytes beyond the end"));
        }
        let d = &bytes[p + 8..p + 8 + l];
        let c = u32::from_be_bytes(bytes[p + 8 + l..p + 12 + l].try_into().unwrap());
        if c != crc(&ty, d) {
            return Err(format!("bad crc at {p}"));
        }
        out.push((ty, d.to_vec()));
        p += 12 + l;
        if &ty == b"AEND" {
            return Ok((out, p));
        }
    }
}

#[derive(Clone, Debug, Default)]
pub struct RefArchive {
    pub number: u32,
    pub items: Vec<RefEntry>,
    pub has_next: bool,
    /// chunks of an entry continued in the next part
    pub open: Chunks,
}

fn parse_entry(cs: &Chunks) -> Result<RefEntry, String> {
    let mut e = RefEntry::default();
    let (first, d) = &cs[0];
    match first {
        b"FHED" => {
            if d.len() < 6 || d[0] != 0 || d[1] != 0 {
                return Err("bad FHED".into());
            }
            if d[2] > 3 || ![0u8, 1, 2, 4].contains(&d[3]) || d[4] > 2 || d[5] > 1 {
                return Err("bad FHED enum".into());
            }
            e.kind = d[2];
            e.comp = d[3];
            e.enc = d[4];
            e.mode = d[5];
            e.name = d[6..].to_vec();
            std::str::from_utf8(&e.name).map_err(|_| "name not utf8")?;
        }
        b"SHED" => {
            if d.len() != 5 || d[0] != 0 || d[1] != 0 || ![0u8, 1, 2, 4].contains(&d[2]) || d[3] > 2 || d[4] > 1 {
                return Err("bad SHED".into());
            }
            e.solid = true;
            e.comp = d[2];
            e.enc = d[3];
            e.mode = d[4];
        }
        _ => return Err("entry does not start with FHED/SHED".into()),
    }
    let (dat, end): (&[u8; 4], &[u8; 4]) = if e.solid { (b"SDAT", b"SEND") } else { (b"FDAT", b"FEND") };
    if &cs[cs.len() - 1].0 != end || !cs[cs.len() - 1].1.is_empty() {
        return Err("entry does not end with its end marker".into());
    }
    let mut seen_data = false;
    for (t, d) in &cs[1..cs.len() - 1] {
        if t == dat {
            seen_data = true;
            e.n_data += 1;
            e.data.extend_from_slice(d);
        } else if t == b"PHSF" {
            if seen_data {
                return Err("PHSF after data".into());
            }
            e.phsf = Some(d.clone());
        } else if !e.solid && t == b"fSIZ" {
            if d.len() > 16 {
                return Err("fSIZ too long".into());
            }
            let mut b = [0u8; 16];
            b[16 - d.len()..].copy_from_slice(d);
            e.size = Some(u128::from_be_bytes(b));
        } else if !e.solid && (t == b"cTIM" || t == b"mTIM" || t == b"aTIM") {
            let v = u64::from_be_bytes(d[..].try_into().map_err(|_| "bad time")?);
            match t {
                b"cTIM" => e.c = Some(v),
                b"mTIM" => e.m = Some(v),
                _ => e.a = Some(v),
            }
        } else if !e.solid && t == b"fPRM" {
            let mut p = 0;
            let take = |p: &mut usize, n: usize| -> Result<&[u8], String> {
                if *p + n > d.len() {
                    return Err("short fPRM".into());
                }
                let s = &d[*p..*p + n];
                *p += n;
                Ok(s)
            };
            let uid = u64::from_be_bytes(take(&mut p, 8)?.try_into().unwrap());
            let ul = take(&mut p, 1)?[0] as usize;
            let un = take(&mut p, ul)?.to_vec();
            let gid = u64::from_be_bytes(take(&mut p, 8)?.try_into().unwrap());
            let gl = take(&mut p, 1)?[0] as usize;
            let gn = take(&mut p, gl)?.to_vec();
            let mode = u16::from_be_bytes(take(&mut p, 2)?.try_into().unwrap());
            e.perm = Some((uid, un, gid, gn, mode));
        } else if !e.solid && t == b"xATR" {
            if d.len() < 4 {
                return Err("short xATR".into());
            }
            let nl = u32::from_be_bytes(d[..4].try_into().unwrap()) as usize;
            if d.len() < 8 + nl {
                return Err("short xATR".into());
            }
            let vl = u32::from_be_bytes(d[4 + nl..8 + nl].try_into().unwrap()) as usize;
            if d.len() < 8 + nl + vl {
                return Err("short xATR".into());
            }
            e.xattrs.push((d[4..4 + nl].to_vec(), d[8 + nl..8 + nl + vl].to_vec()));
        } else if matches!(t, b"FHED" | b"SHED" | b"FEND" | b"SEND" | b"AHED" | b"AEND" | b"ANXT" | b"FDAT" | b"SDAT") {
            return Err(format!("structural chunk {:?} inside an entry", std::str::from_utf8(t)));
        } else {
            e.extras.push((*t, d.clone()));
        }
    }
    if e.enc != 0 && e.phsf.is_none() {
        return Err("encrypted entry without PHSF".into());
    }
    if e.enc != 0 && e.data.len() < 16 {
        return Err("encrypted entry without room for an IV".into());
    }
    Ok(e)
}

/// Well-formedness per the format description (C14): signature, AHED, complete entries only
/// (unless `allow_open`, for part files), ANXT only directly before AEND, AEND last, nothing after.
pub fn strict_archive(bytes: &[u8], carry: Chunks, allow_open: bool) -> Result<RefArchive, String> {
    let (cs, used) = chunks(bytes)?;
    if used != bytes.len() {
        return Err(format!("{} bytes after AEND", bytes.len() - used));
    }
    if cs.is_empty() || &cs[0].0 != b"AHED" || cs[0].1.len() != 8 {
        return Err("first chunk is not an 8-byte AHED".into());
    }
    let h = &cs[0].1;
    if h[0] != 0 || h[1] != 0 || h[2] != 0 || h[3] != 0 {
        return Err("AHED version/reserved bytes not zero".into());
    }
    let mut a = RefArchive { number: u32::from_be_bytes(h[4..8].try_into().unwrap()), ..Default::default() };
    let mut cur: Chunks = carry;
    let n = cs.len();
    for (i, (t, d)) in cs.iter().enumerate().skip(1) {
        match t {
            b"AEND" => {
                if !d.is_empty() || i != n - 1 {
                    return Err("AEND misplaced".into());
                }
            }
            b"ANXT" => {
                if i != n - 2 || !d.is_empty() {
                    return Err("ANXT not directly before AEND".into());
                }
                a.has_next = true;
            }
            b"AHED" => return Err("second AHED".into()),
            b"FEND" | b"SEND" => {
                cur.push((*t, d.clone()));
                if cur.len() < 2 {
                    return Err("end marker without entry".into());
                }
                a.items.push(parse_entry(&cur)?);
                cur = vec![];
            }
            b"FHED" | b"SHED" => {
                if !cur.is_empty() {
                    return Err("entry header inside an open entry".into());
                }
                cur.push((*t, d.clone()));
            }
            _ => {
                if cur.is_empty() {
                    return Err(format!("chunk {:?} outside any entry", std::str::from_utf8(t)));
                }
                cur.push((*t, d.clone()));
            }
        }
    }
    if !cur.is_empty() && !(allow_open && a.has_next) {
        return Err("archive ends inside an entry".into());
    }
    a.open = cur;
    Ok(a)
}

/// A part sequence (the chain that starts at `parts[0]` and follows ANXT): every part well-formed, numbered
/// consecutively, entries complete across boundaries, the last part of the chain without ANXT.  Files beyond
/// the end of the chain are not part of the archive and are ignored.
pub fn strict_parts(parts: &[Vec<u8>]) -> Result<usize, String> {
    let mut carry: Chunks = vec![];
    let mut first_number: Option<u32> = None;
    for (i, p) in parts.iter().enumerate() {
        let a = strict_archive(p, std::mem::take(&mut carry), true).map_err(|e| format!("part {}: {e}", i + 1))?;
        match first_number {
            None => first_number = Some(a.number),
            Some(f) => {
                if a.number != f.wrapping_add(i as u32) {
                    return Err(format!("part {}: archive number {} does not continue {}", i + 1, a.number, f));
                }
            }
        }
        carry = a.open;
        if !a.has_next {
            if !carry.is_empty() {
                return Err(format!("part {}: the last part ends inside an entry", i + 1));
            }
            return Ok(i + 1);
        }
    }
    Err("the last part present announces a following part".into())
}

// ---------------------------------------------------------------- crypto with primitives

fn b64_nopad(s: &str) -> Option<Vec<u8>> {
    let mut bits: u32 = 0;
    let mut nbits = 0;
    let mut out = vec![];
    for c in s.bytes() {
        let v = match c {
            b'A'..=b'Z' => c - b'A',
            b'a'..=b'z' => c - b'a' + 26,
            b'0'..=b'9' => c - b'0' + 52,
            b'+' => 62,
            b'/' => 63,
            _ => return None,
        } as u32;
        bits = (bits << 6) | v;
        nbits += 6;
        if nbits >= 8 {
            nbits -= 8;
            out.push((bits >> nbits) as u8);
            bits &= (1 << nbits) - 1;
        }
    }
    Some(out)
}

#[derive(Debug, Clone)]
pub struct Phc {
    pub alg: String,
    pub version: Option<u32>,
    pub params: Vec<(String, String)>,
    pub salt: Option<String>,
    pub hash: Option<String>,
}

/// `$alg[$v=N][$k=v,k=v][$salt[$hash]]`
pub fn parse_phc(s: &str) -> Option<Phc> {
    let mut it = s.split('$');
    if it.next()? != "" {
        return None;
    }
    let alg = it.next()?.to_string();
    let mut rest: Vec<&str> = it.collect();
    let mut version = None;
    if let Some(f) = rest.first() {
        if let Some(v) = f.strip_prefix("v=") {
            version = v.parse().ok();
            rest.remove(0);
        }
    }
    let mut params = vec![];
    if let Some(f) = rest.first() {
        if f.contains('=') {
            for kv in f.split(',') {
                let (k, v) = kv.split_once('=')?;
                params.push((k.to_string(), v.to_string()));
            }
            rest.remove(0);
        }
    }
    let salt = rest.first().map(|s| s.to_string());
    let hash = rest.get(1).map(|s| s.to_string());
    Some(Phc { alg, version, params, salt, hash })
}

pub fn derive_key(phsf: &str, password: &[u8]) -> Result<Vec<u8>, String> {
    let p = parse_phc(phsf).ok_or("unparsable PHSF")?;
    let salt = b64_nopad(p.salt.as_deref().ok_or("no salt")?).ok_or("bad salt")?;
    let get = |k: &str| p.params.iter().find(|(a, _)| a == k).and_then(|(_, v)| v.parse::<u32>().ok());
    // a hash field, when present, fixes the output length (argon2); pbkdf2 carries it as `l`
    let hash_len = p.hash.as_deref().and_then(b64_nopad).map(|h| h.len());
    match p.alg.as_str() {
        "pbkdf2-sha256" | "pbkdf2-sha512" => {
            let rounds = get("i").unwrap_or(600_000);
            let l = get("l").unwrap_or(32) as usize;
            let mut out = vec![0u8; l];
            if p.alg == "pbkdf2-sha256" {
                pbkdf2::pbkdf2_hmac::<sha2::Sha256>(password, &salt, rounds, &mut out);
            } else {
                pbkdf2::pbkdf2_hmac::<sha2::Sha512>(password, &salt, rounds, &mut out);
            }
            Ok(out)
        }
        "argon2id" | "argon2i" | "argon2d" => {
            let l = hash_len.unwrap_or(32);
            let params = argon2::Params::new(get("m").unwrap_or(19456), get("t").unwrap_or(2), get("p").unwrap_or(1), Some(l)).map_err(|e| e.to_string())?;
            let alg = match p.alg.as_str() {
                "argon2id" => argon2::Algorithm::Argon2id,
                "argon2i" => argon2::Algorithm::Argon2i,
                _ => argon2::Algorithm::Argon2d,
            };
            let ver = match p.version {
                Some(16) => argon2::Version::V0x10,
                Some(19) | None => argon2::Version::V0x13,
                Some(v) => return Err(format!("unsupported argon2 version {v}")),
            };
            let a = argon2::Argon2::new(alg, ver, params);
            let mut out = vec![0u8; l];
            a.hash_password_into(password, &salt, &mut out).map_err(|e| e.to_string())?;
            Ok(out)
        }
        other => Err(format!("unsupported algorithm {other}")),
    }
}

pub fn b64_nopad_enc(b: &[u8]) -> String {
    const T: &[u8; 64] = b"ABCDEFGHIJKLMNOPQRSTUVWXYZabcdefghijklmnopqrstuvwxyz0123456789+/";
    let mut out = String::new();
    for c in b.chunks(3) {
        let n = (c[0] as u32) << 16 | (*c.get(1).unwrap_or(&0) as u32) << 8 | *c.get(2).unwrap_or(&0) as u32;
        out.push(T[(n >> 18) as usize & 63] as char);
        out.push(T[(n >> 12) as usize & 63] as char);
        if c.len() > 1 { out.push(T[(n >> 6) as usize & 63] as char); }
        if c.len() > 2 { out.push(T[n as usize & 63] as char); }
    }
    out
}

/// Reference encryption (what a foreign writer following the specification produces after the IV).
pub fn encrypt(enc: u8, mode: u8, key: &[u8], iv: &[u8], pt: &[u8]) -> Result<Vec<u8>, String> {
    let c = Blk::new(enc, key)?;
    if mode == 0 {
        let pad = 16 - pt.len() % 16;
        let mut p = pt.to_vec();
        p.extend(std::iter::repeat(pad as u8).take(pad));
        let mut chain = iv.to_vec();
        let mut out = vec![];
        for b in p.chunks(16) {
            let mut x: Vec<u8> = b.iter().zip(chain.iter()).map(|(a, b)| a ^ b).collect();
            c.e(&mut x);
            out.extend_from_slice(&x);
            chain = x;
        }
        Ok(out)
    } else {
        // CTR is its own inverse
        decrypt(enc, mode, key, iv, pt).map_err(|e| e.to_string())
    }
}

/// CBC without padding (for hand-made streams whose padding is deliberately wrong); `pt.len() % 16 == 0`.
pub fn encrypt_cbc_raw(enc: u8, key: &[u8], iv: &[u8], pt: &[u8]) -> Result<Vec<u8>, String> {
    let c = Blk::new(enc, key)?;
    let mut chain = iv.to_vec();
    let mut out = vec![];
    for b in pt.chunks(16) {
        let mut x: Vec<u8> = b.iter().zip(chain.iter()).map(|(a, b)| a ^ b).collect();
        c.e(&mut x);
        out.extend_from_slice(&x);
        chain = x;
    }
    Ok(out)
}

pub fn compress(comp: u8, data: &[u8]) -> std::io::Result<Vec<u8>> {
    use std::io::Write;
    Ok(match comp {
        0 => data.to_vec(),
        1 => { let mut e = flate2::write::ZlibEncoder::new(vec![], flate2::Compression::default()); e.write_all(data)?; e.finish()? }
        2 => zstd::encode_all(data, 3)?,
        _ => { let mut e = liblzma::write::XzEncoder::new(vec![], 6); e.write_all(data)?; e.finish()? }
    })
}

enum Blk {
    Aes(Aes256),
    Cam(Camellia256),
}

impl Blk {
    fn new(enc: u8, key: &[u8]) -> Result<Self, String> {
        if key.len() != 32 {
            return Err("key length".into());
        }
        Ok(if enc == 1 { Blk::Aes(Aes256::new_from_slice(key).unwrap()) } else { Blk::Cam(Camellia256::new_from_slice(key).unwrap()) })
    }
    fn d(&self, b: &mut [u8]) {
        let blk = cipher::generic_array::GenericArray::from_mut_slice(b);
        match self {
            Blk::Aes(c) => c.decrypt_block(blk),
            Blk::Cam(c) => c.decrypt_block(blk),
        }
    }
    fn e(&self, b: &mut [u8]) {
        let blk = cipher::generic_array::GenericArray::from_mut_slice(b);
        match self {
            Blk::Aes(c) => c.encrypt_block(blk),
            Blk::Cam(c) => c.encrypt_block(blk),
        }
    }
}

/// Reference decryption of the stream that follows the IV: Err("eof") / Err("invalidData") mirror
/// the model's `cbcDecrypt`.
pub fn decrypt(enc: u8, mode: u8, key: &[u8], iv: &[u8], ct: &[u8]) -> Result<Vec<u8>, &'static str> {
    let c = Blk::new(enc, key).map_err(|_| "invalidData")?;
    if mode == 0 {
        if ct.is_empty() || ct.len() % 16 != 0 {
            return Err("eof");
        }
        let mut out = vec![];
        let mut chain = iv.to_vec();
        for b in ct.chunks(16) {
            let mut x = b.to_vec();
            c.d(&mut x);
            for i in 0..16 {
                x[i] ^= chain[i];
            }
            out.extend_from_slice(&x);
            chain = b.to_vec();
        }
        let n = *out.last().unwrap() as usize;
        if n == 0 || n > 16 || !out[out.len() - n..].iter().all(|v| *v as usize == n) {
            return Err("invalidData");
        }
        out.truncate(out.len() - n);
        Ok(out)
    } else {
        let mut ctr = u128::from_be_bytes(iv.try_into().map_err(|_| "invalidData")?);
        let mut out = Vec::with_capacity(ct.len());
        for b in ct.chunks(16) {
            let mut ks = ctr.to_be_bytes().to_vec();
            c.e(&mut ks);
            for (i, v) in b.iter().enumerate() {
                out.push(v ^ ks[i]);
            }
            ctr = ctr.wrapping_add(1);
        }
        Ok(out)
    }
}

/// One-shot decompression (reads to the end, like the library does).
pub fn decompress(comp: u8, data: &[u8]) -> std::io::Result<Vec<u8>> {
    let mut out = vec![];
    match comp {
        0 => out.extend_from_slice(data),
        1 => {
            flate2::read::ZlibDecoder::new(data).read_to_end(&mut out)?;
        }
        2 => {
            zstd::Decoder::new(data)?.read_to_end(&mut out)?;
        }
        _ => {
            liblzma::read::XzDecoder::new(data).read_to_end(&mut out)?;
        }
    }
    Ok(out)
}

/// Decode an entry's content with primitives only.
pub fn content(e: &RefEntry, password: Option<&str>) -> Result<Vec<u8>, String> {
    let plain = if e.enc == 0 {
        e.data.clone()
    } else {
        let phsf = std::str::from_utf8(e.phsf.as_ref().ok_or("no phsf")?).map_err(|_| "phsf utf8")?;
        let key = derive_key(phsf, password.ok_or("no password")?.as_bytes())?;
        if e.data.len() < 16 {
            return Err("no iv".into());
        }
        decrypt(e.enc, e.mode, &key, &e.data[..16], &e.data[16..]).map_err(|s| s.to_string())?
    };
    decompress(e.comp, &plain).map_err(|e| e.to_string())
}

/// Expand a solid block with primitives only.
pub fn solid_entries(e: &RefEntry, password: Option<&str>) -> Result<Vec<RefEntry>, String> {
    let stream = content(e, password)?;
    let mut p = 0;
    let mut cur: Chunks = vec![];
    let mut out = vec![];
    while p < stream.len() {
        if p + 12 > stream.len() {
            return Err("truncated inner chunk".into());
        }
        let l = u32::from_be_bytes(stream[p..p + 4].try_into().unwrap()) as usize;
        let ty: [u8; 4] = stream[p + 4..p + 8].try_into().unwrap();
        if p + 12 + l > stream.len() {
            return Err("truncated inner chunk".into());
        }
        let d = &stream[p + 8..p + 8 + l];
        let c = u32::from_be_bytes(stream[p + 8 + l..p + 12 + l].try_into().unwrap());
        if c != crc(&ty, d) {
            return Err("bad inner crc".into());
        }
        cur.push((ty, d.to_vec()));
        p += 12 + l;
        if &ty == b"FEND" {
            out.push(parse_entry(&cur)?);
            cur = vec![];
        }
    }
    if !cur.is_empty() {
        return Err("solid stream ends inside an entry".into());
    }
    Ok(out)
}
