//! `append-bytes` family (C11 at the byte level, C06/C07 for `seek_to_end`): `Archive::read_header(..).seek_to_end()`,
//! `add_entry(..)`, `finalize()` — what `pna append` does to the last part — on valid archives, on every kind of damaged
//! one (truncated at any byte, one altered byte, junk after the end marker) and on hostile length fields, in-process on a
//! `Cursor<Vec<u8>>`, compared with the Lean model `appendBytes` (Model/Append.lean): the resulting buffer byte for byte
//! (length + CRC-32), or the error.  Oracles, independent of the model: the call returns (no hang, no panic); on a
//! well-formed archive every byte before the end marker stays where it was and the result reads back as the old entries
//! followed by the new one.
use crate::canon;
use crate::ctx::Ctx;
use crate::gen::{frame, gen_archive, SIG};
use crate::util::{bytes, catch, err_kind, hex, hexw, rng_for};
use libpna::{Archive, EntryBuilder, EntryName, WriteOptions};
use rand::Rng;
use serde_json::json;
use std::io::{Cursor, Write};

/// the serialised chunks of one small stored entry (deterministic: no times, no randomness)
fn new_entry_bytes(name: &str, content: &[u8]) -> Vec<u8> {
    let mut a = Archive::write_header(Vec::new()).unwrap();
    let mut b = EntryBuilder::new_file(EntryName::from(name), WriteOptions::store()).unwrap();
    b.write_all(content).unwrap();
    a.add_entry(b.build().unwrap()).unwrap();
    let v = a.finalize().unwrap();
    v[28..v.len() - 12].to_vec()
}

fn append_in_process(input: Vec<u8>, name: String, content: Vec<u8>) -> std::io::Result<Vec<u8>> {
    let mut a = Archive::read_header(Cursor::new(input))?;
    a.seek_to_end()?;
    let mut b = EntryBuilder::new_file(EntryName::from(name.as_str()), WriteOptions::store())?;
    b.write_all(&content)?;
    a.add_entry(b.build()?)?;
    Ok(a.finalize()?.into_inner())
}

pub fn append_bytes(ctx: &mut Ctx) {
    let mut rng = rng_for(ctx.seed, "append-bytes");
    ctx.rule = "archives of the five writer kinds (0-3 entries) and hand-framed ones: as written / every kind of prefix (quick: sampled cuts plus all cuts in the last 40 bytes; thorough: every cut) / \
                one altered byte / junk after AEND / a chunk whose length field points beyond the end; `read_header` + `seek_to_end` + `add_entry` (one stored entry) + `finalize` on a Cursor, \
                result compared with the Lean model (whole buffer) and with the byte-prefix and read-back oracles; non-trivial = the call succeeded".into();
    let n = if ctx.thorough { 60 } else { 10 };
    // a call that does not return is the finding; it is waited for (5 s each) at most three times per run
    let mut hangs = 0usize;
    for case in 0..n {
        let (full, desc, _) = gen_archive(&mut rng, 3, 60);
        let name = format!("appended-{case}.txt");
        let content = bytes(&mut rng, 1 + case % 9);
        let raw = new_entry_bytes(&name, &content);
        let mut inputs: Vec<(String, Vec<u8>)> = vec![("as-written".into(), full.clone())];
        let cuts: Vec<usize> = if ctx.thorough { (0..full.len()).collect() } else { let mut v: Vec<usize> = (full.len().saturating_sub(40)..full.len()).collect(); for _ in 0..12 { v.push(rng.gen_range(0..full.len())); } v };
        for c in cuts { inputs.push((format!("cut-at-{c}-of-{}", full.len()), full[..c].to_vec())); }
        for _ in 0..(if ctx.thorough { 40 } else { 8 }) { let mut m = full.clone(); let o = rng.gen_range(0..m.len()); m[o] ^= 1 << rng.gen_range(0..8); inputs.push((format!("bit-flipped-at-{o}"), m)); }
        { let mut j = full.clone(); j.extend(bytes(&mut rng, 1 + case % 30)); inputs.push(("junk-after-AEND".into(), j)); }
        {
            // a chunk that announces more data than the file holds, and one that announces 4 GiB
            let mut h = SIG.to_vec(); h.extend(frame(b"AHED", &[0; 8])); let mut c = frame(b"myTy", &[1, 2, 3]); c[3] = 200; h.extend(c); h.extend(frame(b"AEND", &[]));
            inputs.push(("length-beyond-the-end".into(), h));
            let mut g = SIG.to_vec(); g.extend(frame(b"AHED", &[0; 8])); let mut c = frame(b"myTy", &[]); c[0] = 0xff; c[1] = 0xff; c[2] = 0xff; c[3] = 0xff; g.extend(c);
            inputs.push(("length-4GiB".into(), g));
        }
        for (what, input) in inputs {
            let (i2, n2, c2) = (input.clone(), name.clone(), content.clone());
            ctx.count(if what.starts_with("cut") { "input:truncated" } else if what.starts_with("bit") { "input:altered" } else { "input:other" });
            ctx.oracle_eval();
            if hangs >= 3 { continue; }
            let r = crate::util::isolated(5_000, 16 * 1024, move || match catch(move || append_in_process(i2, n2, c2)) {
                Ok(Ok(out)) => format!("ok {}", hex(&out)),
                Ok(Err(e)) => format!("err {}", err_kind(&e)),
                Err(p) => format!("panic {p}"),
            });
            let imp = match r {
                Ok(s) => s,
                Err(why) => {
                    hangs += 1;
                    ctx.violation("C07", "seek_to_end / append does not return (hang, abort or runaway allocation)", json!({"archive":desc,"input":what,"outcome":why,"bytes":hex(&input[..input.len().min(4000)])}));
                    ctx.violation("C06", "appending to a damaged archive hangs or aborts", json!({"input":what,"outcome":why}));
                    continue;
                }
            };
            if imp.starts_with("panic") { ctx.violation("C07", "seek_to_end / append panicked", json!({"archive":desc,"input":what,"answer":imp[..imp.len().min(200)].to_string()})); }
            if what == "as-written" {
                match imp.strip_prefix("ok ").and_then(crate::util::unhex) {
                    None => ctx.violation("C11", "appending to a valid archive failed", json!({"archive":desc,"answer":imp[..imp.len().min(200)].to_string()})),
                    Some(out) => {
                        let keep = full.len() - 12;
                        if out.len() < keep || out[..keep] != full[..keep] { ctx.violation("C11", "append changed bytes of the archive that were already there", json!({"archive":desc})); }
                        let mut want = full[..keep].to_vec(); want.extend(&raw); want.extend(frame(b"AEND", &[]));
                        if out != want { ctx.violation("C11", "after append the archive is not the previous bytes, the new entry and the end marker", json!({"archive":desc,"len":out.len(),"want_len":want.len()})); }
                        let before = canon::read_stream(&full); let after = canon::read_stream(&out);
                        let b: Vec<&str> = before.split(' ').collect(); let a: Vec<&str> = after.split(' ').collect();
                        if a.len() != b.len() + 1 || a[..b.len() - 2] != b[..b.len() - 2] { ctx.violation("C11", "after append the archive does not read back as the previous entries followed by the new one", json!({"archive":desc,"before":b.len(),"after":a.len()})); }
                    }
                }
            }
            let canonical = match imp.strip_prefix("ok ").and_then(crate::util::unhex) { Some(out) => format!("ok {}", canon::digest(&out)), None => imp.split(' ').take(2).collect::<Vec<_>>().join(" ") };
            ctx.case(json!({"input":what,"len":input.len()}), format!("append.bytes {} {}", hexw(&input), hexw(&raw)), canonical, imp.starts_with("ok"));
        }
    }
}
