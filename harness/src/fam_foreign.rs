//! `foreign` family (C16, C07, C03, C01): encrypted entries produced by an independent writer that
//! follows the specification with primitive crates only — key-derivation strings with every
//! supported algorithm, salt lengths 8..48, explicit output lengths (32 = valid; 16/31/64 hostile),
//! argon2 versions, hash fields present or absent — framed by hand with arbitrary data-chunk cuts.
//! The library must decode exactly the foreign writer's content with the right password, must not
//! yield it with a wrong one, and must answer hostile parameters with an error, never a panic.
use crate::ctx::Ctx;
use crate::fam_round::open_request;
use crate::gen::{self, frame};
use crate::refdec;
use crate::util::{bytes, catch, err_kind, hex, hexw, rng_for};
use libpna::*;
use rand::Rng;
use serde_json::json;
use std::io::Read;

fn lib_read(archive: &[u8], password: Option<&str>, slice: bool) -> Result<Result<Vec<(String, Vec<u8>)>, String>, String> {
    let a = archive.to_vec();
    let pw = password.map(|s| s.to_string());
    catch(move || -> Result<Vec<(String, Vec<u8>)>, String> {
        let mut out = vec![];
        let mut one = |e: NormalEntry, pw: Option<String>| -> Result<(), String> {
            let mut r = e.reader(ReadOptions::with_password(pw)).map_err(|e| format!("reader:{}", err_kind(&e)))?;
            let mut v = vec![];
            r.read_to_end(&mut v).map_err(|e| format!("read:{}", err_kind(&e)))?;
            out.push((e.header().path().as_str().to_string(), v));
            Ok(())
        };
        if slice {
            let mut ar = Archive::read_header_from_slice(&a[..]).map_err(|e| format!("header:{}", err_kind(&e)))?;
            let mut n = 0;
            for e in ar.entries_slice() {
                n += 1;
                if n > 1000 { return Err("hang".into()); }
                match e.map_err(|e| format!("entries:{}", err_kind(&e)))? {
                    ReadEntry::Normal(e) => one(NormalEntry::from(e), pw.clone())?,
                    ReadEntry::Solid(s) => {
                        let mut k = 0;
                        for e in s.entries(pw.as_deref()).map_err(|e| format!("solid:{}", err_kind(&e)))? {
                            k += 1;
                            if k > 1000 { return Err("hang".into()); }
                            one(e.map_err(|e| format!("solid-entry:{}", err_kind(&e)))?, None)?;
                        }
                    }
                }
            }
        } else {
            let mut ar = Archive::read_header(&a[..]).map_err(|e| format!("header:{}", err_kind(&e)))?;
            let mut n = 0;
            for e in ar.entries() {
                n += 1;
                if n > 1000 { return Err("hang".into()); }
                match e.map_err(|e| format!("entries:{}", err_kind(&e)))? {
                    ReadEntry::Normal(e) => one(e, pw.clone())?,
                    ReadEntry::Solid(s) => {
                        let mut k = 0;
                        for e in s.entries(pw.as_deref()).map_err(|e| format!("solid:{}", err_kind(&e)))? {
                            k += 1;
                            if k > 1000 { return Err("hang".into()); }
                            one(e.map_err(|e| format!("solid-entry:{}", err_kind(&e)))?, None)?;
                        }
                    }
                }
            }
        }
        Ok(out)
    })
}

pub fn foreign(ctx: &mut Ctx) {
    let mut rng = rng_for(ctx.seed, "foreign");
    ctx.rule = "hand-framed entries and solid blocks encrypted by an independent writer (aes/camellia primitives, own CBC+PKCS#7 / CTR, pbkdf2/argon2 primitive calls): \
                algorithm x {argon2id,argon2i,argon2d,pbkdf2-sha256,pbkdf2-sha512} x argon2 version {16,19,absent} x salt length {8..48} x output length {32 | 16,31,33,64 hostile} x hash field {absent,present} \
                x {CBC,CTR} x {AES,Camellia} x {store,deflate,zstd,xz} x data-chunk cuts (inside the IV, 1-byte, empty chunks) x {right, wrong, no password} x {stream, slice}".into();
    let n = if ctx.thorough { 1500 } else { 220 };
    for case in 0..n {
        let enc: u8 = rng.gen_range(1..=2);
        let mode: u8 = rng.gen_range(0..=1);
        let comp: u8 = [0, 0, 1, 2, 4][rng.gen_range(0..5)];
        let solid = rng.gen_bool(0.3);
        let alg = ["argon2id", "argon2i", "argon2d", "pbkdf2-sha256", "pbkdf2-sha512"][if case < 10 { case % 5 } else { rng.gen_range(0..5) }];
        let salt_len = if case < 14 { [8, 12, 16, 17, 24, 32, 48][case % 7] } else { [8, 9, 12, 16, 16, 17, 20, 24, 32, 33, 40, 48][rng.gen_range(0..12)] };
        let salt = bytes(&mut rng, salt_len);
        let out_len: usize = if case % 4 == 3 { [16, 31, 33, 64, 10][rng.gen_range(0..5)] } else { 32 };
        let password: String = gen::gen_password(&mut rng);
        let with_hash = alg.starts_with("argon2") && (out_len != 32 || rng.gen_bool(0.2));
        // parameter block
        let mut phsf = format!("${alg}");
        if alg.starts_with("argon2") {
            match rng.gen_range(0..4) { 0 => {}, 1 => phsf.push_str("$v=16"), _ => phsf.push_str("$v=19") }
            phsf.push_str(&format!("$m={},t={},p={}", [8, 16, 32][rng.gen_range(0..3)], rng.gen_range(1..3), 1));
        } else {
            phsf.push_str(&format!("$i={},l={}", rng.gen_range(1..20), out_len));
        }
        phsf.push('$');
        phsf.push_str(&refdec::b64_nopad_enc(&salt));
        if with_hash {
            // argon2 output length travels in the hash field: a placeholder of the right length first
            let tmp = format!("{phsf}${}", refdec::b64_nopad_enc(&vec![0u8; out_len]));
            let k = refdec::derive_key(&tmp, password.as_bytes()).unwrap_or_default();
            phsf = format!("{phsf}${}", refdec::b64_nopad_enc(&k));
        }
        let key = match refdec::derive_key(&phsf, password.as_bytes()) {
            Ok(k) => k,
            Err(e) => { ctx.count(&format!("foreign-kdf-unavailable:{e}")); continue; }
        };
        let effective_len = if alg.starts_with("argon2") { if with_hash { out_len } else { 32 } } else { out_len };
        assert_eq!(key.len(), effective_len);
        let valid = key.len() == 32;
        // content
        let content = gen::gen_content(&mut rng, 300);
        let name = format!("f{case}.bin");
        let fhed = |comp: u8, enc: u8, mode: u8, name: &str| { let mut v = vec![0, 0, 0, comp, enc, mode]; v.extend_from_slice(name.as_bytes()); v };
        let plain_stream: Vec<u8> = if solid {
            let mut s = vec![];
            for (i, c) in [&content[..], b"second entry"].iter().enumerate() {
                s.extend(frame(b"FHED", &fhed(0, 0, 0, &format!("{name}.{i}"))));
                if !c.is_empty() { s.extend(frame(b"FDAT", c)); }
                s.extend(frame(b"FEND", &[]));
            }
            s
        } else { content.clone() };
        let compressed = refdec::compress(comp, &plain_stream).unwrap();
        let iv = bytes(&mut rng, 16);
        let enc_key: Vec<u8> = if valid { key.clone() } else { let mut k = key.clone(); k.resize(32, 0); k };
        let ct = refdec::encrypt(enc, mode, &enc_key, &iv, &compressed).unwrap();
        let mut data = iv.clone();
        data.extend_from_slice(&ct);
        // cuts
        let mut slices: Vec<Vec<u8>> = vec![];
        let style = rng.gen_range(0..5);
        let mut pos = 0;
        while pos < data.len() {
            let k = match style { 0 => data.len(), 1 => 1, 2 => [3usize, 13, 16, 1, 40][slices.len() % 5], 3 => rng.gen_range(1..24), _ => if pos == 0 { rng.gen_range(1..16) } else { data.len() } };
            let k = k.min(data.len() - pos);
            slices.push(data[pos..pos + k].to_vec());
            pos += k;
            if rng.gen_bool(0.05) { slices.push(vec![]); }
            if style == 1 && pos >= 40 { slices.push(data[pos..].to_vec()); pos = data.len(); }
        }
        let (h, d, e) = if solid { (b"SHED", b"SDAT", b"SEND") } else { (b"FHED", b"FDAT", b"FEND") };
        let mut archive = gen::SIG.to_vec();
        archive.extend(frame(b"AHED", &[0; 8]));
        archive.extend(frame(h, &if solid { vec![0, 0, comp, enc, mode] } else { fhed(comp, enc, mode, &name) }));
        archive.extend(frame(b"PHSF", phsf.as_bytes()));
        for s in &slices { archive.extend(frame(d, s)); }
        archive.extend(frame(e, &[]));
        archive.extend(frame(b"AEND", &[]));
        let want: Vec<(String, Vec<u8>)> = if solid { vec![(format!("{name}.0"), content.clone()), (format!("{name}.1"), b"second entry".to_vec())] } else { vec![(name.clone(), content.clone())] };
        let attrs = json!({"case":case,"alg":alg,"salt_len":salt_len,"out_len":effective_len,"hash_field":with_hash,"enc":enc,"mode":mode,"comp":comp,"solid":solid,"cut_style":style,"phsf":phsf,"password":password,"archive":hex(&archive)});
        ctx.count(&format!("alg:{alg}"));
        ctx.count(&format!("salt_len:{salt_len}"));
        ctx.count(&format!("key_len:{effective_len}"));
        ctx.count(if valid { "valid" } else { "hostile-key-length" });
        let wrong = format!("{password}x");
        for slice in [false, true] {
            // right password
            ctx.oracle_eval();
            match lib_read(&archive, Some(&password), slice) {
                Err(p) => { ctx.violation("C07", "reader panicked on a foreign encrypted entry", json!({"case":attrs,"panic":p,"slice":slice})); }
                Ok(r) => {
                    if valid {
                        if r.as_ref().ok() != Some(&want) {
                            let why = match &r { Ok(_) => "different content".to_string(), Err(e) => e.clone() };
                            ctx.violation("C16", "the right password does not reproduce a conforming foreign writer's content", json!({"case":attrs,"slice":slice,"why":why}));
                            ctx.violation("C01", "a conforming encrypted entry does not decode to its content", json!({"case":attrs,"slice":slice,"why":why}));
                            if style != 0 { ctx.violation("C03", "decoding a foreign entry depends on how its data chunks are cut", json!({"case":attrs,"slice":slice,"why":why})); }
                        }
                    }
                    if matches!(&r, Err(e) if e == "hang") { ctx.violation("C07", "reader does not terminate on a foreign encrypted entry", json!({"case":attrs,"slice":slice})); }
                }
            }
            // wrong password / none
            for pw in [Some(wrong.as_str()), None] {
                ctx.oracle_eval();
                match lib_read(&archive, pw, slice) {
                    Err(p) => { ctx.violation("C07", "reader panicked on a foreign encrypted entry (wrong/no password)", json!({"case":attrs,"panic":p,"slice":slice})); }
                    Ok(Ok(v)) if v == want && content.len() >= 4 => {
                        ctx.violation("C16", "content recovered without the right password", json!({"case":attrs,"slice":slice,"password_given":pw}));
                    }
                    _ => {}
                }
            }
        }
        // model: open-entry decision logic with oracle answers (non-solid entries)
        if !solid {
            let a2 = archive.clone();
            if let Ok(Ok(e)) = catch(move || -> std::io::Result<NormalEntry> {
                let mut ar = Archive::read_header(&a2[..])?;
                match ar.entries().next() { Some(Ok(ReadEntry::Normal(e))) => Ok(e), _ => Err(std::io::Error::other("no entry")) }
            }) {
                for pw in [Some(password.as_str()), Some(wrong.as_str()), None] {
                    let req = open_request(enc, mode, comp, Some(&phsf), &slices, pw);
                    let e2 = e.clone();
                    let pws = pw.map(|s| s.to_string());
                    let imp = match catch(move || -> std::io::Result<Vec<u8>> {
                        let mut r = e2.reader(ReadOptions::with_password(pws))?;
                        let mut v = vec![];
                        r.read_to_end(&mut v)?;
                        Ok(v)
                    }) {
                        Err(p) => format!("panic {p}"),
                        Ok(Err(e)) => format!("err {}", err_kind(&e)),
                        Ok(Ok(b)) => format!("ok {}", hexw(&b)),
                    };
                    ctx.case(json!({"op":"foreign-open","case":attrs,"pw":pw}), req, imp, true);
                }
            }
        }
    }
}

/// `hostile-solid` family (C07 clause (c)): solid blocks whose (decrypted, decompressed) inner
/// stream is hostile — garbage or damaged compressed data, truncated frames, inner CRC errors,
/// oversized inner lengths, missing FEND, nested solid headers.  Every consumer of the block must
/// come back with entries or an error within the limits.
pub fn hostile_solid(ctx: &mut Ctx) {
    let mut rng = rng_for(ctx.seed, "hostile-solid");
    ctx.rule = "solid blocks x {store,deflate,zstd,xz} x {plain, AES/Camellia CBC/CTR with a valid pbkdf2 key} x inner stream {valid, random bytes, compressed stream truncated at k, one byte flipped, inner CRC wrong, inner length 2^31, no FEND, nested SHED, hostile chunk stream} \
                x consumers {SolidEntry::entries, Archive::entries_with_password, slice reader}, each in a forked child with a 10 s wall-clock limit and a 16 GiB address-space limit (an announced chunk length is allocated up front, at most 4 GiB of untouched zero pages: not counted as exhaustion)".into();
    let n = if ctx.thorough { 600 } else { 90 };
    for case in 0..n {
        let kind = (case / 4) % 10;
        let comp: u8 = if kind == 9 { 0 } else { [0, 1, 2, 4][case % 4] };
        let enc: u8 = if case % 3 == 2 || kind == 9 { rng.gen_range(1..=2) } else { 0 };
        let mode: u8 = if kind == 9 { 0 } else { rng.gen_range(0..=1) };
        let mut inner = vec![];
        let fhed = |name: &str| { let mut v = vec![0, 0, 0, 0, 0, 0]; v.extend_from_slice(name.as_bytes()); v };
        for i in 0..3 {
            inner.extend(frame(b"FHED", &fhed(&format!("in{i}"))));
            inner.extend(frame(b"FDAT", &gen::gen_content(&mut rng, 200)));
            inner.extend(frame(b"FEND", &[]));
        }
        match kind {
            4 => { let k = inner.len() - 3; inner[k] ^= 0x40; }                                  // inner CRC wrong (last chunk)
            5 => { inner.extend_from_slice(&[0x80, 0, 0, 0]); inner.extend_from_slice(b"FDATxx"); } // inner length 2^31
            6 => { inner.extend(frame(b"FHED", &fhed("open"))); inner.extend(frame(b"FDAT", b"zz")); } // no FEND
            7 => { inner.extend(frame(b"SHED", &[0, 0, 0, 0, 0])); inner.extend(frame(b"SDAT", b"q")); inner.extend(frame(b"SEND", &[])); }
            8 => { inner = crate::fam_frame::hostile_stream(&mut rng); }
            _ => {}
        }
        let mut comp_stream = refdec::compress(comp, &inner).unwrap();
        match kind {
            1 => { let k = comp_stream.len().max(8); comp_stream = bytes(&mut rng, k); }
            2 => { let k = rng.gen_range(0..comp_stream.len().max(1)); comp_stream.truncate(k); }
            3 => { if !comp_stream.is_empty() { let k = rng.gen_range(0..comp_stream.len()); comp_stream[k] ^= 1 << rng.gen_range(0..8); } }
            _ => {}
        }
        let password = "pw";
        let phsf = format!("$pbkdf2-sha256$i=2,l=32${}", refdec::b64_nopad_enc(&bytes(&mut rng, 16)));
        // what the decoder stack delivers to the entry iterator, when the harness can tell (store mode)
        let mut delivered: Option<(Vec<u8>, &str)> = if comp == 0 { Some((comp_stream.clone(), "none")) } else { None };
        let data = if enc != 0 {
            let key = refdec::derive_key(&phsf, password.as_bytes()).unwrap();
            let iv = bytes(&mut rng, 16);
            let mut d = iv.clone();
            if kind == 9 {
                // CBC stream whose last block carries invalid padding: the reader delivers everything
                // before the last block and then keeps failing with InvalidData
                let mut pt = comp_stream.clone();
                let fill = (16 - pt.len() % 16) % 16 + 16 * rng.gen_range(0..2);
                pt.extend(std::iter::repeat(0u8).take(fill));
                delivered = Some((pt.clone(), "invalidData"));
                pt.extend_from_slice(&[0u8; 16]);
                d.extend(refdec::encrypt_cbc_raw(enc, &key, &iv, &pt).unwrap());
            } else {
                d.extend(refdec::encrypt(enc, mode, &key, &iv, &comp_stream).unwrap());
            }
            d
        } else { comp_stream.clone() };
        let mut archive = gen::SIG.to_vec();
        archive.extend(frame(b"AHED", &[0; 8]));
        archive.extend(frame(b"SHED", &[0, 0, comp, enc, mode]));
        if enc != 0 { archive.extend(frame(b"PHSF", phsf.as_bytes())); }
        for c in data.chunks(97) { archive.extend(frame(b"SDAT", c)); }
        archive.extend(frame(b"SEND", &[]));
        archive.extend(frame(b"FHED", &fhed("after")));
        archive.extend(frame(b"FEND", &[]));
        archive.extend(frame(b"AEND", &[]));
        let kind_s = ["valid", "random", "truncated", "bitflip", "inner-crc", "inner-len", "no-fend", "nested-solid", "hostile-chunks", "cbc-bad-padding"][kind];
        ctx.count(&format!("inner:{kind_s}"));
        ctx.count(&format!("comp:{comp}"));
        ctx.count(if enc != 0 { "encrypted" } else { "plain" });
        let attrs = json!({"case":case,"comp":comp,"enc":enc,"mode":mode,"inner":kind_s,"archive":hex(&archive)});
        // correspondence: the model's entry iterator on the delivered inner stream
        if let Some((inner_bytes, term)) = &delivered {
            if inner_bytes.len() < 20_000 && !(kind == 5) {
                let a = archive.clone();
                let pwm = if enc != 0 { Some(password) } else { None };
                let imp = crate::util::isolated(10_000, 16384, move || {
                    let mut out = vec![];
                    if let Ok(mut ar) = Archive::read_header(&a[..]) {
                        if let Some(Ok(ReadEntry::Solid(s))) = ar.entries().next() {
                            match s.entries(pwm) {
                                Ok(it) => for (i, e) in it.enumerate() {
                                    if i >= 2000 { out.push("hang".to_string()); break; }
                                    out.push(match e { Ok(e) => format!("ok {}", crate::canon::normal_s(&e)), Err(e) => format!("err {}", err_kind(&e)) });
                                },
                                Err(e) => out.push(format!("open-err {}", err_kind(&e))),
                            }
                        }
                    }
                    format!("n={}{}", out.len(), out.iter().map(|s| format!(" | {s}")).collect::<String>())
                }).unwrap_or_else(|e| format!("end={e}"));
                ctx.case(json!({"op":"solid-iter","inner":kind_s,"enc":enc}), format!("solid.iter {} {term}", hexw(inner_bytes)), imp, !inner_bytes.is_empty());
            }
        }
        for consumer in 0..3 {
            let a = archive.clone();
            let pw = if enc != 0 { Some(password) } else if case % 2 == 0 { None } else { Some(password) };
            ctx.oracle_eval();
            let r = crate::util::isolated(10_000, 16384, move || {
                let count = |it: &mut dyn Iterator<Item = std::io::Result<NormalEntry>>| -> String {
                    let (mut ok, mut err) = (0, 0);
                    for e in it {
                        match e {
                            Ok(e) => { ok += 1; if let Ok(mut r) = e.reader(ReadOptions::with_password(None::<&str>)) { let _ = std::io::copy(&mut r, &mut std::io::sink()); } }
                            Err(_) => err += 1,
                        }
                        // a consumer that stops at the first error is fine; one that collects must terminate by itself
                    }
                    format!("ok={ok} err={err}")
                };
                match consumer {
                    0 => match Archive::read_header(&a[..]) {
                        Ok(mut ar) => count(&mut ar.entries_with_password(pw)),
                        Err(_) => "header-error".into(),
                    },
                    1 => match Archive::read_header(&a[..]) {
                        Ok(mut ar) => {
                            let mut out = String::new();
                            for e in ar.entries() {
                                match e {
                                    Ok(ReadEntry::Solid(s)) => match s.entries(pw) { Ok(mut it) => out.push_str(&count(&mut it)), Err(_) => out.push_str("open-error") },
                                    Ok(_) => out.push_str(" n"),
                                    Err(_) => { out.push_str(" e"); break; }
                                }
                            }
                            out
                        }
                        Err(_) => "header-error".into(),
                    },
                    _ => match Archive::read_header_from_slice(&a[..]) {
                        Ok(mut ar) => {
                            let mut out = String::new();
                            for e in ar.entries_slice() {
                                match e {
                                    Ok(ReadEntry::Solid(s)) => match s.entries(pw) { Ok(mut it) => out.push_str(&count(&mut it)), Err(_) => out.push_str("open-error") },
                                    Ok(_) => out.push_str(" n"),
                                    Err(_) => { out.push_str(" e"); break; }
                                }
                            }
                            out
                        }
                        Err(_) => "header-error".into(),
                    },
                }
            });
            let cname = ["Archive::entries_with_password", "SolidEntry::entries (stream)", "SolidEntry::entries (slice)"][consumer];
            match r {
                Ok(s) if s == "panic" => ctx.violation("C07", "reader panicked inside a solid block", json!({"case":attrs,"consumer":cname})),
                Ok(s) => ctx.count(&format!("outcome:{}", if s.contains("err=0") || !s.contains("err=") { "clean" } else { "error-reported" })),
                Err(e) => ctx.violation("C07", if e == "hang" { "iterating a solid block never ends (the entry iterator keeps yielding the same error)" } else { "reading a solid block exhausts memory or crashes" }, json!({"case":attrs,"consumer":cname,"outcome":e})),
            }
        }
    }
}
