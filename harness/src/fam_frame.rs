//! Framing-level families: chunk, parse, truncate, alter.
use crate::canon;
use crate::ctx::Ctx;
use crate::gen::{self, frame, SIG};
use crate::util::{bytes, catch, err_kind, hex, hexw, rng_for, size};
use rand::Rng;
use serde_json::json;

const KNOWN: [&[u8; 4]; 16] = [
    b"AHED", b"AEND", b"ANXT", b"FHED", b"PHSF", b"FDAT", b"FEND", b"SHED", b"SDAT", b"SEND", b"fSIZ", b"cTIM", b"mTIM", b"aTIM", b"fPRM", b"xATR",
];

fn dec_answer(r: Result<std::io::Result<([u8; 4], Vec<u8>, usize)>, String>) -> String {
    match r {
        Err(p) => format!("panic {p}"),
        Ok(Err(e)) => format!("err {}", err_kind(&e)),
        Ok(Ok((t, d, rest))) => format!("ok {}:{} rest={}", hex(&t), hexw(&d), rest),
    }
}

fn dec_stream(b: &[u8]) -> String {
    let b = b.to_vec();
    dec_answer(catch(move || {
        let mut r = &b[..];
        libpna::verif::chunk_from_reader(&mut r).map(|(t, d)| (t, d, r.len()))
    }))
}

fn dec_slice(b: &[u8]) -> String {
    let b = b.to_vec();
    dec_answer(catch(move || libpna::verif::chunk_from_slice(&b)))
}

pub fn chunk(ctx: &mut Ctx) {
    let mut rng = rng_for(ctx.seed, "chunk");
    ctx.rule = "random chunk type (known/private/arbitrary bytes) x payload sizes biased to boundaries; encode compared byte-for-byte, \
                then decode of encoding+suffix / truncation / single-byte mutation / garbage through both parsers; \
                non-trivial = payload non-empty or input malformed; distinct by request line".into();
    // entry parts (`EntryPart::from(raw entry)`, `Archive::add_entry_part`): declared length = returned count = bytes written,
    // for parts whose chunk lists hold empty and tiny chunks of every kind (as a foreign writer or a re-cut may leave them)
    for k in 0..(if ctx.thorough { 200 } else { 40 }) {
        let mut body: Vec<([u8; 4], Vec<u8>)> = vec![(*b"FHED", vec![0, 0, 0, 0, 0, 0, b'p'])];
        for j in 0..rng.gen_range(1..6) {
            let t: [u8; 4] = *[b"FDAT", b"FDAT", b"fSIZ", b"myTy", b"FDAT"][rng.gen_range(0..5)];
            let len = if (k + j) % 3 == 0 { 0 } else { rng.gen_range(0..9) };
            body.push((t, if &t == b"fSIZ" { vec![1] } else { bytes(&mut rng, len) }));
        }
        body.push((*b"FEND", vec![]));
        let mut arch = SIG.to_vec();
        arch.extend(frame(b"AHED", &[0; 8]));
        let want: usize = body.iter().map(|(_, d)| 12 + d.len()).sum();
        for (t, d) in &body { arch.extend(frame(t, d)); }
        arch.extend(frame(b"AEND", &[]));
        let a2 = arch.clone();
        let r = crate::util::catch(move || -> std::io::Result<(usize, usize, usize)> {
            use libpna::{Archive, EntryPart};
            let mut src = Archive::read_header(&a2[..])?;
            let raw = src.raw_entries().next().ok_or_else(|| std::io::Error::other("no entry"))??;
            let part = EntryPart::from(raw);
            let declared = part.bytes_len();
            let mut out = Archive::write_header(Vec::new())?;
            let returned = out.add_entry_part(part)?;
            let bytes = out.finalize()?;
            Ok((declared, returned, bytes.len() - 8 - 20 - 12))
        });
        ctx.oracle_eval();
        match r {
            Ok(Ok((declared, returned, written))) => {
                if declared != want || returned != written || declared != written {
                    ctx.violation("C18", "an entry part's declared length, the count add_entry_part returns and the bytes it writes differ", json!({"chunks": body.iter().map(|(t, d)| format!("{}:{}", String::from_utf8_lossy(t), d.len())).collect::<Vec<_>>(), "declared": declared, "returned": returned, "written": written, "serialised_length": want}));
                }
            }
            Ok(Err(e)) => ctx.notes.push(format!("entry-part case failed: {e}")),
            Err(p) => ctx.violation("C07", "add_entry_part panicked", json!({"panic": p})),
        }
        ctx.case_free();
    }
    let n = if ctx.thorough { 6000 } else { 600 };
    for i in 0..n {
        let ty: [u8; 4] = match rng.gen_range(0..3) {
            0 => *KNOWN[rng.gen_range(0..KNOWN.len())],
            1 => gen::gen_private_type(&mut rng),
            _ => rng.gen(),
        };
        let max = if ctx.thorough && i % 50 == 0 { 70000 } else { 300 };
        let dlen = size(&mut rng, max);
        let data = bytes(&mut rng, dlen);
        // encode
        let (enc, cnt) = libpna::verif::chunk_encode(ty, &data).unwrap();
        let (tb, blen, length, crc) = libpna::verif::chunk_to_bytes(ty, &data);
        ctx.case(json!({"op":"enc","ty":hex(&ty),"len":data.len()}), format!("chunk.enc {} {}", hex(&ty), hexw(&data)), format!("ok {}", hex(&enc)), !data.is_empty());
        ctx.count("enc");
        ctx.oracle_eval();
        if cnt != enc.len() || blen != enc.len() || tb != enc || length as usize != data.len() {
            ctx.violation("C18", "write_chunk_in count / bytes_len / length() differs from bytes written", json!({"ty":hex(&ty),"data":hex(&data),"count":cnt,"bytes_len":blen,"written":enc.len()}));
        }
        if enc != frame(&ty, &data) || crc != canon::crc(&[&ty[..], &data[..]].concat()) {
            ctx.violation("C14", "chunk encoding differs from the format (length|type|data|crc32)", json!({"ty":hex(&ty),"data":hex(&data)}));
        }
        // decode variants
        let variant = rng.gen_range(0..6);
        let input: Vec<u8> = match variant {
            0 => enc.clone(),
            1 => { let s = size(&mut rng, 20); [enc.clone(), bytes(&mut rng, s)].concat() }
            2 => enc[..rng.gen_range(0..enc.len())].to_vec(),
            3 => { let mut m = enc.clone(); let k = rng.gen_range(0..m.len()); m[k] ^= 1 << rng.gen_range(0..8); m }
            4 => { let s = size(&mut rng, 40); bytes(&mut rng, s) }
            _ => { let mut m = enc.clone(); let extra = rng.gen_range(1..5u32); let l = (data.len() as u32).wrapping_add(extra); m[..4].copy_from_slice(&l.to_be_bytes()); m }
        };
        let vs = ["exact", "suffix", "truncated", "bitflip", "garbage", "length+"][variant];
        ctx.count(vs);
        let a = dec_stream(&input);
        let b = dec_slice(&input);
        ctx.oracle_eval();
        if a != b {
            ctx.violation("C03", "stream and slice chunk parsers disagree", json!({"input":hex(&input),"stream":a,"slice":b}));
        }
        if a.starts_with("panic") || b.starts_with("panic") {
            ctx.violation("C07", "chunk parser panicked", json!({"input":hex(&input),"stream":a,"slice":b}));
        }
        if variant <= 1 {
            let want = format!("ok {}:{} rest={}", hex(&ty), hexw(&data), input.len() - enc.len());
            if a != want || b != want {
                ctx.violation("C13", "decode(encode(chunk)) is not the chunk", json!({"ty":hex(&ty),"data":hex(&data),"stream":a,"slice":b}));
            }
        }
        if variant == 3 && a.starts_with("ok") {
            // a flipped bit was accepted: allowed only if it hit the length field and re-framed... report
            ctx.violation("C05", "single-bit alteration of a chunk accepted by the parser", json!({"input":hex(&input),"stream":a}));
        }
        ctx.case(json!({"op":"dec.stream","variant":vs,"len":input.len()}), format!("chunk.dec.stream {}", hexw(&input)), a, variant != 0);
        ctx.case(json!({"op":"dec.slice","variant":vs,"len":input.len()}), format!("chunk.dec.slice {}", hexw(&input)), b, variant != 0);
    }
    // CRC cross-check on assorted inputs
    for _ in 0..(if ctx.thorough { 2000 } else { 200 }) {
        let n = size(&mut rng, 400);
        let d = bytes(&mut rng, n);
        ctx.case(json!({"op":"crc","len":n}), format!("crc {}", hexw(&d)), format!("ok {}", canon::crc(&d)), n > 0);
    }
}

/// Independent framing walk: (offset, type, payload length) of each well-framed chunk.
pub fn walk(bs: &[u8]) -> Vec<(usize, [u8; 4], usize)> {
    let mut v = vec![];
    let mut p = 8;
    while p + 12 <= bs.len() {
        let l = u32::from_be_bytes(bs[p..p + 4].try_into().unwrap()) as usize;
        if p + 12 + l > bs.len() {
            break;
        }
        let ty: [u8; 4] = bs[p + 4..p + 8].try_into().unwrap();
        v.push((p, ty, l));
        p += 12 + l;
        if &ty == b"AEND" {
            break;
        }
    }
    v
}

/// End offsets (exclusive) of the top-level items (FHED..FEND / SHED..SEND).
pub fn item_ends(bs: &[u8]) -> Vec<usize> {
    walk(bs).iter().filter(|(_, t, _)| t == b"FEND" || t == b"SEND").map(|(o, _, l)| o + 12 + l).collect()
}

fn read_paths(input: &[u8]) -> Vec<(&'static str, String)> {
    let fs: [(&'static str, fn(&[u8]) -> String); 6] = [
        ("chunks.stream", canon::chunks_stream),
        ("chunks.slice", canon::chunks_slice),
        ("archive.read.stream", canon::read_stream),
        ("archive.read.slice", canon::read_slice),
        ("archive.raw.stream", canon::raw_stream),
        ("archive.raw.slice", canon::raw_slice),
    ];
    fs.iter()
        .map(|(name, f)| {
            let b = input.to_vec();
            let f = *f;
            let ans = match catch(move || f(&b)) {
                Ok(s) => s,
                Err(p) => format!("panic {p}"),
            };
            (*name, ans)
        })
        .collect()
}

/// Adversarial payload for a given chunk type.
fn hostile_payload(rng: &mut impl Rng, ty: &[u8; 4]) -> Vec<u8> {
    match ty {
        b"AHED" => match rng.gen_range(0..4) {
            0 => vec![0, 0, 0, 0, 0, 0, 0, 0],
            1 => vec![0, 0, 0, 0, 0xff, 0xff, 0xff, 0xff],
            2 => { let n = size(rng, 12); bytes(rng, n) }
            _ => { let mut v = bytes(rng, 8); v[4] = 0; v[5] = 0; v[6] = 0; v }
        },
        b"FHED" => {
            let mut v = vec![0u8, 0, rng.gen_range(0..5), [0u8, 1, 2, 3, 4, 5][rng.gen_range(0..6)], rng.gen_range(0..4), rng.gen_range(0..3)];
            if rng.gen_bool(0.1) { v[0] = rng.gen(); }
            if rng.gen_bool(0.1) { v[1] = rng.gen(); }
            let name: Vec<u8> = match rng.gen_range(0..7) {
                0 => b"a/b.txt".to_vec(),
                1 => b"../../etc/passwd".to_vec(),
                2 => b"/abs/./x//y/".to_vec(),
                3 => vec![0xff, 0xfe, b'a'],
                4 => vec![],
                5 => "ünï/日本".as_bytes().to_vec(),
                _ => { let n = size(rng, 30); bytes(rng, n) }
            };
            v.extend(name);
            if rng.gen_bool(0.1) { v.truncate(rng.gen_range(0..7)); }
            v
        }
        b"SHED" => {
            let mut v = vec![0u8, 0, [0u8, 1, 2, 4, 3][rng.gen_range(0..5)], rng.gen_range(0..4), rng.gen_range(0..3)];
            if rng.gen_bool(0.15) { v[0] = rng.gen(); v[1] = rng.gen(); }
            if rng.gen_bool(0.15) { let n = size(rng, 8); v = bytes(rng, n); }
            v
        }
        b"PHSF" => match rng.gen_range(0..6) {
            0 => b"$pbkdf2-sha256$i=1,l=32$c2FsdHNhbHQ".to_vec(),
            1 => b"$argon2id$v=19$m=8,t=1,p=1".to_vec(),
            2 => b"$argon2id$v=19$m=8,t=1,p=1$c2FsdHNhbHQ".to_vec(),
            3 => b"$pbkdf2-sha256$i=1,l=16$c2FsdHNhbHQ".to_vec(),
            4 => vec![0xff, 0xff],
            _ => b"$unknown$x=1$c2FsdHNhbHQ".to_vec(),
        },
        b"cTIM" | b"mTIM" | b"aTIM" => match rng.gen_range(0..6) {
            0 => vec![0xff; 8],
            // seconds + a sub-second field (a layout a later format revision might use): values that overflow when combined
            4 => vec![0xff, 0xff, 0xff, 0xff, 0xff, 0xff, 0xff, 0xff, 0x3b, 0x9a, 0xca, 0x00],
            5 => { let mut v = vec![0xff; 8]; v[7] = 0xfc + rng.gen_range(0..4u8); v.extend_from_slice(&u32::MAX.to_be_bytes()); v }
            1 => { let n = size(rng, 12); bytes(rng, n) }
            _ => bytes(rng, 8),
        },
        b"fSIZ" => { let n = rng.gen_range(0..41); bytes(rng, n) }
        b"fPRM" => match rng.gen_range(0..4) {
            0 => { let n = size(rng, 30); bytes(rng, n) }
            1 => { let mut v = vec![0u8; 8]; v.push(200); v.extend(vec![b'a'; 3]); v }
            2 => { let mut v = vec![0u8; 8]; v.push(2); v.extend([0xff, 0xfe]); v.extend(vec![0u8; 8]); v.push(0); v.extend([1, 0xa4]); v }
            _ => { let mut v = bytes(rng, 8); v.push(1); v.push(b'u'); v.extend(bytes(rng, 8)); v.push(1); v.push(b'g'); v.extend([1, 0xa4]); if rng.gen_bool(0.3) { v.extend(bytes(rng, 3)); } v }
        },
        b"xATR" => match rng.gen_range(0..5) {
            0 => { let mut v = 9u32.to_be_bytes().to_vec(); v.push(b'a'); v }
            1 => { let mut v = 1u32.to_be_bytes().to_vec(); v.push(b'a'); v.extend(5u32.to_be_bytes()); v.push(1); v }
            2 => { let mut v = 1u32.to_be_bytes().to_vec(); v.push(b'a'); v.extend(1u32.to_be_bytes()); v.extend([7, 8, 9]); v }
            3 => { let mut v = u32::MAX.to_be_bytes().to_vec(); v.push(b'a'); v }
            _ => { let n = size(rng, 20); bytes(rng, n) }
        },
        _ => { let n = size(rng, 40); bytes(rng, n) }
    }
}

pub fn hostile_payload_pub(rng: &mut impl Rng, ty: &[u8; 4]) -> Vec<u8> {
    hostile_payload(rng, ty)
}

/// A CRC-valid chunk stream with arbitrary order of types and adversarial payloads.
pub fn hostile_stream(rng: &mut impl Rng) -> Vec<u8> {
    let mut v = SIG.to_vec();
    if rng.gen_bool(0.9) {
        let p = if rng.gen_bool(0.8) { vec![0u8; 8] } else { hostile_payload(rng, b"AHED") };
        v.extend(frame(b"AHED", &p));
    }
    let n = rng.gen_range(0..12);
    let mut open: Option<bool> = None;
    for _ in 0..n {
        // mostly-structured: open entry, body chunks, close
        let ty: [u8; 4] = match (open, rng.gen_range(0..10)) {
            (None, 0..=4) => { open = Some(false); *b"FHED" }
            (None, 5..=6) => { open = Some(true); *b"SHED" }
            (Some(false), 0..=1) => { open = None; *b"FEND" }
            (Some(true), 0..=1) => { open = None; *b"SEND" }
            (Some(false), 2..=4) => *b"FDAT",
            (Some(true), 2..=4) => *b"SDAT",
            (_, 5) => gen::gen_private_type(rng),
            (_, 6) => *KNOWN[rng.gen_range(0..KNOWN.len())],
            (_, 7) => rng.gen(),
            _ => *[b"fSIZ", b"cTIM", b"mTIM", b"aTIM", b"fPRM", b"xATR", b"PHSF", b"ANXT"][rng.gen_range(0..8)],
        };
        if &ty == b"AEND" && rng.gen_bool(0.7) {
            continue;
        }
        let p = if matches!(&ty, b"FEND" | b"SEND" | b"ANXT") && rng.gen_bool(0.9) { vec![] } else { hostile_payload(rng, &ty) };
        v.extend(frame(&ty, &p));
    }
    if let Some(s) = open {
        if rng.gen_bool(0.7) {
            v.extend(frame(if s { b"SEND" } else { b"FEND" }, &[]));
        }
    }
    if rng.gen_bool(0.85) {
        v.extend(frame(b"AEND", &[]));
    }
    if rng.gen_bool(0.1) {
        let n = size(rng, 20);
        v.extend(bytes(rng, n));
    }
    v
}

fn mutate(rng: &mut impl Rng, a: &[u8]) -> Vec<u8> {
    let mut m = a.to_vec();
    match rng.gen_range(0..5) {
        0 => { if !m.is_empty() { let k = rng.gen_range(0..m.len()); m[k] ^= 1 << rng.gen_range(0..8); } }
        1 => { let k = rng.gen_range(0..=m.len()); m.truncate(k); }
        2 => { let k = rng.gen_range(0..=m.len()); let n = size(rng, 16); let ins = bytes(rng, n); m.splice(k..k, ins); }
        3 => {
            // drop or duplicate a whole chunk (CRC stays valid)
            let w = walk(a);
            if !w.is_empty() {
                let (o, _, l) = w[rng.gen_range(0..w.len())];
                if rng.gen_bool(0.5) { m.drain(o..o + 12 + l); } else { let c = a[o..o + 12 + l].to_vec(); m.splice(o..o, c); }
            }
        }
        _ => {
            // swap two chunks
            let w = walk(a);
            if w.len() >= 2 {
                let i = rng.gen_range(0..w.len() - 1);
                let (o1, _, l1) = w[i];
                let (o2, _, l2) = w[i + 1];
                let c1 = a[o1..o1 + 12 + l1].to_vec();
                let c2 = a[o2..o2 + 12 + l2].to_vec();
                m.splice(o1..o2 + 12 + l2, [c2, c1].concat());
            }
        }
    }
    m
}

pub fn parse(ctx: &mut Ctx) {
    let mut rng = rng_for(ctx.seed, "parse");
    ctx.rule = "byte strings from three streams: valid archives written by the real library (5 writer kinds x codecs x ciphers), \
                mutations/splices of those, and grammar-generated CRC-valid chunk streams with adversarial payloads; each fed to \
                read_as_chunks, read_chunks_from_slice, entries(), entries_slice(), raw_entries(), raw_entries_slice(); \
                non-trivial = input has at least one well-framed chunk after the signature; distinct by request line".into();
    let n = if ctx.thorough { 4000 } else { 350 };
    for _ in 0..n {
        let (input, src) = match rng.gen_range(0..10) {
            0..=2 => (gen::gen_archive(&mut rng, 3, 120).0, "valid"),
            3..=5 => { let a = gen::gen_archive(&mut rng, 3, 60).0; (mutate(&mut rng, &a), "mutated") }
            6..=8 => (hostile_stream(&mut rng), "hostile"),
            _ => { let h = hostile_stream(&mut rng); (mutate(&mut rng, &h), "hostile-mutated") }
        };
        ctx.count(src);
        let nontrivial = !walk(&input).is_empty();
        let answers = read_paths(&input);
        ctx.oracle_eval();
        for pair in [(0, 1), (2, 3), (4, 5)] {
            if answers[pair.0].1 != answers[pair.1].1 {
                ctx.violation("C03", "stream and slice readers disagree", json!({"src":src,"input":hex(&input),"path":answers[pair.0].0,"stream":answers[pair.0].1,"slice":answers[pair.1].1}));
            }
        }
        for (name, a) in &answers {
            if a.starts_with("panic") || a.contains("hang") {
                ctx.violation("C07", "reader panicked or iterates forever", json!({"src":src,"input":hex(&input),"path":name,"answer":a[..a.len().min(200)].to_string()}));
            }
            if a.contains("end=ok") { ctx.count("outcome:ok"); } else if a.contains("err") { ctx.count("outcome:err"); }
        }
        for (name, a) in answers {
            ctx.case(json!({"src":src,"len":input.len(),"path":name}), format!("{} {}", name, hexw(&input)), a, nontrivial);
        }
    }
}

fn entries_of(ans: &str) -> Vec<&str> {
    ans.split(' ').filter(|t| t.starts_with("N:") || t.starts_with("S:") || t.starts_with("R:")).collect()
}

pub fn truncate(ctx: &mut Ctx) {
    let mut rng = rng_for(ctx.seed, "truncate");
    ctx.rule = "valid archives from all five writer kinds (random codec/cipher), every proper prefix length 0..len-1 for small archives \
                (exhaustive) and sampled cuts + all chunk boundaries +-1 for larger ones, through the four entry/raw read paths and both chunk iterators; \
                non-trivial = cut beyond the signature; distinct by request line".into();
    let n_arch = if ctx.thorough { 60 } else { 6 };
    for ai in 0..n_arch {
        let big = ai % 3 == 2;
        // one archive per run holds a chunk well beyond 64 KiB (readers that treat large chunks differently), cut around every
        // field boundary of every chunk
        let huge = ai == 1;
        let (full, desc, _) = if huge {
            let mut e = gen::gen_entry(&mut rng, 0);
            e.kind = gen::Kind::File;
            e.name = "large.bin".into();
            e.content = bytes(&mut rng, 100_000);
            e.writes = vec![100_000];
            e.link = String::new();
            let small = gen::gen_entry(&mut rng, 30);
            let cfg = gen::Cfg::plain();
            let (b, _) = gen::write_archive(gen::WriterKind::Builder, &cfg, &[small, e]).expect("writer failed");
            (b, json!({"writer":"Builder","entries":"small + 100000-byte stored file"}), cfg)
        } else { gen::gen_archive(&mut rng, if big { 5 } else { 2 }, if big { 600 } else { 24 }) };
        let ends = item_ends(&full);
        let full_answers = read_paths(&full);
        let cuts: Vec<usize> = if full.len() <= 420 {
            (0..full.len()).collect()
        } else {
            let mut c: Vec<usize> = (0..if huge { 4 } else { 60 }).map(|_| rng.gen_range(0..full.len())).collect();
            for (o, _, l) in walk(&full) {
                let around: Vec<usize> = if huge && l < 60_000 {
                    vec![o, o + 8, o + 8 + l]
                } else if huge {
                    vec![o.saturating_sub(1), o, o + 1, o + 3, o + 4, o + 5, o + 7, o + 8, o + 9, o + 10, o + 11, o + 12, o + 8 + l / 2, (o + 7 + l).max(o + 8), o + 8 + l, o + 9 + l, o + 10 + l, o + 11 + l]
                } else {
                    vec![o.saturating_sub(1), o, o + 1, o + 4, o + 8, o + 10, o + 8 + l, o + 11 + l]
                };
                for d in around {
                    if d < full.len() { c.push(d); }
                }
            }
            c.sort();
            c.dedup();
            c
        };
        ctx.count(if full.len() <= 420 { "archives:exhaustive" } else { "archives:sampled" });
        for k in cuts {
            let input = &full[..k];
            let answers = read_paths(input);
            let complete = ends.iter().filter(|e| **e <= k).count();
            ctx.oracle_eval();
            for (i, (name, a)) in answers.iter().enumerate() {
                if a.starts_with("panic") || a.contains("hang") {
                    ctx.violation("C06", "reader panicked or iterates forever on a truncated archive", json!({"archive":desc,"full":hex(&full),"cut":k,"path":name,"answer":a[..a.len().min(200)].to_string()}));
                    ctx.violation("C07", "reader panicked or iterates forever on a truncated archive", json!({"input":hex(input),"path":name,"answer":a[..a.len().min(200)].to_string()}));
                    continue;
                }
                let ok = if i < 2 { a.ends_with(" end") } else { a.contains("end=ok") };
                if ok {
                    ctx.violation("C06", "proper prefix of an archive read as a complete archive", json!({"archive":desc,"full":hex(&full),"cut":k,"path":name,"answer":a}));
                }
                if i >= 2 {
                    let got = entries_of(a);
                    let want: Vec<&str> = entries_of(&full_answers[i].1).into_iter().take(complete).collect();
                    if got != want {
                        ctx.violation("C06", "entries returned before the error differ from the completely written entries", json!({"archive":desc,"full":hex(&full),"cut":k,"path":name,"got":got,"want":want}));
                    }
                }
            }
            if input.len() <= 20_000 {
                for (name, a) in answers {
                    ctx.case(json!({"archive":ai,"cut":k,"len":full.len(),"path":name}), format!("{} {}", name, hexw(input)), a, k > 8);
                }
            }
        }
    }
}

pub fn alter(ctx: &mut Ctx) {
    let mut rng = rng_for(ctx.seed, "alter");
    ctx.rule = "valid archives (all writer kinds, random codec/cipher) x byte offsets x XOR masks: quick = every offset of small archives with one random \
                single-bit mask plus sampled offsets with all 8 single-bit masks; thorough = every offset x all 255 masks on small archives; \
                through the four entry/raw read paths and both chunk iterators; non-trivial = offset >= 8; distinct by request line".into();
    // deterministic witness of the known finding C05-length-field-embedded-frame (Lean: Pna.C05A.length_alteration_can_go_undetected):
    // a data chunk whose payload embeds a CRC-consistent frame; changing one byte of its LENGTH field re-frames the payload
    {
        let mut inner = vec![1u8];
        inner.extend_from_slice(&gen::frame(b"FDAT", &[1])[9..13]); // CRC of (FDAT, [1])
        inner.extend(gen::frame(b"FEND", &[]));
        inner.extend(gen::frame(b"AEND", &[]));
        let mut full = gen::SIG.to_vec();
        full.extend(gen::frame(b"AHED", &[0; 8]));
        full.extend(gen::frame(b"FHED", &[0, 0, 0, 0, 0, 0, b'a']));
        full.extend(gen::frame(b"FDAT", &inner));
        full.extend(gen::frame(b"FEND", &[]));
        full.extend(gen::frame(b"AEND", &[]));
        assert_eq!(full[50], 29);
        let mut input = full.clone();
        input[50] = 1;
        let orig = read_paths(&full);
        let answers = read_paths(&input);
        ctx.oracle_eval();
        for (i, (name, a)) in answers.iter().enumerate() {
            let ok = if i < 2 { a.ends_with(" end") } else { a.contains("end=ok") };
            if ok && *a != orig[i].1 && i == 2 {
                ctx.violation("C05", "a crafted alteration of a length-field byte is read successfully with different content (the payload embeds a CRC-consistent frame)",
                    json!({"embedded_frame_witness": true, "full": hex(&full), "offset": 50, "mask": 28, "path": name, "answer": a, "original_answer": orig[i].1}));
            }
        }
        for (name, a) in answers {
            ctx.case(json!({"archive":"embedded-frame witness","offset":50,"mask":28,"path":name}), format!("{} {}", name, hexw(&input)), a, true);
        }
    }
    let n_arch = if ctx.thorough { 12 } else { 5 };
    for ai in 0..n_arch {
        let (full, desc, cfg0) = gen::gen_archive(&mut rng, 2, 20);
        let cfg_pw: Option<String> = if cfg0.enc != 0 { Some(cfg0.password.clone()) } else { None };
        let other_orig = canon::read_other_iterators(&full, cfg_pw.as_deref());
        let ends = item_ends(&full);
        let full_answers = read_paths(&full);
        let chunks = walk(&full);
        let mut jobs: Vec<(usize, u8)> = vec![];
        for off in 0..full.len() {
            if ctx.thorough && full.len() <= 260 {
                for m in 1..=255u8 { jobs.push((off, m)); }
            } else {
                jobs.push((off, 1 << rng.gen_range(0..8)));
                if rng.gen_bool(0.08) { for b in 0..8 { jobs.push((off, 1 << b)); } }
                if rng.gen_bool(0.1) { jobs.push((off, rng.gen_range(1..=255))); }
            }
        }
        for (off, mask) in jobs {
            let mut input = full.clone();
            input[off] ^= mask;
            let in_len_field = chunks.iter().any(|(o, _, _)| off >= *o && off < o + 4);
            ctx.count(if off < 8 { "field:signature" } else if in_len_field { "field:length" } else { "field:type/data/crc" });
            let answers = read_paths(&input);
            let before = ends.iter().filter(|e| **e <= off).count();
            ctx.oracle_eval();
            for (i, (name, a)) in answers.iter().enumerate() {
                if a.starts_with("panic") || a.contains("hang") {
                    ctx.violation("C07", "reader panicked or iterates forever on an altered archive", json!({"input":hex(&input),"path":name,"answer":a[..a.len().min(200)].to_string()}));
                    ctx.violation("C05", "reader panicked or iterates forever on an altered archive", json!({"archive":desc,"full":hex(&full),"offset":off,"mask":mask,"path":name,"answer":a[..a.len().min(200)].to_string()}));
                    continue;
                }
                let ok = if i < 2 { a.ends_with(" end") } else { a.contains("end=ok") };
                if ok {
                    ctx.violation("C05", "altered archive read successfully", json!({"archive":desc,"full":hex(&full),"offset":off,"mask":mask,"path":name,"answer":a,"in_length_field":in_len_field}));
                }
                if i >= 2 {
                    let got = entries_of(a);
                    let want: Vec<&str> = entries_of(&full_answers[i].1).into_iter().take(before).collect();
                    if got != want {
                        ctx.violation("C05", "entries returned before the error are not the original entries wholly before the altered byte", json!({"archive":desc,"full":hex(&full),"offset":off,"mask":mask,"path":name,"got":got,"want":want,"in_length_field":in_len_field}));
                    }
                }
            }
            // the other iterators over the same reader (no model request: same reader underneath, but their own filtering)
            if off >= 8 {
                let inp = input.clone();
                let pw = cfg_pw.clone();
                if let Ok(others) = crate::util::catch(move || canon::read_other_iterators(&inp, pw.as_deref())) {
                    for ((which, got, ok), (_, orig, _)) in others.iter().zip(other_orig.iter()) {
                        ctx.oracle_eval();
                        if *ok { ctx.violation("C05", "altered archive read successfully", json!({"archive":desc,"full":hex(&full),"offset":off,"mask":mask,"path":which,"entries":got,"in_length_field":in_len_field})); }
                        if !orig.starts_with(got) { ctx.violation("C05", "entries returned before the error are not the original entries wholly before the altered byte", json!({"archive":desc,"full":hex(&full),"offset":off,"mask":mask,"path":which,"got":got,"original":orig})); }
                    }
                } else {
                    ctx.violation("C07", "reader panicked on an altered archive", json!({"input":hex(&input)}));
                }
            }
            for (name, a) in answers {
                ctx.case(json!({"archive":ai,"offset":off,"mask":mask,"path":name}), format!("{} {}", name, hexw(&input)), a, off >= 8);
            }
        }
    }
}
