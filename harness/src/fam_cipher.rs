//! State-machine families: FlattenReader/Writer, CBC writer/reader, CTR writer/reader — the real
//! generic code of the repository instantiated with the toy cipher, against the model.
use crate::ctx::Ctx;
use crate::toy::{self, Toy};
use crate::util::{bytes, catch, err_kind, hexw, rng_for, size};
use rand::Rng;
use serde_json::json;

fn list_s(l: &[Vec<u8>]) -> String {
    if l.is_empty() { ".".into() } else { l.iter().map(|b| hexw(b)).collect::<Vec<_>>().join(",") }
}
fn nats_s(l: &[usize]) -> String {
    if l.is_empty() { ".".into() } else { l.iter().map(|b| b.to_string()).collect::<Vec<_>>().join(",") }
}

fn gen_writes(rng: &mut impl Rng, total_max: usize) -> Vec<Vec<u8>> {
    let total = size(rng, total_max);
    let data = bytes(rng, total);
    let part = crate::gen::gen_partition(rng, total);
    let mut out = vec![];
    let mut pos = 0;
    for n in part {
        out.push(data[pos..pos + n].to_vec());
        pos += n;
    }
    if pos < total { out.push(data[pos..].to_vec()); }
    if rng.gen_bool(0.2) { let k = rng.gen_range(0..=out.len()); out.insert(k, vec![]); }
    out
}

fn gen_sched(rng: &mut impl Rng, total: usize, allow_zero: bool) -> Vec<usize> {
    let style = rng.gen_range(0..6);
    let mut v = vec![];
    let mut covered = 0;
    while covered < total + 40 && v.len() < 200 {
        let n = match style {
            0 => 1,
            1 => [15usize, 16, 17][rng.gen_range(0..3)],
            2 => rng.gen_range(1..8),
            3 => rng.gen_range(1..70),
            4 => total + 50,
            _ => [1usize, 7, 16, 20, 31, 32, 33, 100][rng.gen_range(0..8)],
        };
        let n = if allow_zero && rng.gen_bool(0.1) { 0 } else { n };
        v.push(n);
        covered += n.max(1);
    }
    v
}

fn outs_s(outs: Vec<std::io::Result<Vec<u8>>>) -> (String, Vec<u8>, bool) {
    let mut parts = vec![];
    let mut all = vec![];
    let mut err = None;
    for o in outs {
        match o {
            Ok(b) => { all.extend_from_slice(&b); parts.push(b); }
            Err(e) => { err = Some(err_kind(&e)); break; }
        }
    }
    let mut s = format!("ok {}", list_s(&parts));
    if let Some(e) = err { s.push_str(&format!(" err {e}")); }
    (s, all, err.is_some())
}

/// read_to_end semantics over the per-call outputs: concatenation up to the first empty result
fn until_zero(parts: &str) -> Option<Vec<u8>> {
    // parts: "ok a,b,c" ; returns None if no empty element was reached
    let body = parts.strip_prefix("ok ")?.split(' ').next()?;
    if body == "." { return None; }
    let mut all = vec![];
    for p in body.split(',') {
        if p == "-" { return Some(all); }
        all.extend(crate::util::unhex(p)?);
    }
    None
}

pub fn cipher_sm(ctx: &mut Ctx) {
    let mut rng = rng_for(ctx.seed, "cipher-sm");
    ctx.rule = "FlattenWriter<N>/FlattenReader, generic CBC encrypt writer / decrypt reader and CTR writer/reader of the repository instantiated with a toy block cipher: \
                random plaintexts (sizes biased to 0,1,15,16,17,31,32,33..) x random partitions into write calls (incl. empty and 1-byte writes) x inner short-read cut patterns \
                x caller buffer-size schedules (1, 15/16/17, small, large, mixed; zero-length reads for FlattenReader/CBC); outputs compared call by call; \
                non-trivial = plaintext non-empty; distinct by request line".into();
    let n = if ctx.thorough { 6000 } else { 500 };
    for _ in 0..n {
        let key = bytes(&mut rng, 32);
        let iv = bytes(&mut rng, 16);
        let mut k32 = [0u8; 32];
        k32.copy_from_slice(&key);
        // ---- FlattenWriter / FlattenReader
        let writes = gen_writes(&mut rng, 120);
        let stored4 = libpna::verif::flatten_write::<4>(&writes);
        ctx.case(json!({"op":"flatw","N":4}), format!("flatw 4 {}", list_s(&writes)), format!("ok {}", list_s(&stored4)), true);
        let stored16 = libpna::verif::flatten_write::<16>(&writes);
        ctx.case(json!({"op":"flatw","N":16}), format!("flatw 16 {}", list_s(&writes)), format!("ok {}", list_s(&stored16)), true);
        let mut slices = if rng.gen_bool(0.5) { stored4.clone() } else { writes.clone() };
        if rng.gen_bool(0.3) { let k = rng.gen_range(0..=slices.len()); slices.insert(k, vec![]); slices.insert(k, vec![]); }
        let total: usize = slices.iter().map(|s| s.len()).sum();
        let sched = gen_sched(&mut rng, total, true);
        let (s1, sch) = (slices.clone(), sched.clone());
        let res = catch(move || libpna::verif::flatten_read(&s1, &sch));
        let flat: Vec<u8> = slices.iter().flatten().copied().collect();
        match res {
            Err(p) => {
                ctx.violation("C07", "FlattenReader panicked", json!({"slices":list_s(&slices),"sched":sched,"panic":p}));
                ctx.case(json!({"op":"flatr"}), format!("flatr {} {}", list_s(&slices), nats_s(&sched)), format!("panic {p}"), true);
            }
            Ok(outs) => {
                let (s, all, _) = outs_s(outs);
                ctx.oracle_eval();
                // oracle: concatenation of the calls is a prefix of the data, and complete once a non-empty-buffer call returned 0
                if !flat.starts_with(&all) {
                    ctx.violation("C01", "FlattenReader returned bytes that are not a prefix of the concatenated slices", json!({"slices":list_s(&slices),"sched":sched}));
                }
                // read_to_end semantics: once a call with a non-empty buffer returned 0 bytes, everything must have been delivered
                let body = s.strip_prefix("ok ").unwrap().to_string();
                let mut acc = vec![];
                let mut done = false;
                if body != "." {
                    for (idx, p) in body.split(',').enumerate() {
                        if p == "-" && sched[idx] > 0 { done = true; break; }
                        if p != "-" { acc.extend(crate::util::unhex(p).unwrap()); }
                    }
                }
                if done && acc != flat {
                    ctx.violation("C01", "FlattenReader signalled end of data before delivering all of it (result depends on read buffer sizes)", json!({"slices":list_s(&slices),"sched":sched,"got":acc.len(),"want":flat.len()}));
                    ctx.violation("C03", "FlattenReader output depends on the read schedule", json!({"slices":list_s(&slices),"sched":sched,"got":acc.len(),"want":flat.len()}));
                }
                ctx.case(json!({"op":"flatr","slices":slices.len(),"total":total}), format!("flatr {} {}", list_s(&slices), nats_s(&sched)), s, total > 0);
            }
        }
        // ---- CBC writer
        let writes = gen_writes(&mut rng, 100);
        let plain: Vec<u8> = writes.iter().flatten().copied().collect();
        let (k, i, w) = (key.clone(), iv.clone(), writes.clone());
        let res = catch(move || libpna::verif::cbc_write_with::<Toy>(&k, &i, &w));
        let ct: Vec<u8> = match res {
            Ok(Ok(inner)) => {
                ctx.case(json!({"op":"cbcw","len":plain.len(),"writes":writes.len()}), format!("cbcw {} {} {}", hexw(&key), hexw(&iv), list_s(&writes)), format!("ok {}", list_s(&inner)), !plain.is_empty());
                let ct: Vec<u8> = inner.iter().flatten().copied().collect();
                // oracle (independent reference): CBC over PKCS#7-padded plaintext with the toy cipher
                let mut padded = plain.clone();
                let padn = 16 - plain.len() % 16;
                padded.extend(std::iter::repeat(padn as u8).take(padn));
                let mut chain = iv.clone();
                let mut want = vec![];
                for b in padded.chunks(16) {
                    let x: Vec<u8> = b.iter().zip(chain.iter()).map(|(a, c)| a ^ c).collect();
                    let c = toy::enc(&k32, &x);
                    want.extend_from_slice(&c);
                    chain = c.to_vec();
                }
                ctx.oracle_eval();
                if ct != want {
                    ctx.violation("C01", "CBC writer output depends on how the plaintext was sliced into write calls (differs from CBC(pad(plaintext)))", json!({"key":hexw(&key),"iv":hexw(&iv),"writes":list_s(&writes)}));
                }
                ct
            }
            Ok(Err(e)) => { ctx.case(json!({"op":"cbcw"}), format!("cbcw {} {} {}", hexw(&key), hexw(&iv), list_s(&writes)), format!("err {}", err_kind(&e)), true); vec![] }
            Err(p) => { ctx.violation("C07", "CBC writer panicked", json!({"writes":list_s(&writes),"panic":p})); vec![] }
        };
        // ---- CBC reader on that ciphertext (sometimes damaged)
        let mut ct2 = ct.clone();
        let damage = rng.gen_range(0..10);
        match damage {
            0 => { let k = rng.gen_range(0..=ct2.len()); ct2.truncate(k); }
            1 => { if !ct2.is_empty() { let k = ct2.len() - 1 - rng.gen_range(0..ct2.len().min(16)); ct2[k] ^= 1 << rng.gen_range(0..8); } }
            _ => {}
        }
        let cuts: Vec<usize> = match rng.gen_range(0..4) { 0 => vec![], 1 => (0..200).map(|_| 1).collect(), 2 => (0..100).map(|_| rng.gen_range(1..20)).collect(), _ => (0..100).map(|_| [5usize, 16, 4, 7][rng.gen_range(0..4)]).collect() };
        let sched = gen_sched(&mut rng, plain.len(), true);
        let (k, i, c, cu, sc) = (key.clone(), iv.clone(), ct2.clone(), cuts.clone(), sched.clone());
        let res = catch(move || libpna::verif::cbc_read_with::<Toy>(&k, &i, &c, &cu, &sc));
        match res {
            Err(p) => {
                ctx.violation("C07", "CBC reader panicked", json!({"ct":hexw(&ct2),"sched":sched,"cuts":cuts.len(),"panic":p}));
                ctx.case(json!({"op":"cbcr"}), format!("cbcr {} {} {} {}", hexw(&key), hexw(&iv), hexw(&ct2), nats_s(&sched)), format!("panic {p}"), true);
            }
            Ok(outs) => {
                let (s, all, had_err) = outs_s(outs);
                ctx.oracle_eval();
                if damage >= 2 {
                    if had_err {
                        ctx.violation("C01", "CBC reader failed on a valid ciphertext", json!({"key":hexw(&key),"iv":hexw(&iv),"ct":hexw(&ct2),"sched":sched,"inner_cuts":cuts.iter().take(8).collect::<Vec<_>>(),"answer":s}));
                    } else {
                        if !plain.starts_with(&all) {
                            ctx.violation("C01", "CBC reader returned bytes that are not a prefix of the plaintext", json!({"key":hexw(&key),"iv":hexw(&iv),"ct":hexw(&ct2),"sched":sched}));
                        }
                        // read_to_end: everything before the first 0-length result (for a non-empty buffer) must be the whole plaintext
                        let mut acc = vec![];
                        let mut done = false;
                        let body = s.strip_prefix("ok ").unwrap().to_string();
                        if body != "." {
                            for (idx, p) in body.split(',').enumerate() {
                                if p == "-" && sched[idx] > 0 { done = true; break; }
                                if p != "-" { acc.extend(crate::util::unhex(p).unwrap()); }
                            }
                        }
                        if done && acc != plain {
                            ctx.violation("C01", "CBC reader signalled end of stream before delivering the whole plaintext (result depends on read buffer sizes)", json!({"key":hexw(&key),"iv":hexw(&iv),"ct":hexw(&ct2),"sched":sched,"got":acc.len(),"want":plain.len()}));
                            ctx.violation("C03", "CBC reader output depends on the read schedule", json!({"ct":hexw(&ct2),"sched":sched,"got":acc.len(),"want":plain.len()}));
                        }
                    }
                }
                ctx.case(json!({"op":"cbcr","len":ct2.len(),"damage":damage.min(2),"cuts":cuts.first()}), format!("cbcr {} {} {} {}", hexw(&key), hexw(&iv), hexw(&ct2), nats_s(&sched)), s, !ct2.is_empty());
            }
        }
        // ---- CTR writer / reader
        let writes = gen_writes(&mut rng, 100);
        let plain: Vec<u8> = writes.iter().flatten().copied().collect();
        let iv2 = if rng.gen_bool(0.2) { let mut v = vec![0xffu8; 16]; v[15] = 0xff - rng.gen_range(0..3); v } else { iv.clone() };
        let (k, i, w) = (key.clone(), iv2.clone(), writes.clone());
        if let Ok(Ok(inner)) = catch(move || libpna::verif::ctr_write_with::<Toy>(&k, &i, &w)) {
            ctx.case(json!({"op":"ctrw","len":plain.len()}), format!("ctrw {} {} {}", hexw(&key), hexw(&iv2), list_s(&writes)), format!("ok {}", list_s(&inner)), !plain.is_empty());
            let ct: Vec<u8> = inner.iter().flatten().copied().collect();
            let cuts: Vec<usize> = (0..60).map(|_| rng.gen_range(1..24)).collect();
            let sched = gen_sched(&mut rng, plain.len(), false);
            let (k, i, c, cu, sc) = (key.clone(), iv2.clone(), ct.clone(), cuts.clone(), sched.clone());
            if let Ok(outs) = catch(move || libpna::verif::ctr_read_with::<Toy>(&k, &i, &c, &cu, &sc)) {
                let (s, all, _) = outs_s(outs);
                ctx.oracle_eval();
                if !plain.starts_with(&all) || (until_zero(&s).is_some() && until_zero(&s).unwrap() != plain) {
                    ctx.violation("C01", "CTR reader did not return the plaintext written", json!({"key":hexw(&key),"iv":hexw(&iv2),"writes":list_s(&writes),"sched":sched}));
                }
                ctx.case(json!({"op":"ctrr","len":ct.len()}), format!("ctrr {} {} {} {} {}", hexw(&key), hexw(&iv2), hexw(&ct), nats_s(&cuts), nats_s(&sched)), s, !ct.is_empty());
            }
        }
    }
}
