//! Toy block cipher (mirror of lean/PnaVerif/Model/Toy.lean) implementing the `cipher` traits,
//! so the repository's *generic* CBC/CTR reader and writer can be run against the model.
use cipher::consts::{U16, U32};
use cipher::{BlockCipher, Key, KeyInit, KeySizeUser};

pub struct Toy {
    k: [u8; 32],
}

impl KeySizeUser for Toy {
    type KeySize = U32;
}

impl KeyInit for Toy {
    fn new(key: &Key<Self>) -> Self {
        let mut k = [0u8; 32];
        k.copy_from_slice(key);
        Toy { k }
    }
}

impl BlockCipher for Toy {}

pub fn enc(k: &[u8; 32], b: &[u8]) -> [u8; 16] {
    let mut o = [0u8; 16];
    for i in 0..16 {
        o[i] = (b[(i + 1) % 16] ^ k[i]).rotate_left(3).wrapping_add(k[16 + i]);
    }
    o
}

pub fn dec(k: &[u8; 32], c: &[u8]) -> [u8; 16] {
    let mut o = [0u8; 16];
    for j in 0..16 {
        let i = (j + 15) % 16;
        o[j] = c[i].wrapping_sub(k[16 + i]).rotate_right(3) ^ k[i];
    }
    o
}

cipher::impl_simple_block_encdec!(
    Toy, U16, cipher, block,
    encrypt: {
        let o = enc(&cipher.k, block.get_in());
        block.get_out().copy_from_slice(&o);
    }
    decrypt: {
        let o = dec(&cipher.k, block.get_in());
        block.get_out().copy_from_slice(&o);
    }
);
