//! Splitting: EntryPart::split (library) and write_split_archive_writer (CLI, in memory).
use crate::canon;
use crate::ctx::Ctx;
use crate::gen::{self, frame};
use crate::refdec;
use crate::util::{bytes, catch, err_kind, hex, hexw, rng_for, size};
use rand::Rng;
use serde_json::json;

type CL = Vec<([u8; 4], Vec<u8>)>;

fn wire(cs: &CL) -> String {
    if cs.is_empty() { "-".into() } else { cs.iter().map(|(t, d)| format!("{}:{}", hex(t), hexw(d))).collect::<Vec<_>>().join(",") }
}
fn list_digest(cs: &CL) -> String {
    let mut all = vec![];
    for (t, d) in cs { all.extend(frame(t, d)); }
    format!("{}/{}", cs.len(), canon::digest(&all))
}
/// merge runs of consecutive stream chunks of the same type (the `≈` of the property)
fn merged(cs: &CL) -> CL {
    let mut out: CL = vec![];
    for (t, d) in cs {
        let stream = t == b"FDAT" || t == b"SDAT";
        if stream {
            if let Some((lt, ld)) = out.last_mut() { if lt == t { ld.extend_from_slice(d); continue; } }
        }
        out.push((*t, d.clone()));
    }
    out
}

pub fn split(ctx: &mut Ctx) {
    let mut rng = rng_for(ctx.seed, "split");
    ctx.rule = "library: random chunk lists (stream and non-stream chunk types, payload lengths biased to boundaries) x max_bytes_len from 0 to total+20 through both EntryPart::split variants; \
                CLI (in memory): valid archives (normal/solid, all codecs/ciphers, metadata, private chunks, long names) x every max size in 0..overhead+largest chunk+64 (quick: stride; thorough: all), \
                parts measured, re-read in sequence by the library (stream+slice) and by the independent reader, concatenated bodies compared with the original; \
                non-trivial = at least one chunk; distinct by request line".into();
    // ---------------- library level
    let n = if ctx.thorough { 4000 } else { 400 };
    for _ in 0..n {
        let k = rng.gen_range(0..6);
        let cs: CL = (0..k).map(|_| {
            let t: [u8; 4] = *[b"FDAT", b"FDAT", b"SDAT", b"FHED", b"fSIZ", b"FEND", b"myTy"][rng.gen_range(0..7)];
            let n = size(&mut rng, 40);
            (t, bytes(&mut rng, n))
        }).collect();
        let total: usize = cs.iter().map(|(_, d)| 12 + d.len()).sum();
        let max = match rng.gen_range(0..4) { 0 => rng.gen_range(0..14), 1 => total.saturating_sub(rng.gen_range(0..4)), _ => rng.gen_range(0..=total + 20) };
        let c1 = cs.clone();
        let r = catch(move || (libpna::verif::entry_part_split(&c1, max), libpna::verif::entry_part_split_ref(&c1, max)));
        ctx.oracle_eval();
        let imp = match r {
            Err(p) => { ctx.violation("C04", "EntryPart::split panicked", json!({"chunks":wire(&cs),"max":max,"panic":p})); format!("panic {p}") }
            Ok((own, bor)) => {
                if own != bor { ctx.violation("C04", "owned and borrowed EntryPart::split disagree", json!({"chunks":wire(&cs),"max":max})); }
                let ((a, al), b) = own;
                let a_real: usize = a.iter().map(|(_, d)| 12 + d.len()).sum();
                if al != a_real { ctx.violation("C18", "EntryPart::bytes_len differs from the serialised length", json!({"chunks":wire(&cs),"max":max})); }
                if a_real > max { ctx.violation("C04", "first part of EntryPart::split exceeds max_bytes_len", json!({"chunks":wire(&cs),"max":max,"first":a_real})); }
                let mut joined = a.clone();
                if let Some((b, _)) = &b { joined.extend(b.iter().cloned()); }
                if merged(&joined) != merged(&cs) { ctx.violation("C04", "EntryPart::split lost or reordered data", json!({"chunks":wire(&cs),"max":max})); ctx.violation("C13", "splitting — a copy without decoding — changed the chunk sequence beyond cutting data chunks (a chunk it does not understand was cut or dropped)", json!({"chunks":wire(&cs),"max":max})); ctx.violation("C03", "cutting a data chunk changed the chunk types or the concatenation of the data payloads (what is decoded then depends on the cut)", json!({"chunks":wire(&cs),"max":max})); }
                format!("ok {} {} {}", list_digest(&a), al, match &b { None => "none".to_string(), Some((b, bl)) => format!("{} {}", list_digest(b), bl) })
            }
        };
        ctx.case(json!({"op":"split.part","n":cs.len(),"max":max,"total":total}), format!("split.part {} {}", wire(&cs), max), imp, !cs.is_empty());
    }
    // ---------------- CLI level, in memory
    let n_arch = if ctx.thorough { 30 } else { 5 };
    for ai in 0..n_arch {
        // every second archive is encrypted (a part boundary inside an IV, a cipher block or a compressed frame must not matter)
        let (mut full, mut desc, mut cfg) = gen::gen_archive(&mut rng, 3, if ai % 2 == 0 { 90 } else { 400 });
        for _ in 0..20 {
            if ai % 2 == 0 || (cfg.enc != 0 && full.len() > 200) { break; }
            (full, desc, cfg) = gen::gen_archive(&mut rng, 3, 400);
        }
        let pw = if cfg.enc != 0 { Some(cfg.password.clone()) } else { None };
        let orig = refdec::strict_archive(&full, vec![], false).expect("generated archive is well-formed");
        let (orig_chunks, _) = refdec::chunks(&full).unwrap();
        let body: CL = orig_chunks[1..orig_chunks.len() - 1].to_vec();
        let largest_fixed = body.iter().filter(|(t, _)| t != b"FDAT" && t != b"SDAT").map(|(_, d)| 12 + d.len()).max().unwrap_or(0);
        let hi = 52 + largest_fixed.max(13) + 64;
        let step = if ctx.thorough { 1 } else { 3 };
        let mut maxes: Vec<usize> = (0..hi).step_by(step).collect();
        for m in [51usize, 52, 53, 64, 65, 52 + largest_fixed, 52 + largest_fixed + 1, 52 + largest_fixed - 1, full.len(), full.len() + 1, full.len() - 1, full.len() / 2, 200, 1000] { maxes.push(m); }
        maxes.sort(); maxes.dedup();
        for max in maxes {
            // first in a forked child under a time and memory limit: a too small maximum must be an error, never an endless loop
            let f3 = full.clone();
            let probe = crate::util::isolated(8000, 1500, move || match portable_network_archive::verif::split_in_memory(&f3, max) { Ok(p) => format!("ok {}", p.len()), Err(e) => format!("err {}", err_kind(&e)) });
            ctx.oracle_eval();
            if let Err(why) = &probe {
                // hang = wall-clock limit hit; crash = aborted (typically: memory limit hit by an endless loop that keeps allocating)
                ctx.violation("C04", "splitting does not terminate or aborts (endless loop / runaway allocation) for this maximum size", json!({"archive":desc,"max":max,"outcome":why,"archive_hex":hex(&full[..full.len().min(6000)])}));
                ctx.violation("C07", "split hangs or aborts", json!({"max":max,"outcome":why}));
                ctx.case(json!({"op":"split.archive","archive":ai,"max":max,"len":full.len()}), format!("split.archive {} {}", hexw(&full), max), why.split(':').next().unwrap_or("hang").to_string(), true);
                continue;
            }
            let f2 = full.clone();
            let r = catch(move || portable_network_archive::verif::split_in_memory(&f2, max));
            let min_ok = max >= 52 + largest_fixed.max(13);
            let imp = match r {
                Err(p) => { ctx.violation("C04", "splitting panicked", json!({"archive":desc,"max":max,"panic":p})); ctx.violation("C07", "split panicked", json!({"max":max,"panic":p})); format!("panic {p}") }
                Ok(Err(e)) => {
                    if min_ok { ctx.violation("C04", "splitting rejected a maximum that can hold every indivisible chunk", json!({"archive":desc,"max":max,"error":e.to_string(),"largest_indivisible":largest_fixed})); }
                    format!("err {}", err_kind(&e))
                }
                Ok(Ok(parts)) => {
                    let n = parts.len();
                    let mut carry: refdec::Chunks = vec![];
                    let mut items = vec![];
                    let mut bodies: CL = vec![];
                    let mut bad: Option<String> = None;
                    for (i, p) in parts.iter().enumerate() {
                        if p.len() > max { ctx.violation("C04", "part file larger than the maximum size", json!({"archive":desc,"max":max,"part":i,"len":p.len()})); }
                        match refdec::strict_archive(p, std::mem::take(&mut carry), true) {
                            Err(why) => { bad = Some(format!("part {i}: {why}")); break; }
                            Ok(ra) => {
                                if ra.number as usize != i { bad = Some(format!("part {i} carries number {}", ra.number)); break; }
                                if ra.has_next != (i + 1 < n) { bad = Some(format!("part {i}: continuation marker {} but {} parts", ra.has_next, n)); break; }
                                items.extend(ra.items);
                                carry = ra.open;
                                let (cs, _) = refdec::chunks(p).unwrap();
                                bodies.extend(cs[1..].iter().filter(|(t, _)| t != b"ANXT" && t != b"AEND").cloned());
                            }
                        }
                    }
                    if let Some(why) = bad {
                        ctx.violation("C04", "split produced a part set that is not well-formed", json!({"archive":desc,"max":max,"why":why}));
                        ctx.violation("C14", "split produced a part set that is not well-formed", json!({"archive":desc,"max":max,"why":why}));
                    } else {
                        if !carry.is_empty() { ctx.violation("C04", "last part ends inside an entry", json!({"archive":desc,"max":max})); }
                        if merged(&bodies) != merged(&body) { ctx.violation("C04", "parts do not concatenate to the original chunk sequence", json!({"archive":desc,"max":max})); }
                        // entries with identical contents through the independent reader
                        let mut same = items.len() == orig.items.len();
                        if same { for (a, b) in items.iter().zip(orig.items.iter()) { if a.data != b.data || a.name != b.name || a.extras != b.extras || a.phsf != b.phsf { same = false; } } }
                        if !same { ctx.violation("C04", "entries read from the parts differ from the original entries", json!({"archive":desc,"max":max})); }
                        // the library reads the sequence (stream and slice) to the same entries as the original
                        let ms = canon::read_multipart_stream(&parts);
                        let msl = canon::read_multipart_slice(&parts);
                        let one = canon::read_multipart_stream(&[full.clone()]);
                        let norm = |s: &str| -> Vec<String> { s.split(' ').map(|t| meaning(t)).collect() };
                        if norm(&ms) != norm(&one) || norm(&msl) != norm(&one) {
                            ctx.violation("C04", "library reads different entries from the parts than from the original archive", json!({"archive":desc,"max":max,"parts":ms[..ms.len().min(300)].to_string(),"original":one[..one.len().min(300)].to_string()}));
                        }
                        // decoded contents survive (cuts inside IV / cipher block / compressed frame)
                        if pw.is_some() || max % 7 == 0 || n <= 3 {
                            let refs: Vec<&[u8]> = parts.iter().map(|p| &p[..]).collect();
                            if let Err(e) = decode_all_multipart(&refs, pw.as_deref(), &full) {
                                ctx.violation("C04", "contents decoded from the parts differ from the original", json!({"archive":desc,"max":max,"why":e}));
                                ctx.violation("C03", "decoded contents depend on where data chunks are cut", json!({"archive":desc,"max":max,"why":e}));
                            }
                        }
                        if max <= 400 {
                            let wire_parts = parts.iter().map(|p| hexw(p)).collect::<Vec<_>>().join(" ");
                            ctx.case(json!({"op":"multipart.read","parts":n,"max":max}), format!("multipart.read stream {wire_parts}"), ms, true);
                        }
                    }
                    format!("ok {}", parts.iter().map(|p| canon::digest(p)).collect::<Vec<_>>().join(" "))
                }
            };
            if full.len() < 3000 {
                ctx.case(json!({"op":"split.archive","archive":ai,"max":max,"len":full.len()}), format!("split.archive {} {}", hexw(&full), max), imp, true);
            }
        }
    }
}

fn meaning(tok: &str) -> String {
    tok.split(':').map(|f| if let Some(r) = f.strip_prefix("d=") { let mut it = r.splitn(2, '/'); let _ = it.next(); format!("d={}", it.next().unwrap_or("")) } else { f.to_string() }).collect::<Vec<_>>().join(":")
}

/// read all entries (expanding solid blocks) from a multipart sequence with the library and
/// compare decoded contents with those of the unsplit archive
fn decode_all_multipart(parts: &[&[u8]], pw: Option<&str>, full: &[u8]) -> Result<(), String> {
    use libpna::*;
    use std::io::Read;
    fn contents<'a>(mut a: Archive<&'a [u8]>, rest: &[&'a [u8]], pw: Option<&str>) -> std::io::Result<Vec<(String, Vec<u8>)>> {
        let mut out = vec![];
        let mut i = 0;
        loop {
            let es: Vec<NormalEntry> = a.entries_with_password(pw).collect::<std::io::Result<_>>()?;
            for e in es {
                let mut v = vec![];
                e.reader(ReadOptions::with_password(pw.map(|s| s.to_string())))?.read_to_end(&mut v)?;
                out.push((e.header().path().as_str().to_string(), v));
            }
            if i >= rest.len() { return Ok(out); }
            a = a.read_next_archive(rest[i])?;
            i += 1;
        }
    }
    let a = Archive::read_header(parts[0]).map_err(|e| e.to_string())?;
    let got = contents(a, &parts[1..], pw).map_err(|e| format!("reading parts: {e}"))?;
    let b = Archive::read_header(full).map_err(|e| e.to_string())?;
    let want = contents(b, &[], pw).map_err(|e| format!("reading original: {e}"))?;
    if got != want { return Err(format!("{} entries vs {}", got.len(), want.len())); }
    Ok(())
}
