//! C11: histories of create / append / update / delete on an evolving tree, real `pna` against
//! the ordered-map model, after every step.
use crate::cli::{flat, read_logical, run_pna, LEntry, Sbx};
use crate::ctx::Ctx;
use crate::util::{bytes, hexw, rng_for};
use rand::Rng;
use serde_json::json;
use std::path::Path;

const POOL: [&str; 16] = ["t/old/a.pna", "t/old/a.part1.pna", "t/a.txt", "t/b.txt", "t/c.bin", "t/d/e.txt", "t/d/f.bin", "t/d/g/h.txt", "t/x y.txt", "t/ü.dat", "t/d.txt", "t/d-old/z.txt", "t/d/g.txt", "t/lib/a", "t/lib-old/b", "u/n1.txt"];

fn body(content: &[u8]) -> String {
    hexw(crate::canon::digest(content).as_bytes())
}
fn uwire(l: &[(String, String)]) -> String {
    if l.is_empty() { ".".into() } else { l.iter().map(|(n, b)| format!("{}:{}", hexw(n.as_bytes()), b)).collect::<Vec<_>>().join(",") }
}
fn nwire(l: &[String]) -> String {
    if l.is_empty() { ".".into() } else { l.iter().map(|n| hexw(n.as_bytes())).collect::<Vec<_>>().join(",") }
}

fn read_state(sbx: &Sbx, base: &str) -> Result<Vec<LEntry>, String> {
    // single file, or part set base.part1.pna …
    let p = sbx.path(base);
    let mut parts = vec![];
    if p.exists() {
        parts.push(std::fs::read(&p).map_err(|e| e.to_string())?);
    } else {
        let stem = base.trim_end_matches(".pna");
        let mut i = 1;
        loop {
            let pp = sbx.path(&format!("{stem}.part{i}.pna"));
            if !pp.exists() { break; }
            parts.push(std::fs::read(&pp).map_err(|e| e.to_string())?);
            i += 1;
        }
        if parts.is_empty() { return Err("archive missing".into()); }
    }
    read_logical(&parts, None).map(|v| flat(&v)).map_err(|e| format!("unreadable: {e}"))
}

/// C14 on whatever is on disk now: the single file, or the part chain starting at part 1
fn strict_state(sbx: &Sbx) -> Result<(), String> {
    if let Ok(b) = std::fs::read(sbx.path("a.pna")) {
        return crate::refdec::strict_archive(&b, vec![], false).map(|_| ());
    }
    let mut parts = vec![];
    for i in 1.. {
        match std::fs::read(sbx.path(&format!("a.part{i}.pna"))) { Ok(b) => parts.push(b), Err(_) => break }
    }
    crate::refdec::strict_parts(&parts).map(|_| ())
}

fn state_pairs(es: &[LEntry]) -> Vec<(String, String)> {
    es.iter().map(|e| (e.name.clone(), body(e.content.as_deref().unwrap_or(&[])))).collect()
}

fn set_mtime(p: &Path, secs: i64) {
    let c = std::ffi::CString::new(p.to_string_lossy().as_bytes()).unwrap();
    let ts = [libc::timespec { tv_sec: secs, tv_nsec: 0 }, libc::timespec { tv_sec: secs, tv_nsec: 0 }];
    unsafe { libc::utimensat(libc::AT_FDCWD, c.as_ptr(), ts.as_ptr(), 0) };
}

pub fn history(ctx: &mut Ctx) {
    let mut rng = rng_for(ctx.seed, "history");
    ctx.rule = "operation sequences (3-8 steps) over an evolving tree (files added, modified, removed between steps): create (optionally --split, --solid, --keep-timestamp), append (explicit files or -r dir), \
                update (-r dir or explicit files; optional --exclude, --newer-mtime with controlled whole-second mtimes), delete (one name, --unsolid or --keep-solid; specification oracle: the previous entries without it, in order); every fifth history starts from a solid archive and a partial update of the block's first entry, then deletes the first entry; after EVERY step the archive (single file or part set) is read with the library \
                and compared — ordered (name, content) list — with the model's prediction and with the append/update specification oracle; non-trivial = every step; distinct by request line".into();
    let n = if ctx.thorough { 400 } else { 30 };
    for case in 0..n {
        let sbx = Sbx::new("hist", case);
        let root = sbx.root.clone();
        let mut clock: i64 = 1_600_000_000;
        let mut write = |rel: &str, rng: &mut rand_chacha::ChaCha8Rng, clock: &mut i64| {
            let p = root.join(rel);
            std::fs::create_dir_all(p.parent().unwrap()).unwrap();
            let n = rng.gen_range(0..40);
            std::fs::write(&p, bytes(rng, n)).unwrap();
            *clock += 10;
            set_mtime(&p, *clock);
        };
        // initial tree
        // every fifth history starts from a solid archive with several entries and a partial update of the block's first entry
        let forced_solid = case % 5 == 1;
        let k = if forced_solid { rng.gen_range(3..5) } else { rng.gen_range(1..5) };
        let mut pool: Vec<&str> = POOL.to_vec();
        for _ in 0..k { let i = rng.gen_range(0..pool.len() - 1); let f = pool.remove(i); write(f, &mut rng, &mut clock); }
        std::fs::create_dir_all(root.join("t")).unwrap();
        let keep_ts = rng.gen_bool(0.5);
        let split = !forced_solid && (case % 4 == 0 || rng.gen_bool(0.15));
        let solid = forced_solid || (!split && rng.gen_bool(0.2));
        let mut args: Vec<String> = vec!["--quiet".into(), "create".into(), "a.pna".into(), "-r".into(), "t".into(), "--overwrite".into()];
        if keep_ts { args.push("--keep-timestamp".into()); }
        if split { args.push("--split".into()); args.push("150".into()); }
        if solid { args.push("--solid".into()); }
        let argv: Vec<&str> = args.iter().map(|s| s.as_str()).collect();
        let r = run_pna(&sbx, &sbx.root, &argv, None, 60, &[]);
        let desc0 = json!({"create": args});
        if !r.ok() { ctx.violation("C11", "create failed", json!({"case":desc0,"run":r.brief()})); continue; }
        if let Err(why) = strict_state(&sbx) { ctx.violation("C14", "`pna create` wrote an archive that is not well-formed", json!({"case":desc0,"why":why})); }
        let mut state = match read_state(&sbx, "a.pna") { Ok(s) => s, Err(e) => { ctx.violation("C11", "archive unreadable after create", json!({"case":desc0,"why":e})); continue; } };
        let mut steps: Vec<serde_json::Value> = vec![desc0];
        let mut archive_arg = if sbx.path("a.pna").exists() { "a.pna" } else { "a.part1.pna" };
        let nsteps = rng.gen_range(2..7);
        for _ in 0..nsteps {
            let before = state_pairs(&state);
            let forced_partial = forced_solid && steps.len() == 1;
            let op = if split && steps.len() == 1 { 0 } else if forced_partial { 5 } else if forced_solid && steps.len() == 2 { 9 } else { rng.gen_range(0..11) };
            if op == 10 {
                // ---- re-create over the existing output with --overwrite, from a (usually smaller) tree
                for f in before.iter().map(|(n, _)| n.clone()).collect::<Vec<_>>() { if rng.gen_bool(0.5) { let _ = std::fs::remove_file(root.join(&f)); } }
                let mut a: Vec<String> = vec!["--quiet".into(), "create".into(), "a.pna".into(), "-r".into(), "t".into(), "--overwrite".into()];
                if keep_ts { a.push("--keep-timestamp".into()); }
                let resplit = archive_arg != "a.pna";
                if resplit { a.push("--split".into()); a.push("150".into()); }
                let argv: Vec<&str> = a.iter().map(|s| s.as_str()).collect();
                let r = run_pna(&sbx, &sbx.root, &argv, None, 60, &[]);
                steps.push(json!({"argv": a}));
                ctx.count("op:recreate");
                ctx.oracle_eval();
                if r.crashed() || r.hung() { ctx.violation("C07", "command crashed or hung", json!({"history":steps,"run":r.brief()})); break; }
                if !r.ok() { ctx.violation("C11", "re-creating over an existing archive with --overwrite failed", json!({"history":steps,"run":r.brief()})); break; }
                if let Err(why) = strict_state(&sbx) { ctx.violation("C14", "a command wrote an archive that is not well-formed", json!({"history":steps,"why":why})); }
                state = match read_state(&sbx, "a.pna") { Ok(s) => s, Err(e) => { ctx.violation("C11", "archive unreadable after re-creating it", json!({"history":steps,"why":e})); break; } };
                let expect = portable_network_archive::verif::collect_items(&[root.join("t").to_string_lossy().to_string()], true, false).unwrap();
                let want: Vec<(String, String)> = expect.iter().map(|p| (Path::new(p).strip_prefix(&root).unwrap().to_string_lossy().to_string(), body(&std::fs::read(p).unwrap()))).collect();
                if state_pairs(&state) != want { ctx.violation("C11", "a re-created archive does not hold exactly the current tree", json!({"history":steps,"after":state_pairs(&state),"tree":want})); }
                // a re-created split archive that now fits one part is a single file again
                archive_arg = if sbx.path("a.part1.pna").exists() && !sbx.path("a.pna").exists() { "a.part1.pna" } else { "a.pna" };
                continue;
            }
            let (model_req, argv_s): (String, Vec<String>);
            let mut oracle: Option<Box<dyn Fn(&[(String, String)], &[(String, String)]) -> Option<String>>> = None;
            if op < 3 {
                // ---- append new files (given explicitly, or a fresh directory with -r)
                let mut newf = vec![];
                // every third history appends a file whose NAME is that of the archive (or of its first part) in another directory
                if case % 3 == 2 { for special in ["t/old/a.pna", "t/old/a.part1.pna"] { if let Some(i) = pool.iter().position(|f| *f == special) { let f = pool.remove(i); write(f, &mut rng, &mut clock); newf.push(f.to_string()); ctx.count("append:input-named-like-the-archive"); break; } } }
                for _ in 0..rng.gen_range(1..3) { if pool.is_empty() { break; } let i = rng.gen_range(0..pool.len()); let f = pool.remove(i); write(f, &mut rng, &mut clock); newf.push(f.to_string()); }
                // every fourth append also adds a path that is archived already (changed on disk): the archive then holds it twice
                if case % 4 == 1 { if let Some((n, _)) = before.iter().find(|(n, _)| root.join(n).is_file()) { write(n, &mut rng, &mut clock); newf.push(n.clone()); ctx.count("append:path-already-archived"); } }
                if newf.is_empty() { continue; }
                let targets_paths = portable_network_archive::verif::collect_items(&newf.iter().map(|f| root.join(f).to_string_lossy().to_string()).collect::<Vec<_>>(), false, false).unwrap();
                let targets: Vec<(String, String)> = targets_paths.iter().map(|p| { let rel = Path::new(p).strip_prefix(&root).unwrap().to_string_lossy().to_string(); (rel, body(&std::fs::read(p).unwrap())) }).collect();
                let mut a = vec!["--quiet".to_string(), "append".into(), archive_arg.into()];
                a.extend(newf.iter().cloned());
                model_req = format!("history append {} {}", uwire(&before), uwire(&targets));
                argv_s = a;
                let t2 = targets.clone();
                oracle = Some(Box::new(move |b, a| { if a.len() == b.len() + t2.len() && a[..b.len()] == *b && a[b.len()..] == t2[..] { None } else { Some("after append the archive is not the previous entries followed by the new ones".into()) } }));
            } else if op < 8 {
                // ---- evolve the tree, then update
                let existing: Vec<String> = before.iter().map(|(n, _)| n.clone()).collect();
                for (i, f) in existing.iter().enumerate() { if (if forced_partial { i == 0 } else { rng.gen_bool(0.35) }) && root.join(f).exists() { write(f, &mut rng, &mut clock); } }
                if !forced_partial && rng.gen_bool(0.4) && !pool.is_empty() { let i = rng.gen_range(0..pool.len()); let f = pool.remove(i); if f.starts_with("t/") { write(f, &mut rng, &mut clock); } }
                if !forced_partial && rng.gen_bool(0.3) { if let Some(f) = existing.iter().find(|f| root.join(f).exists()) { let _ = std::fs::remove_file(root.join(f)); } }
                // a rewrite that keeps the length and the modification time (an edit within the same second, `cp -p`, `touch -r`):
                // without a time filter the path still has to end up with its CURRENT contents
                if !forced_partial && rng.gen_bool(0.35) {
                    if let Some(f) = existing.iter().find(|f| std::fs::metadata(root.join(f)).map(|m| m.len() > 0).unwrap_or(false)) {
                        use std::os::unix::fs::MetadataExt;
                        let p = root.join(f);
                        let mt = std::fs::metadata(&p).unwrap().mtime();
                        let mut c = std::fs::read(&p).unwrap();
                        for b in c.iter_mut() { *b ^= 0x5a; }
                        std::fs::write(&p, &c).unwrap();
                        set_mtime(&p, mt);
                        ctx.count("update:same-size-same-mtime-rewrite");
                    }
                }
                let whole = !forced_partial && rng.gen_bool(0.6);
                let given: Vec<String> = if whole { vec!["t".into()] } else { existing.iter().filter(|f| root.join(f).exists()).take(if forced_partial { 1 } else { 2 }).cloned().collect() };
                if given.is_empty() { continue; }
                let targets_paths = portable_network_archive::verif::collect_items(&given.iter().map(|f| root.join(f).to_string_lossy().to_string()).collect::<Vec<_>>(), whole, false).unwrap();
                let targets: Vec<(String, String)> = targets_paths.iter().map(|p| { let rel = Path::new(p).strip_prefix(&root).unwrap().to_string_lossy().to_string(); (rel, body(&std::fs::read(p).unwrap())) }).collect();
                let newer = keep_ts && rng.gen_bool(0.4);
                let need: Vec<String> = state.iter().filter(|e| {
                    if !newer { return true; }
                    let p = root.join(&e.name);
                    match (std::fs::metadata(&p), e.m) { (Ok(md), Some(m)) => { use std::os::unix::fs::MetadataExt; (m as i64) < md.mtime() } _ => true }
                }).map(|e| e.name.clone()).collect();
                let excl: Vec<String> = if rng.gen_bool(0.25) { targets.iter().take(1).map(|(n, _)| n.clone()).collect() } else { vec![] };
                let mut a = vec!["--quiet".to_string(), "experimental".into(), "update".into(), "--unstable".into(), archive_arg.into()];
                if whole { a.push("-r".into()); }
                if keep_ts { a.push("--keep-timestamp".into()); }
                if newer { a.push("--newer-mtime".into()); }
                for e in &excl { a.push("--exclude".into()); a.push(e.clone()); }
                a.extend(given.iter().cloned());
                // overlapping arguments: the tree and one file inside it (new or archived) named again
                let mut walked = targets.clone();
                if whole && case % 3 == 0 { if let Some(t) = targets.iter().find(|(n, _)| root.join(n).is_file()).cloned() { a.push(t.0.clone()); walked.push(t); ctx.count("update:overlapping-arguments"); } }
                model_req = format!("history update {} {} {} {}", nwire(&excl), nwire(&need), uwire(&before), uwire(&walked));
                argv_s = a;
                let (t2, ex2, need2) = (targets.clone(), excl.clone(), need.clone());
                oracle = Some(Box::new(move |b, a| {
                    let tnames: Vec<&String> = t2.iter().map(|(n, _)| n).collect();
                    // every entry not named for update is still present and unchanged, in order
                    let untouched_b: Vec<&(String, String)> = b.iter().filter(|(n, _)| !tnames.contains(&n)).collect();
                    let untouched_a: Vec<&(String, String)> = a.iter().filter(|(n, _)| !tnames.contains(&n)).collect();
                    if untouched_b != untouched_a { return Some("an entry not named for update was lost, changed, duplicated or reordered".into()); }
                    for (n, bd) in &t2 {
                        let cnt = a.iter().filter(|(x, _)| x == n).count();
                        let filtered = ex2.contains(n) || (b.iter().any(|(x, _)| x == n) && !need2.contains(n));
                        // (an excluded or time-filtered path keeps whatever the archive held under that name, duplicates included)
                        if cnt != 1 && !filtered { return Some(format!("path {n} named for update is present {cnt} times")); }
                        if !filtered && !a.iter().any(|(x, y)| x == n && y == bd) { return Some(format!("path {n} does not have its current contents after update")); }
                    }
                    None
                }));
            } else {
                // ---- delete
                let names: Vec<String> = before.iter().map(|(n, _)| n.clone()).collect();
                if names.is_empty() { continue; }
                // (in the forced solid histories: an entry that is not the last of its block)
                let victim = if forced_solid && steps.len() == 2 { names[0].clone() } else { names[rng.gen_range(0..names.len())].clone() };
                let strategy = if rng.gen_bool(0.5) { "--unsolid" } else { "--keep-solid" };
                let a = vec!["--quiet".to_string(), "experimental".into(), "delete".into(), strategy.into(), archive_arg.into(), victim.clone()];
                let sel: Vec<String> = names.iter().filter(|n| **n == victim).cloned().collect();
                model_req = format!("history delete {} {}", nwire(&sel), uwire(&before));
                argv_s = a;
                let v2 = victim.clone();
                oracle = Some(Box::new(move |b, a| {
                    let want: Vec<&(String, String)> = b.iter().filter(|(n, _)| *n != v2).collect();
                    if want == a.iter().collect::<Vec<_>>() { None } else { Some("after delete the archive is not the previous entries without the named one, in order".into()) }
                }));
            }
            let argv: Vec<&str> = argv_s.iter().map(|s| s.as_str()).collect();
            // byte-level: the files of the archive as they are before the step (the part chain, or the single file)
            let files_before: Vec<(String, Vec<u8>)> = {
                let mut v = vec![];
                if archive_arg == "a.pna" { if let Ok(b) = std::fs::read(sbx.path("a.pna")) { v.push(("a.pna".to_string(), b)); } }
                else { for i in 1.. { let n = format!("a.part{i}.pna"); match std::fs::read(sbx.path(&n)) { Ok(b) => { let next = crate::refdec::strict_archive(&b, vec![], true).map(|ra| ra.has_next).unwrap_or(false); v.push((n, b)); if !next { break; } } Err(_) => break } } }
                v
            };
            let is_append = argv_s.iter().any(|a| a == "append");
            let r = run_pna(&sbx, &sbx.root, &argv, None, 60, &[]);
            if is_append && r.ok() && !files_before.is_empty() {
                // `append` adds to the end: every byte that was there stays where it was — all parts but the last are untouched, the
                // last keeps everything up to its end marker (the 12 bytes of AEND are what the new entries overwrite)
                ctx.oracle_eval();
                let last = files_before.len() - 1;
                for (i, (n, old)) in files_before.iter().enumerate() {
                    let now = std::fs::read(sbx.path(n)).unwrap_or_default();
                    let keep = if i == last { old.len().saturating_sub(12) } else { old.len() };
                    if now.len() < keep || now[..keep] != old[..keep] || (i != last && now.len() != old.len()) {
                        ctx.violation("C11", "append changed bytes of the archive that were already there (the previous entries are not 'unchanged')", json!({"history":steps,"file":n,"old_len":old.len(),"new_len":now.len(),"first_difference":now.iter().zip(old.iter()).position(|(a, b)| a != b)}));
                        break;
                    }
                }
                ctx.count("append:byte-prefix-checked");
            }
            steps.push(json!({"argv": argv_s}));
            ctx.count(&format!("op:{}", argv_s.iter().find(|a| ["append", "update", "delete"].contains(&a.as_str())).cloned().unwrap_or_default()));
            ctx.oracle_eval();
            if r.crashed() || r.hung() { ctx.violation("C07", "command crashed or hung", json!({"history":steps,"run":r.brief()})); break; }
            if !r.ok() { ctx.violation("C11", "command failed on a valid archive", json!({"history":steps,"run":r.brief()})); break; }
            // after update/delete the result is a single archive at the part-less path
            state = match read_state(&sbx, "a.pna") { Ok(s) => s, Err(e) => { ctx.violation("C11", "archive unreadable after a step", json!({"history":steps,"why":e})); break; } };
            let after = state_pairs(&state);
            // C14: what the command wrote (single file or part chain) is well-formed for the independent reader
            if let Err(why) = strict_state(&sbx) { ctx.violation("C14", "a command wrote an archive that is not well-formed", json!({"history":steps,"why":why})); }
            if let Some(o) = &oracle { if let Some(why) = o(&before, &after) { ctx.violation("C11", &why, json!({"history":steps,"before":before,"after":after})); } }
            ctx.case(json!({"step":steps.len(),"split":split,"solid":solid}), model_req, format!("ok {}", uwire(&after)), true);
            // a part set replaced by a single file: the history goes on with that file; the old part files stay
            // beside it (stale), as they do for a user
            if sbx.path("a.pna").exists() && archive_arg != "a.pna" { archive_arg = "a.pna"; ctx.count("stale-parts-beside-archive"); }
        }
    }
}
