//! C02: `pna create` then `pna extract` reproduces the directory tree.
use crate::cli::{run_pna, snapshot, Node, Sbx};
use crate::ctx::Ctx;
use crate::util::{bytes, hexw, rng_for};
use rand::Rng;
use serde_json::json;
use std::os::unix::fs::PermissionsExt;

fn set_mtime(p: &std::path::Path, secs: i64) {
    let c = std::ffi::CString::new(p.to_string_lossy().as_bytes()).unwrap();
    let ts = [libc::timespec { tv_sec: secs, tv_nsec: 0 }, libc::timespec { tv_sec: secs, tv_nsec: 0 }];
    unsafe { libc::utimensat(libc::AT_FDCWD, c.as_ptr(), ts.as_ptr(), libc::AT_SYMLINK_NOFOLLOW) };
}

struct TNode { path: String, kind: u8, content: Vec<u8>, mode: u32, mtime: i64, xattrs: Vec<(String, Vec<u8>)> }

fn xattr_map(p: &std::path::Path) -> Vec<(String, Vec<u8>)> {
    let mut v: Vec<(String, Vec<u8>)> = xattr::list(p).map(|l| l.filter_map(|n| { let name = n.to_string_lossy().to_string(); if !name.starts_with("user.") { return None; } Some((name, xattr::get(p, &n).ok().flatten().unwrap_or_default())) }).collect()).unwrap_or_default();
    v.sort();
    v
}

fn gen_tree(rng: &mut rand_chacha::ChaCha8Rng, root: &std::path::Path, thorough: bool, big: bool) -> Vec<TNode> {
    let dirs_pool = ["t", "t/d", "t/d/e", "t/sp ace", "t/ünï", "t/-dash", "t/empty1", "t/d/empty2", "t/deep/er/still"];
    let long = "L".repeat(200);
    let file_names = ["a.txt", "b b.bin", "ünï.dat", "-leading", ".hidden", &long[..], "z", "日本.txt"];
    let mut nodes: Vec<TNode> = vec![];
    let nd = rng.gen_range(1..dirs_pool.len());
    let mut dirs: Vec<&str> = vec!["t"];
    for d in dirs_pool.iter().skip(1) { if rng.gen_bool(nd as f64 / dirs_pool.len() as f64) { dirs.push(d); } }
    for d in &dirs { std::fs::create_dir_all(root.join(d)).unwrap(); }
    // every created ancestor is a directory node
    let mut all_dirs: std::collections::BTreeSet<String> = Default::default();
    for d in &dirs { let mut acc = String::new(); for c in d.split('/') { if !acc.is_empty() { acc.push('/'); } acc.push_str(c); all_dirs.insert(acc.clone()); } }
    let mut files: Vec<String> = vec![];
    for d in all_dirs.iter().filter(|d| !d.contains("empty")) {
        for _ in 0..rng.gen_range(0..3) {
            let f = format!("{d}/{}", file_names[rng.gen_range(0..file_names.len())]);
            if files.contains(&f) { continue; }
            // `big`: one file beyond 1 MiB and one of exactly 1 MiB (buffer- and chunk-size boundaries of the writers)
            let n = if big && files.is_empty() { 2_600_000 } else if big && files.len() == 1 { 1 << 20 } else { match rng.gen_range(0..10) { 0 => 0, 1 if thorough => 300_000, 1 => 70_000, _ => rng.gen_range(1..200) } };
            let content = bytes(rng, n);
            std::fs::write(root.join(&f), &content).unwrap();
            let mode = [0o644u32, 0o600, 0o755, 0o444, 0o640, 0o4755, 0o2755, 0o6711, 0o1644, 0o7777, 0o000][rng.gen_range(0..11)];
            std::fs::set_permissions(root.join(&f), std::fs::Permissions::from_mode(mode)).unwrap();
            let mtime = 1_000_000_000 + rng.gen_range(0..700_000_000);
            // extended attributes (restored with --keep-xattr on both sides): text, empty and binary values; set before the
            // mode (a read-only file takes no attributes) and before the mtime
            let mut xattrs: Vec<(String, Vec<u8>)> = vec![];
            if rng.gen_bool(0.4) {
                std::fs::set_permissions(root.join(&f), std::fs::Permissions::from_mode(0o644)).unwrap();
                for (k, v) in [("user.comment", &b"hello"[..]), ("user.empty", &b""[..]), ("user.bin", &[0u8, 1, 255, 0, 10][..]), ("user.flag", &b""[..])] {
                    if rng.gen_bool(0.5) && xattr::set(root.join(&f), k, v).is_ok() { xattrs.push((k.to_string(), v.to_vec())); }
                }
                xattrs.sort();
                std::fs::set_permissions(root.join(&f), std::fs::Permissions::from_mode(mode)).unwrap();
            }
            set_mtime(&root.join(&f), mtime);
            nodes.push(TNode { path: f.clone(), kind: 0, content, mode, mtime, xattrs });
            files.push(f);
        }
    }
    // symlinks: to a file, to a directory, dangling
    for _ in 0..rng.gen_range(0..3) {
        let d = all_dirs.iter().filter(|d| !d.contains("empty")).nth(rng.gen_range(0..all_dirs.iter().filter(|d| !d.contains("empty")).count())).unwrap().clone();
        let name = format!("{d}/link{}", rng.gen_range(0..1000));
        let target: String = match rng.gen_range(0..8) {
            0 | 1 if !files.is_empty() => { let f = &files[rng.gen_range(0..files.len())]; f.rsplit('/').next().unwrap().to_string() }
            2 => "d".to_string(),
            // targets that leave the link's directory and come back, leave the tree, or are absolute: the link is data,
            // and is reproduced as it is
            3 if !files.is_empty() => { let f = &files[rng.gen_range(0..files.len())]; format!("../{}", f.rsplit('/').next().unwrap()) }
            4 => "../../outside/of/the/tree".to_string(),
            5 => "/nonexistent/absolute/target".to_string(),
            6 => "./x/../y".to_string(),
            _ => "no/such/target".to_string(),
        };
        if std::os::unix::fs::symlink(&target, root.join(&name)).is_ok() {
            nodes.push(TNode { path: name, kind: 2, content: target.into_bytes(), mode: 0o777, mtime: 0, xattrs: vec![] });
        }
    }
    for d in &all_dirs {
        let mode = [0o755u32, 0o700, 0o775, 0o2775, 0o1777, 0o3770][rng.gen_range(0..6)];
        std::fs::set_permissions(root.join(d), std::fs::Permissions::from_mode(mode)).unwrap();
        nodes.push(TNode { path: d.clone(), kind: 1, content: vec![], mode, mtime: 0, xattrs: vec![] });
    }
    nodes
}

/// Deterministic witnesses of the recorded (known) findings for C02: each is one small tree on which create + extract does not
/// reproduce the tree, for a reason that lies in the format or in a design decision (see known_findings.jsonl).
fn known_witnesses(ctx: &mut Ctx) {
    use std::os::unix::ffi::OsStrExt;
    let run = |sbx: &Sbx, a: &[&str]| run_pna(sbx, &sbx.root, a, None, 60, &[]);
    // 1. a modification time before 1970: times are stored as unsigned seconds since the epoch
    {
        let sbx = Sbx::new("tree-w", 1);
        std::fs::create_dir_all(sbx.path("t")).unwrap();
        std::fs::write(sbx.path("t/old.txt"), b"from the sixties").unwrap();
        set_mtime(&sbx.path("t/old.txt"), -315_619_200); // 1960-01-01
        let c = run(&sbx, &["--quiet", "create", "a.pna", "-r", "t", "--keep-timestamp"]);
        let x = run(&sbx, &["--quiet", "extract", "a.pna", "--out-dir", "out", "--keep-timestamp"]);
        ctx.oracle_eval();
        use std::os::unix::fs::MetadataExt;
        let got = std::fs::metadata(sbx.path("out/t/old.txt")).map(|m| m.mtime()).unwrap_or(0);
        if !(c.ok() && x.ok() && got == -315_619_200) {
            ctx.violation("C02", "the extracted tree differs from the source tree", json!({"witness":"pre-epoch-mtime","mtime_source":-315_619_200i64,"mtime_extracted":got,"create":c.brief(),"extract":x.brief()}));
        }
    }
    // 2. a symbolic link whose target is not in normal form (`sub/`, `./sub/./deep`): the stored reference is normalised
    {
        let sbx = Sbx::new("tree-w", 2);
        std::fs::create_dir_all(sbx.path("t/sub/deep")).unwrap();
        std::os::unix::fs::symlink("sub/", sbx.path("t/l1")).unwrap();
        std::os::unix::fs::symlink("./sub/./deep", sbx.path("t/l2")).unwrap();
        let c = run(&sbx, &["--quiet", "create", "a.pna", "-r", "t"]);
        let x = run(&sbx, &["--quiet", "extract", "a.pna", "--out-dir", "out"]);
        ctx.oracle_eval();
        let t1 = std::fs::read_link(sbx.path("out/t/l1")).map(|p| p.to_string_lossy().to_string()).unwrap_or_default();
        let t2 = std::fs::read_link(sbx.path("out/t/l2")).map(|p| p.to_string_lossy().to_string()).unwrap_or_default();
        if !(c.ok() && x.ok() && t1 == "sub/" && t2 == "./sub/./deep") {
            ctx.violation("C02", "the extracted tree differs from the source tree", json!({"witness":"link-target-not-in-normal-form","targets_source":["sub/","./sub/./deep"],"targets_extracted":[t1,t2]}));
        }
    }
    // 3. a file name that is not UTF-8: entry names are UTF-8 strings
    {
        let sbx = Sbx::new("tree-w", 3);
        std::fs::create_dir_all(sbx.path("t")).unwrap();
        let name = std::ffi::OsStr::from_bytes(b"bad\xffname");
        std::fs::write(sbx.path("t").join(name), b"x").unwrap();
        let c = run(&sbx, &["--quiet", "create", "a.pna", "-r", "t"]);
        let x = run(&sbx, &["--quiet", "extract", "a.pna", "--out-dir", "out"]);
        ctx.oracle_eval();
        if !(c.ok() && x.ok() && sbx.path("out/t").join(name).exists()) {
            let got: Vec<String> = std::fs::read_dir(sbx.path("out/t")).map(|d| d.filter_map(|e| e.ok()).map(|e| hexw(e.file_name().as_bytes())).collect()).unwrap_or_default();
            ctx.violation("C02", "the extracted tree differs from the source tree", json!({"witness":"file-name-not-utf8","name_source":hexw(name.as_bytes()),"names_extracted":got}));
        }
    }
    // 4. a directory given AFTER something inside it (`--keep-dir t/sub/f t/sub`): the directory entry follows its child, the child's
    //    extraction creates the directory, and the directory entry then meets "already exists"
    {
        let sbx = Sbx::new("tree-w", 4);
        std::fs::create_dir_all(sbx.path("t/sub")).unwrap();
        std::fs::write(sbx.path("t/sub/f"), b"x").unwrap();
        let c = run(&sbx, &["--quiet", "create", "a.pna", "--keep-dir", "t/sub/f", "t/sub"]);
        let x = run(&sbx, &["--quiet", "extract", "a.pna", "--out-dir", "out"]);
        ctx.oracle_eval();
        if !(c.ok() && x.ok() && sbx.path("out/t/sub/f").exists()) {
            ctx.violation("C02", "`pna extract` failed on an archive `pna create` just wrote", json!({"witness":"directory-entry-after-its-child","create":c.brief(),"extract":x.brief()}));
        }
    }
}

pub fn cli_tree(ctx: &mut Ctx) {
    known_witnesses(ctx);
    let mut rng = rng_for(ctx.seed, "cli-tree");
    ctx.rule = "generated trees (nested and empty directories, empty/small/70-300 KB files, names with unicode, spaces, a leading dash, a leading dot and 200 bytes, symlinks to files, to directories, dangling, with `..` components and absolute; file and directory modes including set-user-ID, set-group-ID and sticky bits) \
                x {--store,--deflate n,--zstd n,--xz n} x {no password, --aes/--camellia x cbc/ctr x --pbkdf2/--argon2 params} x {--solid} x {--split size} x {file, stdio pipe} x subsets of {--keep-dir,--keep-timestamp,--keep-permission} on either side; \
                real `pna create` + `pna extract` into an empty directory; the extracted tree (paths, kinds, contents, link targets, and permission bits / file mtimes when kept on both sides) is compared with the model's expected tree and with the source tree directly; \
                non-trivial = tree has a file; distinct by request line".into();
    let n = if ctx.thorough { 500 } else { 40 };
    for case in 0..n {
        let sbx = Sbx::new("tree", case);
        // cases 0 and 1: a file beyond 1 MiB, stored and CTR-encrypted per entry (no compressor in between, so the cipher writer sees the
        // large writes), once as a file archive and once split
        let big = case < 2;
        let nodes = gen_tree(&mut rng, &sbx.root, ctx.thorough, big);
        let keep_dir = rng.gen_bool(0.5);
        let (ktc, kpc, ktx, kpx) = (rng.gen_bool(0.6), rng.gen_bool(0.6), rng.gen_bool(0.7), rng.gen_bool(0.7));
        let (kxc, kxx) = (rng.gen_bool(0.7), rng.gen_bool(0.8));
        let comp: Vec<String> = match rng.gen_range(0..5) { 0 => vec!["--store".into()], 1 => vec!["--deflate".into(), rng.gen_range(1..10).to_string()], 2 => vec!["--zstd".into(), rng.gen_range(1..12).to_string()], 3 => vec!["--xz".into(), rng.gen_range(0..6).to_string()], _ => vec![] };
        let enc = if big { 2 + 2 * case } else { rng.gen_range(0..5) };
        let pw = "tree-password 1";
        let mut cipher: Vec<String> = match enc { 1 => vec!["--aes".into(), "cbc".into()], 2 => vec!["--aes".into(), "ctr".into()], 3 => vec!["--camellia".into(), "cbc".into()], 4 => vec!["--camellia".into(), "ctr".into()], _ => vec![] };
        if enc != 0 { cipher.push(format!("--password={pw}")); if rng.gen_bool(0.5) { cipher.push("--pbkdf2".into()); cipher.push("r=1".into()); } else { cipher.push("--argon2".into()); cipher.push("t=1,m=8,p=1".into()); } }
        let solid = !big && rng.gen_bool(0.3);
        let stdio = !big && rng.gen_bool(0.25);
        let split = (big && case == 1) || (!big && !stdio && rng.gen_bool(0.25));
        let comp: Vec<String> = if big { vec!["--store".into()] } else { comp };
        // the archive on standard output must be nothing but the archive, whatever the verbosity
        let mut cargs: Vec<String> = vec![if stdio && case % 2 == 1 { "--verbose".into() } else { "--quiet".into() }];
        // split archives also under names that are not `*.pna` (dotted, no extension): the part names must chain
        let arch_name: &str = if split { ["a.pna", "a.pna", "arc.v1.2.tar", "backup", "my.archive.PNA"][rng.gen_range(0..5)] } else { "a.pna" };
        if stdio { cargs.extend(["experimental", "stdio", "--create", "-r"].map(String::from)); } else { cargs.extend(["create", arch_name, "-r"].map(String::from)); }
        cargs.extend(comp.clone()); cargs.extend(cipher.clone());
        if keep_dir { cargs.push("--keep-dir".into()); }
        if ktc { cargs.push("--keep-timestamp".into()); }
        if kpc { cargs.push("--keep-permission".into()); }
        if kxc { cargs.push("--keep-xattr".into()); }
        if solid { cargs.push("--solid".into()); }
        if split { cargs.push("--split".into()); cargs.push(if big { "1500000" } else { ["300", "1000", "50000"][rng.gen_range(0..3)] }.into()); }
        cargs.push("t".into());
        let cv: Vec<&str> = cargs.iter().map(|s| s.as_str()).collect();
        let cr = run_pna(&sbx, &sbx.root, &cv, None, 120, &[]);
        let attrs = json!({"create": cargs, "tree": nodes.iter().map(|n| json!({"path": n.path, "kind": n.kind, "len": n.content.len()})).collect::<Vec<_>>()});
        ctx.count(if stdio { "io:stdio" } else if split { "io:split" } else { "io:file" });
        ctx.count(if solid { "solid" } else { "normal" });
        ctx.count(if enc != 0 { "encrypted" } else { "plain" });
        ctx.oracle_eval();
        if cr.crashed() || cr.hung() { ctx.violation("C07", "`pna create` crashed or hung", json!({"case":attrs,"run":cr.brief()})); continue; }
        if !cr.ok() { ctx.violation("C02", "`pna create` failed on a supported tree", json!({"case":attrs,"run":cr.brief()})); continue; }
        if stdio {
            std::fs::write(sbx.path("a.pna"), &cr.stdout).unwrap();
            if let Err(why) = crate::refdec::strict_archive(&cr.stdout, vec![], false) {
                ctx.violation("C14", "what `pna experimental stdio --create` wrote to standard output is not a well-formed archive", json!({"case":attrs,"why":why,"first_bytes":hexw(&cr.stdout[..cr.stdout.len().min(64)])}));
            }
        }
        let mut xargs: Vec<String> = vec!["--quiet".into()];
        let first_part: String = std::fs::read_dir(&sbx.root).unwrap().filter_map(|e| e.ok()).map(|e| e.file_name().to_string_lossy().to_string())
            .find(|n| n.contains(".part1") && !n.contains(".part1") == false && (n.ends_with(".part1") || n.to_lowercase().ends_with(".part1.pna"))).unwrap_or_else(|| "a.part1.pna".into());
        let arch: &str = if sbx.path(arch_name).exists() { arch_name } else { first_part.as_str() };
        // every other multipart archive is fed to the extractor through standard input, its parts concatenated in order
        let mut part_stream: Option<Vec<u8>> = None;
        if split && arch != arch_name && case % 2 == 0 {
            let mut all = vec![];
            let mut nparts = 0;
            for i in 1.. {
                match std::fs::read(sbx.path(&first_part.replacen(".part1", &format!(".part{i}"), 1))) { Ok(b) => { all.extend(b); nparts += 1; } Err(_) => break }
            }
            if nparts >= 2 { part_stream = Some(all); ctx.count("io:parts-through-stdin"); }
        }
        let through_stdin_parts = part_stream.is_some();
        let xstdio = (stdio && arch == "a.pna") || part_stream.is_some();
        ctx.count(&format!("archive-name:{arch_name}"));
        if xstdio { xargs.extend(["experimental", "stdio", "--extract", "--out-dir", "out"].map(String::from)); } else { xargs.extend(["extract", arch, "--out-dir", "out"].map(String::from)); }
        if enc != 0 { xargs.push(format!("--password={pw}")); }
        if ktx { xargs.push("--keep-timestamp".into()); }
        if kpx { xargs.push("--keep-permission".into()); }
        if kxx { xargs.push("--keep-xattr".into()); }
        let xv: Vec<&str> = xargs.iter().map(|s| s.as_str()).collect();
        let data = if let Some(ps) = part_stream { Some(ps) } else if xstdio { Some(std::fs::read(sbx.path("a.pna")).unwrap()) } else { None };
        let xr = run_pna(&sbx, &sbx.root, &xv, data.as_deref(), 40, &[]);
        let attrs = json!({"create": cargs, "extract": xargs, "tree": nodes.iter().map(|n| json!({"path": n.path, "kind": n.kind, "len": n.content.len()})).collect::<Vec<_>>()});
        if through_stdin_parts && (xr.crashed() || xr.hung() || !xr.ok()) { ctx.violation("C04", "the parts of a split archive, read in sequence from standard input, are not read back", json!({"case":attrs,"run":xr.brief()})); }
        if xr.crashed() || xr.hung() { ctx.violation("C07", "`pna extract` crashed or hung", json!({"case":attrs,"run":xr.brief()})); ctx.violation("C02", "`pna extract` crashed or hung on an archive `pna create` just wrote", json!({"case":attrs,"run":xr.brief()})); continue; }
        if !xr.ok() { ctx.violation("C02", "`pna extract` failed on an archive `pna create` just wrote", json!({"case":attrs,"run":xr.brief()})); continue; }
        let snap = snapshot(&sbx.path("out"));
        // ---- direct oracle: the tree is reproduced
        let mut problems: Vec<String> = vec![];
        for nd in &nodes {
            match (nd.kind, snap.get(&nd.path)) {
                (0, Some(Node::File { content, mode, mtime, .. })) => {
                    if *content != nd.content { problems.push(format!("{}: content differs", nd.path)); }
                    if kpc && kpx && *mode != nd.mode { problems.push(format!("{}: mode {:o} != {:o}", nd.path, mode, nd.mode)); }
                    if ktc && ktx && *mtime != nd.mtime { problems.push(format!("{}: mtime {} != {}", nd.path, mtime, nd.mtime)); }
                    if kxc && kxx { let got = xattr_map(&sbx.path("out").join(&nd.path)); if got != nd.xattrs { problems.push(format!("{}: extended attributes {:?} != {:?}", nd.path, got.iter().map(|(k, v)| format!("{k}={}", hexw(v))).collect::<Vec<_>>(), nd.xattrs.iter().map(|(k, v)| format!("{k}={}", hexw(v))).collect::<Vec<_>>())); } }
                }
                (2, Some(Node::Symlink { target })) => { if target.as_bytes() != &nd.content[..] { problems.push(format!("{}: link target {:?} != {:?}", nd.path, target, String::from_utf8_lossy(&nd.content))); } }
                (1, Some(Node::Dir { mode })) => { if keep_dir && kpc && kpx && *mode != nd.mode { problems.push(format!("{}: directory mode {:o} != {:o}", nd.path, mode, nd.mode)); } }
                (1, None) => { let has_child = nodes.iter().any(|m| m.kind != 1 && m.path.starts_with(&format!("{}/", nd.path))); if keep_dir || has_child { problems.push(format!("{}: directory missing", nd.path)); } }
                (k, other) => problems.push(format!("{}: kind {} expected, found {}", nd.path, k, match other { None => "nothing", Some(Node::File { .. }) => "file", Some(Node::Dir { .. }) => "dir", Some(Node::Symlink { .. }) => "symlink", _ => "other" })),
            }
        }
        for p in snap.keys() { if !nodes.iter().any(|n| &n.path == p) { problems.push(format!("{p}: not in the source tree")); } }
        if !problems.is_empty() {
            ctx.violation("C02", "the extracted tree differs from the source tree", json!({"case":attrs,"problems":problems.iter().take(6).collect::<Vec<_>>()}));
        }
        // ---- model correspondence
        let wire = nodes.iter().map(|n| format!("{},{},{},{},{}", hexw(n.path.as_bytes()), n.kind, hexw(&n.content), n.mode, n.mtime)).collect::<Vec<_>>().join(";");
        let mut items: Vec<(Vec<u8>, String)> = snap.iter().map(|(p, nd)| {
            let tn = nodes.iter().find(|n| &n.path == p);
            let (kind, content, mode, mtime): (u8, Vec<u8>, Option<u32>, Option<i64>) = match nd {
                Node::File { content, mode, mtime, .. } => (0, content.clone(), Some(*mode), Some(*mtime)),
                Node::Dir { mode } => (1, vec![], Some(*mode), None),
                Node::Symlink { target } => (2, target.as_bytes().to_vec(), None, None),
                Node::Other => (9, vec![], None, None),
            };
            let restored_mode = kpc && kpx && kind != 2 && tn.map(|t| (t.kind != 1) || keep_dir).unwrap_or(false);
            let restored_time = ktc && ktx && kind == 0;
            (p.as_bytes().to_vec(), format!("{},{},{},{},{}", hexw(p.as_bytes()), kind, crate::canon::digest(&content), if restored_mode { mode.unwrap().to_string() } else { "-".into() }, if restored_time { mtime.unwrap().to_string() } else { "-".into() }))
        }).collect();
        items.sort_by(|a, b| a.0.cmp(&b.0));
        let imp = if items.is_empty() { "ok .".to_string() } else { format!("ok {}", items.into_iter().map(|x| x.1).collect::<Vec<_>>().join(";")) };
        ctx.case(json!({"nodes":nodes.len(),"keep_dir":keep_dir}), format!("tree.expected {}{}{}{}{} {}", keep_dir as u8, ktc as u8, kpc as u8, ktx as u8, kpx as u8, wire), imp, nodes.iter().any(|n| n.kind == 0));
        // the specification against the composition of the create and extract transcriptions (model-internal, on the same tree)
        ctx.case(json!({"op":"composed","nodes":nodes.len()}), format!("tree.composed {}{}{}{}{} {}", keep_dir as u8, ktc as u8, kpc as u8, ktx as u8, kpx as u8, wire), "ok agree".into(), true);
    }
}
