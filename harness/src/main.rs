mod canon;
mod cli;
mod consts;
mod ctx;
mod fam_canary;
mod fam_cipher;
mod fam_clicodec;
mod fam_clihostile;
mod fam_clitrunc;
mod fam_chunklist;
mod fam_concat;
mod fam_append;
mod fam_codec;
mod fam_edit;
mod fam_extract;
mod fam_frame;
mod fam_history;
mod fam_list;
mod fam_crypt;
mod fam_fault;
mod fam_foreign;
mod fam_round;
mod fam_sched;
mod fam_split;
mod fam_tree;
mod gen;
mod refdec;
mod shapes;
mod toy;
mod util;

use ctx::Ctx;

fn main() {
    std::panic::set_hook(Box::new(|_| {}));
    let args: Vec<String> = std::env::args().collect();
    if args.len() < 2 {
        eprintln!("usage: pnah <family> [--seed N] [--tier quick|thorough] [--driver PATH] [--out FILE]");
        std::process::exit(2);
    }
    let family = args[1].clone();
    if family == "consts" {
        consts::print();
        return;
    }
    if family == "shapes" {
        print!("{}", shapes::shapes());
        return;
    }
    let mut seed: u64 = std::env::var("VERIF_SEED").ok().and_then(|s| s.parse().ok()).unwrap_or(1);
    let mut thorough = std::env::var("VERIF_TIER").map(|t| t == "thorough").unwrap_or(false);
    let mut driver = "/verif/lean/.lake/build/bin/driver".to_string();
    let mut out: Option<String> = None;
    let mut i = 2;
    while i < args.len() {
        match args[i].as_str() {
            "--seed" => { seed = args[i + 1].parse().unwrap(); i += 1; }
            "--tier" => { thorough = args[i + 1] == "thorough"; i += 1; }
            "--driver" => { driver = args[i + 1].clone(); i += 1; }
            "--out" => { out = Some(args[i + 1].clone()); i += 1; }
            _ => {}
        }
        i += 1;
    }
    let mut ctx = Ctx::new(&family, seed, thorough, &driver);
    match family.as_str() {
        "canary" => fam_canary::canary(&mut ctx),
        "chunk" => fam_frame::chunk(&mut ctx),
        "parse" => fam_frame::parse(&mut ctx),
        "truncate" => fam_frame::truncate(&mut ctx),
        "alter" => fam_frame::alter(&mut ctx),
        "cipher-sm" => fam_cipher::cipher_sm(&mut ctx),
        "codec" => fam_codec::codec(&mut ctx),
        "entry" => fam_codec::entry(&mut ctx),
        "edit" => fam_edit::edit(&mut ctx),
        "history" => fam_history::history(&mut ctx),
        "extract-fs" => fam_extract::extract_fs(&mut ctx),
        "list" => fam_list::list(&mut ctx),
        "roundtrip" => fam_round::roundtrip(&mut ctx),
        "foreign" => fam_foreign::foreign(&mut ctx),
        "cli-truncate" => fam_clitrunc::cli_truncate(&mut ctx),
        "chunk-list" => fam_chunklist::chunk_list(&mut ctx),
        "concat" => fam_concat::concat(&mut ctx),
        "append-bytes" => fam_append::append_bytes(&mut ctx),
        "cli-hostile" => fam_clihostile::cli_hostile(&mut ctx),
        "sched" => fam_sched::sched(&mut ctx),
        "fault" => fam_fault::fault(&mut ctx),
        "cli-codec" => fam_clicodec::cli_codec(&mut ctx),
        "cli-crypt" => fam_crypt::cli_crypt(&mut ctx),
        "hostile-solid" => fam_foreign::hostile_solid(&mut ctx),
        "split" => fam_split::split(&mut ctx),
        "cli-tree" => fam_tree::cli_tree(&mut ctx),
        f => {
            eprintln!("unknown family {f}");
            std::process::exit(2);
        }
    }
    let report = ctx.finish();
    let s = serde_json::to_string_pretty(&report).unwrap();
    match out {
        Some(p) => std::fs::write(p, s).unwrap(),
        None => println!("{s}"),
    }
}
