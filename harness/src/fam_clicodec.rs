//! `cli-codec` family (C15 at the CLI): textual codecs — access-control entries, extended-attribute
//! values (hex / base64), multipart file names — through the crate's own parsers and printers
//! (cfg(pna_verif) hooks), compared with the Lean model, plus the inverse-pair oracle.
use crate::ctx::Ctx;
use crate::util::{bytes, hexw, rng_for};
use portable_network_archive::verif as cv;
use rand::Rng;
use serde_json::json;

fn ace_err_kind(e: &str) -> &'static str {
    if e.starts_with("NotEnough") {
        "notEnough"
    } else if e.starts_with("TooMany") {
        "tooMany"
    } else if e.starts_with("UnexpectedAccessControl") {
        "badAccess"
    } else if e.starts_with("UnexpectedOwnerType") {
        "badOwner"
    } else {
        "other"
    }
}

fn ace_s(d: &cv::AceData, with_platform: bool) -> String {
    let body = format!("{} {} {} {} {}", d.1, d.2, hexw(d.3.as_bytes()), d.4 as u8, d.5);
    if with_platform {
        format!("{} {body}", match &d.0 { None => "none".to_string(), Some(p) => hexw(p.as_bytes()) })
    } else {
        body
    }
}

pub fn cli_codec(ctx: &mut Ctx) {
    let mut rng = rng_for(ctx.seed, "cli-codec");
    ctx.rule = "ACE text: all 64 flag sets and (thorough: all 65536; quick: 4096 spread + single bits + all) permission sets x 6 owner kinds x allow/deny x platforms {none, general, windows, macos, linux, freebsd, unknown}, printed then parsed (inverse-pair oracle) and compared with the model; \
                hostile ACE strings built from table names, their prefixes/substrings, aliases, case changes, empty and repeated tokens, missing/extra fields; \
                xattr values: all 256 single bytes, 2-byte strings with a fixed stride, random strings up to 40 bytes, printed as hex and base64 then parsed; hostile value strings (odd length, signs, upper case, non-hex, padding variants, non-ASCII); \
                part names: generated path shapes x part numbers (renumbering, removal, distinctness oracles)".into();
    let names = ["", "alice", "a b", "ünï", "100", "a,b", "group-1", "d", "read"];
    let platforms: [Option<&str>; 8] = [None, Some(""), Some("windows"), Some("macos"), Some("linux"), Some("freebsd"), Some("solaris"), Some("WINDOWS")];
    // ---------- ACE: print then parse
    let perm_sets: Vec<u16> = if ctx.thorough {
        (0..=u16::MAX).collect()
    } else {
        let mut v: Vec<u16> = (0..16).map(|i| 1u16 << i).collect();
        v.extend([0, u16::MAX, 0b101, 0x4001, 0x8002, 0xC003]);
        v.extend((0..4096).map(|i| (i as u16).wrapping_mul(16 + 1).wrapping_add(rng.gen::<u16>() & 0xF000)));
        v
    };
    for (i, perms) in perm_sets.iter().enumerate() {
        let flags = (i % 64) as u8;
        let kind = (i / 3 % 6) as u8;
        let name = if kind == 1 || kind == 3 { names[1 + i % (names.len() - 1)].to_string() } else { String::new() };
        let allow = i % 2 == 0;
        let plat = platforms[i % platforms.len()].map(|s| s.to_string());
        let d: cv::AceData = (plat.clone(), flags, kind, name.clone(), allow, *perms);
        // without platform
        let shown = cv::ace_show(&d);
        ctx.case(json!({"codec":"ace","dir":"show"}), format!("ace.show {} {} {} {} {}", flags, kind, hexw(name.as_bytes()), allow as u8, perms), format!("ok {}", hexw(shown.as_bytes())), true);
        let back = cv::ace_parse(&shown);
        ctx.oracle_eval();
        let want: cv::AceData = (None, flags, kind, name.clone(), allow, *perms);
        if back.as_ref().ok() != Some(&want) {
            ctx.violation("C15", "an access-control entry does not parse back to the value that was printed", json!({"ace":ace_s(&want, false),"text":shown,"parsed":format!("{back:?}")}));
        }
        ctx.case(json!({"codec":"ace","dir":"parse"}), format!("ace.parse {}", hexw(shown.as_bytes())), match &back { Ok(b) => format!("ok {}", ace_s(b, false)), Err(e) => format!("err {}", ace_err_kind(e)) }, true);
        // with platform
        if i % 4 == 0 || ctx.thorough {
            let shown = cv::ace_platform_show(&d);
            ctx.case(
                json!({"codec":"acep","dir":"show"}),
                format!("acep.show {} {} {} {} {} {}", match &plat { None => "none".to_string(), Some(p) => hexw(p.as_bytes()) }, flags, kind, hexw(name.as_bytes()), allow as u8, perms),
                format!("ok {}", hexw(shown.as_bytes())),
                true,
            );
            let back = cv::ace_platform_parse(&shown);
            ctx.oracle_eval();
            // an absent platform prints as the general platform ("")
            let want: cv::AceData = (Some(plat.clone().unwrap_or_default()), flags, kind, name.clone(), allow, *perms);
            if back.as_ref().ok() != Some(&want) {
                ctx.violation("C15", "an access-control entry with platform does not parse back to the value that was printed", json!({"ace":ace_s(&want, true),"text":shown,"parsed":format!("{back:?}")}));
            }
            ctx.case(json!({"codec":"acep","dir":"parse"}), format!("acep.parse {}", hexw(shown.as_bytes())), match &back { Ok(b) => format!("ok {}", ace_s(b, true)), Err(e) => format!("err {}", ace_err_kind(e)) }, true);
        }
    }
    // ---------- ACE: hostile strings
    let toks = [
        "d", "default", "defaul", "de", "file_inherit", "inherit", "inherited", "only_inherit", "limit_inherit", "directory_inherit", "r", "read", "rea", "read_data", "readattr", "readextattr", "readsecurity", "w", "write",
        "write_data", "writeattr", "x", "execute", "delete", "delete_child", "append", "chown", "sync", "", " ", "R", "Read", "rw", "r w", "allow", "deny", "u", "user", "g", "group", "m", "mask", "o", "other", "alice", "*", "ü",
    ];
    let n = if ctx.thorough { 20000 } else { 2500 };
    for _ in 0..n {
        let mut s = String::new();
        let fields = [5, 5, 5, 5, 6, 4, 3, 1, 7][rng.gen_range(0..9)];
        for f in 0..fields {
            if f > 0 {
                s.push(':');
            }
            let natural = rng.gen_bool(0.75);
            let role = if fields == 6 { f as i32 - 1 } else { f as i32 };
            let k = rng.gen_range(0..4);
            let multi = role == 0 || role == 4 || !natural;
            for j in 0..(if multi { k } else { 1 }) {
                if j > 0 {
                    s.push(',');
                }
                let t: &str = if natural {
                    match role {
                        1 => ["u", "user", "g", "group", "m", "mask", "o", "other", "U", ""][rng.gen_range(0..10)],
                        2 => ["", "alice", "bob", "0"][rng.gen_range(0..4)],
                        3 => ["allow", "deny", "Allow", "", "permit"][rng.gen_range(0..5)],
                        -1 => ["", "linux", "macos", "windows", "freebsd", "x"][rng.gen_range(0..6)],
                        _ => toks[rng.gen_range(0..toks.len())],
                    }
                } else {
                    toks[rng.gen_range(0..toks.len())]
                };
                s.push_str(t);
            }
        }
        let r = cv::ace_parse(&s);
        ctx.case(json!({"codec":"ace","dir":"parse-hostile"}), format!("ace.parse {}", hexw(s.as_bytes())), match &r { Ok(b) => format!("ok {}", ace_s(b, false)), Err(e) => format!("err {}", ace_err_kind(e)) }, true);
        let r = cv::ace_platform_parse(&s);
        ctx.case(json!({"codec":"acep","dir":"parse-hostile"}), format!("acep.parse {}", hexw(s.as_bytes())), match &r { Ok(b) => format!("ok {}", ace_s(b, true)), Err(e) => format!("err {}", ace_err_kind(e)) }, true);
        // stability: decoding accepted input and re-encoding it is stable
        if let Ok(b) = &r {
            if b.3.contains(':') {
                continue;
            }
            ctx.oracle_eval();
            let again = cv::ace_platform_parse(&cv::ace_platform_show(b));
            let norm = |d: &cv::AceData| (Some(d.0.clone().unwrap_or_default()), d.1, d.2, d.3.clone(), d.4, d.5);
            if again.as_ref().ok().map(norm) != Some(norm(b)) {
                ctx.violation("C15", "re-encoding an accepted access-control entry is not stable", json!({"text":s,"first":ace_s(b, true),"again":format!("{again:?}")}));
            }
        }
    }
    // ---------- xattr values
    let mut vals: Vec<Vec<u8>> = (0..=255u8).map(|b| vec![b]).collect();
    vals.push(vec![]);
    for i in (0..65536u32).step_by(if ctx.thorough { 7 } else { 257 }) {
        vals.push(vec![(i >> 8) as u8, i as u8]);
    }
    for _ in 0..(if ctx.thorough { 5000 } else { 600 }) {
        let k = rng.gen_range(0..40);
        vals.push(bytes(&mut rng, k));
    }
    for v in &vals {
        for enc in [2u8, 3] {
            let shown = cv::xattr_value_show(enc, v);
            ctx.case(json!({"codec":"xval","dir":"show","enc":enc}), format!("xval.show {enc} {}", hexw(v)), format!("ok {}", hexw(shown.as_bytes())), !v.is_empty());
            let back = cv::xattr_value_parse(&shown);
            ctx.oracle_eval();
            if back.as_ref().ok() != Some(v) {
                ctx.violation(
                    "C15",
                    "an extended-attribute value does not parse back to the bytes that were printed",
                    json!({"encoding": if enc == 2 { "hex" } else { "base64" }, "value": crate::util::hex(v), "text": shown, "parsed": format!("{back:?}")}),
                );
            }
            ctx.case(json!({"codec":"xval","dir":"parse","enc":enc}), format!("xval.parse {}", hexw(shown.as_bytes())), match &back { Ok(b) => format!("ok {}", hexw(b)), Err(_) => "err".into() }, true);
        }
    }
    let hexish = ['0', '1', '9', 'a', 'f', 'A', 'F', 'g', '+', '-', ' ', 'x', 'é', '7', 'c'];
    let b64ish = ['A', 'Q', 'z', '0', '9', '+', '/', '=', '=', '-', '_', ' ', 'é', 'g', 'w'];
    for _ in 0..(if ctx.thorough { 20000 } else { 2500 }) {
        let mut s = String::new();
        let kind = rng.gen_range(0..5);
        match kind {
            0 | 1 => {
                s.push_str("0x");
                for _ in 0..rng.gen_range(0..9) {
                    s.push(hexish[rng.gen_range(0..hexish.len())]);
                }
            }
            2 | 3 => {
                s.push_str("0s");
                let k = rng.gen_range(0..10);
                if kind == 2 {
                    // valid encoding with a damaged tail
                    use base64::Engine;
                    let v = bytes(&mut rng, k);
                    let mut e = base64::engine::general_purpose::STANDARD.encode(&v);
                    match rng.gen_range(0..5) {
                        0 => {
                            e.pop();
                        }
                        1 => e.push('='),
                        2 => {
                            if let Some(c) = e.pop() {
                                if c != '=' {
                                    e.push(if c == 'B' { 'C' } else { 'B' });
                                } else {
                                    e.push(c);
                                }
                            }
                        }
                        3 => e.insert(e.len() / 2, '='),
                        _ => {}
                    }
                    s.push_str(&e);
                } else {
                    for _ in 0..k {
                        s.push(b64ish[rng.gen_range(0..b64ish.len())]);
                    }
                }
            }
            _ => {
                for _ in 0..rng.gen_range(0..6) {
                    s.push(['0', 'x', 's', 'a', 'é', '"', '\\'][rng.gen_range(0..7)]);
                }
            }
        }
        let r = cv::xattr_value_parse(&s);
        ctx.case(json!({"codec":"xval","dir":"parse-hostile"}), format!("xval.parse {}", hexw(s.as_bytes())), match &r { Ok(b) => format!("ok {}", hexw(b)), Err(_) => "err".into() }, true);
    }
    // ---------- chmod mode strings: parse + apply against the model
    {
        let fixed = ["u+x", "go-rw", "a=rwx", "=r", "+x", "-w", "755", "000", "777", "888", "0755", "75", "ug", "", "u+rwxq", "x+r", "u+", "+", "rwx", "u=rw=x", "７５５", "a", "ugoa+rwx", "uu=rr", "o=", "g-", "7 5", "u +x", "U+x", "u+X", "644", "u=rwx,g=rx"];
        let who = ['u', 'g', 'o', 'a', 'x', '+'];
        let ops = ['+', '-', '=', '=', ' '];
        let perms = ['r', 'w', 'x', 'X', 's', '7'];
        let nn = if ctx.thorough { 20000 } else { 2500 };
        for i in 0..nn {
            let text: String = if i < fixed.len() { fixed[i].to_string() } else if i % 5 == 0 {
                (0..3).map(|_| char::from(b'0' + rng.gen_range(0..10u8))).collect()
            } else {
                let mut t = String::new();
                for _ in 0..rng.gen_range(0..4) { let k = if rng.gen_bool(0.9) { 4 } else { 6 }; t.push(who[rng.gen_range(0..k)]); }
                let k = if rng.gen_bool(0.95) { 4 } else { 5 };
                t.push(ops[rng.gen_range(0..k)]);
                for _ in 0..rng.gen_range(0..4) { let k = if rng.gen_bool(0.9) { 3 } else { 6 }; t.push(perms[rng.gen_range(0..k)]); }
                t
            };
            let x: u16 = [0o644u16, 0o755, 0, 0o777, 0o7777, 0o4755, u16::MAX, rng.gen()][rng.gen_range(0..8)];
            let r = cv::chmod_apply(&text, x);
            ctx.case(json!({"codec":"chmod-mode"}), format!("chmod.apply {} {x}", hexw(text.as_bytes())), match &r { Ok(v) => format!("ok {v}"), Err(_) => "err".into() }, true);
            // idempotence at the text level
            if let Ok(v) = r {
                ctx.oracle_eval();
                // a symbolic clause names only permission bits of user/group/other: the set-user-ID, set-group-ID, sticky and
                // file-type bits it does not name stay as they are
                let symbolic = text.contains(['=', '+', '-']);
                if symbolic && (v & !0o777) != (x & !0o777) {
                    ctx.violation("C10", "a symbolic chmod clause changed mode bits above the nine permission bits it names", json!({"mode":text,"start":format!("{x:o}"),"result":format!("{v:o}")}));
                }
                if cv::chmod_apply(&text, v) != Ok(v) {
                    ctx.violation("C10", "applying the same chmod mode twice changes the mode again", json!({"mode":text,"start":x,"once":v,"twice":format!("{:?}", cv::chmod_apply(&text, v))}));
                }
            }
        }
    }
    // ---------- multipart file names: correspondence with the model on simple paths
    {
        let comps = ["a", "archive", "my.backup", ".hidden", "a.part3", "x.tar", "a.PNA", "name.part", "a.partx", "ünï", "a b", "a.pna", "v1.2.pna", "a.part12.pna", "a.part.pna", "a.partition.pna", "..pna", "a.", "a..pna", ".pna", "a.part1", "a.tar.gz", "...x", "a.part07.Pna", "part1.pna", ".part1.pna", "a.part+1.pna", "x.part+0012", "a.part18446744073709551616.pna", "a.part-1.pna", "a.part 1.pna", "a.part1_.pna"];
        let dirs = ["", "dir/", "dir.d/", "/abs/p/", "a.part1.pna/", "../"];
        let nn = if ctx.thorough { 4000 } else { 600 };
        for i in 0..nn {
            let p = format!("{}{}", dirs[rng.gen_range(0..dirs.len())], if i < comps.len() { comps[i] } else { comps[rng.gen_range(0..comps.len())] });
            let n = [1usize, 2, 9, 10, 11, 100, 65535, 0][rng.gen_range(0..8)];
            let w = cv::with_part_n(&p, n);
            ctx.case(json!({"codec":"part","dir":"with"}), format!("part.with {} {n}", hexw(p.as_bytes())), match &w { Some(w) => format!("ok {}", hexw(w.as_bytes())), None => "none".into() }, true);
            let r = cv::remove_part_n(&p);
            ctx.case(json!({"codec":"part","dir":"remove"}), format!("part.remove {}", hexw(p.as_bytes())), match &r { Some(w) => format!("ok {}", hexw(w.as_bytes())), None => "none".into() }, true);
            if let Some(w) = w {
                let r = cv::remove_part_n(&w);
                ctx.case(json!({"codec":"part","dir":"remove-of-with"}), format!("part.remove {}", hexw(w.as_bytes())), match &r { Some(w) => format!("ok {}", hexw(w.as_bytes())), None => "none".into() }, true);
            }
        }
    }
    // ---------- multipart file names (implementation-level oracles)
    let stems = ["a", "archive", "my.backup", ".hidden", "a.part3", "x.tar", "dir.d/a", "/abs/p", "a.PNA", "name.part", "a.partx", "ünï", "a b", "backup.2024.01.tar", "a.b.c.d", "v1.2.3", ".a.b.c.d"];
    for stem in stems {
        for ext in ["", ".pna", ".PNA", ".Pna"] {
            let p = format!("{stem}{ext}");
            let mut seen = std::collections::BTreeSet::new();
            for n in [1usize, 2, 9, 10, 11, 100, 65535] {
                ctx.oracle_eval();
                let Some(w) = cv::with_part_n(&p, n) else { continue };
                if !seen.insert(w.clone()) {
                    ctx.violation("C15", "two part numbers map to the same file name", json!({"path":p,"n":n,"name":w}));
                }
                for m in [1usize, 7, 12] {
                    if cv::with_part_n(&w, m) != cv::with_part_n(&p, m) {
                        ctx.violation(
                            "C15",
                            "renumbering a part name does not give the name of that part",
                            json!({"path":p,"n":n,"m":m,"part":w,"renumbered":cv::with_part_n(&w, m),"direct":cv::with_part_n(&p, m)}),
                        );
                    }
                }
                let last = stem.rsplit('/').next().unwrap();
                let plain_base = !last.contains(".part");
                if plain_base {
                    let r = cv::remove_part_n(&w);
                    if r.as_deref() != Some(p.as_str()) {
                        ctx.violation("C15", "a multipart file name does not decode back to the archive name", json!({"path":p,"n":n,"part":w,"removed":r}));
                    }
                }
            }
            ctx.case_free();
        }
    }
    // a name that carries no `.partN` marker (N = decimal digits) is not a part name: removing "the part" must leave
    // it alone — the editing commands write their result to `archive.remove_part()`
    fn has_marker(name: &str) -> bool {
        let is_marker = |e: &str| e.strip_prefix("part").is_some_and(|d| !d.is_empty() && d.bytes().all(|b| b.is_ascii_digit()));
        let mut it = name.rsplitn(3, '.');
        let last = it.next().unwrap_or("");
        let mid = it.next();
        let has_stem = it.next().is_some();
        match mid {
            None => false,
            Some(m) => (is_marker(last) && !(m.is_empty() && !has_stem)) || (has_stem && is_marker(m)),
        }
    }
    for name in ["x.partial.pna", "notes.partly.pna", "a.partition.pna", "name.part", "a.partx", "v.part.pna", "my.particle.tar", "a.part1x.pna", "data.pna", "plain", "a.b.c.d", "x.PART1.pna", "x.part-1.pna", "x.part٣.pna", "data.part+1.pna", "x.part+0012", "x.part 7.pna"] {
        for dir in ["", "dir/", "./", "/abs/p/"] {
            let p = format!("{dir}{name}");
            ctx.oracle_eval();
            if has_marker(name) { continue; }
            let r = cv::remove_part_n(&p);
            let want = if dir == "./" { name.to_string() } else { p.clone() }; // Path::join drops a leading "./"? no: keep both spellings acceptable
            if r.as_deref() != Some(p.as_str()) && r.as_deref() != Some(want.as_str()) {
                ctx.violation("C10", "the path an editing command writes its result to differs from the archive it was given (the name carries no .partN marker)", json!({"archive":p,"result_path":r}));
                ctx.violation("C15", "remove_part_n changes a name that carries no .partN marker", json!({"archive":p,"result_path":r}));
            }
        }
    }
    ctx.case_free();
}
