//! `sched` family (C19): the real binary under different worker-pool sizes and CPU contention.
//! Trees with many files of very unequal size (so that completion order differs from submission
//! order whenever tasks overlap); `pna create` (plain, --solid, --split), `append`, `update`, `extract`
//! with RAYON_NUM_THREADS in {1,2,3,8,32}; archives must be byte-identical across pool sizes and
//! repetitions, their entry order must be the walker's order, extracted trees must be identical.
use crate::cli::{run_pna, snapshot, Sbx};
use crate::ctx::Ctx;
use crate::util::{bytes, rng_for};
use libpna::*;
use rand::Rng;
use serde_json::json;

fn names(parts: &[Vec<u8>]) -> Vec<String> {
    match crate::cli::read_logical(parts, None) {
        Ok(items) => crate::cli::flat(&items).into_iter().map(|e| e.name).collect(),
        Err(_) => vec!["<unreadable>".into()],
    }
}

fn parts_of(sbx: &Sbx, stem: &str) -> Vec<Vec<u8>> {
    if let Ok(b) = std::fs::read(sbx.path(&format!("{stem}.pna"))) {
        return vec![b];
    }
    let mut v = vec![];
    for i in 1.. {
        match std::fs::read(sbx.path(&format!("{stem}.part{i}.pna"))) {
            Ok(b) => v.push(b),
            Err(_) => break,
        }
    }
    v
}

pub fn sched(ctx: &mut Ctx) {
    let mut rng = rng_for(ctx.seed, "sched");
    ctx.rule = "trees of 12..90 files (one case per run: 230 files) whose sizes range from 0 to 3 MB (compressible, zstd/xz so that large files take far longer than small ones) x commands {create, create --solid, create --split, append, update, extract} \
                x RAYON_NUM_THREADS {1,2,3,8,32} x repetitions, the thorough tier under CPU contention (busy threads on every core); byte-identity of the outputs across pool sizes, entry order = walker order, identical extracted trees; \
                the model's schedule-independent order for the shape found in the sources is compared with the observed entry order of every run".into();
    let ncases = if ctx.thorough { 12 } else { 2 };
    let threads: Vec<&str> = if ctx.thorough { vec!["1", "2", "3", "8", "32"] } else { vec!["1", "3", "16"] };
    // CPU contention for the thorough tier
    let stop = std::sync::Arc::new(std::sync::atomic::AtomicBool::new(false));
    let mut burners = vec![];
    if ctx.thorough {
        for _ in 0..16 {
            let s = stop.clone();
            burners.push(std::thread::spawn(move || {
                let mut x = 1u64;
                while !s.load(std::sync::atomic::Ordering::Relaxed) {
                    for _ in 0..100_000 {
                        x = x.wrapping_mul(6364136223846793005).wrapping_add(1);
                    }
                    std::hint::black_box(x);
                }
            }));
        }
    }
    for case in 0..ncases {
        let sbx = Sbx::new("sched", case);
        std::fs::create_dir_all(sbx.path("t/sub")).unwrap();
        // one case in every run has a few hundred files: thresholds on the item count (batching, minimum split
        // lengths of parallel iterators) are as plausible as thresholds on size
        let nfiles = if case == 0 { 230 } else { rng.gen_range(12..if ctx.thorough { 90 } else { 24 }) };
        for i in 0..nfiles {
            let size = match i % 6 {
                0 if nfiles > 100 && i > 12 => rng.gen_range(1..2000),
                0 => rng.gen_range(1_000_000..3_000_000),
                1 => 0,
                2 => rng.gen_range(100_000..400_000),
                _ => rng.gen_range(1..2000),
            };
            // compressible but not trivial: repeated random blocks
            let block = bytes(&mut rng, 997);
            let mut content = Vec::with_capacity(size);
            while content.len() < size {
                let k = (size - content.len()).min(block.len());
                content.extend_from_slice(&block[..k]);
                if content.len() % 5 == 0 {
                    content.push(rng.gen());
                }
            }
            content.truncate(size);
            let dir = if i % 3 == 0 { "t/sub" } else { "t" };
            std::fs::write(sbx.path(&format!("{dir}/f{i:03}.bin")), &content).unwrap();
        }
        let walk: Vec<String> = portable_network_archive::verif::collect_items(&[sbx.path("t").to_string_lossy().to_string()], true, false)
            .unwrap()
            .iter()
            .map(|p| std::path::Path::new(p).strip_prefix(&sbx.root).unwrap().to_string_lossy().to_string())
            .collect();
        let codec: Vec<&str> = [vec!["--zstd", "9"], vec!["--xz", "3"], vec!["--deflate", "6"]][case % 3].clone();
        // an archive in which one path occurs twice (a large first version, a small second one, as `append` of a changed
        // file leaves it): extraction with --overwrite must leave the later version, whatever the pool does
        if case < 2 {
            std::fs::create_dir_all(sbx.path("dup")).unwrap();
            let big: Vec<u8> = (0..6_000_000u32).map(|i| (i % 251) as u8 ^ (i / 65_521) as u8).collect();
            std::fs::write(sbx.path("dup/data.bin"), &big).unwrap();
            std::fs::write(sbx.path("dup/other.txt"), b"other").unwrap();
            let r1 = run_pna(&sbx, &sbx.root, &["--quiet", "create", "dup.pna", "--store", "-r", "dup"], None, 600, &[("RAYON_NUM_THREADS", "1")]);
            std::fs::write(sbx.path("dup/data.bin"), b"version two").unwrap();
            let r2 = run_pna(&sbx, &sbx.root, &["--quiet", "append", "dup.pna", "--store", "dup/data.bin"], None, 600, &[("RAYON_NUM_THREADS", "1")]);
            if r1.ok() && r2.ok() {
                for t in &threads {
                    for rep in 0..2 {
                        let out = format!("xd-{t}-{rep}");
                        let r = run_pna(&sbx, &sbx.root, &["--quiet", "extract", "dup.pna", "--out-dir", out.as_str(), "--overwrite"], None, 600, &[("RAYON_NUM_THREADS", *t)]);
                        ctx.oracle_eval();
                        ctx.count("variant:extract-duplicate-name");
                        let got = std::fs::read(sbx.path(&format!("{out}/dup/data.bin"))).unwrap_or_default();
                        if !r.ok() || got != b"version two" {
                            ctx.violation("C19", "extracting an archive that holds two versions of a path does not leave the later one under every pool size", json!({"case":case,"threads":t,"rep":rep,"run":r.brief(),"extracted_len":got.len()}));
                        }
                        let _ = std::fs::remove_dir_all(sbx.path(&out));
                    }
                }
            }
            let _ = std::fs::remove_file(sbx.path("dup.pna"));
            let _ = std::fs::remove_dir_all(sbx.path("dup"));
        }
        for variant in ["create", "create-solid", "create-split", "append", "update", "extract"] {
            let mut outputs: Vec<(String, Vec<Vec<u8>>, Option<std::collections::BTreeMap<String, crate::cli::Node>>)> = vec![];
            for (ti, t) in threads.iter().enumerate() {
                for rep in 0..(if ctx.thorough && *t != "1" { 2 } else { 1 }) {
                    let stem = format!("o-{variant}-{ti}-{rep}");
                    let arch = format!("{stem}.pna");
                    let env = [("RAYON_NUM_THREADS", *t)];
                    let mut tree = None;
                    let run = match variant {
                        "create" | "create-solid" | "create-split" => {
                            let mut a = vec!["--quiet", "create", arch.as_str(), "-r"];
                            a.extend(codec.iter());
                            if variant == "create-solid" {
                                a.push("--solid");
                            }
                            if variant == "create-split" {
                                a.extend(["--split", "700000"]);
                            }
                            a.push("t");
                            run_pna(&sbx, &sbx.root, &a, None, 600, &env)
                        }
                        "append" => {
                            // same start archive (two files), then everything else appended
                            let r0 = run_pna(&sbx, &sbx.root, &["--quiet", "create", arch.as_str(), "--store", "t/f001.bin", "t/f002.bin"], None, 600, &[("RAYON_NUM_THREADS", "1")]);
                            if !r0.ok() {
                                r0
                            } else {
                                let mut a = vec!["--quiet", "append", arch.as_str(), "-r"];
                                a.extend(codec.iter());
                                a.push("t/sub");
                                run_pna(&sbx, &sbx.root, &a, None, 600, &env)
                            }
                        }
                        "update" => {
                            // the archive holds a large file first and small ones after it; every second case names the files
                            // one by one in archive order (walk order = archive order = the order in which replacements are handed to
                            // the pool: the large one is still being compressed when the small ones are done), the others walk the tree
                            let named = ["t/sub/f000.bin", "t/f001.bin", "t/f002.bin", "t/f004.bin", "t/f005.bin", "t/f007.bin"];
                            let r0 = run_pna(&sbx, &sbx.root, &["--quiet", "create", arch.as_str(), "--store", named[0], named[1], named[2], named[3], named[4]], None, 600, &[("RAYON_NUM_THREADS", "1")]);
                            if !r0.ok() {
                                r0
                            } else if case % 2 == 0 {
                                let mut a = vec!["--quiet", "experimental", "update", "--unstable", arch.as_str()];
                                a.extend(codec.iter());
                                a.extend(named.iter());
                                run_pna(&sbx, &sbx.root, &a, None, 600, &env)
                            } else {
                                let mut a = vec!["--quiet", "experimental", "update", "--unstable", arch.as_str(), "-r"];
                                a.extend(codec.iter());
                                a.push("t");
                                run_pna(&sbx, &sbx.root, &a, None, 600, &env)
                            }
                        }
                        _ => {
                            // extract the archive made by the first `create` run
                            let out = format!("x-{ti}-{rep}");
                            let r = run_pna(&sbx, &sbx.root, &["--quiet", "extract", "o-create-0-0.pna", "--out-dir", out.as_str()], None, 600, &env);
                            // what the property is about: paths, kinds, contents, link targets (not inode numbers or the
                            // times at which the extraction happened to run)
                            tree = Some(snapshot(&sbx.path(&out)).into_iter().map(|(p, n)| (p, match n {
                                crate::cli::Node::File { content, mode, .. } => crate::cli::Node::File { content, mode, mtime: 0, ino: 0, nlink: 1 },
                                other => other,
                            })).collect());
                            let _ = std::fs::remove_dir_all(sbx.path(&out));
                            r
                        }
                    };
                    ctx.oracle_eval();
                    let attrs = json!({"case":case,"variant":variant,"threads":t,"rep":rep,"files":nfiles});
                    if run.crashed() || run.hung() {
                        ctx.violation("C07", "a command crashed or hung under a different pool size", json!({"case":attrs,"run":run.brief()}));
                        continue;
                    }
                    if !run.ok() {
                        ctx.violation("C19", "a command fails under one pool size", json!({"case":attrs,"run":run.brief()}));
                        continue;
                    }
                    let parts = if variant == "extract" { vec![] } else { parts_of(&sbx, &stem) };
                    ctx.count(&format!("variant:{variant}"));
                    ctx.count(&format!("threads:{t}"));
                    // entry order against the walker's order (create variants), and against the model
                    if variant.starts_with("create") {
                        let got = names(&parts);
                        let idx: Vec<String> = got.iter().map(|n| walk.iter().position(|w| w == n).map(|i| i.to_string()).unwrap_or("?".into())).collect();
                        if got != walk {
                            ctx.violation("C19", "the order of entries in a created archive is not the order of the inputs", json!({"case":attrs,"expected":walk,"got":got}));
                        }
                        ctx.case(
                            json!({"op":"sched","variant":variant,"threads":t}),
                            format!("sched scopePerItem {} {}", walk.len(), ctx.seed * 1000 + (case * 100 + ti * 10 + rep) as u64),
                            format!("ok final=true order={}", idx.join(",")),
                            true,
                        );
                    }
                    outputs.push((format!("threads={t} rep={rep}"), parts, tree));
                    // keep disk use low: only the first create archive is needed later
                    if !(variant == "create" && ti == 0 && rep == 0) {
                        for i in 1..200 {
                            if std::fs::remove_file(sbx.path(&format!("{stem}.part{i}.pna"))).is_err() {
                                break;
                            }
                        }
                        let _ = std::fs::remove_file(sbx.path(&arch));
                    }
                }
            }
            if let Some((l0, p0, t0)) = outputs.first() {
                for (l, p, t) in outputs.iter().skip(1) {
                    ctx.oracle_eval();
                    if p != p0 {
                        let why = if p.len() != p0.len() { format!("{} parts vs {}", p.len(), p0.len()) } else { format!("order {:?} vs {:?}", names(p).iter().take(8).collect::<Vec<_>>(), names(p0).iter().take(8).collect::<Vec<_>>()) };
                        ctx.violation("C19", "the output differs between two runs that differ only in pool size / scheduling", json!({"case":case,"variant":variant,"run_a":l0,"run_b":l,"difference":why}));
                    }
                    if t != t0 {
                        ctx.violation("C19", "the extracted tree differs between two runs that differ only in pool size / scheduling", json!({"case":case,"variant":variant,"run_a":l0,"run_b":l}));
                    }
                }
            }
        }
    }
    stop.store(true, std::sync::atomic::Ordering::Relaxed);
    for b in burners {
        let _ = b.join();
    }
    let _ = Archive::<&[u8]>::read_header;
}
