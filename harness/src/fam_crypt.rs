//! `cli-crypt` family (C08, C16 at the CLI): archives written by `pna create / append / update /
//! chmod --keep-solid` with a password given through `--password=` or `--password-file`;
//! the produced bytes (all parts) are scanned for plaintext, names (solid mode), the password and the
//! derived keys; salts and IVs of all encrypted streams of the run must be pairwise distinct; and
//! `pna extract` is run with password pairs (equal / one character / case / trailing blank / trailing
//! newline / CRLF / unicode normalisation) through both channels.
use crate::cli::{run_pna, snapshot, Node, Sbx};
use crate::ctx::Ctx;
use crate::refdec;
use crate::util::{bytes, hex, rng_for};
use rand::Rng;
use serde_json::json;
use std::collections::BTreeSet;

fn contains(hay: &[u8], needle: &[u8]) -> bool {
    !needle.is_empty() && hay.windows(needle.len()).any(|w| w == needle)
}

/// (salt, iv, digest-of-stream, solid) for every encrypted stream in the parts, in order.
fn streams(parts: &[Vec<u8>]) -> Result<Vec<(String, Vec<u8>, String, bool, String)>, String> {
    let mut all: Vec<([u8; 4], Vec<u8>)> = vec![];
    for p in parts {
        let (cs, _) = refdec::chunks(p)?;
        for c in cs { if &c.0 != b"AHED" && &c.0 != b"ANXT" && &c.0 != b"AEND" { all.push(c); } }
    }
    let mut out = vec![];
    let mut cur: Option<(bool, u8, Option<String>, Vec<u8>)> = None;
    for (t, d) in all {
        match &t {
            b"FHED" if cur.as_ref().map(|c| !c.0).unwrap_or(true) => cur = Some((false, *d.get(4).unwrap_or(&0), None, vec![])),
            b"SHED" => cur = Some((true, *d.get(3).unwrap_or(&0), None, vec![])),
            b"PHSF" => if let Some(c) = cur.as_mut() { c.2 = Some(String::from_utf8_lossy(&d).to_string()); },
            b"FDAT" => if let Some(c) = cur.as_mut() { if !c.0 { c.3.extend_from_slice(&d); } },
            b"SDAT" => if let Some(c) = cur.as_mut() { if c.0 { c.3.extend_from_slice(&d); } },
            b"FEND" | b"SEND" => {
                if let Some(c) = cur.take() {
                    if (&t == b"SEND") != c.0 { cur = Some(c); continue; }
                    if c.1 != 0 {
                        let phsf = c.2.clone().ok_or("encrypted stream without PHSF")?;
                        let salt = refdec::parse_phc(&phsf).and_then(|p| p.salt).ok_or("PHSF without salt")?;
                        if c.3.len() < 16 { return Err("encrypted stream shorter than an IV".into()); }
                        out.push((salt, c.3[..16].to_vec(), crate::canon::digest(&c.3), c.0, phsf));
                    }
                }
            }
            _ => {}
        }
    }
    Ok(out)
}

fn parts_of(sbx: &Sbx, stem: &str) -> Vec<Vec<u8>> {
    if let Ok(b) = std::fs::read(sbx.path(&format!("{stem}.pna"))) { return vec![b]; }
    let mut v = vec![];
    for i in 1.. { match std::fs::read(sbx.path(&format!("{stem}.part{i}.pna"))) { Ok(b) => v.push(b), Err(_) => break } }
    v
}

pub fn cli_crypt(ctx: &mut Ctx) {
    let mut unsolid_runs = 0;
    let mut rng = rng_for(ctx.seed, "cli-crypt");
    ctx.rule = "real `pna create` with {--aes,--camellia} x {cbc,ctr} x {--pbkdf2 r=1..3, --argon2 t=1,m=8,p=1} x {--store,--deflate,--zstd} x {--solid} x {--split n} x password channel {--password=, --password-file} \
                followed by `append`, `experimental update`, `experimental chmod --keep-solid` and an `--unsolid` rewrite (chmod / strip / xattr set) with the password; every produced part scanned for 8-byte runs of the (incompressible) plaintext, entry names in solid mode, the password and the derived keys (raw/hex/base64); \
                salts and IVs of all distinct encrypted streams of the run pairwise distinct; `pna extract` with password pairs (equal, one character, case, trailing blank, trailing newline, CRLF, NFC/NFD, none) x both channels".into();
    let n = if ctx.thorough { 300 } else { 24 };
    let mut seen: Vec<(String, Vec<u8>, String)> = vec![];
    let mut dup_reported = false;
    for case in 0..n {
        let sbx = Sbx::new("crypt", case);
        std::fs::create_dir_all(sbx.path("t")).unwrap();
        let tag = hex(&bytes(&mut rng, 4));
        let nfiles = if case % 5 == 0 { 40 } else { rng.gen_range(2..6) };
        let mut files: Vec<(String, Vec<u8>)> = vec![];
        for i in 0..nfiles {
            let name = format!("t/secret-name-{tag}-{i}.bin");
            let k = rng.gen_range(64..400);
            let content = bytes(&mut rng, k);
            std::fs::write(sbx.path(&name), &content).unwrap();
            files.push((name, content));
        }
        // every third tree holds two names of one file (hard link): each name is its own entry and its own encrypted stream
        if case % 3 == 1 {
            let name = format!("t/second-name-{tag}.bin");
            if std::fs::hard_link(sbx.path(&files[0].0), sbx.path(&name)).is_ok() { let c = files[0].1.clone(); files.push((name, c)); ctx.count("tree:hard-linked-file"); }
        }
        // a symbolic link whose target is as recognisable as a file's content (before fix: commits in /repo link entries
        // were always written stored and unencrypted, also by --unsolid of an encrypted block)
        let link_target = format!("private/SECRET-TARGET-{tag}/payroll-2024.xlsx");
        let has_link = std::os::unix::fs::symlink(&link_target, sbx.path(&format!("t/link-{tag}"))).is_ok();
        let base = ["correct horse", "Pässwörd-7", "p4ss w0rd!", "secret\tTab", "x-y-z-1-2-3"][rng.gen_range(0..5)].to_string();
        let pw_w: String = match case % 6 { 0 => format!("{base}\n"), 1 => format!("{base} "), 2 => format!("{base}\r\n"), _ => base.clone() };
        let chan_w = if case % 2 == 0 { "file" } else { "arg" };
        std::fs::write(sbx.path("pw_w"), pw_w.as_bytes()).unwrap();
        let pw_args = |chan: &str, pw: &str, file: &str| -> Vec<String> { if chan == "file" { vec!["--password-file".into(), file.into()] } else { vec![format!("--password={pw}")] } };
        let cipher = [["--aes", "cbc"], ["--aes", "ctr"], ["--camellia", "cbc"], ["--camellia", "ctr"]][rng.gen_range(0..4)];
        let kdf: Vec<String> = if rng.gen_bool(0.5) { vec!["--pbkdf2".into(), format!("r={}", rng.gen_range(1..4))] } else { vec!["--argon2".into(), "t=1,m=8,p=1".into()] };
        let comp = ["--store", "--store", "--deflate", "--zstd"][rng.gen_range(0..4)];
        let solid = rng.gen_bool(0.5);
        let split = rng.gen_bool(0.4);
        let mut cargs: Vec<String> = vec!["--quiet".into(), "create".into(), "a.pna".into(), "-r".into(), comp.into(), cipher[0].into(), cipher[1].into()];
        cargs.extend(kdf.clone());
        cargs.extend(pw_args(chan_w, &pw_w, "pw_w"));
        if solid { cargs.push("--solid".into()); }
        if split { cargs.push("--split".into()); cargs.push(["400", "1500", "20000"][rng.gen_range(0..3)].into()); }
        cargs.push("t".into());
        let cv: Vec<&str> = cargs.iter().map(|s| s.as_str()).collect();
        let cr = run_pna(&sbx, &sbx.root, &cv, None, 120, &[]);
        let attrs = json!({"case":case,"create":cargs,"password":pw_w,"files":files.iter().map(|f| json!({"name":f.0,"len":f.1.len()})).collect::<Vec<_>>()});
        ctx.count(&format!("channel:{chan_w}")); ctx.count(if solid { "solid" } else { "normal" }); ctx.count(if split { "split" } else { "single" }); ctx.count(&format!("codec:{comp}"));
        ctx.oracle_eval();
        if cr.crashed() || cr.hung() { ctx.violation("C07", "`pna create` crashed or hung", json!({"case":attrs,"run":cr.brief()})); continue; }
        if !cr.ok() { ctx.count("create-failed"); ctx.notes.push(format!("create failed: {:?} {}", cargs, cr.stderr.chars().take(200).collect::<String>())); continue; }
        // --- scanning + freshness, after create and after each further command
        let mut scan = |ctx: &mut Ctx, stage: &str, stem: &str, files: &[(String, Vec<u8>)], solid_names_hidden: bool, seen: &mut Vec<(String, Vec<u8>, String)>, dup_reported: &mut bool| {
            let parts = parts_of(&sbx, stem);
            if parts.is_empty() { return; }
            ctx.oracle_eval();
            let all: Vec<u8> = parts.concat();
            for (name, content) in files {
                if content.windows(8).step_by(3).any(|w| contains(&all, w)) {
                    ctx.violation("C08", "the archive contains a run of the plaintext", json!({"case":attrs,"stage":stage,"file":name}));
                    break;
                }
                if solid_names_hidden && contains(&all, name.rsplit('/').next().unwrap().as_bytes()) {
                    ctx.violation("C08", "a solid encrypted archive exposes an entry name", json!({"case":attrs,"stage":stage,"file":name}));
                    break;
                }
            }
            if has_link && contains(&all, link_target.as_bytes()) {
                ctx.violation("C08", "an encrypted archive contains a symbolic link's target in clear", json!({"case":attrs,"stage":stage,"solid":solid_names_hidden,"link_target":link_target}));
            }
            if contains(&all, pw_w.trim_end().as_bytes()) { ctx.violation("C08", "the archive contains the password", json!({"case":attrs,"stage":stage})); }
            match streams(&parts) {
                Err(e) => ctx.notes.push(format!("stream scan failed ({stage}): {e}")),
                Ok(ss) => {
                    if ss.is_empty() { ctx.violation("C08", "`pna` was given a password but wrote no encrypted stream", json!({"case":attrs,"stage":stage})); }
                    let mut keys_checked = BTreeSet::new();
                    // within one archive every stream is a different entry or block: no two may share a salt or an IV, even
                    // when their cipher texts are equal (equal cipher text under one key/IV also tells which entries are identical)
                    for (i, a) in ss.iter().enumerate() {
                        if let Some(b) = ss[..i].iter().find(|b| b.0 == a.0 || b.1 == a.1) {
                            if !*dup_reported {
                                ctx.violation("C08", "two encrypted streams of one archive share a salt or an IV", json!({"case":attrs,"stage":stage,"salt":a.0,"iv":hex(&a.1),"other_salt":b.0,"other_iv":hex(&b.1),"same_cipher_text":a.2 == b.2}));
                                *dup_reported = true;
                            }
                        }
                    }
                    for (salt, iv, dig, _solid, phsf) in ss {
                        if refdec::parse_phc(&phsf).map(|p| p.hash.is_some()).unwrap_or(false) { ctx.violation("C08", "PHSF chunk contains the derived key (hash field present)", json!({"case":attrs,"stage":stage,"phsf":phsf})); }
                        if keys_checked.insert(phsf.clone()) && keys_checked.len() <= 3 {
                            if let Ok(key) = refdec::derive_key(&phsf, pw_w.as_bytes()) {
                                use base64::Engine;
                                for needle in [key.clone(), hex(&key).into_bytes(), base64::engine::general_purpose::STANDARD_NO_PAD.encode(&key).into_bytes()] {
                                    if contains(&all, &needle) { ctx.violation("C08", "the archive contains the derived key", json!({"case":attrs,"stage":stage})); }
                                }
                            }
                        }
                        if let Some(prev) = seen.iter().find(|(s, i, d)| *d != dig && (*s == salt || *i == iv)) {
                            if !*dup_reported {
                                ctx.violation("C08", "two encrypted streams share a salt or an IV", json!({"case":attrs,"stage":stage,"salt":salt,"iv":hex(&iv),"other_salt":prev.0,"other_iv":hex(&prev.1)}));
                                *dup_reported = true;
                            }
                        }
                        if !seen.iter().any(|(s, i, d)| *s == salt && *i == iv && *d == dig) { seen.push((salt, iv, dig)); }
                    }
                }
            }
        };
        scan(ctx, "create", "a", &files, solid, &mut seen, &mut dup_reported);
        // --- extraction with password pairs
        let nfd = base.replace('ä', "a\u{308}").replace('ö', "o\u{308}");
        let mut readers: Vec<(String, String)> = vec![("equal".into(), pw_w.clone())];
        readers.push(("one-char".into(), { let mut c: Vec<char> = pw_w.chars().collect(); c[1] = if c[1] == 'q' { 'r' } else { 'q' }; c.into_iter().collect() }));
        readers.push(("case".into(), if pw_w.to_uppercase() != pw_w { pw_w.to_uppercase() } else { pw_w.to_lowercase() }));
        readers.push(("trailing-newline".into(), if pw_w.ends_with('\n') { pw_w.trim_end_matches(['\r', '\n']).to_string() } else { format!("{pw_w}\n") }));
        readers.push(("trailing-blank".into(), if pw_w.ends_with(' ') { pw_w.trim_end().to_string() } else { format!("{pw_w} ") }));
        readers.push(("crlf".into(), if pw_w.ends_with("\r\n") { format!("{}\n", pw_w.trim_end()) } else { format!("{pw_w}\r\n") }));
        if nfd != base { readers.push(("unicode-normalisation".into(), pw_w.replace(&base, &nfd))); }
        let pick: Vec<usize> = if ctx.thorough { (0..readers.len()).collect() } else { let mut v = vec![0, 3]; v.push(1 + (case % (readers.len() - 1))); v.sort(); v.dedup(); v };
        let arch = if sbx.path("a.pna").exists() { "a.pna" } else { "a.part1.pna" };
        for (ri, idx) in pick.iter().enumerate() {
            let (label, pw_r) = &readers[*idx];
            for chan_r in if ctx.thorough || label == "equal" || label == "trailing-newline" { vec!["arg", "file"] } else { vec![if (case + ri) % 2 == 0 { "arg" } else { "file" }] } {
                let out = format!("out-{idx}-{chan_r}");
                std::fs::write(sbx.path("pw_r"), pw_r.as_bytes()).unwrap();
                let mut xargs: Vec<String> = vec!["--quiet".into(), "extract".into(), arch.into(), "--out-dir".into(), out.clone()];
                xargs.extend(pw_args(chan_r, pw_r, "pw_r"));
                let xv: Vec<&str> = xargs.iter().map(|s| s.as_str()).collect();
                let xr = run_pna(&sbx, &sbx.root, &xv, None, 120, &[]);
                ctx.oracle_eval();
                ctx.count(&format!("pair:{label}"));
                let xattrs = json!({"case":attrs,"pair":label,"reader_password":pw_r,"reader_channel":chan_r,"writer_channel":chan_w,"extract":xargs,"run":xr.brief()});
                if xr.crashed() || xr.hung() { ctx.violation("C16", "`pna extract` crashed or hung on a password attempt", xattrs.clone()); ctx.violation("C07", "`pna extract` crashed or hung", xattrs); continue; }
                let snap = snapshot(&sbx.path(&out));
                let recovered = files.iter().filter(|(n, c)| matches!(snap.get(n), Some(Node::File { content, .. }) if content == c)).count();
                if *pw_r == pw_w {
                    if !xr.ok() || recovered != files.len() { ctx.violation("C16", "the right password does not read the archive back", xattrs); }
                } else if recovered > 0 {
                    ctx.violation("C16", "a different password recovered the plaintext", xattrs);
                }
            }
        }
        {
            let xr = run_pna(&sbx, &sbx.root, &["--quiet", "extract", arch, "--out-dir", "out-none"], Some(b""), 60, &[]);
            ctx.oracle_eval();
            let snap = snapshot(&sbx.path("out-none"));
            let recovered = files.iter().filter(|(n, c)| matches!(snap.get(n), Some(Node::File { content, .. }) if content == c)).count();
            if xr.crashed() || xr.hung() { ctx.violation("C07", "`pna extract` without a password crashed or hung", json!({"case":attrs,"run":xr.brief()})); }
            else if xr.ok() || recovered > 0 { ctx.violation("C16", "extraction without a password did not fail", json!({"case":attrs,"run":xr.brief(),"recovered":recovered})); }
        }
        // --- rewrites of the freshly created solid archive (copies: `update` below rewrites everything as normal entries)
        let files0 = files.clone();
        if solid && !split {
            let _ = std::fs::copy(sbx.path("a.pna"), sbx.path("k.pna"));
            let _ = std::fs::copy(sbx.path("a.pna"), sbx.path("u.pna"));
        }
        if solid && !split {
            let mut a: Vec<String> = vec!["--quiet".into(), "experimental".into(), "chmod".into(), "--keep-solid".into()];
            a.extend(pw_args(chan_w, &pw_w, "pw_w"));
            a.extend(["k.pna".to_string(), "--".into(), "600".into(), format!("t/secret-name-{tag}-1.bin")]);
            let av: Vec<&str> = a.iter().map(|s| s.as_str()).collect();
            let r = run_pna(&sbx, &sbx.root, &av, None, 120, &[]);
            if r.crashed() || r.hung() { ctx.violation("C07", "`pna experimental chmod --keep-solid` crashed or hung", json!({"case":attrs,"run":r.brief()})); }
            if r.ok() { ctx.count("stage:keep-solid-rewrite"); scan(ctx, "keep-solid-rewrite", "k", &files0, true, &mut seen, &mut dup_reported); } else { ctx.count("keep-solid-rewrite-failed"); }
        }
        // (every entry written again derives its own key with the default argon2id cost: five such cases in the quick tier)
        if solid && !split && (ctx.thorough || unsolid_runs < 5) {
            unsolid_runs += 1;
            // the same archive rewritten with --unsolid: the entries leave the block's encrypted stream and must not
            // come out in the clear (names are visible in a non-solid archive by design)
            let which = (case + ctx.seed as usize) % 3;
            let mut a: Vec<String> = vec!["--quiet".into()];
            match which {
                0 => a.extend(["experimental".to_string(), "chmod".into(), "--unsolid".into()]),
                1 => a.extend(["strip".to_string(), "--unsolid".into()]),
                _ => a.extend(["experimental".to_string(), "xattr".into(), "set".into(), "--unsolid".into()]),
            }
            a.extend(pw_args(chan_w, &pw_w, "pw_w"));
            match which {
                0 => a.extend(["u.pna".to_string(), "--".into(), "640".into(), format!("t/secret-name-{tag}-1.bin")]),
                1 => a.extend(["u.pna".to_string()]),
                _ => a.extend(["u.pna".to_string(), "--name".into(), "user.k".into(), "--value".into(), "v".into(), format!("t/secret-name-{tag}-1.bin")]),
            }
            let av: Vec<&str> = a.iter().map(|s| s.as_str()).collect();
            let r = run_pna(&sbx, &sbx.root, &av, None, 120, &[]);
            if r.crashed() || r.hung() { ctx.violation("C07", "an --unsolid rewrite of an encrypted solid archive crashed or hung", json!({"case":attrs,"argv":av,"run":r.brief()})); }
            if r.ok() {
                ctx.count("stage:unsolid-rewrite");
                scan(ctx, "unsolid-rewrite", "u", &files0, false, &mut seen, &mut dup_reported);
                // and the password still recovers every file
                let _ = std::fs::remove_dir_all(sbx.path("ou"));
                let mut x: Vec<String> = vec!["--quiet".into(), "extract".into(), "u.pna".into(), "--out-dir".into(), "ou".into(), "--overwrite".into()];
                x.extend(pw_args(chan_w, &pw_w, "pw_w"));
                let xv: Vec<&str> = x.iter().map(|s| s.as_str()).collect();
                let xr = run_pna(&sbx, &sbx.root, &xv, None, 120, &[]);
                ctx.oracle_eval();
                let lost: Vec<&String> = files0.iter().filter(|(n, c)| std::fs::read(sbx.path(&format!("ou/{n}"))).map(|b| &b != c).unwrap_or(true)).map(|(n, _)| n).collect();
                if !xr.ok() || !lost.is_empty() {
                    ctx.violation("C16", "after an --unsolid rewrite of an encrypted solid archive the right password no longer recovers every file", json!({"case":attrs,"argv":av,"run":xr.brief(),"lost":lost}));
                }
            } else { ctx.count("unsolid-rewrite-failed"); ctx.notes.push(format!("unsolid rewrite failed: {:?} {}", av, r.stderr.chars().take(200).collect::<String>())); }
        }
        // --- further writers: append / update / keep-solid rewrite (single-file archives only)
        if !split {
            let name = format!("t/secret-name-{tag}-appended.bin");
            let content = bytes(&mut rng, 200);
            std::fs::write(sbx.path(&name), &content).unwrap();
            files.push((name.clone(), content));
            let mut a: Vec<String> = vec!["--quiet".into(), "append".into(), "a.pna".into(), comp.into(), cipher[0].into(), cipher[1].into()];
            a.extend(kdf.clone()); a.extend(pw_args(chan_w, &pw_w, "pw_w")); a.push(name.clone());
            let av: Vec<&str> = a.iter().map(|s| s.as_str()).collect();
            let r = run_pna(&sbx, &sbx.root, &av, None, 120, &[]);
            if r.crashed() || r.hung() { ctx.violation("C07", "`pna append` crashed or hung", json!({"case":attrs,"run":r.brief()})); }
            if r.ok() { ctx.count("stage:append"); scan(ctx, "append", "a", &files, false, &mut seen, &mut dup_reported); }
            // update after modifying one file
            let (n0, _) = files[0].clone();
            let c0 = bytes(&mut rng, 150);
            std::fs::write(sbx.path(&n0), &c0).unwrap();
            files[0].1 = c0;
            // with the codec/cipher/KDF named again, or with the password alone (the defaults apply)
            let mut a: Vec<String> = vec!["--quiet".into(), "experimental".into(), "update".into(), "--unstable".into(), "a.pna".into(), "-r".into()];
            if case % 2 == 0 { a.extend([comp.to_string(), cipher[0].to_string(), cipher[1].to_string()]); a.extend(kdf.clone()); } else { ctx.count("update:password-alone"); }
            a.extend(pw_args(chan_w, &pw_w, "pw_w")); a.push("t".into());
            let av: Vec<&str> = a.iter().map(|s| s.as_str()).collect();
            let r = run_pna(&sbx, &sbx.root, &av, None, 120, &[]);
            if r.crashed() || r.hung() { ctx.violation("C07", "`pna experimental update` crashed or hung", json!({"case":attrs,"run":r.brief()})); }
            if r.ok() { ctx.count("stage:update"); scan(ctx, "update", "a", &files, false, &mut seen, &mut dup_reported); }
        }
        ctx.case_free();
    }
    ctx.notes.push(format!("freshness: {} distinct encrypted streams observed across the run", seen.len()));
}
