//! Codec-level families: codec (headers, metadata, names) and entry (parse / re-serialise).
use crate::canon;
use crate::ctx::Ctx;
use crate::fam_frame::hostile_payload_pub as hostile_payload;
use crate::gen::{self, frame};
use crate::util::{bytes, catch, err_kind, hex, hexw, rng_for, size};
use libpna::*;
use rand::seq::SliceRandom;
use rand::Rng;
use serde_json::json;
use std::path::Path;

fn ans<T>(r: Result<std::io::Result<T>, String>, f: impl Fn(T) -> String) -> String {
    match r {
        Err(p) => format!("panic {p}"),
        Ok(Err(e)) => format!("err {}", err_kind(&e)),
        Ok(Ok(v)) => format!("ok {}", f(v)),
    }
}

fn gen_utf8_string(rng: &mut impl Rng) -> String {
    let parts = ["a", "b.txt", "..", ".", "", "dir", "ü", "日本", " ", "...", "..a", "a..", "x y", "-", "\\", "C:", "~"];
    let n = rng.gen_range(0..6);
    let mut s = String::new();
    if rng.gen_bool(0.3) {
        s.push('/');
    }
    for i in 0..n {
        if i > 0 {
            s.push('/');
            if rng.gen_bool(0.15) {
                s.push('/');
            }
        }
        s.push_str(parts[rng.gen_range(0..parts.len())]);
    }
    if rng.gen_bool(0.2) {
        s.push('/');
    }
    s
}

fn perm_s(p: &Permission) -> String {
    format!("{},{},{},{},{}", p.uid(), hexw(p.uname().as_bytes()), p.gid(), hexw(p.gname().as_bytes()), p.permissions())
}

pub fn codec(ctx: &mut Ctx) {
    let mut rng = rng_for(ctx.seed, "codec");
    ctx.rule = "per codec (AHED, FHED, SHED, fPRM, xATR, entry names, link references, UTF-8 validation): generated valid values through \
                encode then decode, plus hostile/truncated payloads through decode; non-trivial = payload non-empty; distinct by request line".into();
    let n = if ctx.thorough { 5000 } else { 500 };
    for it in 0..n {
        // AHED
        let p = if rng.gen_bool(0.6) { bytes(&mut rng, 8) } else { let k = size(&mut rng, 12); bytes(&mut rng, k) };
        let pp = p.clone();
        let a = ans(catch(move || libpna::verif::ahed_from_bytes(&pp)), |(a, b, c)| format!("{a}.{b}.{c}"));
        ctx.case(json!({"codec":"ahed"}), format!("ahed.dec {}", hexw(&p)), a, !p.is_empty());
        let (maj, min, num): (u8, u8, u32) = (rng.gen(), rng.gen(), if rng.gen_bool(0.3) { u32::MAX - rng.gen_range(0..3) } else { rng.gen() });
        let enc = libpna::verif::ahed_to_bytes(maj, min, num);
        ctx.case(json!({"codec":"ahed"}), format!("ahed.enc {maj} {min} {num}"), format!("ok {}", hex(&enc)), true);
        ctx.oracle_eval();
        if libpna::verif::ahed_from_bytes(&enc).ok() != Some((maj, min, num)) {
            ctx.violation("C15", "AHED decode(encode(h)) != h", json!({"major":maj,"minor":min,"number":num}));
        }
        // FHED
        let p = if rng.gen_bool(0.5) {
            let mut v = vec![0u8, 0, rng.gen_range(0..4), [0u8, 1, 2, 4][rng.gen_range(0..4)], rng.gen_range(0..3), rng.gen_range(0..2)];
            v.extend(gen_utf8_string(&mut rng).as_bytes());
            v
        } else {
            hostile_payload(&mut rng, b"FHED")
        };
        let pp = p.clone();
        let a = ans(catch(move || libpna::verif::fhed_from_bytes(&pp)), |(a, b, k, c, e, m, n)| format!("{a}.{b}.{k}.{c}.{e}.{m}:{}", hexw(n.as_bytes())));
        let pp = p.clone();
        let re = ans(catch(move || libpna::verif::fhed_reencode(&pp)), |v| hex(&v));
        ctx.oracle_eval();
        if let Some(h) = re.strip_prefix("ok ") {
            let b = crate::util::unhex(h).unwrap();
            let again = ans(catch(move || libpna::verif::fhed_from_bytes(&b)), |(a, b, k, c, e, m, n)| format!("{a}.{b}.{k}.{c}.{e}.{m}:{}", hexw(n.as_bytes())));
            // stability: decoding the re-encoding gives the same header, whatever the version bytes
            if again != a {
                ctx.violation("C15", "FHED decode(encode(decode(bytes))) != decode(bytes)", json!({"payload":hex(&p),"first":a,"again":again}));
            }
        }
        ctx.case(json!({"codec":"fhed"}), format!("fhed.dec {}", hexw(&p)), a, true);
        ctx.case(json!({"codec":"fhed"}), format!("fhed.reenc {}", hexw(&p)), re, true);
        // SHED
        let p = hostile_payload(&mut rng, b"SHED");
        let pp = p.clone();
        let a = ans(catch(move || libpna::verif::shed_from_bytes(&pp)), |(a, b, c, e, m)| format!("{a}.{b}.{c}.{e}.{m}"));
        let pp = p.clone();
        let re = ans(catch(move || libpna::verif::shed_reencode(&pp)), |v| hex(&v));
        ctx.oracle_eval();
        if a.starts_with("ok") && re != format!("ok {}", hex(&p)) {
            ctx.violation("C15", "SHED encode(decode(bytes)) != bytes", json!({"payload":hex(&p),"reenc":re}));
        }
        ctx.case(json!({"codec":"shed"}), format!("shed.dec {}", hexw(&p)), a, !p.is_empty());
        ctx.case(json!({"codec":"shed"}), format!("shed.reenc {}", hexw(&p)), re, !p.is_empty());
        // fPRM
        let long = rng.gen_bool(0.04) || it == 0; // it == 0: corpus witness of C15-fprm-name-over-255
        let name = |rng: &mut rand_chacha::ChaCha8Rng, long: bool| -> String {
            if long { "n".repeat(rng.gen_range(256..300)) } else { ["", "root", "ünï", "user name", &"x".repeat(255)][rng.gen_range(0..5)].to_string() }
        };
        let perm = Permission::new(rng.gen::<u64>() >> rng.gen_range(0..64), name(&mut rng, long), rng.gen::<u64>() >> rng.gen_range(0..64), name(&mut rng, false), rng.gen());
        let enc = libpna::verif::fprm_to_bytes(&perm);
        ctx.case(json!({"codec":"fprm","long_name":long}), format!("fprm.enc {} {} {} {} {}", perm.uid(), hexw(perm.uname().as_bytes()), perm.gid(), hexw(perm.gname().as_bytes()), perm.permissions()), format!("ok {}", hex(&enc)), true);
        ctx.oracle_eval();
        let back = libpna::verif::fprm_from_bytes(&enc);
        if back.as_ref().ok() != Some(&perm) {
            ctx.violation("C15", "fPRM decode(encode(p)) != p", json!({"uname_len":perm.uname().len(),"gname_len":perm.gname().len(),"uname_over_255": perm.uname().len() > 255 || perm.gname().len() > 255,"decoded":back.as_ref().map(perm_s).map_err(|e| e.to_string())}));
        }
        let p = if rng.gen_bool(0.5) { enc.clone() } else { hostile_payload(&mut rng, b"fPRM") };
        let pp = p.clone();
        let a = ans(catch(move || libpna::verif::fprm_from_bytes(&pp)), |p| perm_s(&p));
        ctx.case(json!({"codec":"fprm"}), format!("fprm.dec {}", hexw(&p)), a, !p.is_empty());
        // every prefix of a valid record (truncation inside each field)
        if it % 10 == 0 && enc.len() < 700 {
            for k in 0..enc.len() {
                let pp = enc[..k].to_vec();
                let a = ans(catch(move || libpna::verif::fprm_from_bytes(&pp)), |p| perm_s(&p));
                ctx.case(json!({"codec":"fprm","prefix":k}), format!("fprm.dec {}", hexw(&enc[..k])), a, k > 0);
            }
        }
        // xATR
        let x = ExtendedAttribute::new(["user.a", "", "security.selinux", "ü.k"][rng.gen_range(0..4)].to_string(), { let k = size(&mut rng, 60); bytes(&mut rng, k) });
        let enc = libpna::verif::xattr_to_bytes(&x);
        ctx.case(json!({"codec":"xatr"}), format!("xatr.enc {} {}", hexw(x.name().as_bytes()), hexw(x.value())), format!("ok {}", hex(&enc)), true);
        ctx.oracle_eval();
        if libpna::verif::xattr_from_bytes(&enc).ok().as_ref() != Some(&x) {
            ctx.violation("C15", "xATR decode(encode(x)) != x", json!({"name":x.name(),"value":hex(x.value())}));
        }
        let p = if rng.gen_bool(0.4) { enc.clone() } else { hostile_payload(&mut rng, b"xATR") };
        let pp = p.clone();
        let a = ans(catch(move || libpna::verif::xattr_from_bytes(&pp)), |x| format!("{}:{}", hexw(x.name().as_bytes()), hexw(x.value())));
        if a.starts_with("panic") {
            ctx.violation("C07", "xATR parser panicked", json!({"payload":hex(&p)}));
        }
        ctx.case(json!({"codec":"xatr"}), format!("xatr.dec {}", hexw(&p)), a, !p.is_empty());
        if it % 10 == 0 {
            for k in 0..enc.len() {
                let pp = enc[..k].to_vec();
                let a = ans(catch(move || libpna::verif::xattr_from_bytes(&pp)), |x| format!("{}:{}", hexw(x.name().as_bytes()), hexw(x.value())));
                ctx.case(json!({"codec":"xatr","prefix":k}), format!("xatr.dec {}", hexw(&enc[..k])), a, k > 0);
            }
        }
        // names
        let s = gen_utf8_string(&mut rng);
        let n1 = EntryName::from(s.as_str());
        let n2 = EntryName::from_lossy(s.as_str());
        let n3 = EntryName::try_from(Path::new(&s)).unwrap();
        let n4 = EntryName::try_from(s.as_bytes()).unwrap();
        let n5 = EntryName::from(s.clone());
        ctx.oracle_eval();
        if !(n1 == n2 && n2 == n3 && n3 == n4 && n4 == n5) {
            ctx.violation("C09", "EntryName constructors disagree", json!({"input":s}));
        }
        let out = n1.as_str();
        if out.starts_with('/') || out.split('/').any(|c| c.is_empty() || c == "." || c == "..") && !out.is_empty() {
            ctx.violation("C09", "sanitised entry name still has a root, empty, `.` or `..` component", json!({"input":s,"output":out}));
        }
        if EntryName::from(out).as_str() != out {
            ctx.violation("C09", "sanitising is not idempotent", json!({"input":s,"output":out}));
        }
        ctx.case(json!({"codec":"name"}), format!("name.sanitize {}", hexw(s.as_bytes())), format!("ok {}", hexw(out.as_bytes())), !s.is_empty());
        let r1 = EntryReference::from(s.as_str());
        ctx.case(json!({"codec":"ref"}), format!("ref.normalize {}", hexw(s.as_bytes())), format!("ok {}", hexw(r1.as_str().as_bytes())), !s.is_empty());
        ctx.oracle_eval();
        if EntryReference::from(r1.as_str()).as_str() != r1.as_str() {
            ctx.violation("C15", "EntryReference normalisation is not idempotent", json!({"input":s,"output":r1.as_str()}));
        }
        // UTF-8 validator cross-check on a malformed stream
        let mut u = if rng.gen_bool(0.5) { gen_utf8_string(&mut rng).into_bytes() } else { let k = size(&mut rng, 12); bytes(&mut rng, k) };
        if rng.gen_bool(0.3) && !u.is_empty() { let k = rng.gen_range(0..u.len()); u[k] = [0xc0, 0xed, 0xa0, 0xf4, 0x90, 0xff, 0x80, 0xe0][rng.gen_range(0..8)]; }
        ctx.case(json!({"codec":"utf8"}), format!("utf8 {}", hexw(&u)), format!("ok {}", std::str::from_utf8(&u).is_ok() as u8), !u.is_empty());
    }
}

type CL = Vec<([u8; 4], Vec<u8>)>;

fn chunks_wire(cs: &CL) -> String {
    if cs.is_empty() {
        return "-".into();
    }
    cs.iter().map(|(t, d)| format!("{}:{}", hex(t), hexw(d))).collect::<Vec<_>>().join(",")
}

fn list_digest(cs: &CL) -> String {
    let mut all = vec![];
    for (t, d) in cs {
        all.extend(frame(t, d));
    }
    format!("{}/{}", cs.len(), canon::digest(&all))
}

/// a chunk list for one entry: built by the library, then rearranged like a foreign writer might
fn gen_entry_chunks(rng: &mut rand_chacha::ChaCha8Rng) -> (CL, &'static str) {
    let spec = gen::gen_entry(rng, 80);
    let cfg = if rng.gen_bool(0.5) { gen::Cfg::plain() } else { gen::gen_cfg(rng, false) };
    let solid = rng.gen_bool(0.2);
    let mut cs: CL = if solid {
        let mut sb = SolidEntryBuilder::new(cfg.options()).unwrap();
        sb.add_entry(spec.build(&gen::Cfg::plain()).unwrap()).unwrap();
        for (t, d) in &spec.extras {
            sb.add_extra_chunk(libpna::verif::raw_chunk(*t, d));
        }
        libpna::verif::entry_into_chunks(sb.build().unwrap())
    } else {
        libpna::verif::entry_into_chunks(spec.build(&cfg).unwrap())
    };
    let style = rng.gen_range(0..8);
    let label = match style {
        0 | 1 => "canonical",
        2 => {
            // shuffle the interior (foreign order: metadata before/after data)
            let n = cs.len();
            if n > 3 { cs[1..n - 1].shuffle(rng); }
            "shuffled"
        }
        3 => {
            // re-cut data chunks
            let dt: [u8; 4] = if solid { *b"SDAT" } else { *b"FDAT" };
            let mut out: CL = vec![];
            for (t, d) in cs.into_iter() {
                if t == dt && !d.is_empty() {
                    let k = rng.gen_range(0..=d.len());
                    out.push((t, d[..k].to_vec()));
                    if rng.gen_bool(0.3) { out.push((t, vec![])); }
                    out.push((t, d[k..].to_vec()));
                } else { out.push((t, d)); }
            }
            cs = out;
            "recut"
        }
        4 => {
            // duplicate a singleton / insert unknown chunk
            let k = rng.gen_range(0..cs.len());
            let c = cs[k].clone();
            let pos = rng.gen_range(1..=cs.len().max(2) - 1);
            cs.insert(pos.min(cs.len()), c);
            let pos = rng.gen_range(1..cs.len());
            cs.insert(pos, (gen::gen_private_type(rng), bytes(rng, 3)));
            "dup+unknown"
        }
        5 => {
            // hostile payload in one chunk
            let k = rng.gen_range(0..cs.len());
            let t = cs[k].0;
            cs[k].1 = hostile_payload(rng, &t);
            "hostile-payload"
        }
        6 => {
            // structural damage: drop first/last, wrong first
            match rng.gen_range(0..4) {
                0 => { cs.remove(0); }
                1 => { cs.pop(); }
                2 => { cs.clear(); }
                _ => { cs[0].0 = *b"FDAT"; }
            }
            "structural"
        }
        _ => {
            // version bytes
            if !solid { let v = &mut cs[0].1; if v.len() >= 2 { v[0] = rng.gen_range(0..2); v[1] = rng.gen_range(0..2); } }
            "version"
        }
    };
    (cs, label)
}

pub fn entry(ctx: &mut Ctx) {
    let mut rng = rng_for(ctx.seed, "entry");
    ctx.rule = "one entry's chunk list: built by the real builders (normal and solid, all codecs/ciphers, metadata, xattrs, private chunks) then left canonical, \
                shuffled (foreign order), data re-cut incl. empty chunks, singletons duplicated + unknown chunks inserted, one payload made hostile, \
                structure damaged, version bytes set; through ReadEntry::try_from, into_chunks, write_in; non-trivial = list non-empty; distinct by request line".into();
    let n = if ctx.thorough { 6000 } else { 600 };
    for _ in 0..n {
        let (cs, label) = gen_entry_chunks(&mut rng);
        ctx.count(label);
        let wire = chunks_wire(&cs);
        let c1 = cs.clone();
        let parsed = catch(move || libpna::verif::read_entry_from_chunks(&c1));
        let a = ans(parsed, |e| canon::entry_s(&e));
        if a.starts_with("panic") {
            ctx.violation("C07", "entry parser panicked", json!({"chunks":wire,"label":label}));
        }
        ctx.case(json!({"op":"parse","label":label,"n":cs.len()}), format!("entry.parse {wire}"), a.clone(), !cs.is_empty());
        if a.starts_with("ok") {
            let e = libpna::verif::read_entry_from_chunks(&cs).unwrap();
            let (wbytes, wcount) = libpna::verif::entry_write_in(&e).unwrap();
            let ser = libpna::verif::entry_into_chunks(e.clone());
            let mut ser_bytes = vec![];
            for (t, d) in &ser { ser_bytes.extend(frame(t, d)); }
            ctx.oracle_eval();
            if wcount != wbytes.len() {
                ctx.violation("C18", "write_in returned a count different from the bytes written", json!({"chunks":wire,"count":wcount,"written":wbytes.len()}));
            }
            if wbytes != ser_bytes {
                ctx.violation("C13", "write_in and into_chunks serialise the same entry differently", json!({"chunks":wire}));
            }
            ctx.case(json!({"op":"reser","label":label}), format!("entry.reser {wire}"), format!("ok {}", list_digest(&ser)), true);
            // second pass
            let second = libpna::verif::read_entry_from_chunks(&ser);
            match second {
                Ok(e2) => {
                    let ser2 = libpna::verif::entry_into_chunks(e2.clone());
                    if ser2 != ser {
                        ctx.violation("C13", "re-serialisation is not byte-stable from the second pass on", json!({"chunks":wire,"label":label}));
                    }
                    // meaning preserved: same canonical rendering up to data slicing
                    let m1 = meaning(&canon::entry_s(&e));
                    let m2 = meaning(&canon::entry_s(&e2));
                    if m1 != m2 {
                        ctx.violation("C13", "decode -> write -> decode changed the entry's meaning", json!({"chunks":wire,"label":label,"first":m1,"second":m2}));
                        ctx.violation("C15", "an entry's metadata does not decode back to the value that was encoded (into_chunks)", json!({"chunks":wire,"label":label,"first":m1,"second":m2}));
                    }
                    // the streaming encoder (write_in) must decode back as well
                    if let Ok(mut a) = libpna::Archive::read_header(&[&crate::gen::SIG[..], &frame(b"AHED", &[0; 8]), &wbytes[..], &frame(b"AEND", &[])].concat()[..]) {
                        if let Some(Ok(e3)) = a.entries().next() {
                            let m3 = meaning(&canon::entry_s(&e3));
                            if m3 != m1 { ctx.violation("C15", "an entry's metadata does not decode back to the value that was encoded (write_in)", json!({"chunks":wire,"label":label,"first":m1,"second":m3})); }
                        }
                    }
                    ctx.case(json!({"op":"reser2","label":label}), format!("entry.reser2 {wire}"), format!("ok {}", list_digest(&ser2)), true);
                }
                Err(err) => {
                    ctx.violation("C13", "an entry the library parsed and wrote back cannot be parsed again", json!({"chunks":wire,"label":label,"error":err.to_string()}));
                    ctx.case(json!({"op":"reser2","label":label}), format!("entry.reser2 {wire}"), format!("err {}", err_kind(&err)), true);
                }
            }
        }
    }
}

/// canonical rendering with the data-slice count removed (`d=<n>/<len>/<crc>` → `d=<len>/<crc>`)
fn meaning(s: &str) -> String {
    s.split(':')
        .map(|f| {
            if let Some(r) = f.strip_prefix("d=") {
                let mut it = r.splitn(2, '/');
                let _ = it.next();
                format!("d={}", it.next().unwrap_or(""))
            } else {
                f.to_string()
            }
        })
        .collect::<Vec<_>>()
        .join(":")
}
