//! `fault` family (C12): in-place commands made to fail at the k-th processed item, on the real binary.
//! Faults: an input whose read fails (a regular file returning EIO) at position k of the inputs (append, update); the k-th
//! entry of the archive corrupted (CRC) or the k-th solid block written with another password
//! (delete, strip, chmod, chown, xattr, acl, migrate, update).  Afterwards the archive file must be
//! byte-identical to what it was, or a valid archive still holding every original entry.
use crate::cli::{run_pna, Sbx};
use crate::ctx::Ctx;
use crate::gen::frame;
use crate::util::{bytes, rng_for};
use libpna::*;
use rand::Rng;
use serde_json::json;
use std::io::Write;

fn names_of(archive: &[u8], password: Option<&str>) -> Result<Vec<String>, String> {
    let a = archive.to_vec();
    let pw = password.map(|s| s.to_string());
    match crate::util::catch(move || -> std::io::Result<Vec<String>> {
        let mut ar = Archive::read_header(&a[..])?;
        let mut v = vec![];
        for e in ar.entries() {
            match e? {
                ReadEntry::Normal(e) => v.push(e.header().path().as_str().to_string()),
                ReadEntry::Solid(s) => match s.entries(pw.as_deref()) {
                    Ok(it) => {
                        for e in it.take(10_000) {
                            match e {
                                Ok(e) => v.push(e.header().path().as_str().to_string()),
                                Err(_) => {
                                    v.push("<unreadable>".into());
                                    break;
                                }
                            }
                        }
                    }
                    Err(_) => v.push("<solid:locked>".into()),
                },
            }
        }
        Ok(v)
    }) {
        Ok(Ok(v)) => Ok(v),
        Ok(Err(e)) => Err(e.to_string()),
        Err(p) => Err(format!("panic {p}")),
    }
}

pub fn fault(ctx: &mut Ctx) {
    let mut rng = rng_for(ctx.seed, "fault");
    ctx.rule = "archives of 1..6 items (normal entries and solid blocks) x commands {append, update (failing input new to the archive, or with the name of an archived entry), append/update with 131 inputs and the fault around positions 32/64/128, delete, strip, chmod, chown, xattr set, acl set, migrate --output onto the archive} x fault kind {unreadable regular file among the inputs (read fails with EIO), corrupted entry (CRC), solid block under another password with --unsolid} \
                x every fault position k (and no fault); the real binary is run, exit status taken, and the archive file compared with its bytes before: identical, or valid and containing every original entry; compared with the model's outcome (fail unchanged | ok n=…)".into();
    let rounds = if ctx.thorough { 40 } else { 5 };
    let mut case_no = 0;
    for round in 0..rounds {
        for cmd in ["append", "update", "update-same-name", "append-many", "update-many", "delete", "strip", "chmod", "chown", "xattr", "acl", "migrate", "chmod-unsolid"] {
            let many = cmd.ends_with("-many");
            if many && round > 0 && !ctx.thorough {
                continue;
            }
            let n = rng.gen_range(1..6usize);
            // fault positions: every k, plus "no fault"
            let width = if many { 131 } else if cmd == "append" || cmd == "update" { rng.gen_range(1..5usize) } else { n };
            for k in 0..=width {
                // many inputs: the positions around plausible batch sizes
                if many && ![0usize, 31, 32, 63, 64, 65, 127, 128, 130, 131].contains(&k) {
                    continue;
                }
                if !many && !ctx.thorough && round > 0 && k != (round + case_no) % (width + 1) {
                    continue;
                }
                let cmd = if many { cmd.trim_end_matches("-many") } else { cmd };
                case_no += 1;
                let sbx = Sbx::new("fault", case_no);
                std::fs::create_dir_all(sbx.path("t")).unwrap();
                let fault_here = k < width;
                // ---------- the archive
                let pw = "pw-1";
                let mut archive: Vec<u8> = vec![];
                let mut entry_names: Vec<String> = vec![];
                let solid_cmd = cmd == "chmod-unsolid";
                {
                    let mut w = Archive::write_header(&mut archive).unwrap();
                    for i in 0..n {
                        let name = format!("t/f{i}");
                        let content = bytes(&mut rng, 40 + i);
                        std::fs::write(sbx.path(&name), &content).unwrap();
                        if solid_cmd {
                            // each item is a solid block; the k-th one under another password
                            let p = if fault_here && i == k { "another" } else { pw };
                            let opt = WriteOptions::builder().encryption(Encryption::Aes).cipher_mode(CipherMode::CTR).hash_algorithm(HashAlgorithm::pbkdf2_sha256_with(Some(1))).password(Some(p)).build();
                            let mut sb = SolidEntryBuilder::new(opt).unwrap();
                            let mut e = EntryBuilder::new_file(name.as_str().into(), WriteOptions::store()).unwrap();
                            e.write_all(&content).unwrap();
                            sb.add_entry(e.build().unwrap()).unwrap();
                            w.add_entry(sb.build().unwrap()).unwrap();
                        } else {
                            let mut e = EntryBuilder::new_file(name.as_str().into(), WriteOptions::store()).unwrap();
                            e.write_all(&content).unwrap();
                            w.add_entry(e.build().unwrap()).unwrap();
                        }
                        entry_names.push(name);
                    }
                    w.finalize().unwrap();
                }
                let same_name = cmd == "update-same-name";
                let input_fault = cmd == "append" || cmd == "update" || same_name;
                if fault_here && !input_fault && !solid_cmd {
                    // corrupt the k-th entry: flip one payload byte of its FDAT chunk (the CRC no longer matches)
                    let mut pos = 8;
                    let mut item = 0;
                    while pos + 12 <= archive.len() {
                        let len = u32::from_be_bytes(archive[pos..pos + 4].try_into().unwrap()) as usize;
                        let ty = &archive[pos + 4..pos + 8];
                        if ty == b"FDAT" && item == k {
                            archive[pos + 8 + len / 2] ^= 0x10;
                            break;
                        }
                        if ty == b"FEND" {
                            item += 1;
                        }
                        pos += 12 + len;
                    }
                }
                std::fs::write(sbx.path("a.pna"), &archive).unwrap();
                // ---------- the command
                let mut args: Vec<String> = vec!["--quiet".into()];
                let mut model_req = String::new();
                let mut new_inputs: Vec<String> = vec![];
                if same_name && fault_here {
                    // the k-th archived file is now an object the entry builder refuses (a FIFO; passed on by the walker with --keep-dir)
                    let f = sbx.path(&format!("t/f{k}"));
                    let _ = std::fs::remove_file(&f);
                    let c = std::ffi::CString::new(f.to_string_lossy().as_bytes()).unwrap();
                    unsafe { libc::mkfifo(c.as_ptr(), 0o644) };
                }
                if input_fault && !same_name {
                    for i in 0..width {
                        let g = format!("t/g{i}");
                        if fault_here && i == k {
                            // a regular file whose read fails (EIO): the entry cannot be built.  (A FIFO or socket
                            // is not a failing input: the walker leaves such objects out.)
                            new_inputs.push("/proc/self/mem".into());
                            continue;
                        }
                        std::fs::write(sbx.path(&g), bytes(&mut rng, 30)).unwrap();
                        new_inputs.push(g);
                    }
                }
                let pat_inputs: String = (0..width).map(|i| if fault_here && i == k { '0' } else { '1' }).collect();
                let pat_entries = |drop: &dyn Fn(usize) -> bool| -> String { (0..n).map(|i| if fault_here && i == k { 'x' } else if drop(i) { 'd' } else { 'k' }).collect() };
                match cmd {
                    "append" => {
                        args.extend(["append", "a.pna", "--store"].map(String::from));
                        args.extend(new_inputs.iter().cloned());
                        model_req = format!("fault append {n} {}", if pat_inputs.is_empty() { "-".into() } else { pat_inputs.clone() });
                    }
                    "update-same-name" => {
                        args.extend(["experimental", "update", "--unstable", "a.pna", "--store", "--keep-dir", "-r", "t"].map(String::from));
                        // the n archived files are replaced (the k-th replacement cannot be built), the directory entry is new
                        model_req = format!("fault rewrite {n} {} 1", pat_entries(&|_| false));
                    }
                    "update" => {
                        args.extend(["experimental", "update", "--unstable", "a.pna", "--store"].map(String::from));
                        args.extend(new_inputs.iter().cloned());
                        model_req = format!("fault rewrite {n} {} {}", "k".repeat(n), if pat_inputs.is_empty() { "-".into() } else { pat_inputs.clone() });
                    }
                    "delete" => {
                        let victim = rng.gen_range(0..n);
                        args.extend(["experimental", "delete", "--unstable", "a.pna"].map(String::from));
                        args.push(format!("t/f{victim}"));
                        model_req = format!("fault rewrite {n} {} -", pat_entries(&|i| i == victim));
                    }
                    "strip" => {
                        args.extend(["strip", "a.pna"].map(String::from));
                        model_req = format!("fault rewrite {n} {} -", pat_entries(&|_| false));
                    }
                    "chmod" => {
                        args.extend(["experimental", "chmod", "a.pna", "--", "600", "t/f0"].map(String::from));
                        model_req = format!("fault rewrite {n} {} -", pat_entries(&|_| false));
                    }
                    "chown" => {
                        args.extend(["experimental", "chown", "a.pna", "root", "t/f0"].map(String::from));
                        model_req = format!("fault rewrite {n} {} -", pat_entries(&|_| false));
                    }
                    "xattr" => {
                        args.extend(["experimental", "xattr", "set", "a.pna", "--name", "user.k", "--value", "v", "t/f0"].map(String::from));
                        model_req = format!("fault rewrite {n} {} -", pat_entries(&|_| false));
                    }
                    "acl" => {
                        args.extend(["experimental", "acl", "set", "--unstable", "a.pna", "-m", "u:alice:allow:r", "t/f0"].map(String::from));
                        model_req = format!("fault rewrite {n} {} -", pat_entries(&|_| false));
                    }
                    "migrate" => {
                        args.extend(["experimental", "migrate", "--unstable", "a.pna", "--output", "a.pna"].map(String::from));
                        model_req = format!("fault rewrite {n} {} -", pat_entries(&|_| false));
                    }
                    _ => {
                        args.extend(["experimental", "chmod", "--unsolid", "--password=pw-1", "a.pna", "--", "600", "t/f0"].map(String::from));
                        model_req = format!("fault rewrite {n} {} -", pat_entries(&|_| false));
                    }
                }
                let before = std::fs::read(sbx.path("a.pna")).unwrap();
                let av: Vec<&str> = args.iter().map(|s| s.as_str()).collect();
                let r = run_pna(&sbx, &sbx.root, &av, None, 60, &[]);
                let after = std::fs::read(sbx.path("a.pna")).unwrap_or_default();
                let attrs = json!({"cmd":cmd,"n":n,"k":k,"fault":fault_here,"argv":args,"run":r.brief(),"archive_before":crate::util::hex(&before[..before.len().min(2000)])});
                ctx.count(&format!("cmd:{cmd}"));
                ctx.count(if fault_here { "with-fault" } else { "no-fault" });
                ctx.oracle_eval();
                if r.crashed() || r.hung() {
                    ctx.violation("C07", "an in-place command crashed or hung", attrs.clone());
                }
                let temps_left = std::fs::read_dir(sbx.path("tmp")).map(|d| d.count()).unwrap_or(0);
                ctx.count(&format!("temp-files-left:{temps_left}"));
                let pw_read = if solid_cmd { Some(pw) } else { None };
                let imp = if r.ok() {
                    match names_of(&after, pw_read) {
                        Ok(v) => {
                            // a command that reports success must not have lost an entry it was not asked to remove
                            let victim: Option<String> = if cmd == "delete" { args.last().cloned() } else { None };
                            let lost: Vec<&String> = entry_names.iter().filter(|n| Some(*n) != victim.as_ref() && !v.contains(n)).collect();
                            if !lost.is_empty() {
                                let prop = if input_fault { "C11" } else { "C10" };
                                ctx.violation(prop, "a command reported success but entries it was not asked to remove are gone (e.g. a solid block it could not decrypt was dropped silently)", json!({"case":attrs,"lost":lost}));
                                ctx.violation("C12", "a command that could not process an item reported success and rewrote the archive without it", json!({"case":attrs,"lost":lost}));
                            }
                            format!("ok n={} terminated=true", v.len())
                        }
                        Err(e) => {
                            ctx.violation("C12", "a command reported success but left an unreadable archive", json!({"case":attrs,"error":e}));
                            "ok unreadable".into()
                        }
                    }
                } else if after == before {
                    ctx.count("outcome:fail-unchanged");
                    "fail unchanged".to_string()
                } else {
                    // changed by a failing command: acceptable only if valid and still holding every original entry
                    match names_of(&after, pw_read) {
                        Ok(v) if entry_names.iter().all(|n| v.contains(n)) && !(fault_here && !input_fault) => {
                            ctx.count("outcome:fail-valid-superset");
                            format!("fail changed terminated=true n={}", v.len())
                        }
                        other => {
                            ctx.violation(
                                "C12",
                                "a failing command left the archive damaged (not as it was, and not a valid archive with all original entries)",
                                json!({"case":attrs,"after_len":after.len(),"before_len":before.len(),"read_back":format!("{other:?}")}),
                            );
                            "fail damaged".into()
                        }
                    }
                };
                ctx.case(json!({"cmd":cmd,"n":n,"k":k,"fault":fault_here}), model_req, imp, true);
                let _ = frame;
            }
        }
    }
}
