use rand::{Rng, SeedableRng};
use rand_chacha::ChaCha8Rng;
use std::fmt::Write as _;

pub fn hex(b: &[u8]) -> String {
    let mut s = String::with_capacity(b.len() * 2);
    for x in b {
        let _ = write!(s, "{:02x}", x);
    }
    s
}

/// hex on the wire: "-" for empty
pub fn hexw(b: &[u8]) -> String {
    if b.is_empty() {
        "-".into()
    } else {
        hex(b)
    }
}

pub fn unhex(s: &str) -> Option<Vec<u8>> {
    if s == "-" {
        return Some(vec![]);
    }
    if s.len() % 2 != 0 {
        return None;
    }
    (0..s.len())
        .step_by(2)
        .map(|i| u8::from_str_radix(&s[i..i + 2], 16).ok())
        .collect()
}

pub fn fnv(s: &str) -> u64 {
    let mut h: u64 = 0xcbf29ce484222325;
    for b in s.bytes() {
        h ^= b as u64;
        h = h.wrapping_mul(0x100000001b3);
    }
    h
}

pub fn rng_for(seed: u64, family: &str) -> ChaCha8Rng {
    ChaCha8Rng::seed_from_u64(seed ^ fnv(family))
}

pub fn err_kind(e: &std::io::Error) -> &'static str {
    use std::io::ErrorKind::*;
    match e.kind() {
        UnexpectedEof => "eof",
        InvalidData => "invalidData",
        InvalidInput => "invalidInput",
        Unsupported => "unsupported",
        AlreadyExists => "alreadyExists",
        NotFound => "notFound",
        _ => "other",
    }
}

pub fn bytes(rng: &mut impl Rng, n: usize) -> Vec<u8> {
    let mut v = vec![0u8; n];
    rng.fill(&mut v[..]);
    v
}

/// A size drawn from a distribution that favours boundaries.
pub fn size(rng: &mut impl Rng, max: usize) -> usize {
    let specials = [0usize, 1, 2, 3, 4, 7, 8, 11, 12, 13, 15, 16, 17, 31, 32, 33, 47, 48, 63, 64, 65, 255, 256, 257];
    match rng.gen_range(0..10) {
        0..=3 => {
            let s = specials[rng.gen_range(0..specials.len())];
            s.min(max)
        }
        4..=7 => rng.gen_range(0..=max.min(80)),
        _ => rng.gen_range(0..=max),
    }
}

pub fn catch<T>(f: impl FnOnce() -> T + std::panic::UnwindSafe) -> Result<T, String> {
    std::panic::catch_unwind(f).map_err(|e| {
        if let Some(s) = e.downcast_ref::<&str>() {
            s.to_string()
        } else if let Some(s) = e.downcast_ref::<String>() {
            s.clone()
        } else {
            "panic".into()
        }
    })
}

/// Run `f` in a forked child with a wall-clock limit and an address-space limit, so that an endless
/// loop or runaway allocation in the code under test becomes an observable outcome instead of
/// taking the harness down.  Returns Ok(result string) | Err("hang") | Err("crash:<status>").
pub fn isolated(timeout_ms: u64, mem_mb: u64, f: impl FnOnce() -> String) -> Result<String, String> {
    use std::io::{Read, Write};
    use std::os::unix::io::FromRawFd;
    let mut fds = [0i32; 2];
    unsafe {
        if libc::pipe(fds.as_mut_ptr()) != 0 {
            return Err("pipe failed".into());
        }
        let pid = libc::fork();
        if pid < 0 {
            return Err("fork failed".into());
        }
        if pid == 0 {
            libc::close(fds[0]);
            let lim = libc::rlimit { rlim_cur: mem_mb * 1024 * 1024, rlim_max: mem_mb * 1024 * 1024 };
            libc::setrlimit(libc::RLIMIT_AS, &lim);
            let r = std::panic::catch_unwind(std::panic::AssertUnwindSafe(f));
            let s = match r {
                Ok(s) => s,
                Err(_) => "panic".to_string(),
            };
            let mut w = std::fs::File::from_raw_fd(fds[1]);
            let _ = w.write_all(s.as_bytes());
            drop(w);
            libc::_exit(0);
        }
        libc::close(fds[1]);
        let start = std::time::Instant::now();
        let mut status = 0i32;
        loop {
            let r = libc::waitpid(pid, &mut status, libc::WNOHANG);
            if r == pid {
                break;
            }
            if start.elapsed().as_millis() as u64 > timeout_ms {
                libc::kill(pid, libc::SIGKILL);
                libc::waitpid(pid, &mut status, 0);
                libc::close(fds[0]);
                return Err("hang".into());
            }
            std::thread::sleep(std::time::Duration::from_millis(1));
        }
        let mut rd = std::fs::File::from_raw_fd(fds[0]);
        let mut s = String::new();
        let _ = rd.read_to_string(&mut s);
        if libc::WIFEXITED(status) && libc::WEXITSTATUS(status) == 0 {
            Ok(s)
        } else {
            Err(format!("crash:{status}"))
        }
    }
}
