//! Structured generators: entry specs, writer configurations, valid archives built with the
//! real library, plus mutation helpers.
use libpna::*;
use rand::Rng;
use serde_json::{json, Value};
use std::io::{self, Write};
use std::time::Duration;

use crate::util::{bytes, size};

#[derive(Clone, Debug, PartialEq, Eq)]
pub enum Kind {
    File,
    Dir,
    Symlink,
    Hardlink,
}

#[derive(Clone, Debug)]
pub struct EntrySpec {
    pub kind: Kind,
    pub name: String,
    pub content: Vec<u8>,
    pub link: String,
    pub created: Option<u64>,
    pub modified: Option<u64>,
    pub accessed: Option<u64>,
    pub perm: Option<(u64, String, u64, String, u16)>,
    pub xattrs: Vec<(String, Vec<u8>)>,
    pub extras: Vec<([u8; 4], Vec<u8>)>,
    pub store_size: bool,
    /// partition of `content` into write() calls (sizes; the rest goes in one last write)
    pub writes: Vec<usize>,
}

#[derive(Clone, Debug)]
pub enum Kdf {
    Pbkdf2(Option<u32>),
    Argon2(Option<u32>, Option<u32>, Option<u32>),
}

#[derive(Clone, Debug)]
pub struct Cfg {
    pub compression: u8, // 0,1,2,4
    pub level: Option<i64>,
    pub enc: u8,  // 0 none,1 aes,2 camellia
    pub mode: u8, // 0 cbc, 1 ctr
    pub kdf: Kdf,
    pub password: String,
}

impl Cfg {
    pub fn plain() -> Self {
        Cfg { compression: 0, level: None, enc: 0, mode: 0, kdf: Kdf::Pbkdf2(Some(1)), password: "pw".into() }
    }
    pub fn describe(&self) -> String {
        format!(
            "c{}{}e{}m{}{}",
            self.compression,
            self.level.map(|l| format!("l{l}")).unwrap_or_default(),
            self.enc,
            self.mode,
            match &self.kdf {
                Kdf::Pbkdf2(r) => format!("p{}", r.map(|x| x.to_string()).unwrap_or("d".into())),
                Kdf::Argon2(t, m, p) => format!("a{:?}-{:?}-{:?}", t, m, p),
            }
        )
    }
    pub fn to_json(&self) -> Value {
        json!({"compression": self.compression, "level": self.level, "enc": self.enc, "mode": self.mode, "kdf": format!("{:?}", self.kdf), "password": self.password})
    }
    pub fn options(&self) -> WriteOptions {
        let mut b = WriteOptions::builder();
        b.compression(match self.compression {
            0 => Compression::No,
            1 => Compression::Deflate,
            2 => Compression::ZStandard,
            _ => Compression::XZ,
        });
        if let Some(l) = self.level {
            b.compression_level(CompressionLevel::from(l));
        }
        match self.enc {
            0 => {}
            1 => {
                b.encryption(Encryption::Aes);
            }
            _ => {
                b.encryption(Encryption::Camellia);
            }
        }
        if self.enc != 0 {
            b.cipher_mode(if self.mode == 0 { CipherMode::CBC } else { CipherMode::CTR });
            b.hash_algorithm(match &self.kdf {
                Kdf::Pbkdf2(r) => HashAlgorithm::pbkdf2_sha256_with(*r),
                Kdf::Argon2(t, m, p) => HashAlgorithm::argon2id_with(*t, *m, *p),
            });
            b.password(Some(self.password.clone()));
        }
        b.build()
    }
}

#[derive(Clone, Copy, Debug, PartialEq, Eq)]
pub enum WriterKind {
    Builder,
    WriteFile,
    SolidBuilder,
    SolidArchiveAdd,
    SolidArchiveWriteFile,
}

pub const WRITER_KINDS: [WriterKind; 5] = [
    WriterKind::Builder,
    WriterKind::WriteFile,
    WriterKind::SolidBuilder,
    WriterKind::SolidArchiveAdd,
    WriterKind::SolidArchiveWriteFile,
];

pub fn gen_cfg(rng: &mut impl Rng, allow_slow: bool) -> Cfg {
    let compression = [0u8, 0, 1, 2, 4][rng.gen_range(0..5)];
    let level = if compression != 0 && rng.gen_bool(0.4) {
        Some(match compression {
            1 => rng.gen_range(0..=9),
            2 => rng.gen_range(1..=12),
            _ => rng.gen_range(0..=6),
        })
    } else {
        None
    };
    let enc = [0u8, 0, 1, 2][rng.gen_range(0..4)];
    let mode = rng.gen_range(0..2);
    let kdf = if rng.gen_bool(0.7) || !allow_slow {
        Kdf::Pbkdf2(Some(rng.gen_range(1..4)))
    } else {
        Kdf::Argon2(Some(rng.gen_range(1..3)), Some(rng.gen_range(8..32)), Some(1))
    };
    Cfg { compression, level, enc, mode, kdf, password: gen_password(rng) }
}

pub fn gen_password(rng: &mut impl Rng) -> String {
    let n = rng.gen_range(1..14);
    (0..n)
        .map(|_| {
            let c = rng.gen_range(0..40);
            match c {
                0..=25 => (b'a' + c as u8) as char,
                26..=35 => (b'0' + (c - 26) as u8) as char,
                36 => ' ',
                37 => 'é',
                38 => 'Z',
                _ => '-',
            }
        })
        .collect()
}

const NAME_PARTS: [&str; 14] = [
    "a", "b.txt", "dir", "sub dir", "ünï", "x-y_z", "日本", "file.tar.gz", ".hidden", "-dash", "CAPS", "very_long_component_name_0123456789_0123456789",
    "q", "r.bin",
];

pub fn gen_name(rng: &mut impl Rng) -> String {
    let n = rng.gen_range(1..4);
    (0..n).map(|_| NAME_PARTS[rng.gen_range(0..NAME_PARTS.len())]).collect::<Vec<_>>().join("/")
}

pub fn gen_content(rng: &mut impl Rng, max: usize) -> Vec<u8> {
    let n = size(rng, max);
    match rng.gen_range(0..4) {
        0 => vec![b'a'; n],                                        // highly compressible
        1 => (0..n).map(|i| b"hello world "[i % 12]).collect(),   // compressible
        _ => bytes(rng, n),                                        // incompressible
    }
}

pub fn gen_private_type(rng: &mut impl Rng) -> [u8; 4] {
    // ancillary (lower-case first letter) or critical unknown, private bit set, reserved clear
    let a = if rng.gen_bool(0.8) { rng.gen_range(b'a'..=b'z') } else { rng.gen_range(b'G'..=b'R') };
    let b = rng.gen_range(b'a'..=b'z');
    let c = rng.gen_range(b'A'..=b'Z');
    let d = if rng.gen_bool(0.5) { rng.gen_range(b'a'..=b'z') } else { rng.gen_range(b'A'..=b'Z') };
    let t = [a, b, c, d];
    // avoid colliding with interpreted types
    match &t {
        b"fSIZ" | b"cTIM" | b"mTIM" | b"aTIM" | b"fPRM" | b"xATR" => *b"myTy",
        _ => t,
    }
}

pub fn gen_partition(rng: &mut impl Rng, len: usize) -> Vec<usize> {
    let mut v = vec![];
    let mut rem = len;
    let style = rng.gen_range(0..5);
    while rem > 0 && v.len() < 64 {
        let n = match style {
            0 => rem,
            1 => 1,
            2 => [15usize, 16, 17, 0][rng.gen_range(0..4)],
            3 => rng.gen_range(0..=rem.min(40)),
            _ => rng.gen_range(0..=rem),
        };
        let n = n.min(rem);
        v.push(n);
        rem -= n;
    }
    v
}

pub fn gen_entry(rng: &mut impl Rng, max_content: usize) -> EntrySpec {
    let kind = match rng.gen_range(0..10) {
        0 => Kind::Dir,
        1 => Kind::Symlink,
        2 => Kind::Hardlink,
        _ => Kind::File,
    };
    let content = if kind == Kind::File { gen_content(rng, max_content) } else { vec![] };
    let link = match kind {
        Kind::Symlink | Kind::Hardlink => {
            let mut l = gen_name(rng);
            match rng.gen_range(0..4) {
                0 => l = format!("../{l}"),
                1 => l = format!("/{l}"),
                _ => {}
            }
            l
        }
        _ => String::new(),
    };
    let ts = |rng: &mut dyn rand::RngCore| -> Option<u64> {
        match rng.gen_range(0..6) {
            0 => Some(0),
            1 => Some(rng.gen_range(0..4_000_000_000)),
            2 => Some(1_700_000_000),
            _ => None,
        }
    };
    let perm = if rng.gen_bool(0.4) {
        Some((
            rng.gen::<u64>() >> rng.gen_range(0..64),
            ["", "root", "user1", "ünï"][rng.gen_range(0..4)].to_string(),
            rng.gen::<u64>() >> rng.gen_range(0..64),
            ["", "wheel", "staff"][rng.gen_range(0..3)].to_string(),
            rng.gen::<u16>() & 0o7777,
        ))
    } else {
        None
    };
    let xattrs = (0..[0, 0, 1, 2][rng.gen_range(0..4)])
        .map(|i| (format!("user.k{i}"), { let n = size(rng, 40); bytes(rng, n) }))
        .collect();
    let extras = (0..[0, 0, 0, 1, 2][rng.gen_range(0..5)])
        .map(|_| (gen_private_type(rng), { let n = size(rng, 24); bytes(rng, n) }))
        .collect();
    let writes = gen_partition(rng, content.len());
    EntrySpec {
        kind,
        name: gen_name(rng),
        content,
        link,
        created: ts(rng),
        modified: ts(rng),
        accessed: ts(rng),
        perm,
        xattrs,
        extras,
        store_size: rng.gen_bool(0.8),
        writes,
    }
}

impl EntrySpec {
    pub fn to_json(&self) -> Value {
        json!({"kind": format!("{:?}", self.kind), "name": self.name, "content_len": self.content.len(), "link": self.link,
               "c": self.created, "m": self.modified, "a": self.accessed, "perm": self.perm.is_some(),
               "xattrs": self.xattrs.len(), "extras": self.extras.len(), "writes": self.writes})
    }
    pub fn metadata(&self) -> Metadata {
        let mut m = Metadata::new();
        m = m.with_created(self.created.map(Duration::from_secs));
        m = m.with_modified(self.modified.map(Duration::from_secs));
        m = m.with_accessed(self.accessed.map(Duration::from_secs));
        m = m.with_permission(self.perm.clone().map(|(u, un, g, gn, p)| Permission::new(u, un, g, gn, p)));
        m
    }
    fn write_content<W: Write>(&self, w: &mut W) -> io::Result<()> {
        let mut pos = 0;
        for n in &self.writes {
            let n = (*n).min(self.content.len() - pos);
            w.write_all(&self.content[pos..pos + n])?;
            pos += n;
        }
        if pos < self.content.len() {
            w.write_all(&self.content[pos..])?;
        }
        Ok(())
    }
    /// Build through `EntryBuilder`.
    pub fn build(&self, cfg: &Cfg) -> io::Result<NormalEntry> {
        let name = EntryName::from(self.name.as_str());
        let mut b = match self.kind {
            Kind::File => EntryBuilder::new_file(name, cfg.options())?,
            Kind::Dir => EntryBuilder::new_dir(name),
            Kind::Symlink => EntryBuilder::new_symbolic_link(name, EntryReference::from(self.link.as_str()))?,
            Kind::Hardlink => EntryBuilder::new_hard_link(name, EntryReference::from(self.link.as_str()))?,
        };
        if self.kind == Kind::File {
            self.write_content(&mut b)?;
        }
        if let Some(c) = self.created {
            b.created(Duration::from_secs(c));
        }
        if let Some(c) = self.modified {
            b.modified(Duration::from_secs(c));
        }
        if let Some(c) = self.accessed {
            b.accessed(Duration::from_secs(c));
        }
        if let Some((u, un, g, gn, p)) = self.perm.clone() {
            b.permission(Permission::new(u, un, g, gn, p));
        }
        b.file_size(self.store_size);
        for (n, v) in &self.xattrs {
            b.add_xattr(ExtendedAttribute::new(n.clone(), v.clone()));
        }
        for (t, d) in &self.extras {
            b.add_extra_chunk(libpna::verif::raw_chunk(*t, d));
        }
        b.build()
    }
    /// what `write_file` can carry: files only, no xattrs/extras/size
    pub fn write_file_compatible(&self) -> bool {
        self.kind == Kind::File
    }
}

/// Write an archive with the real library through one of the five writer kinds.
/// For the `write_file` kinds only file entries are written (others are skipped; the list of
/// indices actually written is returned).
pub fn write_archive_to<W: std::io::Write>(kind: WriterKind, cfg: &Cfg, entries: &[EntrySpec], sink: W) -> io::Result<(W, Vec<usize>)> {
    let mut written = vec![];
    let bytes = match kind {
        WriterKind::Builder => {
            let mut a = Archive::write_header(sink)?;
            for (i, e) in entries.iter().enumerate() {
                a.add_entry(e.build(cfg)?)?;
                written.push(i);
            }
            a.finalize()?
        }
        WriterKind::WriteFile => {
            let mut a = Archive::write_header(sink)?;
            for (i, e) in entries.iter().enumerate() {
                if !e.write_file_compatible() {
                    continue;
                }
                a.write_file(EntryName::from(e.name.as_str()), e.metadata(), cfg.options(), |w| e.write_content(w))?;
                written.push(i);
            }
            a.finalize()?
        }
        WriterKind::SolidBuilder => {
            let mut a = Archive::write_header(sink)?;
            let mut sb = SolidEntryBuilder::new(cfg.options())?;
            for (i, e) in entries.iter().enumerate() {
                sb.add_entry(e.build(&Cfg::plain())?)?;
                written.push(i);
            }
            a.add_entry(sb.build()?)?;
            a.finalize()?
        }
        WriterKind::SolidArchiveAdd => {
            let mut a = Archive::write_solid_header(sink, cfg.options())?;
            for (i, e) in entries.iter().enumerate() {
                a.add_entry(e.build(&Cfg::plain())?)?;
                written.push(i);
            }
            a.finalize()?
        }
        WriterKind::SolidArchiveWriteFile => {
            let mut a = Archive::write_solid_header(sink, cfg.options())?;
            for (i, e) in entries.iter().enumerate() {
                if !e.write_file_compatible() {
                    continue;
                }
                a.write_file(EntryName::from(e.name.as_str()), e.metadata(), |w| e.write_content(w))?;
                written.push(i);
            }
            a.finalize()?
        }
    };
    Ok((bytes, written))
}

pub fn write_archive(kind: WriterKind, cfg: &Cfg, entries: &[EntrySpec]) -> io::Result<(Vec<u8>, Vec<usize>)> {
    write_archive_to(kind, cfg, entries, Vec::new())
}

/// A sink that behaves as badly as `Write` allows: every `write` and `write_vectored` accepts only a pseudo-random
/// prefix (at least one byte) of what it is offered — a gathered write may stop inside any of its slices.
pub struct ChaoticSink { pub out: Vec<u8>, state: u64 }
impl ChaoticSink {
    pub fn new(seed: u64) -> Self { ChaoticSink { out: vec![], state: seed | 1 } }
    fn next(&mut self, bound: usize) -> usize { self.state ^= self.state << 13; self.state ^= self.state >> 7; self.state ^= self.state << 17; 1 + (self.state as usize) % bound }
}
impl std::io::Write for ChaoticSink {
    fn write(&mut self, buf: &[u8]) -> io::Result<usize> {
        if buf.is_empty() { return Ok(0); }
        let n = if self.state % 3 == 0 { buf.len() } else { self.next(buf.len()) };
        self.state = self.state.wrapping_mul(6364136223846793005).wrapping_add(1442695040888963407);
        self.out.extend_from_slice(&buf[..n]);
        Ok(n)
    }
    fn write_vectored(&mut self, bufs: &[std::io::IoSlice<'_>]) -> io::Result<usize> {
        let total: usize = bufs.iter().map(|b| b.len()).sum();
        if total == 0 { return Ok(0); }
        let mut n = self.next(total);
        let accepted = n;
        for b in bufs { let k = n.min(b.len()); self.out.extend_from_slice(&b[..k]); n -= k; if n == 0 { break; } }
        Ok(accepted)
    }
    fn flush(&mut self) -> io::Result<()> { Ok(()) }
}

/// A small valid archive with random configuration; returns bytes and a JSON description.
pub fn gen_archive(rng: &mut impl Rng, max_entries: usize, max_content: usize) -> (Vec<u8>, Value, Cfg) {
    let cfg = gen_cfg(rng, false);
    let kind = WRITER_KINDS[rng.gen_range(0..WRITER_KINDS.len())];
    let n = rng.gen_range(0..=max_entries);
    let entries: Vec<EntrySpec> = (0..n).map(|_| gen_entry(rng, max_content)).collect();
    let (bytes, written) = write_archive(kind, &cfg, &entries).expect("writer failed on generated input");
    let desc = json!({"writer": format!("{:?}", kind), "cfg": cfg.describe(), "entries": entries.iter().map(|e| e.to_json()).collect::<Vec<_>>(), "written": written, "len": bytes.len()});
    (bytes, desc, cfg)
}

/// Frame a chunk by hand (independent of the library).
pub fn frame(ty: &[u8; 4], data: &[u8]) -> Vec<u8> {
    let mut v = Vec::with_capacity(12 + data.len());
    v.extend_from_slice(&(data.len() as u32).to_be_bytes());
    v.extend_from_slice(ty);
    v.extend_from_slice(data);
    let mut h = crc32fast::Hasher::new();
    h.update(ty);
    h.update(data);
    v.extend_from_slice(&h.finalize().to_be_bytes());
    v
}

pub const SIG: [u8; 8] = *b"\x89PNA\r\n\x1a\n";
