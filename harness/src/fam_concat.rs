//! `concat` family (C04 "… or after `pna concat`", C13 pass-through, C14 well-formed output): archives written
//! by the library writers, some of them cut into part files by the real `pna split`, are joined by the real
//! `pna concat`.  The output FILE is compared byte for byte (length + CRC) with the Lean model `Cli.concat`
//! (raw items across the ANXT chain, written after a fresh header), and independently:
//!   * the strict reader accepts the output (C14);
//!   * its chunk sequence equals the concatenated bodies of the original archives up to the cutting of data
//!     chunks (C04), byte for byte when nothing was split (C13);
//!   * the library reads from it the same entries as from the originals (C04).
//! Damaged part sets (last part missing, a part of another set in its place, a truncated part, a stale extra
//! part file) must fail — or, for the stale file, be ignored.
use crate::canon;
use crate::cli::{run_pna, Sbx};
use crate::ctx::Ctx;
use crate::gen::gen_archive;
use crate::refdec;
use crate::util::{hex, hexw, rng_for};
use rand::Rng;
use serde_json::json;

fn merged(cs: &refdec::Chunks) -> refdec::Chunks {
    let mut out: refdec::Chunks = vec![];
    for (t, d) in cs {
        if t == b"FDAT" || t == b"SDAT" {
            if let Some((lt, ld)) = out.last_mut() {
                if lt == t {
                    ld.extend_from_slice(d);
                    continue;
                }
            }
        }
        out.push((*t, d.clone()));
    }
    out
}

fn body(bytes: &[u8]) -> Option<refdec::Chunks> {
    let (cs, _) = refdec::chunks(bytes).ok()?;
    Some(cs.into_iter().skip(1).filter(|(t, _)| t != b"ANXT" && t != b"AEND").collect())
}

fn meaning(s: &str) -> Vec<String> {
    s.split(' ')
        .map(|tok| tok.split(':').map(|f| if let Some(r) = f.strip_prefix("d=") { let mut it = r.splitn(2, '/'); let _ = it.next(); format!("d={}", it.next().unwrap_or("")) } else { f.to_string() }).collect::<Vec<_>>().join(":"))
        .collect()
}

pub fn concat(ctx: &mut Ctx) {
    let mut rng = rng_for(ctx.seed, "concat");
    ctx.rule = "1-3 input archives from the five library writer kinds (random codec/cipher, 0-4 entries up to 900 bytes), each left whole or cut by `pna split --max-size M` (M from 60 to the archive length); \
                `pna concat out.pna <first parts>`; variants: intact / last part missing / part 2 replaced by a copy of part 1 (wrong number) / last part truncated / a stale extra part file beyond the end; \
                output file compared with the Lean model (length + CRC-32), strict reader, chunk sequence up to data cuts, library entries; non-trivial = at least one input was split in >= 2 parts and concat succeeded".into();
    // deterministic witness of the known finding C14-later-part-as-archive: the LAST part of a part set given as if it were an
    // archive of its own; its first item is the tail of an entry that began in the previous part
    {
        let sbx = Sbx::new("concat-w", 0);
        std::fs::create_dir_all(sbx.path("t")).unwrap();
        std::fs::write(sbx.path("t/big.txt"), "0123456789abcdef".repeat(260)).unwrap();
        std::fs::write(sbx.path("t/s.txt"), b"small").unwrap();
        let c = run_pna(&sbx, &sbx.root, &["--quiet", "create", "a.pna", "t/big.txt", "t/s.txt", "--store", "--split", "1500"], None, 60, &[]);
        let mut last = 0;
        for i in 1.. { if sbx.path(&format!("a.part{i}.pna")).exists() { last = i; } else { break; } }
        if c.ok() && last >= 2 {
            let lp = format!("a.part{last}.pna");
            let r = run_pna(&sbx, &sbx.root, &["--quiet", "concat", "out.pna", &lp], None, 60, &[]);
            ctx.oracle_eval();
            if r.ok() {
                let out = std::fs::read(sbx.path("out.pna")).unwrap_or_default();
                let items_ok = refdec::chunks(&out).map(|(cs, _)| cs.get(1).map(|(t, _)| t == b"FHED" || t == b"SHED" || t == b"AEND").unwrap_or(false)).unwrap_or(false);
                if !items_ok {
                    ctx.violation("C14", "pna concat wrote an archive whose first entry has no header", json!({"witness":"later-part-as-archive","argv":["concat","out.pna",lp],"parts":last,"out_len":out.len()}));
                }
            }
        }
    }
    // deterministic witness of the known finding C13-archive-level-chunk: an unknown ancillary chunk between the last entry and the
    // end marker (a foreign writer's archive-level metadata) is dropped by the raw copy
    {
        let sbx = Sbx::new("concat-w", 1);
        let mut v = crate::gen::SIG.to_vec();
        v.extend(crate::gen::frame(b"AHED", &[0; 8]));
        v.extend(crate::gen::frame(b"FHED", &[0, 0, 0, 0, 0, 0, b'a']));
        v.extend(crate::gen::frame(b"FDAT", b"x"));
        v.extend(crate::gen::frame(b"FEND", &[]));
        v.extend(crate::gen::frame(b"myTy", b"archive-level"));
        v.extend(crate::gen::frame(b"AEND", &[]));
        std::fs::write(sbx.path("in.pna"), &v).unwrap();
        let r = run_pna(&sbx, &sbx.root, &["--quiet", "concat", "out.pna", "in.pna"], None, 60, &[]);
        ctx.oracle_eval();
        if r.ok() {
            let out = std::fs::read(sbx.path("out.pna")).unwrap_or_default();
            let kept = refdec::chunks(&out).map(|(cs, _)| cs.iter().any(|(t, _)| t == b"myTy")).unwrap_or(false);
            if !kept {
                ctx.violation("C13", "pna concat silently dropped an unknown chunk that stands between the last entry and the end marker", json!({"witness":"archive-level-chunk","in_len":v.len(),"out_len":out.len()}));
            }
        }
    }
    let n = if ctx.thorough { 150 } else { 30 };
    for case in 0..n {
        let sbx = Sbx::new("concat", case);
        let k = 1 + case % 3;
        let variant = if case % 5 == 4 { 1 + (case / 5) % 4 } else { 0 };
        let mut originals: Vec<Vec<u8>> = vec![];
        let mut inputs: Vec<(String, Vec<Vec<u8>>)> = vec![]; // (path of the first part, the part files the provider will find)
        let mut descs = vec![];
        let mut any_split = false;
        let mut damaged = false;
        for j in 0..k {
            let (full, desc, _cfg) = gen_archive(&mut rng, 4, 900);
            let name = format!("in{j}.pna");
            std::fs::write(sbx.path(&name), &full).unwrap();
            let want_split = rng.gen_bool(0.6) || (variant != 0 && j == 0);
            let mut parts: Vec<Vec<u8>> = vec![];
            let mut first = name.clone();
            if want_split {
                let max = rng.gen_range(60..=full.len().max(61));
                let dir = format!("s{j}");
                let r = run_pna(&sbx, &sbx.root, &["--quiet", "split", &name, "--max-size", &max.to_string(), "--out-dir", &dir], None, 60, &[]);
                if r.ok() {
                    for i in 1.. {
                        match std::fs::read(sbx.path(&format!("{dir}/in{j}.part{i}.pna"))) {
                            Ok(b) => parts.push(b),
                            Err(_) => break,
                        }
                    }
                    if !parts.is_empty() {
                        first = format!("{dir}/in{j}.part1.pna");
                    }
                }
                descs.push(json!({"archive":desc,"split_max":max,"parts":parts.len()}));
            } else {
                descs.push(json!({"archive":desc,"split_max":null}));
            }
            // the same destination split again with --overwrite and another maximum (smaller: the new parts are shorter than the
            // files they replace; larger: fewer parts): every part of the new set is within the new maximum, ends with its end
            // marker, and the set reads back to the original entries
            if !parts.is_empty() && variant == 0 && case % 2 == 0 {
                let max2 = if case % 4 == 0 { rng.gen_range(60..=parts.iter().map(|p| p.len()).max().unwrap_or(61).max(61)) } else { full.len() + rng.gen_range(0..400) };
                let dir = format!("s{j}");
                let r = run_pna(&sbx, &sbx.root, &["--quiet", "split", &name, "--max-size", &max2.to_string(), "--out-dir", &dir, "--overwrite"], None, 60, &[]);
                ctx.oracle_eval();
                ctx.count("resplit-over-an-existing-part-set");
                if !r.ok() {
                    // a rejected maximum has already replaced part 1 by a header-only file: put the first set back and go on with it
                    for (i, b) in parts.iter().enumerate() { std::fs::write(sbx.path(&format!("{dir}/in{j}.part{}.pna", i + 1)), b).unwrap(); }
                    ctx.count("resplit-rejected");
                }
                if r.ok() {
                    let mut newparts: Vec<Vec<u8>> = vec![];
                    let mut carry: refdec::Chunks = vec![];
                    let mut why: Option<String> = None;
                    // a result that fits one part is renamed to the part-less name; otherwise follow the continuation markers
                    let single = std::fs::read(sbx.path(&format!("{dir}/in{j}.pna"))).ok();
                    for i in 1.. {
                        let b = match (&single, i) {
                            (Some(b), 1) => b.clone(),
                            (Some(_), _) => { why = Some("a single-part result carries a continuation marker".into()); break; }
                            (None, _) => match std::fs::read(sbx.path(&format!("{dir}/in{j}.part{i}.pna"))) { Ok(b) => b, Err(_) => { why = Some(format!("part {i} is missing although the part before it carries a continuation marker")); break; } },
                        };
                        if b.len() > max2 { why = Some(format!("part {i} has {} bytes, the maximum is {max2}", b.len())); break; }
                        match refdec::strict_archive(&b, std::mem::take(&mut carry), true) {
                            Err(e) => { why = Some(format!("part {i}: {e}")); break; }
                            Ok(ra) => { carry = ra.open; let next = ra.has_next; newparts.push(b); if !next { break; } }
                        }
                    }
                    if why.is_none() && meaning(&canon::read_multipart_stream(&newparts)) != meaning(&canon::read_multipart_stream(&[full.clone()])) { why = Some("the new part set does not read back to the original entries".into()); }
                    if let Some(why) = why {
                        ctx.violation("C04", "splitting again over an existing part set with --overwrite leaves a part set that is not within the maximum, not well-formed or not the original", json!({"archive":desc,"first_max":descs.last(),"second_max":max2,"why":why}));
                        ctx.violation("C14", "splitting again over an existing part set with --overwrite leaves files that are not well-formed archives", json!({"second_max":max2,"why":why}));
                    }
                    // the concat below uses the new set
                    if newparts.is_empty() { for (i, b) in parts.iter().enumerate() { std::fs::write(sbx.path(&format!("{dir}/in{j}.part{}.pna", i + 1)), b).unwrap(); } }
                    if !newparts.is_empty() { first = if single.is_some() { format!("{dir}/in{j}.pna") } else { format!("{dir}/in{j}.part1.pna") }; parts = newparts; }
                }
            }
            if parts.is_empty() {
                parts.push(full.clone());
            }
            if parts.len() >= 2 {
                any_split = true;
            }
            // damage the first input's part set
            if j == 0 && variant != 0 && parts.len() >= 2 {
                let dir = "s0";
                let last = parts.len();
                match variant {
                    1 => {
                        std::fs::remove_file(sbx.path(&format!("{dir}/in0.part{last}.pna"))).unwrap();
                        parts.pop();
                        damaged = true;
                    }
                    2 => {
                        let p1 = parts[0].clone();
                        std::fs::write(sbx.path(&format!("{dir}/in0.part2.pna")), &p1).unwrap();
                        parts[1] = p1;
                        damaged = true;
                    }
                    3 => {
                        let l = parts[last - 1].len();
                        let cut = rng.gen_range(0..l);
                        parts[last - 1].truncate(cut);
                        std::fs::write(sbx.path(&format!("{dir}/in0.part{last}.pna")), &parts[last - 1]).unwrap();
                        damaged = true;
                    }
                    _ => {
                        // stale extra part: never opened, because the last real part carries no ANXT
                        let stale = parts[0].clone();
                        std::fs::write(sbx.path(&format!("{dir}/in0.part{}.pna", last + 1)), &stale).unwrap();
                        parts.push(stale);
                    }
                }
            }
            originals.push(full);
            inputs.push((first, parts));
        }
        ctx.count(&format!("variant:{}", ["intact", "last-part-missing", "wrong-part-number", "last-part-truncated", "stale-extra-part"][if damaged || variant == 4 { variant } else { 0 }]));
        let mut args: Vec<String> = vec!["--quiet".into(), "concat".into(), "out.pna".into()];
        args.extend(inputs.iter().map(|(p, _)| p.clone()));
        let argv: Vec<&str> = args.iter().map(|s| s.as_str()).collect();
        let r = run_pna(&sbx, &sbx.root, &argv, None, 60, &[]);
        ctx.oracle_eval();
        let attrs = json!({"case":case,"inputs":descs,"variant":variant,"damaged":damaged,"argv":args,"run":r.brief(),
            "parts_hex": inputs.iter().map(|(_, ps)| ps.iter().map(|p| if p.len() <= 3000 { hex(p) } else { format!("({} bytes)", p.len()) }).collect::<Vec<_>>()).collect::<Vec<_>>()});
        if r.crashed() || r.hung() {
            ctx.violation("C07", "pna concat crashed or hung", attrs.clone());
            continue;
        }
        let imp = if r.ok() {
            let out = std::fs::read(sbx.path("out.pna")).unwrap_or_default();
            if damaged {
                ctx.violation("C06", "pna concat succeeded on an incomplete or inconsistent part set", attrs.clone());
            } else {
                // C14: strict reader
                if let Err(why) = refdec::strict_archive(&out, vec![], false) {
                    ctx.violation("C14", "pna concat wrote an archive the strict reader rejects", json!({"why":why,"case":attrs}));
                }
                // C04 / C13: chunk sequence
                let want: refdec::Chunks = originals.iter().filter_map(|o| body(o)).flatten().collect();
                match body(&out) {
                    Some(got) => {
                        if !any_split && got != want {
                            ctx.violation("C13", "pna concat of unsplit archives does not reproduce their entries byte for byte", attrs.clone());
                        }
                        if merged(&got) != merged(&want) {
                            ctx.violation("C04", "after pna concat the chunk sequence differs from the original entries (beyond the cutting of data chunks)", attrs.clone());
                        }
                    }
                    None => ctx.violation("C14", "output of pna concat does not tokenise", attrs.clone()),
                }
                // C04: the library reads the same entries
                let got = meaning(&canon::read_multipart_stream(&[out.clone()]));
                let mut want_e: Vec<String> = vec![];
                for o in &originals {
                    let mut m = meaning(&canon::read_multipart_stream(&[o.clone()]));
                    let end = m.pop();
                    if end.as_deref() != Some("end=ok") {
                        want_e.push(end.unwrap_or_default());
                    }
                    want_e.extend(m);
                }
                want_e.push("end=ok".into());
                if got != want_e {
                    ctx.violation("C04", "entries read after pna concat differ from the entries of the original archives", json!({"got":got.len(),"want":want_e.len(),"case":attrs}));
                }
            }
            format!("ok {}", canon::digest(&out))
        } else {
            if !damaged {
                ctx.violation("C04", "pna concat failed on intact inputs", attrs.clone());
            }
            "err".to_string()
        };
        let req = format!("concat {}", inputs.iter().map(|(_, ps)| ps.iter().map(|p| hexw(p)).collect::<Vec<_>>().join(",")).collect::<Vec<_>>().join(" "));
        ctx.case(json!({"case":case,"inputs":k,"variant":variant,"damaged":damaged,"parts":inputs.iter().map(|(_, p)| p.len()).collect::<Vec<_>>()}), req, imp.clone(), any_split && imp.starts_with("ok"));
    }
}
