//! C09 (part 2), C20 (extraction): crafted entry sequences extracted by the real `pna` into a
//! sandbox whose surroundings are snapshotted; compared with the abstract-FS model and with
//! the property oracles (nothing outside the output directory changes; nothing existing is
//! replaced without --overwrite).
use crate::cli::{run_pna, snapshot, Node, Sbx};
use crate::ctx::Ctx;
use crate::util::{hexw, rng_for};
use libpna::*;
use rand::Rng;
use serde_json::json;
use std::collections::BTreeMap;

#[derive(Clone, Debug, Default)]
struct XE { name: String, kind: u8, content: Vec<u8>, perm: Option<u16>, time: Option<u64> }

fn build(es: &[XE]) -> Vec<u8> {
    let mut a = Archive::write_header(Vec::new()).unwrap();
    for e in es {
        // raw names: go through the chunk level so that hostile names reach the reader as written
        let entry = match e.kind {
            0 => { let mut b = EntryBuilder::new_file(EntryName::from(e.name.as_str()), WriteOptions::store()).unwrap(); use std::io::Write; b.write_all(&e.content).unwrap(); if let Some(m) = e.perm { b.permission(Permission::new(0, "root".into(), 0, "root".into(), m)); } if let Some(t) = e.time { b.modified(std::time::Duration::from_secs(t)); b.accessed(std::time::Duration::from_secs(t)); } b.build().unwrap() }
            1 => { let mut b = EntryBuilder::new_dir(EntryName::from(e.name.as_str())); if let Some(m) = e.perm { b.permission(Permission::new(0, "root".into(), 0, "root".into(), m)); } if let Some(t) = e.time { b.modified(std::time::Duration::from_secs(t)); b.accessed(std::time::Duration::from_secs(t)); } b.build().unwrap() }
            2 => { let mut b = EntryBuilder::new_symbolic_link(EntryName::from(e.name.as_str()), EntryReference::from(String::from_utf8_lossy(&e.content).as_ref())).unwrap(); if let Some(m) = e.perm { b.permission(Permission::new(0, "root".into(), 0, "root".into(), m)); } if let Some(t) = e.time { b.modified(std::time::Duration::from_secs(t)); b.accessed(std::time::Duration::from_secs(t)); } b.build().unwrap() }
            _ => { let mut b = EntryBuilder::new_hard_link(EntryName::from(e.name.as_str()), EntryReference::from(String::from_utf8_lossy(&e.content).as_ref())).unwrap(); if let Some(m) = e.perm { b.permission(Permission::new(0, "root".into(), 0, "root".into(), m)); } b.build().unwrap() }
        };
        a.add_entry(entry).unwrap();
    }
    a.finalize().unwrap()
}

/// canonical dump of a snapshot (mirror of Lean `fsDump`)
fn dump(snap: &BTreeMap<String, Node>) -> String {
    let mut groups: BTreeMap<u64, String> = BTreeMap::new();
    for (p, n) in snap { if let Node::File { ino, .. } = n { let e = groups.entry(*ino).or_insert_with(|| p.clone()); if p.as_bytes() < e.as_bytes() { *e = p.clone(); } } }
    let mut items: Vec<(Vec<u8>, String)> = snap.iter().map(|(p, n)| (p.as_bytes().to_vec(), match n {
        Node::Dir { .. } => format!("D{}", hexw(p.as_bytes())),
        Node::Symlink { target } => format!("L{}={}", hexw(p.as_bytes()), hexw(target.as_bytes())),
        Node::File { content, ino, .. } => format!("F{}={}@{}", hexw(p.as_bytes()), hexw(content), hexw(groups[ino].as_bytes())),
        Node::Other => format!("O{}", hexw(p.as_bytes())),
    })).collect();
    items.sort_by(|a, b| a.0.cmp(&b.0));
    if items.is_empty() { ".".into() } else { items.into_iter().map(|x| x.1).collect::<Vec<_>>().join(";") }
}

fn fs_wire(root: &str, snap: &BTreeMap<String, Node>) -> String {
    // ancestors of the sandbox root as directories, then its contents
    let mut toks = vec![];
    let mut acc = String::new();
    for c in root.split('/').filter(|c| !c.is_empty()) { acc.push('/'); acc.push_str(c); toks.push(format!("D{}", hexw(acc.as_bytes()))); }
    let mut paths: Vec<&String> = snap.keys().collect();
    paths.sort_by_key(|p| p.matches('/').count());
    for p in paths {
        let abs = format!("{root}/{p}");
        toks.push(match &snap[p] {
            Node::Dir { .. } => format!("D{}", hexw(abs.as_bytes())),
            Node::Symlink { target } => format!("L{}={}", hexw(abs.as_bytes()), hexw(target.as_bytes())),
            Node::File { content, .. } => format!("F{}={}", hexw(abs.as_bytes()), hexw(content)),
            Node::Other => continue,
        });
    }
    toks.join(";")
}

pub fn extract_fs(ctx: &mut Ctx) {
    let mut rng = rng_for(ctx.seed, "extract-fs");
    ctx.rule = "crafted entry sequences (2-6 entries): plain files and directories, absolute and dot-dot names (sanitised by the library), symbolic links (relative, absolute, dangling, to directories inside and outside the output directory), \
                hard links (to earlier entries, with `..`, absolute, escaping), files and directories placed beneath earlier links, duplicate names; extracted with and without --overwrite into `out/` of a sandbox that also holds `outside/secret` and pre-existing objects (file, empty file, directory, symlink) at some destinations; \
                the whole sandbox (paths, kinds, contents, link targets, hard-link groups) is snapshotted before and after and compared with the model's post-state; oracles: nothing outside `out/` changed (C09), nothing pre-existing replaced without --overwrite (C20); non-trivial = every case; distinct by request line".into();
    let n = if ctx.thorough { 1500 } else { 120 };
    for case in 0..n {
        let sbx = Sbx::new("xfs", case);
        let root = sbx.root.to_string_lossy().to_string();
        std::fs::create_dir_all(sbx.path("outside")).unwrap();
        std::fs::write(sbx.path("outside/secret"), b"SECRET").unwrap();
        std::fs::create_dir_all(sbx.path("out")).unwrap();
        let _ = std::fs::remove_dir_all(sbx.path("tmp"));
        // entries
        let fname = |rng: &mut rand_chacha::ChaCha8Rng| ["a", "b.txt", "d/x.txt", "d/e/y", "l", "l/x.txt", "d", "h", "k/z"][rng.gen_range(0..9)].to_string();
        let k = rng.gen_range(1..6);
        let mut es: Vec<XE> = vec![];
        let scenario = if case < 14 { case } else { rng.gen_range(0..18) };
        let k = if scenario == 12 || scenario == 10 { k.max(3) } else { k };
        // a third of the runs extract into the current directory without --out-dir (the base of every check is then empty)
        let no_out_dir = case == 11 || (case >= 14 && case % 3 == 0); // the first twelve cases are the witnesses of the (now repaired) escapes and of links carrying permissions / times
        let keep_perm = scenario == 5 || scenario == 9 || scenario == 12 || scenario == 13 || (scenario > 13 && rng.gen_bool(0.3));
        let keep_time = scenario == 6 || scenario == 7 || (scenario > 13 && rng.gen_bool(0.4));
        for i in 0..k {
            let e = match (scenario, i) {
                (0, 0) => XE { name: "l".into(), kind: 2, content: format!("{root}/outside").into_bytes(), perm: None, time: None },          // absolute link to outside dir
                (0, 1) => XE { name: "l/x.txt".into(), kind: 0, content: b"pwn".to_vec(), perm: None, time: None },
                (1, 0) => XE { name: "l".into(), kind: 2, content: b"../outside".to_vec(), perm: None, time: None },                           // relative escaping link
                (1, 1) => XE { name: "l/sub/x.txt".into(), kind: 0, content: b"pwn".to_vec(), perm: None, time: None },
                (2, 0) => XE { name: "h".into(), kind: 3, content: b"../outside/secret".to_vec(), perm: None, time: None },                    // escaping hard-link source
                (3, 0) => XE { name: "h".into(), kind: 3, content: format!("{root}/outside/secret").into_bytes(), perm: None, time: None },   // absolute hard-link source
                (4, 0) => XE { name: "l".into(), kind: 2, content: format!("{root}/outside/newfile").into_bytes(), perm: None, time: None },  // dangling link, then a file of the same name
                (4, 1) => XE { name: "l".into(), kind: 0, content: b"through".to_vec(), perm: None, time: None },
                (6, 0) => XE { name: "l".into(), kind: 2, content: b"../outside/secret".to_vec(), perm: None, time: Some(1_000_000_123) },  // link entry carrying times, to an outside file
                (7, 0) => XE { name: "l".into(), kind: 2, content: b"../outside".to_vec(), perm: None, time: Some(1_000_000_456) },         // … to an outside directory
                // a directory entry (then a file in it) where a link to a directory (8) / a directory with its own mode (9) already is
                (8, 0) | (9, 0) => XE { name: "d".into(), kind: 1, content: vec![], perm: Some(0o755), time: None },
                (8, 1) | (9, 1) => XE { name: "d/f.txt".into(), kind: 0, content: b"payload".to_vec(), perm: None, time: None },
                // a name used as a directory first, then replaced by a link (--overwrite), then used as a parent again
                (10, 0) => XE { name: "a/x.txt".into(), kind: 0, content: b"first".to_vec(), perm: None, time: None },
                (10, 1) => XE { name: "a".into(), kind: 2, content: b"..".to_vec(), perm: None, time: None },
                (10, 2) => XE { name: "a/pwned.txt".into(), kind: 0, content: b"pwn".to_vec(), perm: None, time: None },
                // a hard link whose source climbs out, extracted into the current directory (no --out-dir), then a file of that name
                (11, 0) => XE { name: "h".into(), kind: 3, content: b"../outside/secret".to_vec(), perm: None, time: None },
                (11, 1) => XE { name: "h".into(), kind: 0, content: b"replaced by the archive".to_vec(), perm: None, time: None },
                // a hard link entry whose source is a symbolic link entry to an outside file, carrying a permission: the new name is a
                // second name of the LINK; chmod/chown through it would reach the outside file
                (12, 0) => XE { name: "s".into(), kind: 2, content: b"../outside/secret".to_vec(), perm: None, time: None },
                (12, 1) => XE { name: "h".into(), kind: 3, content: b"s".to_vec(), perm: Some(0o777), time: None },
                // a hard link entry carrying a permission whose source is a file that was in the output directory BEFORE the command
                // (not in the archive): the mode of that file must not change (C20: nothing existing is modified)
                (13, 0) => XE { name: "alias.txt".into(), kind: 3, content: b"victim.txt".to_vec(), perm: Some(0o777), time: None },
                (5, 0) => XE { name: "l".into(), kind: 2, content: b"../outside/secret".to_vec(), perm: Some(0o777), time: None },  // link entry carrying a permission
                _ => {
                    let kind = [0u8, 0, 0, 1, 2, 3][rng.gen_range(0..6)];
                    // (the empty path string itself — no --out-dir together with an empty name — is not modelled: stat("") is ENOENT)
                    // names that sanitise to the empty name (the destination is the output directory itself) for files and
                    // directories; for link kinds the trailing-slash behaviour of symlink(2)/link(2) on `out/` is not modelled
                    let name = match rng.gen_range(0..9) { 0 => format!("../{}", fname(&mut rng)), 1 => format!("/{}", fname(&mut rng)), 2 if kind <= 1 && !no_out_dir => ["/", "", "..", "./."][rng.gen_range(0..4)].to_string(), _ => fname(&mut rng) };
                    let content = match kind {
                        0 => format!("content-{i}").into_bytes(),
                        1 => vec![],
                        2 => { let abs = format!("{root}/outside"); ["a", "d", "../out/a", "nowhere", "d/e", "../outside", "../outside/secret", "../outside/new", abs.as_str(), ".."][rng.gen_range(0..10)].as_bytes().to_vec() }
                        _ => { let abs = format!("{root}/outside/secret"); ["a", "b.txt", "../a", "d/x.txt", "../outside/secret", "l/secret", "../../outside/secret", abs.as_str(), "l", ".."][rng.gen_range(0..10)].as_bytes().to_vec() }
                    };
                    XE { name, kind, content, perm: if keep_perm { Some([0o700u16, 0o777, 0o604][rng.gen_range(0..3)]) } else { None }, time: if keep_time && kind != 3 { Some(1_000_000_000 + rng.gen_range(0..1000)) } else { None } }
                }
            };
            es.push(e);
        }
        // pre-existing objects at some destinations
        let overwrite = scenario == 10 || scenario == 11 || (scenario != 8 && scenario != 9 && scenario != 13 && rng.gen_bool(0.4));
        if scenario == 8 {
            let _ = std::os::unix::fs::symlink("../outside", sbx.path("out/d"));
        } else if scenario == 13 {
            use std::os::unix::fs::PermissionsExt;
            std::fs::write(sbx.path("out/victim.txt"), b"mine").unwrap();
            std::fs::set_permissions(sbx.path("out/victim.txt"), std::fs::Permissions::from_mode(0o600)).unwrap();
        } else if scenario == 9 {
            std::fs::create_dir_all(sbx.path("out/d")).unwrap();
            use std::os::unix::fs::PermissionsExt;
            std::fs::set_permissions(sbx.path("out/d"), std::fs::Permissions::from_mode(0o700)).unwrap();
        } else if rng.gen_bool(0.5) {
            let victim = EntryName::from(es[rng.gen_range(0..es.len())].name.as_str()).as_str().to_string();
            if !victim.is_empty() {
                let p = sbx.path("out").join(&victim);
                let _ = std::fs::create_dir_all(p.parent().unwrap());
                match rng.gen_range(0..7) {
                    0 => { let _ = std::fs::write(&p, b"OLD"); }
                    1 => { let _ = std::fs::write(&p, b""); }
                    2 => { let _ = std::fs::create_dir_all(&p); }
                    3 => { let _ = std::os::unix::fs::symlink("../outside/secret", &p); }
                    4 => { let _ = std::os::unix::fs::symlink(format!("{root}/outside"), &p); }
                    5 => { let _ = std::os::unix::fs::symlink(format!("{root}/outside/not-yet"), &p); }
                    _ => {
                        // a link in the way of the destination: its first component points outside
                        let first = victim.split('/').next().unwrap().to_string();
                        let q = sbx.path("out").join(&first);
                        let _ = std::fs::remove_dir_all(&q);
                        let _ = std::fs::remove_file(&q);
                        let _ = std::os::unix::fs::symlink("../outside", &q);
                    }
                }
            }
        }
        let bytes = build(&es);
        std::fs::write(sbx.path("a.pna"), &bytes).unwrap();
        let before = snapshot(&sbx.root);
        let dir_time = |p: &std::path::Path| -> i64 { use std::os::unix::fs::MetadataExt; std::fs::metadata(p).map(|m| m.mtime() * 1_000_000_000 + m.mtime_nsec()).unwrap_or(0) };
        let outside_dir_before = dir_time(&sbx.path("outside"));
        let mut args: Vec<&str> = if no_out_dir { vec!["--quiet", "extract", "../a.pna"] } else { vec!["--quiet", "extract", "a.pna", "--out-dir", "out"] };
        if overwrite { args.push("--overwrite"); }
        if keep_perm { args.push("--keep-permission"); }
        if keep_time { args.push("--keep-timestamp"); }
        ctx.count(if no_out_dir { "base:cwd" } else { "base:--out-dir" });
        let run_dir = if no_out_dir { sbx.path("out") } else { sbx.root.clone() };
        let r = run_pna(&sbx, &run_dir, &args, None, 60, &[]);
        let mut after = snapshot(&sbx.root);
        after.retain(|p, _| p != "tmp" && !p.starts_with("tmp/"));
        let mut before_m = before.clone();
        before_m.retain(|p, _| p != "tmp" && !p.starts_with("tmp/"));
        let sanitized: Vec<XE> = es.iter().map(|e| XE { name: EntryName::from(e.name.as_str()).as_str().to_string(), kind: e.kind, content: if e.kind >= 2 { EntryReference::from(String::from_utf8_lossy(&e.content).as_ref()).as_str().as_bytes().to_vec() } else { e.content.clone() }, perm: e.perm, time: e.time }).collect();
        let attrs = json!({"entries": sanitized.iter().map(|e| json!({"name": e.name, "kind": e.kind, "content": String::from_utf8_lossy(&e.content)})).collect::<Vec<_>>(), "overwrite": overwrite, "scenario": scenario,
                           "preexisting": before_m.keys().filter(|p| p.starts_with("out/")).collect::<Vec<_>>()});
        ctx.oracle_eval();
        if r.crashed() || r.hung() { ctx.violation("C07", "`pna extract` crashed or hung", json!({"case":attrs,"run":r.brief()})); continue; }
        // ---- C09 oracle: nothing outside out/ is created, modified or linked
        let outside_before: BTreeMap<&String, &Node> = before_m.iter().filter(|(p, _)| !p.starts_with("out/") && *p != "out" && *p != "a.pna").collect();
        let outside_after: BTreeMap<&String, &Node> = after.iter().filter(|(p, _)| !p.starts_with("out/") && *p != "out" && *p != "a.pna").collect();
        let strip = |m: &BTreeMap<&String, &Node>| -> Vec<(String, String)> { m.iter().map(|(p, n)| ((*p).clone(), match n { Node::File { content, nlink, mode, mtime, .. } => format!("file:{}:{:o}:t{}:{}", hexw(content), mode, mtime, nlink), Node::Dir { mode } => format!("dir:{:o}", mode), Node::Symlink { target } => format!("link:{target}"), Node::Other => "other".into() })).collect() };
        if strip(&outside_before) != strip(&outside_after) {
            // classify by the shape of the history (matchers of the known findings)
            let (sb, sa) = (strip(&outside_before), strip(&outside_after));
            let mut shapes: std::collections::BTreeSet<&'static str> = Default::default();
            let drop_nlink = |v: &str| -> String { if v.starts_with("file:") { v.rsplitn(2, ':').nth(1).unwrap_or("").to_string() } else { v.to_string() } };
            for (p, v) in &sa {
                match sb.iter().find(|(q, _)| q == p) {
                    Some((_, w)) if w == v => {}
                    Some((_, w)) if drop_nlink(w) == drop_nlink(v) => {
                        // only the link count changed: an outside inode was hard-linked into the output
                        let esc = sanitized.iter().any(|e| e.kind == 3 && { let t = String::from_utf8_lossy(&e.content).to_string(); t.starts_with('/') || t.split('/').any(|c| c == "..") });
                        shapes.insert(if esc { "hardlink-source-escapes" } else { "other" });
                    }
                    _ => {
                        // created or modified outside: is there an earlier symlink entry on the path of a later entry?
                        let via = sanitized.iter().enumerate().any(|(i, l)| l.kind == 2 && sanitized.iter().enumerate().any(|(j, e)| j != i && (e.name == l.name || e.name.starts_with(&format!("{}/", l.name)))));
                        let pre_link = before_m.iter().any(|(q, n)| q.starts_with("out/") && matches!(n, Node::Symlink { .. }));
                        shapes.insert(if via || pre_link { "path-through-symlink" } else { "other" });
                    }
                }
            }
            for (p, _) in &sb { if !sa.iter().any(|(q, _)| q == p) { shapes.insert("other"); } }
            for shape in shapes {
                ctx.violation("C09", "extraction created, modified or linked something outside the output directory", json!({"case":attrs,"shape":shape,"before":sb,"after":sa}));
            }
        }
        if dir_time(&sbx.path("outside")) != outside_dir_before && strip(&outside_before) == strip(&outside_after) {
            ctx.violation("C09", "extraction changed the times of a directory outside the output directory", json!({"case":attrs,"shape":"other"}));
        }
        // ---- C20 oracle: without --overwrite nothing pre-existing is replaced or modified
        if !overwrite {
            for (p, n) in before_m.iter().filter(|(p, _)| p.starts_with("out/")) {
                let same = match (n, after.get(p)) {
                    (Node::File { content: c1, ino: i1, mode: m1, .. }, Some(Node::File { content: c2, ino: i2, mode: m2, .. })) => c1 == c2 && i1 == i2 && m1 == m2,
                    (Node::Dir { mode: m1 }, Some(Node::Dir { mode: m2 })) => m1 == m2,
                    (Node::Symlink { target: t1 }, Some(Node::Symlink { target: t2 })) => t1 == t2,
                    _ => false,
                };
                if !same { ctx.violation("C20", "an existing object was replaced or modified by `pna extract` without --overwrite", json!({"case":attrs,"path":p})); }
            }
            let conflict = sanitized.iter().any(|e| { let p = format!("out/{}", e.name); let p = p.trim_end_matches('/'); std::fs::metadata(sbx.root.join(p)).is_ok() && before_m.contains_key(p) && before_m.get(p).map(|n| !matches!(n, Node::Dir { .. }) || e.kind != 1).unwrap_or(false) });
            let _ = conflict;
        }
        // ---- model correspondence: full post-state of the sandbox
        let es_wire = sanitized.iter().map(|e| format!("{},{},{}", hexw(e.name.as_bytes()), e.kind, hexw(&e.content))).collect::<Vec<_>>().join(";");
        let res = if r.ok() { "ok" } else { "err" };
        ctx.case(json!({"scenario":scenario,"overwrite":overwrite,"n":es.len()}), if no_out_dir { format!("extract {} {} - {} {} {}", overwrite as u8, hexw(format!("{root}/out").as_bytes()), fs_wire(&root, &before_m), es_wire, hexw(root.as_bytes())) } else { format!("extract {} {} {} {} {}", overwrite as u8, hexw(root.as_bytes()), hexw(b"out"), fs_wire(&root, &before_m), es_wire) }, format!("{res} {}", dump(&after)), true);
    }
}
