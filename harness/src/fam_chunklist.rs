//! `chunk-list` family (C18, last clause: "the chunk offsets printed by the chunk listing equal real file
//! offsets"): `pna experimental chunk list [-h]` on archives written by every writer kind, on archives with
//! chunks larger than 64 KiB (offsets beyond four hex digits), with bytes after the end marker, and on damaged
//! and truncated copies.  Three comparisons per run:
//!   * correspondence: the rows (index, type, length, offset text) against the Lean model `Cli.chunkList`
//!     (`Props/C18ChunkList.lean` proves that the model's offsets are the real ones);
//!   * oracle (independent of the model): at every printed offset the file holds `be32(len) ++ type`, the rows
//!     cover exactly the chunks an independent framing walk finds up to AEND, indices count from 1;
//!   * a damaged or truncated archive is not listed with exit status 0.
use crate::cli::{run_pna, Sbx};
use crate::ctx::Ctx;
use crate::fam_frame::walk;
use crate::gen::{frame, gen_archive, SIG};
use crate::util::{bytes, hex, rng_for};
use rand::Rng;
use serde_json::json;

fn parse_rows(stdout: &str, header: bool) -> Result<Vec<(u64, String, u64, String)>, String> {
    let mut rows = vec![];
    for (i, line) in stdout.lines().enumerate() {
        let cols: Vec<&str> = line.split_whitespace().collect();
        if cols.is_empty() {
            continue;
        }
        if header && i == 0 {
            if cols != ["Index", "Type", "Size", "Offset"] {
                return Err(format!("unexpected header row {cols:?}"));
            }
            continue;
        }
        if cols.len() != 4 {
            return Err(format!("row with {} columns: {line:?}", cols.len()));
        }
        let idx: u64 = cols[0].parse().map_err(|_| format!("index {:?}", cols[0]))?;
        let len: u64 = cols[2].parse().map_err(|_| format!("size {:?}", cols[2]))?;
        rows.push((idx, cols[1].to_string(), len, cols[3].to_string()));
    }
    Ok(rows)
}

pub fn chunk_list(ctx: &mut Ctx) {
    let mut rng = rng_for(ctx.seed, "chunk-list");
    ctx.rule = "archives from the five library writer kinds (random codec/cipher, 0-4 entries, metadata, private chunks), hand-framed archives with a 70 000-byte and a 1 100 000-byte chunk \
                (offsets of five and six hex digits), each as written / with junk after AEND / with one altered byte / truncated; `pna experimental chunk list` with and without -h; \
                rows compared with the Lean model (index, type, size, offset text) and, independently, with the bytes of the file at each printed offset; \
                non-trivial = listing succeeded with at least three rows".into();
    let n = if ctx.thorough { 120 } else { 24 };
    for case in 0..n {
        let sbx = Sbx::new("chunklist", case);
        let (base, desc) = match case {
            0 | 1 => {
                // hand-framed: big chunks push the offsets past 0xffff / 0xfffff
                let big = if case == 0 { 70_000 } else { 1_100_000 };
                let mut v = SIG.to_vec();
                v.extend(frame(b"AHED", &[0, 0, 0, 0, 0, 0, 0, 0]));
                v.extend(frame(b"FHED", &[0, 0, 0, 0, 0, 0, b'a']));
                v.extend(frame(b"FDAT", &bytes(&mut rng, big)));
                v.extend(frame(b"FDAT", &bytes(&mut rng, 5)));
                v.extend(frame(b"abCd", &bytes(&mut rng, 3)));
                v.extend(frame(b"FEND", &[]));
                v.extend(frame(b"AEND", &[]));
                (v, json!({"hand_framed_big_chunk": big}))
            }
            _ => {
                let (b, d, _) = gen_archive(&mut rng, 4, 600);
                (b, d)
            }
        };
        for variant in 0..4 {
            let mut file = base.clone();
            let vname = match variant {
                0 => "as-written",
                1 => {
                    file.extend(bytes(&mut rng, 1 + case % 40));
                    "junk-after-AEND"
                }
                2 => {
                    let off = rng.gen_range(8..file.len());
                    file[off] ^= 1 << rng.gen_range(0..8);
                    "one-bit-altered"
                }
                _ => {
                    let cut = rng.gen_range(8..file.len());
                    file.truncate(cut);
                    "truncated"
                }
            };
            ctx.count(vname);
            std::fs::write(sbx.path("a.pna"), &file).unwrap();
            let header = (case + variant) % 2 == 0;
            let mut args = vec!["experimental", "chunk", "list"];
            if header {
                args.push("-h");
            }
            args.push("a.pna");
            let r = run_pna(&sbx, &sbx.root, &args, None, 60, &[]);
            ctx.oracle_eval();
            let small = file.len() <= 4096;
            let attrs = json!({"case":case,"variant":vname,"archive":desc,"file_len":file.len(),"file": if small { hex(&file) } else { String::from("(large)") },"argv":args,"run":r.brief()});
            if r.crashed() || r.hung() {
                ctx.violation("C07", "chunk list crashed or hung", attrs.clone());
                continue;
            }
            let w = walk(&file);
            let complete = w.last().map(|(_, t, _)| t == b"AEND").unwrap_or(false);
            let imp = if r.ok() {
                match parse_rows(&String::from_utf8_lossy(&r.stdout), header) {
                    Err(e) => {
                        ctx.violation("C18", "chunk list printed a table that does not parse", json!({"why":e,"case":attrs}));
                        continue;
                    }
                    Ok(rows) => {
                        // ---- oracle, independent of the model
                        if variant >= 2 && !complete {
                            ctx.violation("C18", "chunk list succeeded on an archive whose chunk sequence does not reach AEND", attrs.clone());
                        }
                        for (k, (idx, ty, len, offtxt)) in rows.iter().enumerate() {
                            let off = offtxt.strip_prefix("0x").and_then(|h| usize::from_str_radix(h, 16).ok());
                            let good = match off {
                                Some(o) => {
                                    *idx == k as u64 + 1
                                        && o + 8 <= file.len()
                                        && file[o..o + 4] == (*len as u32).to_be_bytes()
                                        && &file[o + 4..o + 8] == ty.as_bytes()
                                        && k < w.len()
                                        && w[k] == (o, ty.as_bytes().try_into().unwrap_or([0; 4]), *len as usize)
                                }
                                None => false,
                            };
                            if !good {
                                ctx.violation("C18", "a row of the chunk listing does not describe the chunk at the printed offset", json!({"row":[idx, ty, len, offtxt],"row_number":k,"expected": w.get(k).map(|(o,t,l)| json!([o, String::from_utf8_lossy(t), l])),"case":attrs}));
                                break;
                            }
                        }
                        if complete && rows.len() != w.len() {
                            ctx.violation("C18", "the chunk listing does not cover exactly the chunks of the file up to AEND", json!({"rows":rows.len(),"chunks":w.len(),"case":attrs}));
                        }
                        format!("ok {}", rows.iter().map(|(i, t, l, o)| format!("{i}:{}:{l}:{o}", hex(t.as_bytes()))).collect::<Vec<_>>().join(","))
                    }
                }
            } else {
                if variant < 2 {
                    ctx.violation("C18", "chunk list failed on a well-formed archive", attrs.clone());
                }
                "err".to_string()
            };
            let nontrivial = imp.starts_with("ok") && imp.matches(',').count() >= 2;
            ctx.case(json!({"case":case,"variant":vname,"header":header,"file_len":file.len()}), format!("chunklist {}", hex(&file)), imp, nontrivial);
        }
    }
}
