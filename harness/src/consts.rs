//! `pnah consts`: print Generated/Consts.lean from the compiled repository.
use libpna::*;

fn list(b: &[u8]) -> String {
    format!("[{}]", b.iter().map(|x| x.to_string()).collect::<Vec<_>>().join(", "))
}

pub fn print() {
    let t = |c: ChunkType| list(&libpna::verif::chunk_type_bytes(c));
    println!("/- Regenerated from the compiled repository by `pnah consts` on every check. Do not edit. -/");
    println!("namespace Pna.Generated");
    println!("def signature : List UInt8 := {}", list(&PNA_HEADER[..]));
    println!("def minChunkBytes : Nat := {}", MIN_CHUNK_BYTES_SIZE);
    for (n, c) in [
        ("AHED", ChunkType::AHED), ("AEND", ChunkType::AEND), ("ANXT", ChunkType::ANXT), ("FHED", ChunkType::FHED),
        ("PHSF", ChunkType::PHSF), ("FDAT", ChunkType::FDAT), ("FEND", ChunkType::FEND), ("SHED", ChunkType::SHED),
        ("SDAT", ChunkType::SDAT), ("SEND", ChunkType::SEND), ("fSIZ", ChunkType::fSIZ), ("cTIM", ChunkType::cTIM),
        ("mTIM", ChunkType::mTIM), ("aTIM", ChunkType::aTIM), ("fPRM", ChunkType::fPRM), ("xATR", ChunkType::xATR),
    ] {
        println!("def ty{} : List UInt8 := {}", n, t(c));
    }
    println!("def compressionCodes : List Nat := [{}, {}, {}, {}]", Compression::No as u8, Compression::Deflate as u8, Compression::ZStandard as u8, Compression::XZ as u8);
    println!("def encryptionCodes : List Nat := [{}, {}, {}]", Encryption::No as u8, Encryption::Aes as u8, Encryption::Camellia as u8);
    println!("def cipherModeCodes : List Nat := [{}, {}]", CipherMode::CBC as u8, CipherMode::CTR as u8);
    println!("def dataKindCodes : List Nat := [{}, {}, {}, {}]", DataKind::File as u8, DataKind::Directory as u8, DataKind::SymbolicLink as u8, DataKind::HardLink as u8);
    // header of an empty archive as written by the library (signature + AHED + AEND)
    let empty = Archive::write_header(Vec::new()).unwrap().finalize().unwrap();
    println!("def emptyArchive : List UInt8 := {}", list(&empty));
    println!("end Pna.Generated");
}
