//! Running the real `pna` binary in sandboxes; tree snapshots; logical views of archives.
use libpna::*;
use serde_json::{json, Value};
use std::collections::BTreeMap;
use std::io::Read;
use std::os::unix::fs::{MetadataExt, PermissionsExt};
use std::path::{Path, PathBuf};
use std::process::{Command, Stdio};
use std::time::{Duration, Instant};

pub fn pna_bin() -> String {
    std::env::var("PNA_BIN").unwrap_or_else(|_| "/verif/build/repo-target/debug/pna".into())
}

pub struct Sbx {
    pub root: PathBuf,
}

impl Sbx {
    pub fn new(family: &str, n: usize) -> Self {
        let base = std::env::var("VERIF_SBX").unwrap_or_else(|_| "/verif/build/sbx".into());
        let root = PathBuf::from(format!("{base}/{family}-{}-{n}", std::process::id()));
        let _ = std::fs::remove_dir_all(&root);
        std::fs::create_dir_all(root.join("tmp")).unwrap();
        Sbx { root }
    }
    pub fn path(&self, rel: &str) -> PathBuf {
        self.root.join(rel)
    }
}

impl Drop for Sbx {
    fn drop(&mut self) {
        let _ = std::fs::remove_dir_all(&self.root);
    }
}

#[derive(Debug, Clone)]
pub struct Run {
    pub code: i32, // 101 = panic, -1 = signal, 124 = timeout
    pub stdout: Vec<u8>,
    pub stderr: String,
}

impl Run {
    pub fn ok(&self) -> bool {
        self.code == 0
    }
    pub fn crashed(&self) -> bool {
        self.code == 101 || self.code == -1 || self.code == 134 || self.code == 139
    }
    pub fn hung(&self) -> bool {
        self.code == 124
    }
    pub fn brief(&self) -> Value {
        json!({"code": self.code, "stderr": self.stderr.chars().take(300).collect::<String>()})
    }
}

pub fn run_pna(sbx: &Sbx, cwd: &Path, args: &[&str], stdin: Option<&[u8]>, timeout_s: u64, envs: &[(&str, &str)]) -> Run {
    let mut cmd = Command::new(pna_bin());
    cmd.args(args)
        .current_dir(cwd)
        .env("TMPDIR", sbx.root.join("tmp"))
        .env("RUST_BACKTRACE", "0")
        .stdin(if stdin.is_some() { Stdio::piped() } else { Stdio::null() })
        .stdout(Stdio::piped())
        .stderr(Stdio::piped());
    for (k, v) in envs {
        cmd.env(k, v);
    }
    let mut child = cmd.spawn().expect("cannot start pna binary");
    if let Some(data) = stdin {
        let mut si = child.stdin.take().unwrap();
        let data = data.to_vec();
        std::thread::spawn(move || {
            use std::io::Write;
            let _ = si.write_all(&data);
        });
    }
    let mut so = child.stdout.take().unwrap();
    let mut se = child.stderr.take().unwrap();
    let t1 = std::thread::spawn(move || {
        let mut v = vec![];
        let _ = so.read_to_end(&mut v);
        v
    });
    let t2 = std::thread::spawn(move || {
        let mut v = vec![];
        let _ = se.read_to_end(&mut v);
        String::from_utf8_lossy(&v).to_string()
    });
    let start = Instant::now();
    let code = loop {
        match child.try_wait().unwrap() {
            Some(st) => break st.code().unwrap_or(-1),
            None => {
                if start.elapsed() > Duration::from_secs(timeout_s) {
                    let _ = child.kill();
                    let _ = child.wait();
                    break 124;
                }
                std::thread::sleep(Duration::from_millis(2));
            }
        }
    };
    Run { code, stdout: t1.join().unwrap(), stderr: t2.join().unwrap() }
}

/// Like `run_pna` with stdout discarded (commands whose output is legitimately huge).
pub fn run_pna_discard(sbx: &Sbx, cwd: &Path, args: &[&str], timeout_s: u64) -> Run {
    let mut cmd = Command::new(pna_bin());
    cmd.args(args).current_dir(cwd).env("TMPDIR", sbx.root.join("tmp")).env("RUST_BACKTRACE", "0").stdin(Stdio::null()).stdout(Stdio::null()).stderr(Stdio::piped());
    let mut child = cmd.spawn().expect("cannot start pna binary");
    let mut se = child.stderr.take().unwrap();
    let t2 = std::thread::spawn(move || {
        let mut v = vec![];
        let _ = se.read_to_end(&mut v);
        String::from_utf8_lossy(&v[..v.len().min(4000)]).to_string()
    });
    let start = Instant::now();
    let code = loop {
        match child.try_wait().unwrap() {
            Some(st) => break st.code().unwrap_or(-1),
            None => {
                if start.elapsed() > Duration::from_secs(timeout_s) {
                    let _ = child.kill();
                    let _ = child.wait();
                    break 124;
                }
                std::thread::sleep(Duration::from_millis(2));
            }
        }
    };
    Run { code, stdout: vec![], stderr: t2.join().unwrap() }
}

#[derive(Debug, Clone, PartialEq, Eq)]
pub enum Node {
    File { content: Vec<u8>, mode: u32, mtime: i64, ino: u64, nlink: u64 },
    Dir { mode: u32 },
    Symlink { target: String },
    Other,
}

/// Snapshot of a directory tree: relative path → node (symlinks not followed).
pub fn snapshot(root: &Path) -> BTreeMap<String, Node> {
    fn walk(base: &Path, dir: &Path, out: &mut BTreeMap<String, Node>) {
        let Ok(rd) = std::fs::read_dir(dir) else { return };
        for e in rd.flatten() {
            let p = e.path();
            let rel = p.strip_prefix(base).unwrap().to_string_lossy().to_string();
            let Ok(md) = std::fs::symlink_metadata(&p) else { continue };
            let ft = md.file_type();
            if ft.is_symlink() {
                out.insert(rel, Node::Symlink { target: std::fs::read_link(&p).map(|t| t.to_string_lossy().to_string()).unwrap_or_default() });
            } else if ft.is_dir() {
                out.insert(rel, Node::Dir { mode: md.permissions().mode() & 0o7777 });
                walk(base, &p, out);
            } else if ft.is_file() {
                out.insert(rel, Node::File { content: std::fs::read(&p).unwrap_or_default(), mode: md.permissions().mode() & 0o7777, mtime: md.mtime(), ino: md.ino(), nlink: md.nlink() });
            } else {
                out.insert(rel, Node::Other);
            }
        }
    }
    let mut out = BTreeMap::new();
    walk(root, root, &mut out);
    out
}

/// One entry's logical content as the CLI model sees it (mirror of Lean `Cli.LEntry` wire form).
#[derive(Debug, Clone, Eq)]
pub struct LEntry {
    pub name: String,
    pub kind: u8,
    /// stored form and content: three digits (codec, cipher, cipher mode of the entry header), then a digest of the decoded
    /// content (`c…`) or, where it cannot be decoded with what the case knows, of the stored data chunks (`s…`)
    pub data: String,
    pub stored_len: usize,
    pub raw_size: Option<u128>,
    pub mode: Option<u16>,
    pub owner: Option<(u64, String, u64, String)>,
    pub c: Option<u64>,
    pub m: Option<u64>,
    pub a: Option<u64>,
    pub xattrs: Vec<(String, Vec<u8>)>,
    pub extras: Vec<([u8; 4], Vec<u8>)>,
    pub content: Option<Vec<u8>>, // decoded (when a password is available)
}

/// equality of logical content: the length of the stored data (a listing detail) is not part of it
impl PartialEq for LEntry {
    fn eq(&self, o: &Self) -> bool {
        (&self.name, self.kind, &self.data, self.raw_size, self.mode, &self.owner, self.c, self.m, self.a, &self.xattrs, &self.extras, &self.content)
            == (&o.name, o.kind, &o.data, o.raw_size, o.mode, &o.owner, o.c, o.m, o.a, &o.xattrs, &o.extras, &o.content)
    }
}

#[derive(Debug, Clone, PartialEq, Eq)]
pub enum LItem {
    Normal(LEntry),
    Solid { hdr: Vec<u8>, extras: Vec<([u8; 4], Vec<u8>)>, entries: Vec<LEntry> },
}

pub fn lentry(e: &NormalEntry, password: Option<&str>) -> LEntry {
    use libpna::prelude::*;
    let h = e.header();
    let data = libpna::verif::normal_entry_data(e);
    let all: Vec<u8> = data.iter().flatten().copied().collect();
    let m = e.metadata();
    let content = (|| -> std::io::Result<Vec<u8>> {
        let mut v = vec![];
        e.reader(ReadOptions::with_password(password.map(|s| s.to_string())))?.read_to_end(&mut v)?;
        Ok(v)
    })()
    .ok();
    LEntry {
        name: h.path().as_str().to_string(),
        kind: h.data_kind() as u8,
        data: format!(
            "{}{}{}{}",
            h.compression() as u8,
            h.encryption() as u8,
            h.cipher_mode() as u8,
            match &content {
                Some(c) => format!("c{}", crate::canon::digest(c)),
                None => format!("s{}", crate::canon::digest(&all)),
            }
        ),
        stored_len: all.len(),
        raw_size: m.raw_file_size(),
        mode: m.permission().map(|p| p.permissions()),
        owner: m.permission().map(|p| (p.uid(), p.uname().to_string(), p.gid(), p.gname().to_string())),
        c: m.created().map(|d| d.as_secs()),
        m: m.modified().map(|d| d.as_secs()),
        a: m.accessed().map(|d| d.as_secs()),
        xattrs: e.xattrs().iter().map(|x| (x.name().to_string(), x.value().to_vec())).collect(),
        extras: e.extra_chunks().iter().map(|c| (crate::canon::chunk_ty(c), c.data().to_vec())).collect(),
        content,
    }
}

/// Logical view of an archive file (following parts `<stem>.partN.pna` when marked).
pub fn read_logical(parts: &[Vec<u8>], password: Option<&str>) -> std::io::Result<Vec<LItem>> {
    use libpna::prelude::*;
    let mut out = vec![];
    let mut a = Archive::read_header(&parts[0][..])?;
    let mut i = 0;
    loop {
        let items: Vec<ReadEntry> = a.entries().collect::<std::io::Result<_>>()?;
        for it in items {
            match it {
                ReadEntry::Normal(n) => out.push(LItem::Normal(lentry(&n, password))),
                ReadEntry::Solid(s) => {
                    let es: Vec<NormalEntry> = s.entries(password)?.collect::<std::io::Result<_>>()?;
                    out.push(LItem::Solid {
                        hdr: s.header().to_bytes().to_vec(),
                        extras: s.extra_chunks().iter().map(|c| (crate::canon::chunk_ty(c), c.data().to_vec())).collect(),
                        entries: es.iter().map(|e| lentry(e, None)).collect(),
                    });
                }
            }
        }
        i += 1;
        if !a.has_next_archive() || i >= parts.len() {
            return Ok(out);
        }
        a = a.read_next_archive(&parts[i][..])?;
    }
}

pub fn flat(items: &[LItem]) -> Vec<LEntry> {
    items.iter().flat_map(|i| match i { LItem::Normal(e) => vec![e.clone()], LItem::Solid { entries, .. } => entries.clone() }).collect()
}

// ---- wire format for the Lean driver --------------------------------------------------------
use crate::util::{hex, hexw};

fn opt<T: ToString>(o: &Option<T>) -> String {
    o.as_ref().map(|x| x.to_string()).unwrap_or("-".into())
}

pub fn lentry_wire(e: &LEntry) -> String {
    let xs = if e.xattrs.is_empty() { ".".to_string() } else { e.xattrs.iter().map(|(k, v)| format!("{}={}", hexw(k.as_bytes()), hexw(v))).collect::<Vec<_>>().join("&") };
    let ex = if e.extras.is_empty() { ".".to_string() } else { e.extras.iter().map(|(t, d)| format!("{}={}", hex(t), hexw(d))).collect::<Vec<_>>().join("&") };
    let owner = e.owner.as_ref().map(|(u, un, g, gn)| format!("{u}/{}/{g}/{}", hexw(un.as_bytes()), hexw(gn.as_bytes()))).unwrap_or("-".into());
    format!("{},{},{},{},{},{},{},{},{},{},{}", hexw(e.name.as_bytes()), e.kind, hexw(e.data.as_bytes()), opt(&e.raw_size), opt(&e.mode), owner, opt(&e.c), opt(&e.m), opt(&e.a), xs, ex)
}

pub fn items_wire(items: &[LItem]) -> String {
    if items.is_empty() {
        return ".".into();
    }
    items
        .iter()
        .map(|i| match i {
            LItem::Normal(e) => format!("N{}", lentry_wire(e)),
            LItem::Solid { hdr, extras, entries } => {
                let ex = if extras.is_empty() { ".".to_string() } else { extras.iter().map(|(t, d)| format!("{}={}", hex(t), hexw(d))).collect::<Vec<_>>().join("&") };
                let es = if entries.is_empty() { ".".to_string() } else { entries.iter().map(lentry_wire).collect::<Vec<_>>().join("+") };
                format!("S{}~{}~{}", hex(hdr), ex, es)
            }
        })
        .collect::<Vec<_>>()
        .join(";")
}
